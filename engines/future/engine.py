"""Engine `future` (C09): spec/future/{SpawnFuture,SpawnDetached}.tla <-> include/unifex/spawn_future.hpp,
spawn_detached.hpp (with v1 / v2 async_scope and nest).
 1. scenarios: completion channel x what the future's owner does x stop x leaf behaviour (x scope version,
    closed scope, injected failures, move-assignment, spawn_detached for the real-code runs)
 2. TLC: SpawnFutureMC (result / exactly-once invariants on every interleaving at CAS granularity, edge export),
    liveness under fairness, SpawnDetachedMC; the two lifetime invariants (NoAccessAfterDelete, NoTerminate) are
    checked in separate runs whose outcome is recorded (a design-level counterexample is a VIOLATION only through
    its reproduction on the real code, which the guided replay below performs)
 3. edge-covering behaviours replayed on the real code (guided), bounded-preemption DFS and seeded random
    schedules of the real code for all scenarios, under ASan/UBSan
 4. every recorded execution validated by TLC against the monitor FutureMon; memory events are violations
    (lifetime is part of C09)."""
import json, os, re, shutil, subprocess, sys, time

sys.path.insert(0, os.path.join(os.path.dirname(__file__), "..", "..", "tools"))
import vlib

ENGINE = "future"
SILENT = {"b_wait", "b_destroy", "drop_spin", "fut_deliver", "cb_ret"}
LIB = ["inplace_stop_token.cpp", "async_manual_reset_event_v1.cpp", "async_stack.cpp", "exception.cpp",
       "manual_event_loop.cpp"]


ASAN_ENV = {"ASAN_OPTIONS": "detect_leaks=0:abort_on_error=0:exitcode=71:allocator_may_return_null=1:"
                            "detect_stack_use_after_return=0:handle_segv=1:print_summary=1:symbolize=0:halt_on_error=0"}
_sym_cache = {}


def symbolize(exe, offsets):
    """module offsets -> list of inline frames [(function, file:line)], one llvm-symbolizer/addr2line call per batch."""
    need = [o for o in dict.fromkeys(offsets) if (exe, o) not in _sym_cache]
    if need:
        tool = shutil.which("llvm-symbolizer")
        try:
            if tool:
                out = subprocess.run([tool, "--obj=" + exe, "-f", "-i", "-C"] + need, stdout=subprocess.PIPE, stderr=subprocess.DEVNULL,
                                     text=True, timeout=300).stdout
                blocks = out.split("\n\n")
                for o, b in zip(need, blocks):
                    ls = [x for x in b.splitlines() if x.strip()]
                    _sym_cache[(exe, o)] = [(ls[i], ls[i + 1].rsplit(":", 1)[0]) for i in range(0, len(ls) - 1, 2)]
        except Exception:
            pass
        for o in need:
            _sym_cache.setdefault((exe, o), [("?", "?:0")])
    return {o: _sym_cache[(exe, o)] for o in offsets}


def describe_stack(exe, offsets):
    """-> (first library frame, where, frames[]) in the style of vlib.classify_death"""
    sym = symbolize(exe, offsets)
    frames = []
    for o in offsets:
        for fn, loc in sym[o]:
            frames.append((fn, loc))
    lib = [f for f in frames if "/unifex/" in f[1] or "/source/" in f[1]]
    short = lambda loc: loc.split("/include/")[-1].split("/source/")[-1]
    frame = (lib[0][0][:160] if lib else (frames[0][0][:160] if frames else ""))
    where = short(lib[0][1]) if lib else ""
    return frame, where, ["%s %s" % (f[0][:120], short(f[1])) for f in frames[:14]]


def symbolize_stderr(exe, se):
    """rewrite the first raw ASan stack of a dying process so that vlib.classify_death can read it"""
    offs, lines = [], se.splitlines()
    for ln in lines:
        m = re.match(r"\s+#(\d+) 0x[0-9a-f]+\s+\((\S+)\+(0x[0-9a-f]+)\)", ln)
        if m and os.path.basename(m.group(2)) == os.path.basename(exe):
            offs.append(m.group(3))
        if len(offs) >= 12 or (offs and not ln.strip()):
            break
    if not offs:
        return se
    sym = symbolize(exe, offs)
    out, n = [], 0
    for o in offs:
        for fn, loc in sym[o]:
            f, _, line = loc.rpartition(":")
            out.append("    #%d 0x0 in %s %s:%s" % (n, fn, f, line))
            n += 1
    return se + "\n" + "\n".join(out) + "\n"


def mc_scenarios():
    """nest = "v2": the scope's nest receiver destroys the wrapped operation before forwarding its completion;
    nest = "id": an identity scope (nest() returns the sender): destruct_op() destroys the spawned operation itself."""
    out = []
    for nest in ["v2", "id"]:
        for b in ["await", "drop", "connect_drop"]:
            for stop in ([False, True] if b != "drop" else [False]):
                for ch in ["value", "error", "done"]:
                    for leaf in ["thread", "inline"]:
                        out.append(dict(id=len(out) + 1, b=b, stop=stop, ch=ch, leaf=leaf, nest=nest))
    return out


def handover_family(s):
    """the scenarios in which the operation side can hand the block over to a cancelled future while its own operation
    state still lives in it: all their TLC behaviours are replayed even in the quick tier, more schedules enumerated"""
    return s.get("nest") == "id" and s["b"] == "await" and s["stop"] and s["leaf"] == "thread"


def real_scenarios(mc, tier):
    """mc scenarios (ids kept) on a v2 scope, then the families TLC does not model."""
    out = [dict(s, kind="future", scope="id" if s["nest"] == "id" else "v2", spawn="ok") for s in mc]
    for s in out:
        if s["scope"] == "id":
            if handover_family(s):
                s["capx"] = 4
            elif tier == "quick" and not (s["b"] == "await" or (s["ch"] == "value" and s["leaf"] == "thread")):
                s["enum"] = False                     # guided replay only
    mc = [s for s in mc if s["nest"] == "v2"]        # the v1 family below mirrors the v2 one

    def add(**k):
        k["id"] = len(out) + 1
        k.setdefault("kind", "future"); k.setdefault("stop", False); k.setdefault("leaf", "thread")
        k.setdefault("spawn", "ok"); k.setdefault("b", "await")
        out.append(k)

    chans = ["value", "error", "done"]
    for s in mc:                                      # the same protocol reached through v1::async_scope (attach)
        if tier == "quick" and s["leaf"] == "inline" and s["ch"] != "value":
            continue
        add(scope="v1", b=s["b"], stop=s["stop"], ch=s["ch"], leaf=s["leaf"])
    for scope in ["v2", "v1"]:
        for ch in chans:
            add(scope=scope, b="await", stop=False, ch=ch, leaf="sync")      # completes inside spawn_future
            add(scope=scope, b="drop", stop=False, ch=ch, leaf="sync")
            add(scope=scope, b="await", stop=True, ch=ch, leaf="sync")       # stop requested after the result is available
            add(scope=scope, b="assign", ch=ch)                                # move-assign over a live future, await the other
        add(scope=scope, b="assign", ch="value", leaf="inline")
        add(scope=scope, b="await", ch="value", spawn="closed")
        add(scope=scope, b="drop", ch="value", spawn="closed")
        add(scope=scope, b="await", stop=True, ch="value", spawn="closed")
        add(scope=scope, b="await", ch="value", spawn="throw_alloc")
        add(scope=scope, b="await", ch="value", spawn="throw_connect")
    for b in ["await", "drop", "connect_drop"]:
        add(scope="fault", b=b, ch="value", spawn="closed_between")
    add(scope="fault", b="await", ch="value", spawn="throw_nest1")
    add(scope="fault", b="await", ch="value", spawn="throw_nest2")
    add(scope="fault", b="await", stop=True, ch="error", spawn="ok")          # a user-defined scope type, no fault
    for scope in ["v2", "v1"]:
        for ch in chans:
            add(kind="detached", scope=scope, ch=ch, leaf="thread")
            add(kind="detached", scope=scope, ch=ch, leaf="sync")
        add(kind="detached", scope=scope, ch="value", spawn="closed")
        add(kind="detached", scope=scope, ch="error", spawn="closed")
        add(kind="detached", scope=scope, ch="value", spawn="throw_alloc")
        add(kind="detached", scope=scope, ch="value", spawn="throw_connect")
    return out


def run_resumable(ctx, exe, args, total, log_path, state_path, timeout=1200, max_deaths=60):
    """like vlib.run_batches, but keeps the persisted enumeration state of every death (scenario, schedule prefix)."""
    k, sums, deaths = 0, [], []
    open(log_path, "w").close()
    while k < total:
        rc, so, se = vlib.run_exe(exe, list(args) + ["--from", k, "--to", total, "--log", log_path, "--state", state_path],
                                  timeout=timeout, env=ASAN_ENV)
        summ = None
        for ln in so.splitlines():
            if ln.startswith("{"):
                try:
                    summ = json.loads(ln)
                except Exception:
                    pass
        if summ:
            sums.append(summ)
        d = vlib.classify_death(rc, symbolize_stderr(exe, se) if rc not in (0, 73, 75, 76) else se)
        if d is None:
            break
        x = vlib.last_exec_id(log_path)
        if x is None or x < k:
            x = k
        d["x"] = x
        try:
            st = json.load(open(state_path))
            if st.get("x") == x:
                d["si"], d["k"] = st["si"], st["k"]
                d["path"] = [c["en"][c["idx"]] if c["idx"] < len(c["en"]) else c["en"][0] for c in st.get("stack", [])]
        except Exception:
            pass
        # the events of the dying execution (for the replay file)
        try:
            ex = vlib.split_executions(log_path)
            d["events"] = [json.loads(z) for z in ex[-1][1][:80]] if ex else []
        except Exception:
            d["events"] = []
        deaths.append(d)
        vlib.truncate_after_last_reset(log_path)
        if len(deaths) >= max_deaths:
            ctx.rep.note("stopped after %d deaths" % len(deaths))
            break
        k = x + 1
    return sums, deaths


def run(ctx):
    rep = ctx.rep
    rep.assume("sequentially consistent interleavings at schedule-point granularity (hooks in front of every atomic "
               "operation of spawn_future.hpp and of v1 attach's refcount); weak-memory reorderings not explored")
    rep.assume("one spawned operation per future, <= 3 threads (completer, future owner, stopper); the awaiting receiver "
               "completes inline (inline_scheduler) and exposes an inplace_stop_token")
    rep.assume("'awaited' in 'a result already available when the future is awaited is delivered' is read as 'connected': "
               "the monitor demands the result only if the operation's completion returned before connect began")
    hdr = os.path.join(ctx.repo, "include", "unifex", "spawn_future.hpp")
    if 'UNIFEX_VERIF_SPIN("future.drop_spin")' not in open(hdr).read():
        raise vlib.Broken("engines/future/hooks.patch is not applied to %s (the bare spin loop in drop() cannot be scheduled "
                          "without its schedule point)" % ctx.repo)
    mc = mc_scenarios()
    scns = real_scenarios(mc, ctx.tier)
    mcp = os.path.join(ctx.work, "mc_scenarios.json")
    sp = os.path.join(ctx.work, "scenarios.json")
    json.dump(mc, open(mcp, "w"))
    json.dump(scns, open(sp, "w"))
    edges = os.path.join(ctx.work, "edges.ndjson")
    # ---- 2. model checking (the side runs go on in the background while the main run exports its edges)
    import concurrent.futures
    side = concurrent.futures.ThreadPoolExecutor(max_workers=2)
    f_live = side.submit(vlib.model_check, ctx, "future", "SpawnFutureStrict", cfg="SpawnFutureLive.cfg", env={"SCENARIOS": mcp}, workers=2, timeout=900)
    f_det = side.submit(vlib.model_check, ctx, "future", "SpawnDetachedMC", workers=1, timeout=300)
    f_strict = {inv: side.submit(vlib.model_check, ctx, "future", "SpawnFutureStrict", cfg=cfg, env={"SCENARIOS": mcp}, must_hold=False,
                                 workers=1, timeout=900)
                for cfg, inv in (("SpawnFutureUAF.cfg", "NoAccessAfterDelete"), ("SpawnFutureTerm.cfg", "NoTerminate"))}
    # non-vacuity: the spec-level mutation "destroy the nested operation after the abandoned->complete hand-over" must
    # violate NestedOpDeadBeforeFree
    f_mut = side.submit(vlib.model_check, ctx, "future", "SpawnFutureStrict", cfg="SpawnFutureMutDtor.cfg", env={"SCENARIOS": mcp},
                        must_hold=False, workers=1, timeout=900)
    vlib.model_check(ctx, "future", "SpawnFutureMC", env={"SCENARIOS": mcp, "EDGES": edges}, workers=1, timeout=900)

    def finish_side():
        f_live.result(); f_det.result()
        r = f_mut.result()
        if r["kind"] != "invariant" or r["violated"] != "NestedOpDeadBeforeFree":
            raise vlib.Broken("spec self-test: SpawnFutureMutDtor.cfg (nested operation destroyed after the hand-over) must violate "
                              "NestedOpDeadBeforeFree, got %s %s:\n%s" % (r["kind"], r["violated"], r["out"][-1500:]))
        rep.mc[:] = [m for m in rep.mc if m.get("cfg") != "SpawnFutureMutDtor.cfg"] + \
                    [dict(m, result="violated-as-required") for m in rep.mc if m.get("cfg") == "SpawnFutureMutDtor.cfg"]
        for inv, fu in f_strict.items():
            r = fu.result()
            if r["kind"] in ("error", "timeout", "assert"):
                raise vlib.Broken("TLC %s on SpawnFutureStrict (%s):\n%s" % (r["kind"], inv, r["out"][-2000:]))
            if r["kind"] != "ok":
                trace = [ln.split("=", 1)[1].strip().strip('"') for ln in r["out"].splitlines() if ln.startswith("/\\ lastPc")]
                rep.note("TLC: the transcription of the unchanged design violates %s (steps: %s); counted as a VIOLATION only "
                         "through its reproduction on the real code" % (inv, " > ".join(x for x in trace if x)))
        side.shutdown()
    rep.exhaustive = True
    # ---- 3. behaviours from the exported graph
    adj, inits, nedges = vlib.read_edges(edges)
    walks = vlib.edge_cover(adj, inits)
    if ctx.tier == "thorough":
        walks += vlib.random_walks(adj, inits, 1500, ctx.rng)
    bp = os.path.join(ctx.work, "behaviours.ndjson")
    seen, nb, nbad, kept_bad = set(), 0, 0, 0
    max_bad = 10 ** 9          # memory events no longer cost a process restart (ASan recover mode): replay them all
    mcid = {s["id"]: s for s in mc}
    if ctx.quick:
        keep = [w for w in walks if handover_family(mcid[w[0]["scn"]])]
        rest = [w for w in walks if not handover_family(mcid[w[0]["scn"]])]
        if len(rest) > 300:
            stride = len(rest) / 300.0
            rest = [rest[int(i * stride)] for i in range(300)]
            rep.note("quick tier: all %d edge-covering walks of the hand-over family, every %.1f-th of the others replayed" % (len(keep), stride))
        walks = keep + rest
    with open(bp, "w") as f:
        for w in walks:
            sched = [[e["th"], e["pc"]] for e in w if e["pc"] not in SILENT]
            fin = w[-1]["obs"]
            k = json.dumps([w[0]["scn"], sched])
            if k in seen:
                continue
            seen.add(k)
            dies = bool(fin["bad"] or fin["term"])
            if dies:
                nbad += 1
                if kept_bad >= max_bad:
                    continue
                kept_bad += 1
            b = dict(scn=w[0]["scn"], sched=sched, dies=dies)
            if not dies and fin["res"] != "none":
                b["res"] = fin["res"]
            f.write(json.dumps(b) + "\n")
            nb += 1
            if nb <= 2:
                rep.sample(dict(kind="tlc-behaviour", scenario=mc[b["scn"] - 1], schedule=sched, expect=fin))
    rep.note("edges exported %d, edge-covering walks %d, distinct visible schedules %d (of which %d end in a touch-after-free / "
             "terminate state of the model; %d of those replayed)" % (nedges, len(walks), nb + nbad - kept_bad, nbad, kept_bad))
    # ---- 4. real code
    exe = vlib.build(ctx, "future_driver", ["engines/future/driver.cpp"], lib=LIB, extra=["-fsanitize-recover=address"])
    byid = {s["id"]: s for s in scns}
    cap_d, cap_r = (36, 6) if ctx.quick else (400, 80)
    if os.environ.get("VERIF_FUTURE_SELFTEST"):       # reduced volume for the mutation self-test (future_selftest.py)
        cap_d, cap_r = 24, 4
    runs = [("guided", ["--mode", "guided", "--scenarios", sp, "--behaviours", bp], nb),
            ("dfs", ["--mode", "dfs", "--scenarios", sp, "--bound", 2 if ctx.quick else 3, "--cap", cap_d], len(scns) * cap_d),
            ("random", ["--mode", "random", "--scenarios", sp, "--seed", ctx.seed, "--cap", cap_r], len(scns) * cap_r)]
    behs = [json.loads(x) for x in open(bp)]

    def drive(job):
        mode, args, total = job
        t0 = time.time()
        lp = os.path.join(ctx.work, "log_%s.ndjson" % mode)
        stp = os.path.join(ctx.work, "state_%s.json" % mode)
        sums, deaths = run_resumable(ctx, exe, args, total, lp, stp, max_deaths=25 if ctx.quick else 150)
        allex = vlib.split_executions(lp)
        clean = [(xid, lines) for xid, lines in allex if not any('"e":"MemEvent"' in z for z in lines)]
        # executions of the family with a recorded finding (v1 scope, stop while awaited) are validated separately so that
        # they cannot exhaust the rejection budget of the rest
        def fam(ex):
            sc = byid.get(json.loads(ex[1][0]).get("scn"), {})
            return sc.get("scope") == "v1" and sc.get("stop") and sc.get("b") == "await"
        n, rejected = 0, []
        for tag, sub in (("a", [e for e in clean if not fam(e)]), ("b", [e for e in clean if fam(e)])):
            if not sub:
                continue
            lpc = "%s.clean_%s" % (lp, tag)
            with open(lpc, "w") as f:
                for _, lines in sub:
                    f.writelines(lines)
            n1, r1 = vlib.validate_batched(ctx, "future", "FutureMon", lpc)
            n += n1
            rejected += r1
        return mode, sums, deaths, allex, clean, n, rejected, time.time() - t0

    with concurrent.futures.ThreadPoolExecutor(max_workers=3) as pool:
        results = list(pool.map(drive, runs))
    for mode, sums, deaths, allex, clean, n, rejected, secs in results:
        lp = os.path.join(ctx.work, "log_%s.ndjson" % mode)
        execs = sum(s["execs"] for s in sums)
        rep.evaluations += execs
        for s in sums:
            if mode == "guided":
                rep.drift += s["drift"]
                rep.unguided += s["unguided"]
                if s.get("first_drift"):
                    rep.note("guided drift: %s" % s["first_drift"])
                if s.get("obs_mismatch"):
                    rep.note("guided: %d executions whose result differs from the specification's (%s); sent to the monitor"
                             % (s["obs_mismatch"], s.get("first_mismatch")))
        for d in deaths:
            if mode == "guided":
                sc = byid.get(behs[d["x"]]["scn"]) if d["x"] < len(behs) else None
                sched = behs[d["x"]]["sched"] if d["x"] < len(behs) else None
            else:
                sc = scns[d["si"]] if "si" in d and d["si"] < len(scns) else None
                sched = d.get("path")
            sc = sc or {}
            what = "%s in %s execution %s (scenario %s): %s %s" % (d["event"], mode, d["x"], json.dumps(sc, sort_keys=True),
                                                                    d.get("asan", ""), d.get("frame", ""))
            rep.violation(dict(engine=ENGINE, mode=mode, event=d["event"], unit=d["x"], asan=d.get("asan"), frame=d.get("frame"),
                               where=d.get("where"), access=d.get("access"), what=what, detail=d.get("stderr_tail", ""),
                               scenario=sc, kind=sc.get("kind"), scope=sc.get("scope"), b=sc.get("b"), stop=sc.get("stop"),
                               leaf=sc.get("leaf"), spawn=sc.get("spawn"), ch=sc.get("ch"), k=d.get("k"), seed=ctx.seed,
                               schedule=sched, events=d.get("events"),
                               repro="VERIF_SEED=%s ./check C09 --tier %s --engine future  (mode %s, scenario %s, schedule = thread "
                                     "choices above)" % (ctx.seed, ctx.tier, mode, sc.get("id"))))
        # memory events recorded without dying (ASan in recover mode, std::terminate in a controlled thread): the monitor's
        # rule is that they never occur -> each is a violation; the executions are taken out of the log before validation
        agg = {}
        for xid, lines in allex:
            mem = [json.loads(z) for z in lines if '"e":"MemEvent"' in z]
            if not mem:
                continue
            first = json.loads(lines[0])
            sc = byid.get(first.get("scn"), {})
            for m in mem[:1]:
                if m["kind"] == "terminate":
                    event, frame, where, frames = "Terminate", "std::terminate", "", []
                else:
                    event = "AsanReport"
                    frame, where, frames = describe_stack(exe, m.get("pcs", []))
                key = (event, m["kind"], frame, sc.get("id"))
                if key in agg:
                    agg[key]["count"] += 1
                    continue
                agg[key] = dict(engine=ENGINE, mode=mode, event=event, unit=xid, asan=m["kind"] if event == "AsanReport" else None,
                                frame=frame, where=where, access=m.get("access"), frames=frames, scenario=sc, kind=sc.get("kind"),
                                scope=sc.get("scope"), b=sc.get("b"), stop=sc.get("stop"), leaf=sc.get("leaf"), spawn=sc.get("spawn"),
                                ch=sc.get("ch"), k=first.get("k"), seed=ctx.seed, count=1,
                                events=[json.loads(z) for z in lines[:80]],
                                what="%s (%s) in %s execution %s, scenario %s: %s %s" % (event, m["kind"], mode, xid,
                                     json.dumps(sc, sort_keys=True), frame, where))
        for v in agg.values():
            rep.violation(v)
        if agg:
            rep.note("%s: %d executions with a memory event (%d distinct kind/frame/scenario); ASan reports each faulting pc once "
                     "per process" % (mode, sum(v["count"] for v in agg.values()), len(agg)))
        for ex in clean[:400000]:
            evs = ex[1]
            if len(evs) > 3:
                rep.distinct.add(hash(re.sub(r'"t":\d+,', "", "".join(evs[1:]))))
        for rj in rejected:
            first = rj["events"][0] if rj["events"] else {}
            sc = byid.get(first.get("scn"), {})
            pre = rj.get("prefix") or 0
            at = rj["events"][pre] if pre < len(rj["events"]) else None
            rep.violation(dict(engine=ENGINE, mode=mode, event="MonitorReject", unit=rj["x"], scenario=sc, kind=sc.get("kind"),
                               scope=sc.get("scope"), b=sc.get("b"), stop=sc.get("stop"), leaf=sc.get("leaf"), spawn=sc.get("spawn"),
                               ch=sc.get("ch"), k=first.get("k"), seed=ctx.seed, rejected_at=at,
                               rej_event=(at or {}).get("e"), rej_ch=(at or {}).get("ch"),
                               what="FutureMon rejects an execution recorded in %s mode (scenario %s) at event %s: %s"
                                    % (mode, json.dumps(sc, sort_keys=True), pre, json.dumps(at)),
                               events=rj["events"]))
        rep.note("%s: %d executions, %d deaths, %.1fs incl. validation" % (mode, execs, len(deaths), secs))
        if mode == "random" and n:
            ex = vlib.split_executions(lp)[0]
            rep.sample(dict(kind="recorded-trace", events=[json.loads(x) for x in ex[1][:40]]))
    finish_side()
    rep.rule("executions = guided replays of TLC behaviours (edge cover of SpawnFuture's reachable graph) + DFS (preemption-"
             "bounded) + seeded random schedules of the real spawn_future/spawn_detached over %d scenarios; distinct_nontrivial = "
             "distinct recorded event sequences (thread ids ignored) with more than 3 events" % len(scns))
