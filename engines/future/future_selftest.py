#!/usr/bin/env python3
"""Mutation self-test of the `future` engine: for every entry of selftest.json copy include/ + source/ of the hooked
tree (VERIF_REPO, default /repo) to a scratch directory, apply the patch, run ./check C09 --engine future with the
proposed findings as known, and compare the exit code (violation -> 1, clean -> 0).  Usage: future_selftest.py [names...]"""
import concurrent.futures, json, os, shutil, subprocess, sys
HERE = os.path.dirname(os.path.abspath(__file__))
VERIF = os.path.dirname(os.path.dirname(HERE))
BASE = os.environ.get("VERIF_REPO", "/repo")
muts = json.load(open(os.path.join(HERE, "selftest.json")))
if len(sys.argv) > 1:
    muts = [m for m in muts if m["name"] in sys.argv[1:]]


def one(m):
    d = "/var/tmp/future_st_" + m["name"]
    shutil.rmtree(d, ignore_errors=True)
    os.makedirs(d)
    for sub in ("include", "source"):
        shutil.copytree(os.path.join(BASE, sub), os.path.join(d, sub))
    p = subprocess.run(["patch", "-p1", "-d", d], input=m["patch"], text=True, stdout=subprocess.PIPE, stderr=subprocess.STDOUT)
    if p.returncode != 0:
        return m["name"], "patch failed: " + p.stdout, None
    env = dict(os.environ, VERIF_REPO=d, VERIF_KNOWN_EXTRA=os.path.join(HERE, "proposed_findings.json"), VERIF_FUTURE_SELFTEST="1",
               VERIF_JOBS=os.environ.get("VERIF_JOBS", "4"), VERIF_TMP=d)
    r = subprocess.run([os.path.join(VERIF, "check"), "C09", "--tier", "quick", "--engine", "future"], cwd=VERIF, env=env,
                       stdout=subprocess.PIPE, stderr=subprocess.STDOUT, text=True, timeout=3000)
    viol = [l.strip() for l in r.stdout.splitlines() if l.startswith("  ")][:3]
    shutil.rmtree(d, ignore_errors=True)
    return m["name"], r.returncode, viol


with concurrent.futures.ThreadPoolExecutor(max_workers=int(os.environ.get("SELFTEST_PAR", "3"))) as pool:
    res = list(pool.map(one, muts))
ok = True
for (name, rc, viol), m in zip(res, muts):
    want = 1 if m["expect"] == "violation" else 0
    good = rc == want
    ok &= good
    print("%-38s expect=%-9s rc=%s %s" % (name, m["expect"], rc, "OK" if good else "MISMATCH"))
    for v in viol or []:
        print("      " + v[:230])
sys.exit(0 if ok else 1)
