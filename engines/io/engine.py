"""Engine `io` (C14): I/O contexts complete each operation once with the true result; no stale state.

 spec/io/RemoteQueue.tla  <-> detail/atomic_intrusive_queue.hpp + schedule_remote()/run_impl() of both contexts
 spec/io/EpollIo.tla      <-> io_epoll_context.hpp read_sender/write_sender operation (+ abstract pipe, abstract epoll)
 spec/io/UringIo.tla      <-> io_uring_context.hpp read_sender/write_sender operation (+ abstract ring)
 spec/io/IoMon.tla        the monitor every recorded execution is validated against

 1. TLC: every interleaving of the implementation-shaped specs (safety + liveness under fairness); "sensitivity" instances
    (a mechanism named in the property switched off) must violate; the instances that transcribe the *unchanged* design
    of the read/write operations are allowed to violate (design-level findings) - the alarm never comes from them but
    from the real executions below.
 2. real code: scenarios on real pipes / eventfds with the I/O thread running free and every `io.<site>` schedule point
    a seeded delay/yield injection point (DESIGN section 11 fallback); operation states individually heap-allocated and
    freed on completion under ASan/UBSan.
 3. every recorded execution is validated by TLC against IoMon; memory events and progress failures are violations."""
import concurrent.futures, json, os, re, sys, time

sys.path.insert(0, os.path.join(os.path.dirname(__file__), "..", "..", "tools"))
import vlib

ENGINE = "io"
CAP = 4096            # pipe capacity set by the driver (F_SETPIPE_SZ)
P = ["probe"]


# ----------------------------------------------------------------------------- scenarios
def io_scenarios(c):
    """scenario scripts for one context kind c in ('ep', 'ur'); returns [(name, steps, extra, racy)]"""
    out = []

    def add(name, steps, racy=False, **extra):
        out.append(("%s.%s" % (c, name), [P] + steps, extra, racy))

    for where in ("rem", "loc"):
        sync = [P] if where == "rem" else []
        # ---- reads
        for L, n in ((1, 3), (8, 4), (CAP, CAP), (CAP + 1, CAP), (CAP + 1, 1)):
            add("r.imm.%d.%d.%s" % (L, n, where), [["feed", n], ["R", 1, L, where], ["wait", 1]])
            add("r.park_feed.%d.%d.%s" % (L, n, where), [["R", 1, L, where]] + sync + [["sleep", 150], ["feed", n], ["wait", 1]])
        for sw in ("rem", "loc"):
            add("r.park_stop.%s.%s" % (where, sw), [["R", 1, 8, where]] + sync + [["stop", 1, sw], ["wait", 1], ["feed", 4], P,
                                                   ["R", 2, 8, where]] + sync + [["wait", 2]])
        add("r.prestop.%s" % where, [["R", 1, 8, where, 1], ["wait", 1], ["feed", 4], P, P, ["R", 2, 8, where]] + sync + [["wait", 2]])
        add("r.ready_stop.%s" % where, [["R", 1, 8, where]] + sync + [["loc2", [["feed", 4]], [["stop", 1]]], ["wait", 1], ["feed", 2],
                                      ["R", 2, 8, where]] + sync + [["wait", 2]])
        add("r.eof.%s" % where, [["R", 1, 8, where]] + sync + [["closeW"], ["wait", 1]])
        add("r.eof_data.%s" % where, [["feed", 3], ["closeW"], ["R", 1, 8, where], ["wait", 1], ["R", 2, 8, where], ["wait", 2]])
        # ---- writes
        for L in (1, CAP, CAP + 1):
            add("w.imm.%d.%s" % (L, where), [["W", 1, L, where], ["wait", 1]])
            add("w.park_drain.%d.%s" % (L, where), [["feed", CAP], ["W", 1, L, where]] + sync + [["sleep", 150], ["drain", CAP], ["wait", 1]])
        for sw in ("rem", "loc"):
            add("w.park_stop.%s.%s" % (where, sw), [["feed", CAP], ["W", 1, 8, where]] + sync + [["stop", 1, sw], ["wait", 1], ["drain", CAP], P,
                                                   ["W", 2, 8, where]] + sync + [["wait", 2]])
        add("w.prestop.%s" % where, [["feed", CAP], ["W", 1, 8, where, 1], ["wait", 1], ["drain", CAP], P, P, ["W", 2, 8, where]] + sync + [["wait", 2]])
        add("w.ready_stop.%s" % where, [["feed", CAP], ["W", 1, 8, where]] + sync + [["loc2", [["drain", CAP]], [["stop", 1]]], ["wait", 1],
                                      ["W", 2, 8, where]] + sync + [["wait", 2]])
        add("w.epipe.%s" % where, [["closeR"], ["W", 1, 8, where], ["wait", 1]])
        add("w.park_epipe.%s" % where, [["feed", CAP], ["W", 1, 8, where]] + sync + [["closeR"], ["wait", 1]])
        add("r.badfd.%s" % where, [["R", 1, 8, where], ["wait", 1]], badfd=1)
        # both directions through the context
        add("rw.pipe.%s" % where, [["R", 1, 64, where]] + sync + [["W", 2, 10, where], ["wait", 1], ["wait", 2], ["W", 3, CAP + 1, where], ["wait", 3],
                                 ["R", 4, CAP + 1, where], ["wait", 4]])
    # ---- races (seeded): stop vs start, stop vs readiness
    add("r.startrace.seq", [["R", 1, 8, "rem"], ["stop", 1, "rem"], ["wait", 1], ["feed", 4], P, P, ["R", 2, 8, "rem"], P, ["wait", 2]], racy=True)
    add("r.startrace.par", [["race", ["R", 1, 8, "rem"], ["stop", 1, "rem"]], ["wait", 1], ["feed", 4], P, P, ["R", 2, 8, "rem"], P, ["wait", 2]], racy=True)
    add("w.startrace.seq", [["feed", CAP], ["W", 1, 8, "rem"], ["stop", 1, "rem"], ["wait", 1], ["drain", CAP], P, P, ["W", 2, 8, "rem"], P, ["wait", 2]], racy=True)
    add("r.race_feed_stop", [["R", 1, 8, "rem"], P, ["sleep", 100], ["race", ["feed", 4], ["stop", 1, "rem"]], ["wait", 1], ["feed", 2],
                             ["R", 2, 8, "rem"], P, ["wait", 2]], racy=True)
    add("r.race_stop_feed_loc", [["R", 1, 8, "rem"], P, ["race", ["stop", 1, "loc"], ["feed", 4]], ["wait", 1], ["feed", 2],
                                 ["R", 2, 8, "loc"], ["wait", 2]], racy=True)
    add("w.race_drain_stop", [["feed", CAP], ["W", 1, 8, "rem"], P, ["sleep", 100], ["race", ["drain", CAP], ["stop", 1, "rem"]], ["wait", 1],
                              ["drain", -1], ["W", 2, 8, "rem"], P, ["wait", 2]], racy=True)
    add("r.race_feed_closeW", [["R", 1, 8, "rem"], P, ["race", ["feed", 4], ["sleep", 20]], ["closeW"], ["wait", 1], ["R", 2, 8, "rem"], P, ["wait", 2]], racy=True)
    return out


KNOWN_STUCK = re.compile(r"^(ep\.r\.badfd|ur\.[rw]\.(prestop|startrace))")


def gen_units(ctx, have_uring=True):
    quick = ctx.quick
    units = []

    def unit(**kw):
        kw["seed"] = ctx.seed * 100003 + len(units) * 7 + 1
        kw["level"] = 1 + (len(units) % 3 == 0)
        units.append(kw)

    kinds = ("ep", "ur") if have_uring else ("ep",)
    for c in kinds:
        # remote-queue scenarios: producers x items x pacing x when run() is stopped
        for Pn in (1, 2, 3):
            for K in (2, 4):
                for mode in ("burst", "pingpong", "mixed", "nested"):
                    for stop in ("after", "during"):
                        if quick and Pn == 1 and K == 4:
                            continue
                        for r in range(2 if quick else 12):
                            unit(name="%s.rq.p%dk%d.%s.%s" % (c, Pn, K, mode, stop), ctx=c, kind="rq", P=Pn, K=K, mode=mode, stop=stop)
        if c == "ur":
            # burst: K one-byte reads outstanding on one pipe, all submitted within ONE pass of the run loop (the real submission
            # ring has 256 entries: the surplus must go through pendingIoQueue_), then K bytes written
            for variant, K in ([("rem", 300), ("loc", 257)] if quick else
                               [(v, k) for v in ("rem", "loc") for k in (255, 256, 257, 258, 300, 319)] * 2):
                reads = [["R", i, 1, variant] for i in range(1, K + 1)]
                if variant == "rem":      # started remotely before the I/O thread enters run()
                    unit(name="ur.burst.rem.%d" % K, ctx=c, kind="io", steps=reads + [["go"], ["feed", K]], multiset=1, hold=1)
                else:                     # fanned out from one item on the I/O thread
                    unit(name="ur.burst.loc.%d" % K, ctx=c, kind="io", steps=[P, ["loc", reads], ["feed", K]], multiset=1)
        for name, steps, extra, racy in io_scenarios(c):
            reps = (10 if racy else 2) if quick else (80 if racy else 10)
            if KNOWN_STUCK.match(name) and quick:
                reps = 1
            for r in range(reps):
                unit(name=name, ctx=c, kind="io", steps=steps, **extra)
    return units


# ----------------------------------------------------------------------------- model checking
def model_check_all(ctx):
    rep = ctx.rep
    quick = ctx.quick
    # -- RemoteQueue: safety, liveness, sensitivity
    vlib.model_check(ctx, "io", "RemoteQueueMC", cfg="RemoteQueueMC2.cfg" if quick else "RemoteQueueMC.cfg", timeout=1500)
    vlib.model_check(ctx, "io", "RemoteQueueMC", cfg="RemoteQueueLive.cfg", timeout=1500)
    vlib.model_check(ctx, "io", "RemoteQueueMC", cfg="RemoteQueueLiveNoStop.cfg", timeout=1500)
    for cfg, what in (("RemoteQueueNoSignal.cfg", "enqueue() on an inactive queue without write(eventfd)"),
                      ("RemoteQueueNoReset.cfg", "remoteQueueReadSubmitted_ never reset")):
        r = vlib.model_check(ctx, "io", "RemoteQueueMC", cfg=cfg, must_hold=False, timeout=900)
        if r["kind"] != "invariant":
            raise vlib.Broken("sensitivity instance %s (%s) is expected to violate RemoteWorkNeverLost, TLC says %s" % (cfg, what, r["kind"]))
        rep.note("RemoteQueue sensitivity: %s -> %s violated (expected)" % (what, r["violated"]))
    rep.exhaustive = True
    # -- read/write operation design of io_epoll_context.  "Fixed" = the design with the three proposed repairs: every
    #    invariant must hold.  Each single repair switched off must violate exactly the invariant it protects (sensitivity +
    #    design-level prediction of the findings); "AsIs" = transcription of the unchanged header (may violate: alarms come
    #    only from the real executions).
    vlib.model_check(ctx, "io", "EpollIoMC", cfg="EpollIoFixed.cfg", timeout=1500)
    vlib.model_check(ctx, "io", "EpollIoMC", cfg="EpollIoFixedLive.cfg", timeout=1500)
    if not quick:
        vlib.model_check(ctx, "io", "EpollIoMC", cfg="EpollIoFixedW.cfg", timeout=1500)
    for cfg, inv, what in (("EpollIoAsIsA.cfg", "NoStaleKernelReference", "EPOLL_CTL_ADD after the stop callback was constructed"),
                           ("EpollIoAsIsE.cfg", "NoTouchAfterFree", "complete_with_done without destructing the stop callback"),
                           ("EpollIoAsIsB.cfg", "ErrorIsOsError", "readv/writev result compared with -errno values")):
        r = vlib.model_check(ctx, "io", "EpollIoMC", cfg=cfg, must_hold=False, timeout=900)
        if r["kind"] != "invariant" or r["violated"] != inv:
            raise vlib.Broken("instance %s (%s) is expected to violate %s, TLC says %s %s" % (cfg, what, inv, r["kind"], r["violated"]))
        rep.note("EpollIo: %s -> %s violated (design-level prediction)" % (what, inv))
    r = vlib.model_check(ctx, "io", "EpollIoMC", cfg="EpollIoAsIs.cfg", must_hold=False, timeout=900)
    if r["kind"] in ("error", "timeout", "assert"):
        raise vlib.Broken("TLC %s on io/EpollIoMC (EpollIoAsIs.cfg):\n%s" % (r["kind"], r["out"][-2000:]))
    rep.note("EpollIo transcription of the unchanged header: %s %s (alarms come only from the real executions)" % (r["kind"], r["violated"] or ""))
    if os.path.exists(os.path.join(vlib.VERIF, "spec", "io", "UringIoMC.tla")):
        vlib.model_check(ctx, "io", "UringIoMC", cfg="UringIoFixed.cfg", timeout=1500)
        vlib.model_check(ctx, "io", "UringIoMC", cfg="UringIoFixedLive.cfg", timeout=1500)
        # submission-ring accounting (many operations, ring of N entries, pendingIoQueue_, flush at io_uring_enter)
        vlib.model_check(ctx, "io", "UringRingMC", cfg="UringRing.cfg", timeout=900)
        vlib.model_check(ctx, "io", "UringRingMC", cfg="UringRingLive.cfg", timeout=900)
        if not quick:
            vlib.model_check(ctx, "io", "UringRingMC", cfg="UringRing4.cfg", timeout=1500)
        r = vlib.model_check(ctx, "io", "UringRingMC", cfg="UringRingOffByOne.cfg", must_hold=False, timeout=900)
        if r["kind"] != "invariant":
            raise vlib.Broken("UringRingOffByOne.cfg (try_submit_io accepts a submission when the ring is full) must be refuted, TLC says %s" % r["kind"])
        rep.note("UringRing sensitivity: `usedCount <= sqEntryCount_` -> %s violated (expected)" % r["violated"])
        for cfg, inv, what in (("UringIoAsIsC.cfg", "CancelReachesIo", "stop callback constructed before the I/O SQE is queued"),
                               ("UringIoAsIsD.cfg", "BytesAreTrue", "stop_requested() tested before the CQE result")):
            r = vlib.model_check(ctx, "io", "UringIoMC", cfg=cfg, must_hold=False, timeout=900)
            if r["kind"] not in ("invariant", "liveness") or (r["kind"] == "invariant" and r["violated"] != inv):
                raise vlib.Broken("instance %s (%s) is expected to violate %s, TLC says %s %s" % (cfg, what, inv, r["kind"], r["violated"]))
            rep.note("UringIo: %s -> %s violated (design-level prediction)" % (what, inv))


# ----------------------------------------------------------------------------- validation
SENTINEL = '{"e":"Reset","x":-1,"scn":"end","seed":0,"i":0,"t":0,"k":0,"n":0,"p":0,"ok":1}\n'


def _validate_once(ctx, execs, tag):
    """one TLC run of the (total) monitor IoMon over the given executions; returns {x: index of the rejected event}"""
    p = os.path.join(ctx.work, "val_%s.ndjson" % tag)
    starts = {}
    with open(p, "w") as f:
        ln = 1
        for x, lines in execs:
            starts[x] = ln
            f.writelines(lines)
            ln += len(lines)
        f.write(SENTINEL)
    r = vlib.validate_trace(ctx, "io", "IoMon", p, timeout=1700)
    if not r["accepted"]:
        raise vlib.Broken("IoMon did not consume the whole log (prefix %s of %s):\n%s" % (r["prefix"], r["total"], r["out"][-2000:]))
    ctx.rep.events += ln - 1
    rej = {}
    for m in re.finditer(r'<<"io-reject", (-?\d+), (\d+), "([^"]*)">>', r["out"]):
        x, l = int(m.group(1)), int(m.group(2))
        if x in starts and x not in rej:
            rej[x] = l - starts[x]
    return rej


def validate_total(ctx, path):
    """Every execution of the log is classified by ONE TLC run of IoMon; rejected executions are validated a second time
    in isolation from the others (a rejection is reported only if it repeats)."""
    execs = vlib.split_executions(path)
    if not execs:
        return []
    first = _validate_once(ctx, execs, "all")
    if not first:
        return []
    again = _validate_once(ctx, [e for e in execs if e[0] in first], "rejected")
    out = []
    for x, lines in execs:
        if x in first and x in again:
            out.append(dict(x=x, at=again[x], events=[json.loads(l) for l in lines]))
    return out


# ----------------------------------------------------------------------------- real code
def run_slice(ctx, exe, units, idx, tag):
    up = os.path.join(ctx.work, "units_%s_%d.json" % (tag, idx))
    json.dump(units, open(up, "w"))
    lp = os.path.join(ctx.work, "log_%s_%d.ndjson" % (tag, idx))
    sums, deaths = vlib.run_batches(ctx, exe, ["--units", up], len(units), lp, timeout=1700, max_deaths=max(40, len(units) // 3))
    return lp, sums, deaths


def run(ctx):
    rep = ctx.rep
    rep.assume("the kernel (epoll, io_uring, pipes, eventfd) is an unlogged nondeterministic environment; Linux pipes with capacity 4096")
    rep.assume("interleavings of the real code are sampled (I/O thread free-running, seeded delay/yield injection at every io.<site> "
               "schedule point); exhaustive interleavings come from the TLA+ models (sequentially consistent, <= 3 producers)")
    rep.assume("at most one outstanding read and one outstanding write per descriptor; progress deadline 3 s of real time")
    t0 = time.time()
    if os.environ.get("VERIF_IO_SKIP_MC"):
        rep.note("model checking skipped (VERIF_IO_SKIP_MC: development aid)")
    else:
        model_check_all(ctx)
    rep.note("model checking %.1fs" % (time.time() - t0))
    # ---- build + run
    t0 = time.time()
    exe = vlib.build(ctx, "io_driver", ["engines/io/driver.cpp"],
                     lib=["inplace_stop_token.cpp", "async_stack.cpp", "exception.cpp"] + vlib.LIB_LINUX, incs=[os.path.join(vlib.VERIF, "engines", "io")])
    units = gen_units(ctx)
    if os.environ.get("VERIF_IO_ONLY"):          # development aid: restrict the scenarios
        units = [u for u in units if re.search(os.environ["VERIF_IO_ONLY"], u["name"])]
    nslice = max(1, min(4, vlib.NCPU))
    slices = [units[i::nslice] for i in range(nslice)]
    with concurrent.futures.ThreadPoolExecutor(nslice) as ex:
        results = list(ex.map(lambda a: run_slice(ctx, exe, a[1], a[0], "u"), enumerate(slices)))
    execs, hits, sites, ndeaths = 0, 0, {}, 0
    for idx, (lp, sums, deaths) in enumerate(results):
        for s in sums:
            execs += s["execs"]
            hits += s.get("hook_hits", 0)
            for k, v in s.get("sites", {}).items():
                sites[k] = sites.get(k, 0) + v
        ndeaths += len(deaths)
        for d in deaths:
            u = slices[idx][d["x"]] if d["x"] < len(slices[idx]) else {}
            stuck = re.search(r"STUCK-FATAL scenario=(\S+) what=(\S+)", d.get("stderr_tail", "") or "")
            what = "%s in scenario %s (seed %s): %s %s" % (d["event"], u.get("name"), u.get("seed"), d.get("asan", "") or (stuck.group(2) if stuck else ""),
                                                         d.get("frame", ""))
            rep.violation(dict(engine=ENGINE, event=d["event"], scenario=u.get("name"), context=u.get("ctx"), seed=u.get("seed"),
                               asan=d.get("asan"), frame=d.get("frame"), where=d.get("where"), stuck=(stuck.group(2) if stuck else None),
                               what=what, unit=u, detail=d.get("stderr_tail", "")))
    rep.note("real code: %d units, %d ended by a fatal event, %d schedule-point hits over %d sites, %.1fs" % (len(units), ndeaths, hits, len(sites), time.time() - t0))
    if hits == 0:
        rep.note("no io.<site> schedule point was reached: hooks are not applied to this tree (perturbation inactive)")
    # ---- validation
    t0 = time.time()
    allp = os.path.join(ctx.work, "log_all.ndjson")
    names = {}
    with open(allp, "w") as f:
        gx = 0
        for idx, (lp, _, _) in enumerate(results):
            for x, lines in vlib.split_executions(lp):
                hdr = json.loads(lines[0])
                hdr["x"] = gx
                names[gx] = (hdr.get("scn"), hdr.get("seed"))
                f.write(json.dumps(hdr, separators=(",", ":")) + "\n")
                f.writelines(lines[1:])
                key = "".join(re.sub(r'"i":\d+', "", l) for l in lines[1:] if '"Sched' not in l)
                rep.distinct.add(hash((hdr.get("scn"), key)))
                gx += 1
    rejected = validate_total(ctx, allp)
    n = gx
    rep.evaluations += gx + ndeaths
    rep.traces += n
    for rj in rejected:
        evs = rj["events"]
        pre = rj["at"]
        at = evs[pre] if pre < len(evs) else {"e": "end-of-execution"}
        scn, seed = names.get(rj["x"], (None, None))
        got = ""
        if at.get("e") == "IoDone":
            got = "%s %s" % (("value", "error", "done")[at.get("k", 0)], at.get("n"))
        prior_done = any(e.get("e") == "IoDone" and e.get("k") == 2 for e in evs[:pre])
        rep.violation(dict(engine=ENGINE, event="MonitorReject", scenario=scn, seed=seed, rejected_at=at.get("e"), got=got,
                           prior_done=prior_done, ok=at.get("ok"),
                           what="IoMon rejects an execution of scenario %s at event %s %s (matched %s of %s events)"
                                % (scn, at.get("e"), json.dumps(at), pre, len(evs)), events=evs[:200]))
    rep.note("validation: %d executions, %.1fs" % (n, time.time() - t0))
    if n:
        for want in ("ep.rq.p2k2.burst.during", "ep.r.park_stop.rem.rem", "ur.w.park_drain.4097.rem"):
            for x, lines in vlib.split_executions(allp):
                if json.loads(lines[0]).get("scn") == want:
                    rep.sample(dict(kind="recorded-trace", scenario=want, events=[json.loads(l) for l in lines[:40]]))
                    break
    rep.rule("executions = seeded runs of scenario scripts (remote producers x idle/wake/stop phases; read/write/cancel/reuse on one "
             "pipe) on the real io_epoll_context and io_uring_context; distinct_nontrivial = distinct (scenario, event sequence "
             "modulo item ids)")
