// C14 driver: executes remote-scheduling and pipe I/O scenarios on the real io_epoll_context / io_uring_context.
// The I/O thread runs free; producers / stoppers are ordinary threads; every `io.<site>` schedule point is a seeded
// delay/yield injection point (io_rt.hpp).  Every execution is recorded as ndjson events and later validated by TLC
// against spec/io/IoMon.tla.  Operation states and buffers are individually heap-allocated and freed on completion, so
// a stale kernel reference / second completion is a sanitizer event.  Progress failures (an item that never runs, an
// operation that never completes although its stop source fired, run() not returning) are reported as `Stuck` after a
// generous deadline (the only use of real time), then rescued where possible (otherwise the process exits with 75).
#include "vrt.hpp"
#include "io_rt.hpp"

#include <unifex/config.hpp>
#include <unifex/linux/io_epoll_context.hpp>
#if !UNIFEX_NO_LIBURING
#include <unifex/linux/io_uring_context.hpp>
#endif
#include <unifex/file_concepts.hpp>
#include <unifex/inplace_stop_token.hpp>
#include <unifex/io_concepts.hpp>
#include <unifex/scheduler_concepts.hpp>
#include <unifex/sender_concepts.hpp>
#include <unifex/span.hpp>

#include <nlohmann/json.hpp>

#include <dirent.h>
#include <fcntl.h>
#include <sys/uio.h>
#include <unistd.h>

#include <fstream>
#include <sstream>

using namespace unifex;
using json = nlohmann::json;

static thread_local bool tl_onIo = false;
static long g_deadline_ms = 3000;
static std::string g_curScenario;

static long now_ms() { timespec t; clock_gettime(CLOCK_MONOTONIC, &t); return t.tv_sec * 1000L + t.tv_nsec / 1000000L; }
static uint8_t stream_byte(long j) { return (uint8_t)(((j * 131) + 7) ^ (j >> 8)); }

#ifdef VRT_ASAN
extern "C" int __asan_report_present(void);
static bool report_in_progress() { return __asan_report_present() != 0; }
#else
static bool report_in_progress() { return false; }
#endif
[[noreturn]] static void give_up(const char* what, int id) {
  // a sanitizer report being written by another thread (symbolisation is slow on a loaded machine) ends the process itself
  for (int i = 0; i < 1200 && report_in_progress(); ++i) usleep(100000);
  vrt::log_flush();
  std::fprintf(stderr, "STUCK-FATAL scenario=%s what=%s id=%d\n", g_curScenario.c_str(), what, id);
  _exit(75);
}
// returns true when the flag became non-zero within the deadline
static bool wait_flag(const std::atomic<int>& f, long ms) {
  for (int i = 0; i < 2000; ++i) { if (f.load(std::memory_order_acquire)) return true; if (i > 200) sched_yield(); }
  long t0 = now_ms();
  while (!f.load(std::memory_order_acquire)) {
    if (now_ms() - t0 > ms && !report_in_progress()) return f.load(std::memory_order_acquire) != 0;
    usleep(100);
  }
  return true;
}
static int count_fds() {
  int n = 0; DIR* d = opendir("/proc/self/fd"); if (!d) return -1;
  while (readdir(d)) ++n; closedir(d); return n;
}
static int count_uring_maps() {
  std::ifstream f("/proc/self/maps"); std::string l; int n = 0;
  while (std::getline(f, l)) if (l.find("io_uring") != std::string::npos) ++n;
  return n;
}

struct HolderBase { virtual ~HolderBase() = default; virtual void start() noexcept = 0; };

// ------------------------------------------------------------------------------------------------ traits
struct Ep {
  using Ctx = linuxos::io_epoll_context;
  using Reader = Ctx::async_reader; using Writer = Ctx::async_writer;
  static constexpr bool nonblock = true;
  static auto rd(Reader& r, span<std::byte> b) { return async_read_some(r, b); }
  static auto wr(Writer& w, span<const std::byte> b) { return async_write_some(w, b); }
};
#if !UNIFEX_NO_LIBURING
struct Ur {
  using Ctx = linuxos::io_uring_context;
  using Reader = Ctx::async_read_only_file; using Writer = Ctx::async_write_only_file;
  static constexpr bool nonblock = false;
  static auto rd(Reader& r, span<std::byte> b) { return async_read_some_at(r, 0, b); }
  static auto wr(Writer& w, span<const std::byte> b) { return async_write_some_at(w, 0, b); }
};
#endif

constexpr int kMaxItems = 64, kMaxOps = 320;

template <class T>
struct World {
  using Ctx = typename T::Ctx;
  std::unique_ptr<Ctx> ctx;
  std::unique_ptr<typename T::Reader> reader;
  std::unique_ptr<typename T::Writer> writer;
  int rfd = -1, wfd = -1;            // raw descriptor numbers (owned by reader / writer)
  bool readerOverWriteEnd = false;   // scenario "badfd"
  long wrOff = 0, rdOff = 0;         // stream positions: bytes accepted into / taken out of the pipe
  uint64_t seed = 1;
  // burst scenarios: many reads outstanding on one descriptor; the kernel decides which read gets which byte, so the
  // payload check is the multiset one: every byte delivered is a byte that was written and not yet delivered
  bool multiset = false;
  std::atomic<int> owed[256] = {};
  std::atomic<int> runGo{1};          // 0: the I/O thread does not enter run() before the scenario says "go"

  struct Item { std::atomic<int> done{0}; HolderBase* holder = nullptr; std::function<void()> body; };
  Item items[kMaxItems];
  std::atomic<int> nextItem{1};

  struct Op { std::atomic<int> done{0}; HolderBase* holder = nullptr; std::vector<std::byte>* buf = nullptr; int kind = 0; long len = 0;
              inplace_stop_source src; std::atomic<int> stopped{0}; bool started = false; int ch = -1; long n = 0; };
  Op ops[kMaxOps];

  // ---- receivers
  struct ItemRecv {
    World* w; int id;
    void fin() noexcept {
      World* ww = w; int i = id;
      vrt::ev("{\"e\":\"Ran\",\"i\":%d,\"t\":0,\"k\":%d,\"n\":0,\"p\":0,\"ok\":1}", i, tl_onIo ? 1 : 0);
      auto body = std::move(ww->items[i].body);
      if (body) body();
      HolderBase* h = ww->items[i].holder; ww->items[i].holder = nullptr;
      delete h;                                     // frees the operation state (and this receiver)
      ww->items[i].done.store(1, std::memory_order_release);
    }
    void set_value() noexcept { fin(); }
    void set_done() noexcept { fin(); }
    void set_error(std::exception_ptr) noexcept { fin(); }
  };
  struct IoRecv {
    World* w; int op;
    void set_value(ssize_t n) noexcept { w->complete(op, 0, (long)n); }
    void set_error(std::error_code ec) noexcept { w->complete(op, 1, (long)ec.value()); }
    void set_error(std::exception_ptr) noexcept { w->complete(op, 1, -1); }
    void set_done() noexcept { w->complete(op, 2, 0); }
    friend inplace_stop_token tag_invoke(tag_t<get_stop_token>, const IoRecv& r) noexcept { return r.w->ops[r.op].src.get_token(); }
  };
  template <class S, class R>
  struct Holder final : HolderBase {
    connect_result_t<S, R> op;
    Holder(S&& s, R r) : op(unifex::connect((S &&) s, std::move(r))) {}
    void start() noexcept override { unifex::start(op); }
  };

  void complete(int o, int ch, long n) noexcept {
    Op& q = ops[o];
    int ok = 1;
    if (ch == 0 && q.kind == 0 && multiset) {
      if (n < 0 || n > q.len || q.buf == nullptr) ok = 0;
      else for (long j = 0; j < n; ++j) if (owed[(uint8_t)(*q.buf)[(size_t)j]].fetch_sub(1) <= 0) ok = 0;
      if (n > 0) rdOff += n;
    } else if (ch == 0 && q.kind == 0) {
      if (n < 0 || n > q.len) ok = 0;
      else for (long j = 0; j < n; ++j) if ((uint8_t)(*q.buf)[j] != stream_byte(rdOff + j)) { ok = 0; break; }
      if (n > 0) rdOff += n;
    } else if (ch == 0 && q.kind == 1) {
      if (n > 0) wrOff += n;
    }
    vrt::ev("{\"e\":\"IoDone\",\"i\":%d,\"t\":0,\"k\":%d,\"n\":%ld,\"p\":1,\"ok\":%d}", o, ch, n, ok);
    q.ch = ch; q.n = n;
    delete q.buf; q.buf = nullptr;
    HolderBase* h = q.holder; q.holder = nullptr;
    delete h;                                       // frees the operation state (and the receiver that called us)
    vrt::ev("{\"e\":\"OpFreed\",\"i\":%d,\"t\":0,\"k\":0,\"n\":0,\"p\":1,\"ok\":1}", o);
    q.done.fetch_add(1, std::memory_order_release);
  }

  // ---- scheduling items
  int schedule_item(std::function<void()> body, int tid) {
    int i = nextItem.fetch_add(1);
    if (i >= kMaxItems) { std::fprintf(stderr, "too many items\n"); _exit(2); }
    items[i].body = std::move(body);
    auto s = schedule(ctx->get_scheduler());
    auto* h = new Holder<decltype(s), ItemRecv>(std::move(s), ItemRecv{this, i});
    items[i].holder = h;
    vrt::ev("{\"e\":\"SchedBegin\",\"i\":%d,\"t\":%d,\"k\":0,\"n\":0,\"p\":0,\"ok\":1}", i, tid);
    h->start();
    vrt::ev("{\"e\":\"SchedEnd\",\"i\":%d,\"t\":%d,\"k\":0,\"n\":0,\"p\":0,\"ok\":1}", i, tid);
    return i;
  }
  void wait_item(int i) {
    if (!wait_flag(items[i].done, g_deadline_ms)) {
      vrt::ev("{\"e\":\"Stuck\",\"i\":%d,\"t\":0,\"k\":0,\"n\":0,\"p\":0,\"ok\":0}", i);
      give_up("item-never-ran", i);
    }
  }
  void on_io(std::function<void()> f) { int i = schedule_item(std::move(f), 0); wait_item(i); }

  // ---- raw pipe access by the harness (the environment of the context)
  long raw_write(long n) {
    std::vector<uint8_t> b((size_t)n);
    for (long j = 0; j < n; ++j) b[(size_t)j] = stream_byte(wrOff + j);
    if (multiset) for (long j = 0; j < n; ++j) owed[b[(size_t)j]].fetch_add(1);
    vrt::ev("{\"e\":\"Feed\",\"i\":0,\"t\":0,\"k\":0,\"n\":%ld,\"p\":1,\"ok\":1}", n);
    iovec v{b.data(), (size_t)n};
    ssize_t m = T::nonblock ? ::writev(wfd, &v, 1) : ::pwritev2(wfd, &v, 1, -1, RWF_NOWAIT);
    if (m < 0) m = 0;
    wrOff += m;
    vrt::ev("{\"e\":\"Fed\",\"i\":%ld,\"t\":0,\"k\":0,\"n\":%ld,\"p\":1,\"ok\":1}", (long)m, n);
    return m;
  }
  long raw_read(long n) {   // n < 0: everything that is there
    long total = 0; int ok = 1;
    std::vector<uint8_t> b(8192);
    while (n < 0 || total < n) {
      size_t want = n < 0 ? b.size() : (size_t)std::min<long>(n - total, (long)b.size());
      iovec v{b.data(), want};
      ssize_t m = T::nonblock ? ::readv(rfd, &v, 1) : ::preadv2(rfd, &v, 1, -1, RWF_NOWAIT);
      if (m <= 0) break;
      for (long j = 0; j < m; ++j) if (b[(size_t)j] != stream_byte(rdOff + j)) ok = 0;
      rdOff += m; total += m;
    }
    vrt::ev("{\"e\":\"Drained\",\"i\":0,\"t\":0,\"k\":0,\"n\":%ld,\"p\":1,\"ok\":%d}", total, ok);
    return total;
  }

  // ---- I/O operations
  void start_op(int o, int kind, long len, bool pre) {
    Op& q = ops[o];
    q.kind = kind; q.len = len; q.started = true;
    q.buf = new std::vector<std::byte>((size_t)std::max<long>(len, 1));
    if (kind == 1) for (long j = 0; j < len; ++j) (*q.buf)[(size_t)j] = (std::byte)stream_byte(wrOff + j);
    else for (long j = 0; j < len; ++j) (*q.buf)[(size_t)j] = (std::byte)0xEE;
    if (pre) request_stop(o);
    HolderBase* h;
    if (kind == 0) {
      auto s = T::rd(*reader, span<std::byte>{q.buf->data(), (size_t)len});
      h = new Holder<decltype(s), IoRecv>(std::move(s), IoRecv{this, o});
    } else {
      auto s = T::wr(*writer, span<const std::byte>{q.buf->data(), (size_t)len});
      h = new Holder<decltype(s), IoRecv>(std::move(s), IoRecv{this, o});
    }
    q.holder = h;
    vrt::ev("{\"e\":\"IoStart\",\"i\":%d,\"t\":0,\"k\":%d,\"n\":%ld,\"p\":1,\"ok\":1}", o, kind, len);
    h->start();
  }
  void request_stop(int o) {
    Op& q = ops[o];
    q.stopped.store(1);
    vrt::ev("{\"e\":\"Stop\",\"i\":%d,\"t\":0,\"k\":0,\"n\":0,\"p\":1,\"ok\":1}", o);
    q.src.request_stop();
  }
  void wait_op(int o) {
    Op& q = ops[o];
    if (wait_flag(q.done, g_deadline_ms)) return;
    // progress failure: record it, then try to rescue the execution so that the process can go on
    vrt::ev("{\"e\":\"Stuck\",\"i\":%d,\"t\":0,\"k\":1,\"n\":%d,\"p\":1,\"ok\":0}", o, q.stopped.load());
    std::fprintf(stderr, "STUCK scenario=%s op=%d kind=%d stopped=%d\n", g_curScenario.c_str(), o, q.kind, q.stopped.load());
    if (!q.stopped.load()) { request_stop(o); if (wait_flag(q.done, 1000)) return; }
    if (q.kind == 0 && writer && !readerOverWriteEnd) raw_write(1); else if (q.kind == 1 && reader) raw_read(-1);
    if (wait_flag(q.done, 1000)) return;
    give_up("operation-never-completed", o);
  }
};

// ------------------------------------------------------------------------------------------------ scenario interpreter
template <class T>
struct Runner {
  World<T> w;
  const json& scn;
  explicit Runner(const json& s) : scn(s) {}

  void simple(const json& st, bool local) {
    const std::string k = st[0].get<std::string>();
    if (k == "R" || k == "W") {
      int o = st[1].get<int>(); long len = st[2].get<long>();
      std::string where = st.size() > 3 ? st[3].get<std::string>() : "rem";
      bool pre = st.size() > 4 && st[4].get<int>() != 0;
      if (where == "loc" && !local) w.on_io([&, o, len, pre, k] { w.start_op(o, k == "W", len, pre); });
      else w.start_op(o, k == "W", len, pre);
    } else if (k == "feed") {
      w.raw_write(st[1].get<long>());
    } else if (k == "drain") {
      w.raw_read(st[1].get<long>());
    } else if (k == "stop") {
      int o = st[1].get<int>();
      std::string where = st.size() > 2 ? st[2].get<std::string>() : "rem";
      if (where == "loc" && !local) w.on_io([&, o] { w.request_stop(o); });
      else w.request_stop(o);
    } else if (k == "wait") {
      w.wait_op(st[1].get<int>());
    } else if (k == "go") {
      w.runGo.store(1, std::memory_order_release);
    } else if (k == "probe") {
      w.on_io({});
    } else if (k == "sleep") {
      usleep((useconds_t)(st[1].get<long>() + (long)(iort::next() % 200)));
    } else if (k == "closeW") {
      vrt::ev("{\"e\":\"Fault\",\"i\":0,\"t\":0,\"k\":1,\"n\":0,\"p\":1,\"ok\":1}");
      w.writer.reset();
    } else if (k == "closeR") {
      vrt::ev("{\"e\":\"Fault\",\"i\":0,\"t\":0,\"k\":0,\"n\":%d,\"p\":1,\"ok\":1}", EPIPE);
      w.reader.reset();
    } else if (k == "loc") {           // the listed steps run inside ONE item on the I/O thread
      json sub = st[1];
      w.on_io([this, sub] { for (auto& s : sub) simple(s, true); });
    } else if (k == "loc2") {          // item A runs steps A and schedules (locally) item B running steps B
      json a = st[1], b = st[2];
      std::atomic<int> bItem{0};
      w.on_io([this, a, b, &bItem] {
        for (auto& s : a) simple(s, true);
        bItem.store(w.schedule_item([this, b] { for (auto& s : b) simple(s, true); }, 0));
      });
      w.wait_item(bItem.load());
    } else if (k == "race") {          // two steps on two threads at (nearly) the same time
      json a = st[1], b = st[2];
      std::atomic<int> go{0};
      uint64_t r = iort::next();
      std::thread th([&] { while (!go.load()) {} iort::spin_ns((long)((r >> 8) % 40000)); simple(b, false); });
      go.store(1);
      iort::spin_ns((long)((r >> 32) % 40000));
      simple(a, false);
      th.join();
    } else {
      std::fprintf(stderr, "unknown step %s\n", k.c_str()); _exit(2);
    }
  }

  // remote-queue scenario: P producers x K items, modes burst | pingpong | mixed | nested ; stop after | during
  void run_rq(inplace_stop_source* stops, std::atomic<int>& phaseGo) {
    int P = scn["P"].get<int>(), K = scn["K"].get<int>();
    std::string mode = scn["mode"].get<std::string>(), stopmode = scn["stop"].get<std::string>();
    std::vector<std::thread> th;
    std::atomic<int> go{0};
    std::vector<std::vector<int>> mine((size_t)P);
    for (int p = 0; p < P; ++p)
      th.emplace_back([&, p] {
        while (!go.load()) {}
        for (int k = 0; k < K; ++k) {
          uint64_t r = iort::next();
          bool nested = mode == "nested" && (k % 2 == 0);
          int i;
          if (nested) {
            auto cell = std::make_shared<std::atomic<int>>(0);
            i = w.schedule_item([this, cell] { cell->store(w.schedule_item({}, 9)); }, p + 1);   // child scheduled on the I/O thread
            mine[(size_t)p].push_back(i);
            if (stopmode != "during") { w.wait_item(i); mine[(size_t)p].push_back(cell->load()); }
          } else {
            i = w.schedule_item({}, p + 1);
            mine[(size_t)p].push_back(i);
          }
          if (mode == "pingpong" && stopmode != "during") { w.wait_item(i); if (r & 1) usleep((useconds_t)((r >> 8) % 300)); }
          else if (mode == "mixed") { if ((r & 3) == 0) usleep((useconds_t)((r >> 8) % 400)); else if ((r & 3) == 1 && stopmode != "during") w.wait_item(i); }
        }
      });
    uint64_t r = iort::next();
    if (r & 1) usleep((useconds_t)((r >> 8) % 500));     // the I/O thread may already be parked in epoll_wait / io_uring_enter
    go.store(1);
    if (stopmode == "during") {
      usleep((useconds_t)((r >> 20) % 300));
      vrt::ev("{\"e\":\"StopRun\",\"i\":0,\"t\":0,\"k\":0,\"n\":0,\"p\":0,\"ok\":1}");
      stops[0].request_stop();
      phaseGo.store(1);                                     // second run() drains what raced with the stop request
    }
    for (auto& t : th) t.join();
    for (int i = 1; i < w.nextItem.load(); ++i) w.wait_item(i);   // children are allocated before their parent is marked done
  }

  json run(long x) {
    uint64_t seed = scn["seed"].get<uint64_t>();
    std::string name = scn["name"].get<std::string>(), kind = scn["kind"].get<std::string>();
    g_curScenario = name;
    iort::new_execution(seed, (uint32_t)scn.value("level", 1));
    vrt::ev("{\"e\":\"Reset\",\"x\":%ld,\"scn\":\"%s\",\"seed\":%llu,\"i\":0,\"t\":0,\"k\":0,\"n\":0,\"p\":0,\"ok\":1}", x, name.c_str(), (unsigned long long)seed);
    std::fprintf(stderr, "@@X %ld\n", x);
    int fds0 = count_fds(), maps0 = count_uring_maps();
    w.seed = seed;
    w.multiset = scn.value("multiset", 0) != 0;
    w.runGo.store(scn.value("hold", 0) ? 0 : 1);
    w.ctx = std::make_unique<typename T::Ctx>();
    int fds1 = count_fds(), maps1 = count_uring_maps();
    bool during = kind == "rq" && scn["stop"].get<std::string>() == "during";
    int phases = during ? 2 : 1;
    inplace_stop_source stops[2];
    std::atomic<int> phaseGo{0}, returned{0};
    std::thread io([&] {
      tl_onIo = true;
      for (int ph = 0; ph < phases; ++ph) {
        if (ph > 0) while (!phaseGo.load()) usleep(50);
        while (!w.runGo.load(std::memory_order_acquire)) usleep(50);
        vrt::ev("{\"e\":\"RunStart\",\"i\":%d,\"t\":0,\"k\":0,\"n\":0,\"p\":0,\"ok\":1}", ph);
        w.ctx->run(stops[ph].get_token());
        vrt::ev("{\"e\":\"RunReturn\",\"i\":%d,\"t\":0,\"k\":0,\"n\":0,\"p\":0,\"ok\":1}", ph);
      }
      returned.store(1, std::memory_order_release);
    });
    if (kind == "rq") {
      run_rq(stops, phaseGo);
    } else {
      int fd[2];
      if (::pipe2(fd, (T::nonblock ? O_NONBLOCK : 0) | O_CLOEXEC) != 0) { std::perror("pipe2"); _exit(2); }
      ::fcntl(fd[1], F_SETPIPE_SZ, 4096);
      w.rfd = fd[0]; w.wfd = fd[1];
      if (scn.value("badfd", 0)) {
        // a reader constructed over a descriptor that cannot be read (the write end): every readv fails with EBADF
        int dupw = ::fcntl(fd[1], F_DUPFD_CLOEXEC, 0);
        w.reader = std::make_unique<typename T::Reader>(*w.ctx, dupw);
        w.readerOverWriteEnd = true;
        vrt::ev("{\"e\":\"Fault\",\"i\":0,\"t\":0,\"k\":2,\"n\":%d,\"p\":1,\"ok\":1}", EBADF);
      } else {
        w.reader = std::make_unique<typename T::Reader>(*w.ctx, fd[0]);
      }
      w.writer = std::make_unique<typename T::Writer>(*w.ctx, fd[1]);
      for (auto& st : scn["steps"]) simple(st, false);
      w.runGo.store(1, std::memory_order_release);
      for (int o = 1; o < kMaxOps; ++o) if (w.ops[o].started) w.wait_op(o);
      if (w.reader && !w.readerOverWriteEnd) w.raw_read(-1);
      if (w.readerOverWriteEnd) { ::close(fd[0]); }
    }
    vrt::ev("{\"e\":\"Quiesce\",\"i\":0,\"t\":0,\"k\":0,\"n\":0,\"p\":0,\"ok\":1}");
    vrt::ev("{\"e\":\"StopRun\",\"i\":%d,\"t\":0,\"k\":0,\"n\":0,\"p\":0,\"ok\":1}", phases - 1);
    stops[phases - 1].request_stop();
    if (!wait_flag(returned, g_deadline_ms)) {
      vrt::ev("{\"e\":\"Stuck\",\"i\":0,\"t\":0,\"k\":2,\"n\":0,\"p\":0,\"ok\":0}");
      give_up("run-did-not-return-after-stop", 0);
    }
    io.join();
    w.reader.reset(); w.writer.reset();
    int fds2 = count_fds(), maps2 = count_uring_maps();
    w.ctx.reset();
    int fds3 = count_fds(), maps3 = count_uring_maps();
    // descriptors / mappings: what construction acquired, destruction released (k: 0 = descriptors, 1 = ring mappings)
    vrt::ev("{\"e\":\"Res\",\"i\":%d,\"t\":%d,\"k\":0,\"n\":%d,\"p\":%d,\"ok\":1}", fds3, fds1, fds0, fds2);
    vrt::ev("{\"e\":\"Res\",\"i\":%d,\"t\":%d,\"k\":1,\"n\":%d,\"p\":%d,\"ok\":1}", maps3, maps1, maps0, maps2);
    json out; out["items"] = w.nextItem.load() - 1;
    return out;
  }
};

int main(int argc, char** argv) {
  vrt::Args a(argc, argv);
  vrt::install_handlers();
  signal(SIGPIPE, SIG_IGN);
  iort::install();
  g_deadline_ms = a.num("deadline", 3000);
  std::vector<json> units;
  { std::ifstream f(a.str("units")); json j; f >> j; for (auto& u : j) units.push_back(u); }
  if (a.has("log")) vrt::log_open(a.str("log").c_str());
  long from = a.num("from", 0), to = a.num("to", 1L << 40);
  long execs = 0, skipped = 0;
  for (long x = from; x < to && x < (long)units.size(); ++x) {
    const json& u = units[(size_t)x];
    std::string c = u["ctx"].get<std::string>();
    if (c == "ep") { Runner<Ep> r(u); r.run(x); }
#if !UNIFEX_NO_LIBURING
    else if (c == "ur") { Runner<Ur> r(u); r.run(x); }
#endif
    else { ++skipped; continue; }
    ++execs;
    vrt::log_flush();
  }
  vrt::log_close();
  json sites = json::object();
  for (int i = 0; i < iort::kSites; ++i) if (iort::g_siteName[i]) sites[iort::g_siteName[i]] = iort::g_siteHits[i].load();
  json s = {{"execs", execs}, {"skipped", skipped}, {"hook_hits", iort::g_hits.load()}, {"sites", sites}};
  std::printf("%s\n", s.dump().c_str());
  return 0;
}
