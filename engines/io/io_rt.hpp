// Engine-local runtime of the `io` engine (C14): seeded perturbation at the `io.<site>` schedule points.
// The I/O thread runs free (kernel wake-ups are not controllable); user-side arbitration points (the hooks in front
// of every CAS / fetch_add / exchange / wake-up syscall of the two I/O contexts and of atomic_intrusive_queue) become
// seeded delay / yield injection points for *all* threads (DESIGN section 11 fallback).  Hooks are scheduling seams only.
#pragma once
#include <unifex/detail/verif_hooks.hpp>

#include <sched.h>
#include <time.h>

#include <atomic>
#include <cstdint>
#include <cstring>

namespace iort {

inline std::atomic<uint64_t> g_seed{1};      // per execution
inline std::atomic<uint32_t> g_epoch{0};     // bumped per execution: thread-local generators reseed
inline std::atomic<uint32_t> g_target{0};    // site class that is delayed strongly in this execution
inline std::atomic<uint32_t> g_level{1};     // 0 = hooks inert, 1 = light, 2 = heavy
inline std::atomic<uint32_t> g_tidgen{0};
inline std::atomic<long> g_hits{0};
constexpr int kSites = 64;
inline std::atomic<long> g_siteHits[kSites];
inline const char* g_siteName[kSites];

struct Tl { uint64_t s = 0; uint32_t epoch = ~0u; };
inline thread_local Tl tl;

inline uint64_t next() noexcept {
  uint32_t e = g_epoch.load(std::memory_order_relaxed);
  if (tl.epoch != e) {
    tl.epoch = e;
    tl.s = g_seed.load(std::memory_order_relaxed) * 0x9E3779B97F4A7C15ull + (uint64_t)(g_tidgen.fetch_add(1) + 1) * 0xBF58476D1CE4E5B9ull;
  }
  uint64_t z = (tl.s += 0x9E3779B97F4A7C15ull);
  z = (z ^ (z >> 30)) * 0xBF58476D1CE4E5B9ull;
  z = (z ^ (z >> 27)) * 0x94D049BB133111EBull;
  return z ^ (z >> 31);
}
inline uint32_t fnv(const char* s) noexcept {
  uint32_t h = 2166136261u;
  for (; *s; ++s) { h ^= (unsigned char)*s; h *= 16777619u; }
  return h;
}
inline void spin_ns(long ns) noexcept {
  timespec a; clock_gettime(CLOCK_MONOTONIC, &a);
  for (;;) {
    timespec b; clock_gettime(CLOCK_MONOTONIC, &b);
    long d = (b.tv_sec - a.tv_sec) * 1000000000L + (b.tv_nsec - a.tv_nsec);
    if (d >= ns) return;
  }
}
inline void hook(const char* site, int, const void*) noexcept {
  // `stop.q3` (already in the tree: after a stop callback returned, before inplace_stop_source touches it again) is the
  // only foreign schedule point used: it widens the window "callback scheduled the done-completion / not yet returned"
  const bool q3 = std::strcmp(site, "stop.q3") == 0;
  if (std::strncmp(site, "io.", 3) != 0 && !q3) return;
  uint32_t h = fnv(site);
  int slot = (int)(h % kSites);
  g_siteName[slot] = site;
  g_siteHits[slot].fetch_add(1, std::memory_order_relaxed);
  g_hits.fetch_add(1, std::memory_order_relaxed);
  uint32_t lvl = g_level.load(std::memory_order_relaxed);
  if (lvl == 0) return;
  uint64_t r = next();
  if (q3) { if ((r & 3) == 0) spin_ns(20000 + (long)((r >> 8) % 200000)); else if ((r & 3) == 1) sched_yield(); return; }
  if (h % 11 == g_target.load(std::memory_order_relaxed) % 11) {
    // the execution's target sites: long delays with probability 1/2
    if (r & 1) spin_ns(20000 + (long)((r >> 8) % (lvl == 2 ? 400000 : 150000)));
    else if (r & 2) sched_yield();
    return;
  }
  switch ((r >> 3) % 12) {
    case 0: sched_yield(); break;
    case 1: spin_ns(1000 + (long)((r >> 8) % 30000)); break;
    case 2: if (lvl == 2) spin_ns(50000 + (long)((r >> 8) % 100000)); break;
    default: break;
  }
}
inline void install() { ::unifex_verif::hook.store(&hook, std::memory_order_release); }
inline void new_execution(uint64_t seed, uint32_t level) {
  g_seed.store(seed); g_target.store((uint32_t)(seed * 2654435761u >> 7)); g_level.store(level);
  g_tidgen.store(0); g_epoch.fetch_add(1);
}

}  // namespace iort
