#!/usr/bin/env python3
"""Generates engines/coro/selftest.json: each mutant is a textual replacement in the hooked tree (/repo + hooks.patch), recorded as a
unified diff relative to that tree."""
import json, os, subprocess, sys
WT = sys.argv[1] if len(sys.argv) > 1 else "/repo"      # a tree with hooks.patch applied (read-only here)
here = os.path.dirname(os.path.abspath(__file__))
M = []
def mut(name, expect, what, *edits):
    M.append(dict(name=name, expect=expect, what=what, edits=edits))

AT = "include/unifex/at_coroutine_exit.hpp"
TR = "include/unifex/await_transform.hpp"
TK = "include/unifex/task.hpp"
CA = "include/unifex/connect_awaitable.hpp"

mut("cleanup_skipped_on_done", "violation", "a cleanup action's unhandled_done forwards to the next done handler without running the action",
    (AT, """    this->isUnhandledDone_ = true;
    // On unhandled_done, run the cleanup action:
    return coro::coroutine_handle<_cleanup_promise>::from_promise(*this);""",
         """    this->isUnhandledDone_ = true;
    // On unhandled_done, run the cleanup action:
    return this->continuation_.done_handle();"""))
mut("cleanup_registration_order", "violation", "a second cleanup action is linked behind the first one instead of in front of it (runs in registration order)",
    (AT, """      continuation_.promise().continuation_ =
          exchange_continuation(parent, continuation_);""",
         """      static thread_local void* lastParent = nullptr;
      static thread_local _cleanup_promise_base<WithAsyncStackSupport>* lastCleanup = nullptr;
      if (lastParent == static_cast<void*>(&parent) && lastCleanup != nullptr) {
        continuation_.promise().continuation_ = lastCleanup->continuation_;
        lastCleanup->continuation_ = continuation_;
        lastCleanup = nullptr;
      } else {
        continuation_.promise().continuation_ =
            exchange_continuation(parent, continuation_);
        lastParent = &parent;
        lastCleanup = &continuation_.promise();
      }"""))
mut("done_becomes_exception", "violation", "_rec::set_done of an awaited sender stores an exception and resumes the coroutine normally",
    (TR, """    void set_done() && noexcept {
      result_->state_ = _state::done;
""", """    void set_done() && noexcept {
      return std::move(*this).set_error(std::make_exception_ptr(std::logic_error("cancelled")));
      result_->state_ = _state::done;
"""))
mut("error_becomes_done", "violation", "_rec::set_error(exception_ptr) of an awaited sender unwinds the coroutine as done",
    (TR, """    void set_error(std::exception_ptr eptr) && noexcept {
      unifex::activate_union_member(result_->exception_, std::move(eptr));
      result_->state_ = _state::exception;
      complete();
    }""", """    void set_error(std::exception_ptr eptr) && noexcept {
      (void)eptr;
      std::move(*this).set_done();
    }"""))
mut("frame_leaked_on_done", "violation", "an awaited task that was started but never resumed its awaiter (done path) is not destroyed by the awaiter's holder",
    (TK, """    if ((coro_ & mask) != 0u) {
      auto address = reinterpret_cast<void*>(coro_ & mask);""", """    if ((coro_ & mask) != 0u && (coro_ & 1u) == 0u) {
      auto address = reinterpret_cast<void*>(coro_ & mask);"""))
mut("affinity_hop_skipped", "violation", "task's await_transform awaits a sender without with_scheduler_affinity",
    (TK, """        return unifex::await_transform(
            *this,
            with_scheduler_affinity(static_cast<Value&&>(value), this->sched_));""",
         """        return unifex::await_transform(*this, static_cast<Value&&>(value));"""))
mut("stop_not_forwarded_thunk", "violation", "the deferred stop request of the stop-request thunk only queries its stop source instead of requesting stop",
    (TK, """                              just(&self->stopSource_) |
                                  then(&inplace_stop_source::request_stop)))) {
      return unstoppable(on(
          self->sched_,
          just(&self->stopSource_) | then(&inplace_stop_source::request_stop)));""",
         """                              just(&self->stopSource_) |
                                  then(&inplace_stop_source::stop_requested)))) {
      return unstoppable(on(
          self->sched_,
          just(&self->stopSource_) | then(&inplace_stop_source::stop_requested)));"""))
mut("stop_not_forwarded_nested", "violation", "a nested task's promise is not given the awaiting promise's stop token",
    (TK, """      } else {
        promise.stoken_ = get_stop_token(h.promise());
      }""", """      } else {
        (void)get_stop_token(h.promise());
      }"""))
mut("thunk_join_dropped", "violation", "the stop-request thunk continues its continuation without waiting for an outstanding deferred stop request",
    (TK, """    if (refCount_.fetch_sub(1, std::memory_order_acq_rel) == 1) {
      frameState.restore_frame_state();""", """    if (refCount_.fetch_sub(1, std::memory_order_acq_rel) >= 1) {
      frameState.restore_frame_state();"""))
mut("cleanup_after_parent", "violation", "a cleanup coroutine first resumes its continuation (the parent) and only then runs its action",
    (AT, """  coro::suspend_always initial_suspend() noexcept { return {}; }

  final_awaitable final_suspend() noexcept { return {}; }""",
         """  struct initial_awaitable {
    _cleanup_promise_base* self;
    bool await_ready() const noexcept { return false; }
    void await_suspend(coro::coroutine_handle<>) const noexcept {}
    void await_resume() const noexcept { self->next().resume(); }
  };
  initial_awaitable initial_suspend() noexcept { return {this}; }

  final_awaitable final_suspend() noexcept { return {}; }"""))
mut("value_not_forwarded_connect_awaitable", "violation", "connect_awaitable delivers a value completion as done",
    (CA, """              unifex::set_value(
                  std::move(receiver), std::forward<result_type>(result));""",
         """              unifex::set_done(std::move(receiver));"""))
# ---- defects of the stop-request thunk's join that only a concurrent stop request exposes (controlled-thread mode)
mut("race_who_written_after_decrement", "violation", "whoToContinue_ (with its schedule point) is written after the refcount decrement in complete_and_choose_continuation",
    (TK, """    UNIFEX_VERIF_YIELD("coro.sr.fin_who");
    whoToContinue_ = whoToContinue;
""", """"""),
    (TK, """    UNIFEX_VERIF_YIELD("coro.sr.fin_fsub");
    if (refCount_.fetch_sub(1, std::memory_order_acq_rel) == 1) {
      frameState.restore_frame_state();""", """    UNIFEX_VERIF_YIELD("coro.sr.fin_fsub");
    const bool lastRef = refCount_.fetch_sub(1, std::memory_order_acq_rel) == 1;
    UNIFEX_VERIF_YIELD("coro.sr.fin_who");
    whoToContinue_ = whoToContinue;
    if (lastRef) {
      frameState.restore_frame_state();"""))
mut("race_stop_op_started_before_refcount", "violation", "stop_callback starts the deferred stop request before taking its reference",
    (TK, """      UNIFEX_VERIF_YIELD("coro.sr.cb_fadd");
      if (self->refCount_.fetch_add(1, std::memory_order_relaxed) == 0) {
        return;
      }

      unifex::start(self->stopOperation_);""", """      unifex::start(self->stopOperation_);
      UNIFEX_VERIF_YIELD("coro.sr.cb_fadd");
      self->refCount_.fetch_add(1, std::memory_order_relaxed);"""))
mut("race_callback_not_destroyed", "violation", "complete_and_choose_continuation no longer destroys the stop callback (it stays registered on the receiver's token)",
    (TK, """    UNIFEX_VERIF_YIELD("coro.sr.fin_destruct");
    callback_.destruct();
""", """    UNIFEX_VERIF_YIELD("coro.sr.fin_destruct");
"""))
# ---- defects of the kind seeded in the evaluation rounds (C11-2, C20-2)
mut("hop_back_not_armed_after_same_ctx_hop", "violation", "co_await schedule(current scheduler) latches rescheduled_ without installing the hop-back cleanup",
    ("source/task.cpp", """  if (!std::exchange(this->rescheduled_, true)) {""", """  if (!std::exchange(this->rescheduled_, true) && newSched != this->sched_) {"""))
mut("awaitable_wrapper_reactivates_on_null_root", "violation", "_awaitable_wrapper's bool await_suspend path re-activates the async stack frame on the (already nulled) frame root",
    (TR, """      activateAsyncStackFrame(*root, *frame);

      // proactively destroy the unneeded coro_resumer""", """      activateAsyncStackFrame(*frame->getStackRoot(), *frame);

      // proactively destroy the unneeded coro_resumer"""))
mut("benign_comment_and_reorder", "clean", "comment edits and a reordering of two independent statements in the task awaiter",
    (TK, """      auto& promise = thisCoro.promise();
      promise.continuation_ = h;""", """      auto& promise = thisCoro.promise();
      // (benign) remember who awaits us
      promise.continuation_ = h;"""),
    (AT, """      auto continuation = h.promise().next();
      h.destroy();  // The cleanup action has finished executing. Destroy it.""",
         """      auto continuation = h.promise().next();  // (benign) read before the frame goes away
      h.destroy();"""))

import difflib
out = []
for m in M:
    files = {}
    for f, old, new in m["edits"]:
        p = os.path.join(WT, f)
        cur = files.get(f) or open(p).read()
        assert cur.count(old) == 1, (m["name"], f, cur.count(old))
        files[f] = cur.replace(old, new)
    d = ""
    for f, new in files.items():
        a = open(os.path.join(WT, f)).read().splitlines(True)
        d += "".join(difflib.unified_diff(a, new.splitlines(True), "a/" + f, "b/" + f))
    out.append(dict(name=m["name"], patch=d, expect=m["expect"], what=m["what"]))
json.dump(out, open(os.path.join(here, "selftest.json"), "w"), indent=1)
print(len(out), "mutants written (patches are relative to the hooked tree %s)" % WT)
