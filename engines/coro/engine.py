"""Engine `coro` (C10; task clause of C11): spec/coro/Tasks.tla <-> unifex::task<> (task.hpp, await_transform.hpp,
connect_awaitable.hpp, at_coroutine_exit.hpp, unhandled_done.hpp, stop_if_requested.hpp, with_scheduler_affinity.hpp).

 1. catalogue of *scripts* (one statement list per task body; curated + seeded random) -> JSON for TLC and the driver
 2. TLC: fine-grained model TasksMC (every internal step a state; invariants) on every script x leaf modes x external
    interleaving (leaf completions with any channel, one stop request at any quiescent point, context draining)
 3. TLC: macro-step instance TasksMacro, export of every (quiescent state, external action) -> quiescent state with
    the observations the interpreter coroutine must make; edge-covering behaviours
 4. replay on the real code: ONE generic interpreter coroutine (coro_rt.hpp) executes the scripts (C++20, ASan/UBSan,
    replaced operator new/delete for frame accounting); the outer receiver destroys the operation in its completion
 5. the recorded event log of every execution is validated by TLC against the monitor TaskMon (the only source of
    alarms besides memory events); differences from the impl-shaped spec's expected observations are drift."""
import collections, json, os, random, sys, time

sys.path.insert(0, os.path.join(os.path.dirname(__file__), "..", "..", "tools"))
import vlib

HERE = os.path.dirname(os.path.abspath(__file__))


# ----------------------------------------------------------------------------- script catalogue
def parse_body(txt):
    out = []
    for t in txt.split():
        k, rest, b = t[0], t[1:], 0
        if k == "Y":                      # Y<cleanup id>.<leaf id>: cleanup action that co_awaits a leaf
            a, l = rest.split(".")
            out.append(dict(k=k, a=int(a), b=int(l)))
            continue
        if rest.endswith("c"):
            b, rest = 1, rest[:-1]
        out.append(dict(k=k, a=int(rest or 0), b=b))
    return out


CURATED = [
    ["L1 X1 X2 A1 T1 R5", "L2 X3 A2 R7"],                  # two frames, leaves in both, cleanups in both
    ["L1 X1 S2 X2 A1 Q R5"],                               # scheduler switch between two cleanup registrations
    ["L1 O1 Q R5", "L2 X1 A2 R7"],                         # done_as_optional child: parent continues after the child's done
    ["X1 T1c A1 R5", "L1 X2 X3 T2 R6", "L2 X4 A2 W9"],     # depth 3, throw at the bottom, caught at the top
    ["L1 X1 T1 R5", "S2 L2 X2 A1 R6"],                     # the child switches scheduler; the parent must resume on its own
    ["S1 T1 A2 R5", "X1 S2 A1 R6"],                        # parent on ctx 1, child hops to 2 and back
    ["L1 X1 N1 M2c R5"],                                   # awaitable leaves: as_sender round trip and natural awaitable
    ["X1 O1c A2 R5", "L1 X2 Q A1 W8"],                     # nested stop-request thunk; error through done_as_optional
    ["L1 X1 A1c A2 R5"],                                   # catch and continue
    ["T1 R5", "T2 R6", "L1 X1 X2 A1 R7"],                  # pure nesting, everything at the bottom
    ["Q S1 Q R5"],
    ["X1 O1 R5", "X2 O2 R6", "L1 X3 A1 R7"],               # thunk inside thunk
    ["L1 X1 A1 L2 X2 A2 R5"],                              # sequential leaves, interleaved locals / cleanups
    ["W3"], ["R1"], [""],
    ["X1 T1 Q R5", "S2 X2 A1"],                            # child falls off the end of its body on a foreign scheduler
    ["L1 X1 T1c Q R5", "X2 S1 Q A1 R6"],
    ["X1 N1 T1 R5", "L1 M2 X2 R6"],
    ["L1 X1 Y2.2 A1 R5"],                                  # a cleanup action that suspends on a leaf, after a plain one was registered
    ["Y1.2 T1 R5", "L1 Y2.3 X3 A1 R6"],                    # suspending cleanup actions in parent and child
    ["Y1.2 S1 Y2.3 Q R5"],                                 # suspending cleanup actions registered on different schedulers
    # sequences of schedule hops, including hops onto the scheduler the task is already running on
    ["S0 S1 A1 R5"],                                       # root: first hop targets its own scheduler, the second one another
    ["T1 Q R5", "S0 S2 A1 R6"],                            # the same in a child: the parent must still resume on context 0
    ["S1 T1 Q R5", "S1 S2 R6"],                            # parent on ctx 1, child hops 1 -> 1 -> 2, falls back to 1, root back to 0
    ["S1 S2 S1 X1 R5"], ["S1 S1 S2 Q R5"],
    ["X1 O1 Q R5", "S0 X2 S1 S2 W7"],                      # hops in a connect()ed child that ends with an exception
    # awaiter shapes: bool await_suspend (false / true), await_ready() / void await_suspend, symmetric transfer via a trampoline
    ["B1 V2 H3 R5"],
    ["X1 B1c T1 R5", "L1 V2 H3c R6"],
    ["S1 B1 M2 V3 R5"],
    ["O1 R5", "L1 B1 V2 W7"],
]


def random_script(rng):
    """A random script: <= 3 frames (nesting or siblings), <= 5 statements per body, <= 2 cleanups / locals per body,
    <= 3 leaves in total."""
    nframes = rng.choice([1, 2, 2, 3, 3])
    shape = rng.choice(["chain", "siblings"]) if nframes == 3 else "chain"
    kids = {0: [], 1: [], 2: []}
    if nframes >= 2:
        kids[0].append(1)
    if nframes == 3:
        (kids[1] if shape == "chain" else kids[0]).append(2)
    leaf = [0]
    bodies = []
    for k in range(nframes):
        n = rng.randint(2, 5)
        st, nx, nl, nleaf, ns, nq = [], 0, 0, 0, 0, 0
        pend = list(kids[k])
        for i in range(n):
            opts = []
            if nx < 2: opts += ["X", "X"]
            if nx < 2 and leaf[0] < 3: opts += ["Y"]
            if nl < 2: opts += ["L"]
            if nleaf < 2 and leaf[0] < 3: opts += ["A", "A", "A", "N", "M", "H", "B", "V"]
            if ns < 2: opts += ["S"]
            if nq < 1: opts += ["Q"]
            if pend: opts += ["K", "K", "K"]
            if not opts:
                break
            o = rng.choice(opts)
            if o == "X": nx += 1; st.append("X%d" % (10 * k + nx))
            elif o == "Y": nx += 1; leaf[0] += 1; st.append("Y%d.%d" % (10 * k + nx, leaf[0]))
            elif o == "L": nl += 1; st.append("L%d" % (10 * k + nl))
            elif o in "ANMHBV":
                nleaf += 1; leaf[0] += 1
                st.append("%s%d%s" % (o, leaf[0], "c" if rng.random() < 0.3 else ""))
            elif o == "S": ns += 1; st.append("S%d" % rng.choice([0, 1, 2]))
            elif o == "Q": nq += 1; st.append("Q")
            elif o == "K":
                c = pend.pop(0)
                st.append("%s%d%s" % (rng.choice(["T", "T", "O"]), c, "c" if rng.random() < 0.3 else ""))
        for c in pend:
            st.append("%s%d" % (rng.choice(["T", "O"]), c))
        r = rng.random()
        if r < 0.6: st.append("R%d" % (50 + k))
        elif r < 0.75: st.append("W%d" % (60 + k))
        bodies.append(" ".join(st))
    return bodies


def catalogue(tier):
    rng = random.Random(20260923)          # the catalogue is fixed per tier (VERIF_SEED drives sampling / walks only)
    texts = [list(b) for b in CURATED]
    seen = set(json.dumps(t) for t in texts)
    want = len(texts) + (8 if tier == "quick" else 60)
    while len(texts) < want:
        t = random_script(rng)
        if json.dumps(t) not in seen:
            seen.add(json.dumps(t))
            texts.append(t)
    return [dict(id=i + 1, text=" | ".join(t), body=[parse_body(b) for b in t]) for i, t in enumerate(texts)]


# ----------------------------------------------------------------------------- observations
def macro_graph(edges_path):
    macro = collections.defaultdict(list)
    targets = set()
    n = 0
    for l in open(edges_path):
        e = json.loads(l)
        s, t = tuple(e["s"]), tuple(e["t"])
        cfg = e["cfg"]
        if cfg.get("script"):
            cfg = dict(cfg, mode={str(m["l"]): m["m"] for m in cfg["mode"]})
        macro[s].append((t, dict(ext=e["ext"], cfg=cfg, obs=e["obs"])))
        targets.add(t)
        n += 1
    inits = [s for s in macro if s not in targets]
    return macro, inits, n


def nev(e):
    return (e["e"], e["k"], e["a"], tuple(e["p"]), (e["ctx"][0], e["ctx"][1]))


RESULT_EV = {"AwaitValue", "AwaitThrew", "TaskValue", "TaskThrew", "RootValue", "RootError", "RootDone", "Return",
             "NotStopped", "Switched", "Body", "Reg"}
LIFE_EV = {"LocalCtor", "LocalDtor", "FrameGone"}
STOP_EV = {"LeafStart", "LeafStopSeen"}


def compare(exp_steps, got_steps):
    """exp_steps / got_steps: per external step dict(ev=[...], seen=[...], root=n).  Returns {class: text}."""
    d = {}
    for i, (a, b) in enumerate(zip(exp_steps, got_steps)):
        ea, eb = [nev(e) for e in a["ev"]], [nev(e) for e in b["ev"]]
        if ea == eb and sorted(a["seen"]) == sorted(b["seen"]) and a["root"] == b["root"]:
            continue
        strip = lambda evs, S: [e[:4] for e in evs if e[0] in S]
        if strip(ea, RESULT_EV) != strip(eb, RESULT_EV) or a["root"] != b["root"]:
            d.setdefault("C10.result", "step %d: expected %s got %s" % (i, strip(ea, RESULT_EV), strip(eb, RESULT_EV)))
        if strip(ea, {"Cleanup"}) != strip(eb, {"Cleanup"}):
            d.setdefault("C10.cleanup", "step %d: cleanup actions expected %s got %s" % (i, strip(ea, {"Cleanup"}), strip(eb, {"Cleanup"})))
        if sorted(strip(ea, LIFE_EV)) != sorted(strip(eb, LIFE_EV)):
            d.setdefault("C10.lifetime", "step %d: destructions expected %s got %s" % (i, strip(ea, LIFE_EV), strip(eb, LIFE_EV)))
        if strip(ea, STOP_EV) != strip(eb, STOP_EV) or sorted(a["seen"]) != sorted(b["seen"]):
            d.setdefault("C10.stop", "step %d: leaf starts / stop observations expected %s %s got %s %s" % (i, strip(ea, STOP_EV), a["seen"], strip(eb, STOP_EV), b["seen"]))
        if [e[:4] for e in ea] == [e[:4] for e in eb] and ea != eb:
            d.setdefault("C11.ctx", "step %d: contexts expected %s got %s" % (i, [e[4] for e in ea], [e[4] for e in eb]))
        if not d:
            d.setdefault("drift.order", "step %d: same events in a different order" % i)
    if len(exp_steps) != len(got_steps):
        d.setdefault("drift.unreplayable", "replayed %d of %d steps" % (len(got_steps), len(exp_steps)))
    return d


# ----------------------------------------------------------------------------- run
def run(ctx):
    rep = ctx.rep
    prop = ctx.prop
    monprop = {"C10": "ALL", "C11": "C11", "C04": "C04", "C20": "C20"}.get(prop, "ALL")
    rep.assume("task bodies are scripts over: local, at_coroutine_exit(task), co_await of a controllable leaf sender / awaitable / "
               "as_sender(awaitable) / child task / done_as_optional(child task) / schedule(ctx) / stop_if_requested(), throw, co_return; "
               "<= 3 frames, <= 7 statements per body, <= 2 cleanup actions per frame; cleanup actions are tasks that complete inline or suspend on a leaf that yields a value")
    rep.assume("leaf outcomes: inline value/error/done or deferred with any channel (awaitable leaves: value/error only); deferred leaf "
               "senders react to stop by ignoring it or completing with done; one stop request on the receiver at any quiescent point "
               "(i.e. at every suspension point); all scheduler contexts are manual and drained one item at a time; the replay of "
               "TLC behaviours is single-threaded (stop requested between steps), the controlled-thread mode adds concurrent stop requests")
    rep.assume("g++-12 -std=c++20 -fcoroutines, asserts + async stacks on (no NDEBUG); ASan+UBSan; global operator new/delete replaced to count frames")
    cat = catalogue(ctx.tier)
    by_id = {s["id"]: s for s in cat}
    sp = os.path.join(ctx.work, "scripts.json")
    json.dump([dict(id=s["id"], body=s["body"]) for s in cat], open(sp, "w"))
    # build first (cached)
    LIB = ["task.cpp", "inplace_stop_token.cpp", "async_stack.cpp", "exception.cpp"]
    def build_cfg(defs=()):
        # library sources (incl. source/task.cpp) are compiled from the tree under test; vlib caches by the tree's content hash
        return vlib.build(ctx, "coro_driver", [os.path.join(HERE, "driver.cpp")], lib=LIB, incs=[os.path.join(HERE, "rt")], std="c++20", defs=list(defs))
    exe = build_cfg()
    if prop == "C20":
        return run_c20(ctx, cat, by_id, sp, build_cfg)
    exe_race = vlib.build(ctx, "coro_driver_race", [os.path.join(HERE, "driver_race.cpp")], lib=LIB, incs=[os.path.join(HERE, "rt")], std="c++20")
    # ---- TLC: fine-grained model, invariants in every state
    vlib.model_check(ctx, "coro", "TasksMC", env={"SCRIPTS": sp}, timeout=3000, xmx="8g")
    # ---- TLC: the stop-request thunk's refcount join under all interleavings of completion / stop request / deferred stop
    if not ctx.quick:
        vlib.model_check(ctx, "coro", "SrThunk", cfg="SrThunk.cfg", workers=1, timeout=600)      # + termination under weak fairness
    for v in (("who_late",) if ctx.quick else ("who_late", "start_early", "no_destruct")):
        rb = vlib.model_check(ctx, "coro", "SrThunk", cfg="SrThunk_%s.cfg" % v, workers=1, timeout=600, must_hold=False)
        if rb["kind"] != "invariant":
            raise vlib.Broken("SrThunk_%s.cfg (seeded defect) should violate NoUseAfterFree; got %s" % (v, rb["kind"]))
    sr_edges = os.path.join(ctx.work, "sr_edges.ndjson")
    vlib.model_check(ctx, "coro", "SrThunkMC", cfg="SrThunkMC.cfg", env={"EDGES": sr_edges}, workers=1, timeout=600)
    rep.note("SrThunk: the join protocol holds (TLC, roles R/T/S/Q at schedule-point granularity); seeded defects "
             "(who_late; thorough: also start_early, no_destruct) are refuted as expected")
    behaviours, bp = make_behaviours(ctx, cat, by_id, sp, int(os.environ.get("VERIF_CORO_CAP", "0") or 0) or (4000 if ctx.quick else 40000))
    # ---- replay
    outp = os.path.join(ctx.work, "replay_out.ndjson")
    lp = os.path.join(ctx.work, "coro_log.ndjson")
    t0 = time.time()
    sums, deaths = vlib.run_batches(ctx, exe, ["--behaviours", bp, "--out", outp], len(behaviours), lp, timeout=3000)
    rep.note("replayed %d behaviours in %.1fs" % (sum(s["ran"] for s in sums), time.time() - t0))
    got = {}
    for l in open(outp):
        try:
            r = json.loads(l)
        except Exception:
            continue
        if "obs" in r:
            got[r["x"]] = r
    rep.evaluations += len(got)

    describe = lambda b: describe_b(by_id, b)

    for d in deaths:
        x = d["x"]
        b = behaviours[x] if x < len(behaviours) else None
        text, modes, steps = describe(b) if b else ("?", {}, [])
        rec = dict(engine="coro", event=d["event"], script=text, modes=modes, steps=steps, asan=d.get("asan"), frame=d.get("frame"), where=d.get("where"),
                   what="%s while replaying [%s] modes %s steps %s: %s %s" % (d["event"], text, modes, steps, d.get("asan", ""), d.get("frame", "")),
                   detail=d.get("stderr_tail"))
        if prop == "C10":
            rep.violation(rec)          # C10 is a lifetime statement (frames destroyed exactly once): memory events are verdicts
        else:
            rep.oos.append(rec)
    tainted = set(d["x"] for d in deaths)
    ndrift = collections.Counter()
    for x, b in enumerate(behaviours):
        r = got.get(x)
        if r is None or x in tainted:
            continue
        if len(b["steps"]) > 1:
            rep.distinct.add(hash((b["cfg"]["script"], json.dumps(b["cfg"]["mode"], sort_keys=True), tuple((s["k"], s["n"], s["ch"]) for s in b["steps"]))))
        obs = r["obs"]
        err = [o for o in obs if "error" in o]
        diffs = compare([s["exp"] for s in b["steps"]], [o for o in obs[:-1] if "error" not in o][:len(b["steps"])]) if not err else {"drift.unreplayable": err[0]["error"]}
        if diffs:
            rep.drift += 1
            for k in diffs:
                ndrift[k] += 1
            if rep.drift <= 4 or (os.environ.get("VERIF_CORO_DEBUG") and ndrift[sorted(diffs)[0]] <= 3):
                text, modes, steps = describe(b)
                rep.note("observation differs from Tasks.tla (not an alarm; the monitor decides) in [%s] modes %s steps %s: %s" % (text, modes, steps, list(diffs.items())[:2]))
    if ndrift:
        rep.note("observation differences by class: %s" % dict(ndrift))
    # ---- code -> spec: every recorded execution is validated by TLC against the monitor TaskMon
    t0 = time.time()
    n, rejected = vlib.validate_batched(ctx, "coro", "TaskMon", lp, env={"PROP": monprop}, skip_x=tainted, max_reports=8)
    rep.note("%d recorded executions validated against TaskMon[%s] in %.0fs" % (n, monprop, time.time() - t0))
    for rj in rejected:
        x = rj["x"]
        b = behaviours[x] if x is not None and x < len(behaviours) else None
        text, modes, steps = describe(b) if b else ("?", {}, [])
        nxt = rj["events"][rj["prefix"]] if rj.get("prefix") is not None and rj["prefix"] < len(rj["events"]) else None
        rep.violation(dict(engine="coro", event="MonitorReject", monitor="TaskMon", rules=monprop, script=text, modes=modes, steps=steps,
                           rejected_event=nxt, rejected_kind=(nxt or {}).get("e"), **root_fields(rj["events"], rj.get("prefix")),
                           what="TaskMon[%s] rejects the execution of [%s] modes %s steps %s at event %s: %s" % (monprop, text, modes, steps, rj.get("prefix"), json.dumps(nxt)),
                           events=rj["events"][:250]))
    # ---- out-of-scope observation: stop callbacks still registered on the receiver's token at a done completion (C04 territory)
    nregs = 0
    for ex in vlib.split_executions(lp):
        for ln in ex[1]:
            if '"e":"RootComplete"' in ln and '"regs":0' not in ln:
                nregs += 1
    if nregs and prop != "C04":
        rep.oos.append(dict(event="StopCallbackRegisteredAtCompletion", count=nregs,
                            what="the outermost task completed (with done, no stop requested) while the stop-token adapter of its awaiter was still "
                                 "subscribed to the receiver's stop token (unsubscribed only when the operation is destroyed); not part of C10"))
    ex = vlib.split_executions(lp)
    if ex:
        rep.sample(dict(kind="recorded-trace", events=[json.loads(x) for x in ex[len(ex) // 2][1][:60]]))
    for b in behaviours[:2]:
        text, modes, steps = describe(b)
        rep.sample(dict(kind="tlc-behaviour", script=text, modes=modes,
                        steps=[dict(k=s["k"], n=s["n"], ch=s["ch"], expect=[e["e"] + str([e["k"], e["a"]]) for e in s["exp"]["ev"]]) for s in b["steps"]]))
    # ---- controlled threads: completion of the awaited leaf / stop request / (two-thread) scheduler race on the real thunk
    run_race(ctx, exe_race, sr_edges, monprop)
    rep.rule("one evaluation = one TLC behaviour (script x leaf modes x external step sequence incl. the stop request position) replayed on the real "
             "task<> machinery, its event log validated by TLC against TaskMon; distinct_nontrivial = distinct (script, modes, step sequence) with "
             "more than one external step")


# ----------------------------------------------------------------------------- controlled-thread mode
def race_scenarios(tier):
    def mode(txt):
        m = {}
        for t in txt.split():
            l, x = t.split(":")
            m[l] = dict(inl=x[0] == "i", ch=(x[1] if x[1] != "D" else "v"), onStop="done" if x[1] == "D" else "ignore")
        return m
    S = []
    def scn(bodies, modes, aLeaf, aCh, stopper=True, nsched=2):
        S.append(dict(id=len(S) + 1, text=" | ".join(bodies), body=[parse_body(b) for b in bodies], mode=mode(modes),
                      aLeaf=aLeaf, aCh=aCh, stopper=stopper, nsched=nsched, thunks=1 + sum(b.count("O") for b in bodies)))
    scn(["A1 R5"], "1:dv", 1, "v")                                   # await a leaf
    scn(["L1 X1 A1 R5"], "1:dD", 1, "v")                             # ... that completes with done when it sees the stop request
    scn(["X1 T1 R5", "L1 X2 A1 R6"], "1:dv", 1, "e")                 # nested task awaiting a leaf that fails
    scn(["O1 R5", "X1 A1 R6"], "1:dD", 1, "v")                       # done_as_optional(child): thunk inside thunk
    scn(["A1 Q R5"], "1:dv", 1, "v")                                 # stop_if_requested after the await
    scn(["L1 X1 A1 R5"], "1:dD", 0, "v")                             # nobody completes the leaf: the stop request must reach it
    if tier != "quick":
        scn(["S1 A1 R5"], "1:dv", 1, "v")                            # two contexts
        scn(["Y1.2 A1 R5"], "1:dv 2:iv", 1, "v")                     # suspending cleanup action
        scn(["T1c A2 R5", "A1 W7"], "1:dv 2:iv", 1, "e")
        scn(["O1c R5", "L1 A1 W8"], "1:dv", 1, "v")
        scn(["X1 T1 R5", "T2 R6", "A1 R7"], "1:dD", 1, "d")          # depth 3, the completer cancels
        scn(["A1 R5"], "1:dv", 1, "v", nsched=1)                     # single scheduler thread
        scn(["O1 R5", "X1 A1 R6"], "1:dv", 1, "d")
        scn(["A1 R5"], "1:dv", 1, "v", stopper=False)
    return S


SR_VISIBLE = {"coro.sr.fin_destruct", "coro.sr.fin_who", "coro.sr.fin_fsub", "coro.sr.cb_fadd", "coro.sr.op_fsub", "coro.sr.op_who", "coro.h.stop"}


def sr_graph(path):
    adj = collections.defaultdict(list)
    inits, fin, edges = set(), set(), set()
    for l in open(path):
        e = json.loads(l)
        s, t = tuple(e["s"]), tuple(e["t"])
        adj[s].append((e["lab"], t))
        edges.add((s, e["lab"], t))
        if e["init"]:
            inits.add(s)
        if e["fin"]:
            fin.add(t)
    return adj, inits, fin, edges


def sr_follow(g, sched, used):
    """Is the order of the thunk's steps in a recorded schedule a behaviour of SrThunk?  (set-of-states simulation, tau-closed)"""
    adj, inits, fin, _ = g

    def closure(S):
        S = set(S)
        st = list(S)
        while st:
            x = st.pop()
            for lab, t in adj.get(x, ()):
                if lab == "tau":
                    used.add((x, lab, t))
                    if t not in S:
                        S.add(t)
                        st.append(t)
        return S
    cur = closure(inits)
    for i, (t, site) in enumerate(sched):
        if site not in SR_VISIBLE:
            continue
        nxt = set()
        for x in cur:
            for lab, u in adj.get(x, ()):
                if lab == site:
                    nxt.add(u)
                    used.add((x, lab, u))
        if not nxt:
            return "no %s step of SrThunk is possible at schedule position %d" % (site, i)
        cur = closure(nxt)
    if not (cur & fin):
        return "SrThunk has not terminated at the end of the schedule"
    return None


def run_race(ctx, exe, sr_edges, monprop):
    rep = ctx.rep
    prop = ctx.prop
    scns = race_scenarios(ctx.tier)
    rep.assume("controlled-thread mode: %d scripts; threads = scheduler M (starts the task, drains the contexts), second scheduler thread Q, "
               "completer A (completes the awaited leaf from a foreign context), stopper B (request_stop on the receiver's source); schedule "
               "points coro.sr.* (task.hpp thunk atomics), stop.* (inplace_stop_source), spin_wait; sequentially consistent interleavings at "
               "schedule-point granularity, DFS with preemption bound %d (capped) + seeded random schedules" % (len(scns), 2 if ctx.quick else 3))
    sp = os.path.join(ctx.work, "race_scenarios.json")
    json.dump(scns, open(sp, "w"))
    g = sr_graph(sr_edges)
    used = set()
    hooked = "coro.sr.fin_fsub" in open(os.path.join(ctx.repo, "include", "unifex", "task.hpp")).read()
    if not hooked:
        rep.note("task.hpp has no coro.sr.* schedule points in this tree: the controlled-thread mode only interleaves at stop.* / harness sites")
    runs = [("dfs", ["--mode", "dfs", "--bound", 2 if ctx.quick else 3, "--cap", 50 if ctx.quick else 400]),
            ("random", ["--mode", "random", "--seed", ctx.seed, "--cap", 25 if ctx.quick else 200])]
    lp = os.path.join(ctx.work, "race_log.ndjson")
    open(lp, "w").close()
    t0 = time.time()
    nexec = {}
    for mode, args in runs:
        lpm = os.path.join(ctx.work, "race_log_%s.ndjson" % mode)
        outp = os.path.join(ctx.work, "race_out_%s.ndjson" % mode)
        sums, deaths = vlib.run_batches(ctx, exe, ["--scenarios", sp, "--out", outp] + args, len(scns), lpm, timeout=3000)
        with open(lp, "a") as f:
            f.write(open(lpm).read())
        execs = sum(s["execs"] for s in sums)
        nexec[mode] = execs
        rep.evaluations += execs
        for d in deaths:
            sc = scns[d["x"]] if d["x"] < len(scns) else {}
            rec = dict(engine="coro", mode="race-" + mode, event=d["event"], script=sc.get("text"), scenario=sc.get("id"), asan=d.get("asan"),
                       frame=d.get("frame"), where=d.get("where"),
                       what="%s in controlled-thread mode (%s) on [%s] completer=%s stopper=%s: %s %s" % (
                           d["event"], mode, sc.get("text"), sc.get("aCh") if sc.get("aLeaf") else "-", sc.get("stopper"), d.get("asan", ""), d.get("frame", "")),
                       detail=d.get("stderr_tail"))
            if prop == "C10":
                rep.violation(rec)         # memory event / terminate / deadlock (lost completion) in a lifetime + progress statement
            else:
                rep.oos.append(rec)
        ndrift = 0
        if os.path.exists(outp):
            for l in open(outp):
                try:
                    r = json.loads(l)
                except Exception:
                    continue
                rep.distinct.add(hash((mode, r["x"], json.dumps(r["sched"]))))
                if hooked and scns[r["x"]]["thunks"] == 1:
                    why = sr_follow(g, r["sched"], used)
                    if why:
                        ndrift += 1
                        rep.drift += 1
                        if ndrift <= 2:
                            rep.note("race-%s: thunk step order not a behaviour of SrThunk (drift, not an alarm) in [%s]: %s; %s" % (
                                mode, scns[r["x"]]["text"], why, [x for x in r["sched"] if x[1] in SR_VISIBLE]))
    n, rejected = vlib.validate_batched(ctx, "coro", "TaskMon", lp, env={"PROP": monprop}, max_reports=6)
    for rj in rejected:
        x = rj["x"]
        sc = scns[x] if x is not None and x < len(scns) else {}
        nxt = rj["events"][rj["prefix"]] if rj.get("prefix") is not None and rj["prefix"] < len(rj["events"]) else None
        rep.violation(dict(engine="coro", mode="race", event="MonitorReject", monitor="TaskMon", rules=monprop, script=sc.get("text"),
                           scenario=sc.get("id"), rejected_event=nxt, rejected_kind=(nxt or {}).get("e"), **root_fields(rj["events"], rj.get("prefix")),
                           what="TaskMon[%s] rejects a controlled-thread execution of [%s] at event %s: %s" % (
                               monprop, sc.get("text"), rj.get("prefix"), json.dumps(nxt)),
                           events=rj["events"][:250]))
    rep.note("controlled threads: %s executions on %d scripts, all validated against TaskMon[%s], %.0fs" % (nexec, len(scns), monprop, time.time() - t0))
    if hooked:
        _, _, _, edges = g
        rep.note("SrThunk conformance: the thunk steps of every single-thunk execution follow the model; %d of %d model transitions covered by real executions"
                 % (len(used & edges), len(edges)))


def root_fields(events, prefix):
    """Fields that identify a RootComplete rejection precisely (for known-finding matching)."""
    ev = events[prefix] if prefix is not None and prefix < len(events) else {}
    if ev.get("e") != "RootComplete":
        return {}
    return dict(root_ch=ev.get("ch"), root_regs=ev.get("regs"), ext_stop=any(e.get("e") == "ExtStop" for e in events[:prefix]))


def make_behaviours(ctx, cat, by_id, sp, cap):
    """TLC macro-step export -> edge-covering behaviours -> (seeded, script-stratified sample, file for the driver)."""
    rep = ctx.rep
    # ---- TLC: macro steps + export
    edges = os.path.join(ctx.work, "edges.ndjson")
    t0 = time.time()
    vlib.model_check(ctx, "coro", "TasksMacro", env={"SCRIPTS": sp, "EDGES": edges}, workers=1, timeout=3000, xmx="8g")
    t1 = time.time()
    macro, inits, nedges = macro_graph(edges)
    os.remove(edges)
    walks = vlib.edge_cover(macro, inits)
    rep.exhaustive = True
    behaviours = []
    for w in walks:
        cfg = w[0]["cfg"]
        sc = by_id[cfg["script"]]
        steps = [dict(k=m["ext"]["k"], n=m["ext"]["n"], ch=m["ext"]["ch"], exp=m["obs"]) for i, m in enumerate(w)]
        behaviours.append(dict(cfg=dict(script=sc["id"], body=sc["body"], mode=cfg["mode"]), steps=steps, started=False))
    rep.note("%d scripts; %d macro-steps exported (TLC %.0fs); %d edge-covering behaviours (%.0fs)" % (len(cat), nedges, t1 - t0, len(behaviours), time.time() - t1))
    nall = len(behaviours)
    if nall > cap:
        groups = collections.defaultdict(list)
        for b in behaviours:
            groups[b["cfg"]["script"]].append(b)
        per = max(1, cap // max(1, len(groups)))
        chosen, rest = [], []
        for sid in sorted(groups):
            g = groups[sid]
            ctx.rng.shuffle(g)
            chosen += g[:per]
            rest += g[per:]
        ctx.rng.shuffle(rest)
        behaviours = chosen + rest[:max(0, cap - len(chosen))]
        rep.note("replaying a seeded script-stratified sample of %d of %d edge-covering behaviours (seed %d)" % (len(behaviours), nall, ctx.seed))
    else:
        ctx.rng.shuffle(behaviours)
    bp = os.path.join(ctx.work, "behaviours.ndjson")
    with open(bp, "w") as f:
        for i, b in enumerate(behaviours):
            f.write(json.dumps(dict(b=i, cfg=b["cfg"], steps=[dict(k=s["k"], n=s["n"], ch=s["ch"]) for s in b["steps"]])) + "\n")
    return behaviours, bp


def describe_b(by_id, b):
    sc = by_id[b["cfg"]["script"]]
    return sc["text"], {l: ("%s%s%s" % ("inline " if m["inl"] else "deferred ", m["ch"] if m["inl"] else "", "" if m["inl"] or m["onStop"] == "ignore" else "stop->done")).strip()
                        for l, m in sorted(b["cfg"]["mode"].items())}, [(s["k"], s["n"], s["ch"]) for s in b["steps"]]


# ----------------------------------------------------------------------------- C20: build configurations
def run_c20(ctx, cat, by_id, sp, build_cfg):
    """The same TLC behaviours replayed on the real task<> machinery built in several configurations; per behaviour the
    observation sequences (events with payloads and contexts after every external step, final drain included) must be
    identical, a crash/terminate in one configuration only is a difference too; with async stacks on, TaskMon[C20]
    additionally demands that the driving thread has no current AsyncStackRoot whenever it is back in the harness."""
    rep = ctx.rep
    cfgs = [("cxx20-debug-asyncstacks", ()), ("cxx20-ndebug", ("NDEBUG",))]
    if not ctx.quick:
        cfgs.append(("cxx20-ndebug-asyncstacks", ("NDEBUG", "UNIFEX_NO_ASYNC_STACKS=0")))
    rep.assume("configurations compared (g++-12 -std=c++20 -fcoroutines, ASan+UBSan): %s" % ", ".join(n for n, _ in cfgs))
    exes = [(n, build_cfg(d)) for n, d in cfgs]
    behaviours, bp = make_behaviours(ctx, cat, by_id, sp, int(os.environ.get("VERIF_CORO_CAP", "0") or 0) or (1500 if ctx.quick else 15000))
    res = {}
    for name, exe in exes:
        outp = os.path.join(ctx.work, "c20_out_%s.ndjson" % name)
        lp = os.path.join(ctx.work, "c20_log_%s.ndjson" % name)
        t0 = time.time()
        sums, deaths = vlib.run_batches(ctx, exe, ["--behaviours", bp, "--out", outp], len(behaviours), lp, timeout=3000, max_deaths=60)
        got = {}
        for l in open(outp):
            try:
                r = json.loads(l)
            except Exception:
                continue
            if "obs" in r:
                got[r["x"]] = r
        dead = {d["x"]: d for d in deaths}
        last = max(list(got) + list(dead) + [-1])          # run_batches gives up after max_deaths: nothing beyond `last` was run
        res[name] = dict(got=got, dead=dead, last=last, log=lp)
        rep.evaluations += len(got)
        rep.note("[%s] replayed %d behaviours (%d died) in %.1fs" % (name, len(got), len(dead), time.time() - t0))
        if "asyncstacks" in name:
            n, rejected = vlib.validate_batched(ctx, "coro", "TaskMon", lp, env={"PROP": "C20"}, skip_x=set(dead), max_reports=4)
            rep.note("[%s] %d executions validated against TaskMon[C20] (no current AsyncStackRoot at any quiescent point / at the end)" % (name, n))
            for rj in rejected:
                x = rj["x"]
                b = behaviours[x] if x is not None and x < len(behaviours) else None
                text, modes, steps = describe_b(by_id, b) if b else ("?", {}, [])
                nxt = rj["events"][rj["prefix"]] if rj.get("prefix") is not None and rj["prefix"] < len(rj["events"]) else None
                rep.violation(dict(engine="coro", event="MonitorReject", monitor="TaskMon", rules="C20", config=name, script=text, modes=modes, steps=steps,
                                   rejected_event=nxt, rejected_kind=(nxt or {}).get("e"),
                                   what="TaskMon[C20] (async-stack bookkeeping balanced) rejects the execution of [%s] modes %s steps %s built as %s at event %s: %s" % (
                                       text, modes, steps, name, rj.get("prefix"), json.dumps(nxt)),
                                   events=rj["events"][:250]))
    base = cfgs[0][0]
    ndiff = 0
    for name, _ in cfgs[1:]:
        A, B = res[base], res[name]
        for x, b in enumerate(behaviours):
            if x > min(A["last"], B["last"]):
                break
            da, db = A["dead"].get(x), B["dead"].get(x)
            ra, rb = A["got"].get(x), B["got"].get(x)
            why = None
            if (da is None) != (db is None):
                d, cn, other = (da, base, name) if da else (db, name, base)
                why = "%s (%s %s) in configuration %s, normal completion in %s" % (d["event"], d.get("asan") or "", (d.get("frame") or (d.get("stderr_tail") or "")[-200:]).strip(), cn, other)
            elif ra is not None and rb is not None and (ra["obs"] != rb["obs"] or ra["root"] != rb["root"] or ra["live"] != rb["live"]):
                k = next((i for i, (p, q) in enumerate(zip(ra["obs"], rb["obs"])) if p != q), min(len(ra["obs"]), len(rb["obs"])))
                why = "observations differ at external step %d: %s sees %s, %s sees %s" % (
                    k, base, json.dumps(ra["obs"][k] if k < len(ra["obs"]) else None)[:300], name, json.dumps(rb["obs"][k] if k < len(rb["obs"]) else None)[:300])
            if len(b["steps"]) > 1:
                rep.distinct.add(hash((name, b["cfg"]["script"], json.dumps(b["cfg"]["mode"], sort_keys=True), tuple((s["k"], s["n"], s["ch"]) for s in b["steps"]))))
            if why:
                ndiff += 1
                if ndiff <= 8:
                    text, modes, steps = describe_b(by_id, b)
                    kinds = sorted(set(st["k"] for body in b["cfg"]["body"] for st in body))
                    rep.violation(dict(engine="coro", event="ConfigDiffers", configs=[base, name], script=text, modes=modes, steps=steps, kinds=kinds,
                                       what="build configuration changes the behaviour of [%s] modes %s steps %s: %s" % (text, modes, steps, why)))
    rep.note("pairwise comparison of %d behaviours across %d configurations: %d differences" % (len(behaviours), len(cfgs), ndiff))
    rep.rule("one evaluation = one TLC behaviour replayed in one build configuration; the observation sequences of every behaviour are compared "
             "pairwise against the debug+async-stacks configuration; executions of async-stack builds are validated by TLC against TaskMon[C20]")
