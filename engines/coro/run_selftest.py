#!/usr/bin/env python3
"""Runs engines/coro/selftest.json: each entry is applied to a private copy of the tree (include/ + source/), then
`./check C10 --tier quick --engine coro` must exit 1 (violation) resp. 0 (clean).
Usage: run_selftest.py <tree> [names...]   (results appended to engines/coro/selftest_result.json)"""
import json, os, shutil, subprocess, sys, concurrent.futures as cf
here = os.path.dirname(os.path.abspath(__file__))
tree = sys.argv[1]
names = set(sys.argv[2:])
ents = [e for e in json.load(open(os.path.join(here, "selftest.json"))) if not names or e["name"] in names]
def one(e):
    d = "/var/tmp/coro_st/" + e["name"]
    shutil.rmtree(d, ignore_errors=True); os.makedirs(d)
    for sub in ("include", "source"):
        shutil.copytree(os.path.join(tree, sub), os.path.join(d, sub))
    p = subprocess.run(["patch", "-p1", "-s"], input=e["patch"], cwd=d, text=True, capture_output=True)
    if p.returncode: return e["name"], "patch failed: " + p.stdout + p.stderr, None
    env = dict(os.environ, VERIF_REPO=d, VERIF_JOBS="2", VERIF_EVIDENCE_DIR="/var/tmp/coro_st/ev_" + e["name"])
    p = subprocess.run(["./check", "C10", "--tier", "quick", "--engine", "coro"], cwd="/verif", env=env, text=True, capture_output=True)
    shutil.rmtree(d, ignore_errors=True)
    lines = [l for l in (p.stdout + p.stderr).splitlines() if l.startswith("VIOLATION") or l.startswith("  ") or "Broken" in l or "broken" in l][:8]
    return e["name"], p.returncode, lines
res = []
with cf.ThreadPoolExecutor(2) as ex:
    for (name, rc, lines), e in zip(ex.map(one, ents), ents):
        want = 1 if e["expect"] == "violation" else 0
        print("%-40s expect=%-9s rc=%s %s" % (name, e["expect"], rc, "OK" if rc == want else "MISMATCH"), flush=True)
        for l in (lines or [])[:5]: print("     " + l[:400], flush=True)
        res.append(dict(name=name, expect=e["expect"], rc=rc, ok=(rc == want), lines=(lines or [])[:5]))
rp = os.path.join(here, "selftest_result.json")
old = {r["name"]: r for r in (json.load(open(rp)) if os.path.exists(rp) else [])}
old.update({r["name"]: r for r in res})
json.dump(list(old.values()), open(rp, "w"), indent=1)
