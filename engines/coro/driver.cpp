// Coroutine driver (C10 / task clause of C11): replays TLC behaviours of spec/coro/Tasks.tla on the real
// unifex::task<> machinery.  One generic interpreter coroutine (coro_rt.hpp) executes the scripted task bodies;
// the outermost task is connected as a sender to a recording receiver whose completion destroys the operation.
#include "coro_rt.hpp"

#include <nlohmann/json.hpp>
#include <unifex/tracing/async_stack.hpp>

#include <fstream>

#include "heap_replace.hpp"

using namespace coro_h;
using json = nlohmann::json;

static json ev_json(const Ev& e) { return {{"e", e.e}, {"k", e.k}, {"a", e.a}, {"p", e.p}, {"ctx", {std::string(1, e.ctxk), e.ctxn}}}; }

static void configure(World& w, const json& beh) {
  const json& cfg = beh["cfg"];
  for (auto& b : cfg["body"]) {
    std::vector<Stmt> v;
    for (auto& s : b) v.push_back(Stmt{s["k"].get<std::string>()[0], s["a"].get<int>(), s.value("b", 0)});
    w.body.push_back(std::move(v));
  }
  for (auto it = cfg["mode"].begin(); it != cfg["mode"].end(); ++it) {
    const json& m = it.value();
    LeafCtl c; c.id = std::stoi(it.key()); c.inl = m["inl"].get<bool>(); c.ch = m["ch"].get<std::string>()[0]; c.onStopDone = m["onStop"].get<std::string>() == "done";
    w.leaf[c.id] = c;
  }
}

struct OpHandle { virtual void start() noexcept = 0; virtual ~OpHandle() = default; };
template <class Op> struct OpImpl final : OpHandle {
  Op op;
  template <class F> explicit OpImpl(F&& f) : op(f()) {}
  void start() noexcept override { unifex::start(op); }
};
template <class F> OpHandle* make_op(F&& f) { return new OpImpl<decltype(f())>((F&&)f); }

static int ctx_pending(World& w) { int n = 0; for (auto& [c, q] : w.ctxq) n += (int)q.size(); return n; }
static int pending(World& w) {
  int n = ctx_pending(w);
  for (auto& [id, c] : w.leaf) if (c.started && !c.completed) ++n;
  return n;
}

// run one behaviour; returns the observations after every step
static json run_behaviour(const json& beh, World& w) {
  configure(w, beh);
  json out = json::array();
  size_t mark = 0;
  OpHandle* op = nullptr;
  w.cur().k = 'C'; w.cur().n = 0;
  vrt::ev("{\"e\":\"Connect\"}");
  op = make_op([&] { return unifex::connect(run(w, 0, FrameTag(&w, 0)), Recv{&w}); });
  w.destroyOp = [&op] { OpHandle* p = op; op = nullptr; vrt::ev("{\"e\":\"OpDestroy\"}"); delete p; };
  for (auto& st : beh["steps"]) {
    std::string k = st["k"].get<std::string>(); int n = st["n"].get<int>();
    w.cur().k = k[0]; w.cur().n = n;
    if (k == "S") { w.cur().k = 'C'; w.cur().n = 0; vrt::ev("{\"e\":\"StartBegin\"}"); if (op) op->start(); vrt::ev("{\"e\":\"StartEnd\"}"); }
    else if (k == "X") { vrt::ev("{\"e\":\"ExtStop\"}"); w.src.request_stop(); }
    else if (k == "L") {
      auto& c = w.leaf[n];
      if (!c.complete) { out.push_back({{"error", "leaf not completable"}, {"l", n}}); break; }
      auto f = c.complete; f(st["ch"].get<std::string>()[0]);
    } else if (k == "C") {
      auto& q = w.ctxq[n];
      if (q.empty()) { out.push_back({{"error", "context queue empty"}, {"ctx", n}}); break; }
      vrt::ev("{\"e\":\"RunCtx\",\"ctx\":%d}", n);
      auto it = std::move(q.front()); q.pop_front(); it.run();
    }
    int asr = 0;
#if !UNIFEX_NO_ASYNC_STACKS
    asr = unifex::tryGetCurrentAsyncStackRoot() != nullptr ? 1 : 0;
#endif
    vrt::ev("{\"e\":\"Quiescent\",\"pending\":%d,\"ctxp\":%d,\"asr\":%d}", pending(w), ctx_pending(w), asr);
    json evs = json::array();
    for (; mark < w.obs.size(); ++mark) evs.push_back(ev_json(w.obs[mark]));
    out.push_back({{"ev", evs}, {"seen", w.seen}, {"pending", pending(w)}, {"root", w.rootCount}});
  }
  // drain: finish whatever is still outstanding so that the operation can be destroyed legally
  vrt::ev("{\"e\":\"Drain\"}");
  for (int round = 0; round < 64; ++round) {
    bool any = false;
    for (auto& [id, c] : w.leaf) if (c.complete) { any = true; w.cur().k = 'L'; w.cur().n = id; auto f = c.complete; f('d'); }
    for (auto& [c, q] : w.ctxq) while (!q.empty()) { any = true; w.cur().k = 'C'; w.cur().n = c; auto it = std::move(q.front()); q.pop_front(); it.run(); }
    if (!any) break;
  }
  w.cur().k = '-'; w.cur().n = 0;
  if (op) { auto d = std::move(w.destroyOp); w.destroyOp = nullptr; if (d) d(); }
  json evs = json::array();
  for (; mark < w.obs.size(); ++mark) evs.push_back(ev_json(w.obs[mark]));
  out.push_back({{"ev", evs}, {"seen", w.seen}, {"pending", pending(w)}, {"root", w.rootCount}});
  return out;
}

int main(int argc, char** argv) {
  vrt::Args a(argc, argv);
  vrt::install_handlers();
  if (a.has("log")) vrt::log_open(a.str("log").c_str());
  std::ifstream in(a.str("behaviours"));
  FILE* out = std::fopen(a.str("out").c_str(), "a");
  long from = a.num("from", 0), to = a.num("to", 1L << 40), x = -1, ran = 0;
  std::string line;
  while (std::getline(in, line)) {
    if (line.empty()) continue;
    ++x; if (x < from || x >= to) continue;
    vrt::ev("{\"e\":\"Reset\",\"x\":%ld}", x);
    vrt::log_flush();                       // a death in this execution must be attributed to it (UBSan/abort do not flush)
    std::fprintf(stderr, "@@X %ld\n", x);
    heapacct::n = 0; heapacct::overflow = 0; heapacct::on = true;
    size_t live = 0, bad = 0; int root = 0; std::string rec;
    {
      json beh = json::parse(line);
      World w;
      json obs = run_behaviour(beh, w);
      live = w.tr.live.size(); bad = w.tr.bad.size(); root = w.rootCount;
      json badj = w.tr.bad;
      rec = json({{"x", x}, {"b", beh.value("b", x)}, {"obs", obs}, {"live", live}, {"bad", badj}, {"root", root}}).dump();
    }
    heapacct::on = false;
    // blocks allocated during the execution that are still alive although the operation, the World and every
    // per-execution harness object are gone (the result string `rec` is the only survivor: 1 block at most)
    int heap = heapacct::n - (rec.capacity() > 15 ? 1 : 0);
    int asr = 0;
#if !UNIFEX_NO_ASYNC_STACKS
    asr = unifex::tryGetCurrentAsyncStackRoot() != nullptr ? 1 : 0;
#endif
    vrt::ev("{\"e\":\"End\",\"live\":%zu,\"bad\":%zu,\"heap\":%d,\"root\":%d,\"asr\":%d}", live, bad, heap, root, asr);
    std::fprintf(out, "%s\n", rec.c_str());
    std::fprintf(out, "{\"x\":%ld,\"heap\":%d}\n", x, heap);
    ++ran;
    std::fflush(out);
  }
  std::fclose(out);
  vrt::log_close();
  std::printf("{\"ran\":%ld}\n", ran);
  return 0;
}
