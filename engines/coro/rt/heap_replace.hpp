// Replaced global allocation functions (include from exactly one translation unit per executable).
// Coroutine frames of task<> are allocated with ::operator new: see heapacct in coro_rt.hpp.
#pragma once
#include "coro_rt.hpp"
#include <new>
void* operator new(std::size_t n) { void* p = std::malloc(n ? n : 1); if (!p) throw std::bad_alloc(); heapacct::add(p); return p; }
void* operator new[](std::size_t n) { return ::operator new(n); }
void operator delete(void* p) noexcept { if (p) { heapacct::del(p); std::free(p); } }
void operator delete[](void* p) noexcept { ::operator delete(p); }
void operator delete(void* p, std::size_t) noexcept { ::operator delete(p); }
void operator delete[](void* p, std::size_t) noexcept { ::operator delete(p); }

