// Harness runtime of the coroutine engine (C10, task clause of C11).
// Tracked values / locals / frame tags, a controllable leaf sender, manual scheduler contexts, the recording outer
// receiver with a counting stop token (types adapted from engines/alg/alg_rt.hpp) and ONE generic interpreter
// coroutine  unifex::task<Val> run(World&, int k, FrameTag)  whose body is a switch over scripted statements.
#pragma once
#include "vrt.hpp"

#include <unifex/at_coroutine_exit.hpp>
#include <unifex/connect_awaitable.hpp>
#include <unifex/done_as_optional.hpp>
#include <unifex/get_stop_token.hpp>
#include <unifex/inplace_stop_token.hpp>
#include <unifex/manual_lifetime.hpp>
#include <unifex/receiver_concepts.hpp>
#include <unifex/scheduler_concepts.hpp>
#include <unifex/sender_concepts.hpp>
#include <unifex/stop_if_requested.hpp>
#include <unifex/task.hpp>
#include <unifex/then.hpp>

#include <deque>
#include <optional>
#include <set>
#include <tuple>
#include <unordered_set>
#include <variant>

// ---------------------------------------------------------------- heap accounting (coroutine frames use ::operator new)
// Every block obtained from the replaced global operator new while accounting is on is remembered until it is
// deleted; what is left when the execution (including the harness' own per-execution state) is gone was leaked.
namespace heapacct {
inline bool on = false;
inline void* live[1 << 14];
inline int n = 0;
inline long overflow = 0;
inline std::atomic_flag lk = ATOMIC_FLAG_INIT;     // threads of the controlled-thread mode exit concurrently
struct Guard { Guard() { while (lk.test_and_set(std::memory_order_acquire)) {} } ~Guard() { lk.clear(std::memory_order_release); } };
inline thread_local bool skip = false;              // the schedule chooser's own bookkeeping (DFS stack) outlives an execution
inline void add(void* p) { if (!on || skip) return; Guard g; if (n < (1 << 14)) live[n++] = p; else ++overflow; }
inline void del(void* p) { Guard g; for (int i = n - 1; i >= 0; --i) if (live[i] == p) { live[i] = live[--n]; return; } }
}  // namespace heapacct

namespace coro_h {
using Payload = std::vector<int>;
struct Tagged { Payload p; };          // the only exception type the harness throws

struct World;
struct Cur { char k = '-'; int n = 0; };
inline thread_local Cur tl_cur;

// ---------------------------------------------------------------- object tracking
struct Track {
  std::unordered_set<const void*> live;
  std::vector<std::string> bad;
  void born(const void* p, const char* what) { if (!live.insert(p).second) bad.push_back(std::string("constructed-over-live ") + what); }
  void died(const void* p, const char* what) { if (live.erase(p) == 0) bad.push_back(std::string("destroyed-twice-or-never-constructed ") + what); }
};

struct LeafCtl {
  int id = 0; bool inl = false; char ch = 'v'; bool onStopDone = false;
  bool started = false, completed = false;
  std::function<void(char)> complete;     // valid while started && !completed
};
struct Stmt { char k; int a; int b; };   // see run()
struct Ev { std::string e; int k; int a; Payload p; char ctxk; int ctxn; };   // semantic observation (compared with the spec's)
struct SchedItem { std::function<void()> run; };

struct World {
  Track tr;
  std::vector<std::vector<Stmt>> body;
  std::map<int, LeafCtl> leaf;
  std::vector<Ev> obs;                     // ordered observations
  std::set<int> seen;                      // leaves whose stop callback ran
  std::map<int, std::deque<SchedItem>> ctxq;
  Cur& cur() const { return tl_cur; }      // context tag of the calling thread (controlled-thread mode: one per thread)
  unifex::inplace_stop_source src; int regs = 0;
  int rootCount = 0;
  std::function<void()> destroyOp;
  void note(const char* e, int k, int a, Payload p = {}) { obs.push_back(Ev{e, k, a, std::move(p), tl_cur.k, tl_cur.n}); }
};

// ---------------------------------------------------------------- tracked value (provenance payload)
struct Val {
  World* w; Payload p;
  Val(World* w, Payload q) : w(w), p(std::move(q)) { w->tr.born(this, "Val"); }
  Val(const Val& o) : w(o.w), p(o.p) { w->tr.born(this, "Val"); }
  Val(Val&& o) noexcept : w(o.w), p(std::move(o.p)) { w->tr.born(this, "Val"); }
  Val& operator=(const Val& o) { p = o.p; return *this; }
  Val& operator=(Val&& o) noexcept { p = std::move(o.p); return *this; }
  ~Val() { w->tr.died(this, "Val"); }
};
// a local variable of an interpreted coroutine body
struct Local {
  World* w; int k, a;
  Local(World* w, int k, int a) : w(w), k(k), a(a) { w->tr.born(this, "Local"); vrt::ev("{\"e\":\"LocalCtor\",\"k\":%d,\"a\":%d}", k, a); w->note("LocalCtor", k, a); }
  Local(const Local&) = delete;
  ~Local() { w->tr.died(this, "Local"); vrt::ev("{\"e\":\"LocalDtor\",\"k\":%d,\"a\":%d}", k, a); w->note("LocalDtor", k, a); }
};
// passed BY VALUE to a coroutine.  The argument object itself is a temporary of the caller (destroyed at the end of the
// caller's full expression); the coroutine ramp move-constructs the copy that lives in the coroutine frame, and that copy
// dies exactly when the frame is destroyed: only moved-into objects report FrameGone.
struct FrameTag {
  World* w; int k; bool inFrame = false;
  FrameTag(World* w, int k) : w(w), k(k) { w->tr.born(this, "FrameTag"); }
  FrameTag(const FrameTag& o) : w(o.w), k(o.k) { w->tr.born(this, "FrameTag"); }
  FrameTag(FrameTag&& o) noexcept : w(o.w), k(o.k), inFrame(true) { w->tr.born(this, "FrameTag"); }
  ~FrameTag() {
    w->tr.died(this, "FrameTag");
    if (inFrame && k < 100) { vrt::ev("{\"e\":\"FrameGone\",\"k\":%d}", k); w->note("FrameGone", k, 0); }
  }
};

inline void flat1(Payload& out, const Val& v) { out.insert(out.end(), v.p.begin(), v.p.end()); }
inline void flat1(Payload& out, const std::exception_ptr& e) {
  try { std::rethrow_exception(e); } catch (Tagged& t) { out.insert(out.end(), t.p.begin(), t.p.end()); } catch (...) { out.push_back(-999); }
}
template <class T> void flat1(Payload& out, const std::optional<T>& o) { if (o) flat1(out, *o); else out.push_back(0); }
template <class... A> Payload flat(const A&... a) { Payload p; (flat1(p, a), ...); return p; }
inline std::string pj(const Payload& p) { std::string s = "["; for (size_t i = 0; i < p.size(); ++i) { if (i) s += ","; s += std::to_string(p[i]); } return s + "]"; }

// ---------------------------------------------------------------- counting stop token of the outer receiver
struct CountingToken {
  World* w; unifex::inplace_stop_token tok;
  template <class F> struct callback_type {
    struct Wrapped {
      World* w; bool* executed; F f;
      void operator()() noexcept { *executed = true; --w->regs; f(); }   // f() may destroy this callback object
    };
    // Members die in reverse order: cb first (its destructor deregisters and, if the callback is running on another
    // thread, waits for it), then `count`, which settles the account: a callback that was dequeued for execution has
    // already been subtracted by Wrapped::operator().
    struct Count { World* w; bool* executed; ~Count() { if (!*executed) --w->regs; } };
    World* w; bool executed = false; Count count; unifex::inplace_stop_callback<Wrapped> cb;
    template <class F2> callback_type(CountingToken t, F2&& f) : w(t.w), count{t.w, &executed}, cb(t.tok, Wrapped{t.w, &executed, F((F2&&)f)}) { ++w->regs; }
  };
  bool stop_requested() const noexcept { return tok.stop_requested(); }
  bool stop_possible() const noexcept { return tok.stop_possible(); }
};

// ---------------------------------------------------------------- manual scheduler context
struct CtxSched {
  World* w; int ctx;
  template <class R> struct Op {
    World* w; int ctx; R r;
    template <class R2> Op(World* w, int ctx, R2&& r) : w(w), ctx(ctx), r((R2&&)r) { w->tr.born(this, "SchedOp"); }
    Op(Op&&) = delete;
    ~Op() { w->tr.died(this, "SchedOp"); }
    void start() noexcept {
      vrt::ev("{\"e\":\"SchedStart\",\"ctx\":%d}", ctx);
      w->ctxq[ctx].push_back({[this] { run(); }});
    }
    void run() noexcept {
      bool stopped = false;
      if constexpr (!unifex::is_stop_never_possible_v<unifex::stop_token_type_t<R&>>) stopped = unifex::get_stop_token(r).stop_requested();
      if (stopped) unifex::set_done(std::move(r)); else unifex::set_value(std::move(r));
    }
  };
  struct Sender {
    World* w; int ctx;
    template <template <class...> class V, template <class...> class T> using value_types = V<T<>>;
    template <template <class...> class V> using error_types = V<std::exception_ptr>;
    static constexpr bool sends_done = true;
    static constexpr unifex::blocking_kind blocking = unifex::blocking_kind::never;
    static constexpr bool is_always_scheduler_affine = false;
    template <class R> Op<unifex::remove_cvref_t<R>> connect(R&& r) const { return Op<unifex::remove_cvref_t<R>>{w, ctx, (R&&)r}; }
  };
  Sender schedule() const noexcept { return Sender{w, ctx}; }
  friend bool operator==(const CtxSched& a, const CtxSched& b) noexcept { return a.ctx == b.ctx; }
  friend bool operator!=(const CtxSched& a, const CtxSched& b) noexcept { return a.ctx != b.ctx; }
};

// ---------------------------------------------------------------- controllable leaf sender
template <class R> struct LeafOp {
  World* w; LeafCtl* c; R r;
  struct Cb { LeafOp* op; void operator()() noexcept { op->on_stop(); } };
  using ST = unifex::stop_token_type_t<R&>;
  unifex::manual_lifetime<typename ST::template callback_type<Cb>> cb;
  bool cbLive = false, constructing = false, pendingStop = false, running = false;
  template <class R2> LeafOp(World* w, LeafCtl* c, R2&& r) : w(w), c(c), r((R2&&)r) { w->tr.born(this, "LeafOp"); }
  LeafOp(LeafOp&&) = delete;
  ~LeafOp() {
    w->tr.died(this, "LeafOp");
    if (running) w->tr.bad.push_back("leaf-op-destroyed-while-running " + std::to_string(c->id));
  }
  void start() noexcept {
    bool stopped = false;
    if constexpr (!unifex::is_stop_never_possible_v<ST>) stopped = unifex::get_stop_token(r).stop_requested();
    c->started = true; c->completed = false; running = true;
    w->seen.erase(c->id);
    w->note("LeafStart", c->id, stopped ? 1 : 0);
    bool stoppable = false;      // aw: 0 = leaf sender with a live stop token, 1 = awaitable leaf, 2 = leaf sender whose token can never stop
    if constexpr (!unifex::is_stop_never_possible_v<ST>) stoppable = unifex::get_stop_token(r).stop_possible();
    vrt::ev("{\"e\":\"LeafStart\",\"l\":%d,\"stopped\":%d,\"aw\":%d}", c->id, stopped ? 1 : 0, stoppable ? 0 : 2);
    c->complete = [this](char ch) { finish(ch); };
    LeafCtl* cc = c;        // our own completion may destroy this operation state
    constructing = true;
    cb.construct(unifex::get_stop_token(r), Cb{this});
    cbLive = true; constructing = false;
    if (pendingStop) { pendingStop = false; on_stop(); if (cc->completed) return; }
    if (cc->inl) finish(cc->ch);
  }
  void on_stop() noexcept {
    if (constructing) { pendingStop = true; return; }
    w->seen.insert(c->id);
    w->note("LeafStopSeen", c->id, 0);
    vrt::ev("{\"e\":\"LeafStopSeen\",\"l\":%d}", c->id);
    if (c->onStopDone && !c->inl && !c->completed) finish('d');
  }
  void finish(char ch) noexcept {
    c->completed = true; c->started = false; c->complete = nullptr; running = false;
    if (cbLive) { cbLive = false; cb.destruct(); }
    int id = c->id; World* ww = w;
    vrt::ev("{\"e\":\"LeafComplete\",\"l\":%d,\"ch\":\"%c\"}", id, ch);
    R rr = std::move(r);                   // the receiver may destroy this operation state
    if (ch == 'v') unifex::set_value(std::move(rr), Val(ww, Payload{id}));
    else if (ch == 'e') unifex::set_error(std::move(rr), std::make_exception_ptr(Tagged{{id}}));
    else unifex::set_done(std::move(rr));
  }
};
struct Leaf {
  template <template <class...> class V, template <class...> class T> using value_types = V<T<Val>>;
  template <template <class...> class V> using error_types = V<std::exception_ptr>;
  static constexpr bool sends_done = true;
  static constexpr unifex::blocking_kind blocking = unifex::blocking_kind::maybe;
  static constexpr bool is_always_scheduler_affine = false;
  World* w; int id;
  Leaf(World* w, int id) noexcept : w(w), id(id) {}
  template <class R> LeafOp<unifex::remove_cvref_t<R>> connect(R&& r) const { return LeafOp<unifex::remove_cvref_t<R>>{w, &w->leaf[id], (R&&)r}; }
};

// ---------------------------------------------------------------- controllable leaf in awaitable form
// (value / error only: with async stacks the awaiter is handed a coro_resumer handle, which has no unhandled_done()).
// A plain awaitable that is no sender: task<>'s await_transform routes it through unifex::await_transform (which wraps it
// into _awaitable_wrapper when async stacks are on), as_sender and with_scheduler_affinity.  Flavours = the shapes of
// await_ready / await_suspend the wrapper has to cope with:
//   'M'  handle-returning await_suspend: returns the awaiting coroutine itself (inline) / noop_coroutine (deferred)
//   'H'  handle-returning await_suspend: symmetric transfer to a harness trampoline coroutine that resumes the awaiter (inline)
//   'B'  bool await_suspend: returns false = does not suspend (inline) / true, resumed later by the script (deferred)
//   'V'  await_ready() == true (inline) / void await_suspend, resumed later by the script (deferred)
struct Tramp {        // a coroutine that, when resumed, destroys itself and transfers to `target`
  struct promise_type {
    std::coroutine_handle<> target;
    Tramp get_return_object() noexcept { return Tramp{std::coroutine_handle<promise_type>::from_promise(*this)}; }
    std::suspend_always initial_suspend() noexcept { return {}; }
    auto final_suspend() noexcept {
      struct A {
        std::coroutine_handle<> t;
        bool await_ready() noexcept { return false; }
        std::coroutine_handle<> await_suspend(std::coroutine_handle<> me) noexcept { auto tt = t; me.destroy(); return tt; }
        void await_resume() noexcept {}
      };
      return A{target};
    }
    void return_void() noexcept {}
    void unhandled_exception() noexcept { std::terminate(); }
  };
  std::coroutine_handle<promise_type> h;
};
inline Tramp make_tramp() { co_return; }

struct AwBase {
  World* w; LeafCtl* c; char ch = 'v';
  void begin() noexcept {
    c->started = true; c->completed = false;
    w->note("LeafStart", c->id, 0);
    vrt::ev("{\"e\":\"LeafStart\",\"l\":%d,\"stopped\":0,\"aw\":1}", c->id);
  }
  void finish(char x) noexcept {
    c->completed = true; c->started = false; c->complete = nullptr; ch = x;
    vrt::ev("{\"e\":\"LeafComplete\",\"l\":%d,\"ch\":\"%c\"}", c->id, x);
  }
  void defer(std::coroutine_handle<> cont) { c->complete = [this, cont](char x) { finish(x); cont.resume(); }; }
  Val await_resume() { if (ch == 'e') throw Tagged{{c->id}}; return Val(w, Payload{c->id}); }
};
template <char F> struct AwLeafT {
  World* w; int id;
  struct Awaiter : AwBase {
    bool await_ready() noexcept {
      if constexpr (F == 'V') { if (this->c->inl) { this->begin(); this->finish(this->c->ch); return true; } }
      return false;
    }
    template <class P> auto await_suspend(std::coroutine_handle<P> h) noexcept {
      std::coroutine_handle<> cont = h;
      this->begin();
      if constexpr (F == 'M') {
        if (this->c->inl) { this->finish(this->c->ch); return cont; }
        this->defer(cont);
        return std::coroutine_handle<>(std::noop_coroutine());
      } else if constexpr (F == 'H') {
        if (this->c->inl) {
          this->finish(this->c->ch);
          Tramp t = make_tramp(); t.h.promise().target = cont;
          return std::coroutine_handle<>(t.h);
        }
        this->defer(cont);
        return std::coroutine_handle<>(std::noop_coroutine());
      } else if constexpr (F == 'B') {
        if (this->c->inl) { this->finish(this->c->ch); return false; }
        this->defer(cont);
        return true;
      } else {
        this->defer(cont);       // 'V', deferred (the inline mode never gets here)
      }
    }
  };
  Awaiter operator co_await() const noexcept { return Awaiter{{w, &w->leaf[id]}}; }
};
using AwLeaf = AwLeafT<'M'>;

// ---------------------------------------------------------------- outer receiver
struct Recv {
  World* w;
  void done(char ch, Payload p) noexcept {
    World* ww = w;
    ++ww->rootCount;
    vrt::ev("{\"e\":\"RootComplete\",\"ch\":\"%c\",\"p\":%s,\"ck\":\"%c\",\"cn\":%d,\"regs\":%d}", ch, pj(p).c_str(), ww->cur().k, ww->cur().n, ww->regs);
    ww->note(ch == 'v' ? "RootValue" : ch == 'e' ? "RootError" : "RootDone", 0, 0, std::move(p));
    if (ww->destroyOp) { auto d = std::move(ww->destroyOp); ww->destroyOp = nullptr; d(); }
  }
  template <class... Ts> void set_value(Ts&&... ts) noexcept { done('v', flat(ts...)); }
  template <class E> void set_error(E&& e) noexcept { done('e', flat(e)); }
  void set_done() noexcept { done('d', {}); }
  friend CountingToken tag_invoke(unifex::tag_t<unifex::get_stop_token>, const Recv& r) noexcept { return CountingToken{r.w, r.w->src.get_token()}; }
  friend CtxSched tag_invoke(unifex::tag_t<unifex::get_scheduler>, const Recv& r) noexcept { return CtxSched{r.w, 0}; }
};

// ---------------------------------------------------------------- the interpreter coroutine
// Statement kinds (a, b = integer arguments):
//   'L' a      declare tracked local a
//   'X' a      register cleanup action a with at_coroutine_exit (the action is a small task that logs its id)
//   'Y' a l    register cleanup action a that itself co_awaits leaf sender l (the action suspends)
//   'A' i b    co_await leaf sender i; b=1: catch its exception and continue (b=0: log and rethrow)
//   'N' i b    co_await as_sender(awaitable leaf i)          (awaitable -> sender -> awaitable round trip)
//   'M' i b    co_await awaitable leaf i                     (await_transform of a natural awaitable; handle-returning await_suspend)
//   'H' 'B' 'V'  ... other awaiter shapes of the same leaf (trampoline handle / bool await_suspend / await_ready or void await_suspend)
//   'T' c b    co_await run(child c); b as for 'A'
//   'O' c b    co_await done_as_optional(run(child c))       (done becomes an empty optional: the parent continues)
//   'S' c      co_await schedule(context c)
//   'Q'        co_await stop_if_requested()
//   'W' a      throw Tagged{a}
//   'R' a      co_return Val{a}
#define CTXF "\"ck\":\"%c\",\"cn\":%d"
inline unifex::task<Val> run(World& w, int k, FrameTag);

inline unifex::task<void> cleanup_action(World* w, int k, int a, FrameTag) {
  vrt::ev("{\"e\":\"Cleanup\",\"k\":%d,\"a\":%d," CTXF "}", k, a, w->cur().k, w->cur().n);
  w->note("Cleanup", k, a);
  co_return;
}

inline unifex::task<void> cleanup_action_await(World* w, int k, int a, int l, FrameTag) {
  vrt::ev("{\"e\":\"CleanupBegin\",\"k\":%d,\"a\":%d," CTXF "}", k, a, w->cur().k, w->cur().n);
  w->note("CleanupBegin", k, a);
  { Val v = co_await Leaf(w, l); (void)v; }
  vrt::ev("{\"e\":\"Cleanup\",\"k\":%d,\"a\":%d," CTXF "}", k, a, w->cur().k, w->cur().n);
  w->note("Cleanup", k, a);
  co_return;
}

inline unifex::task<Val> run(World& w, int k, FrameTag) {
  vrt::ev("{\"e\":\"Body\",\"k\":%d," CTXF "}", k, w.cur().k, w.cur().n);
  w.note("Body", k, 0);
  std::vector<std::unique_ptr<Local>> locals;
  struct Rev { std::vector<std::unique_ptr<Local>>& l; ~Rev() { while (!l.empty()) l.pop_back(); } } rev{locals};   // reverse order of declaration
  auto gotValue = [&](const char* e, const Stmt& s, const Payload& p) {
    vrt::ev("{\"e\":\"%s\",\"k\":%d,\"n\":%d,\"p\":%s," CTXF "}", e, k, s.a, pj(p).c_str(), w.cur().k, w.cur().n);
    w.note(e, k, s.a, p);
  };
  auto gotError = [&](const char* e, const Stmt& s, const Payload& p) {
    vrt::ev("{\"e\":\"%s\",\"k\":%d,\"n\":%d,\"p\":%s,\"re\":%d," CTXF "}", e, k, s.a, pj(p).c_str(), s.b ? 0 : 1, w.cur().k, w.cur().n);
    w.note(e, k, s.a, p);
  };
  for (const Stmt& s : w.body[k]) {
    switch (s.k) {
      case 'L': locals.push_back(std::make_unique<Local>(&w, k, s.a)); break;
      case 'X':
        co_await unifex::at_coroutine_exit(cleanup_action, &w, k, s.a, FrameTag(&w, 100 + k));
        vrt::ev("{\"e\":\"Reg\",\"k\":%d,\"a\":%d," CTXF "}", k, s.a, w.cur().k, w.cur().n);
        w.note("Reg", k, s.a);
        break;
      case 'Y':
        co_await unifex::at_coroutine_exit(cleanup_action_await, &w, k, s.a, s.b, FrameTag(&w, 100 + k));
        vrt::ev("{\"e\":\"Reg\",\"k\":%d,\"a\":%d," CTXF "}", k, s.a, w.cur().k, w.cur().n);
        w.note("Reg", k, s.a);
        break;
      case 'A': case 'N': case 'M': case 'H': case 'B': case 'V':
        vrt::ev("{\"e\":\"Await\",\"k\":%d,\"l\":%d}", k, s.a);
        try {
          if (s.k == 'A') { Val v = co_await Leaf(&w, s.a); gotValue("AwaitValue", s, v.p); }
          else if (s.k == 'N') { Val v = co_await unifex::as_sender(AwLeaf{&w, s.a}); gotValue("AwaitValue", s, v.p); }
          else if (s.k == 'M') { Val v = co_await AwLeafT<'M'>{&w, s.a}; gotValue("AwaitValue", s, v.p); }
          else if (s.k == 'H') { Val v = co_await AwLeafT<'H'>{&w, s.a}; gotValue("AwaitValue", s, v.p); }
          else if (s.k == 'B') { Val v = co_await AwLeafT<'B'>{&w, s.a}; gotValue("AwaitValue", s, v.p); }
          else { Val v = co_await AwLeafT<'V'>{&w, s.a}; gotValue("AwaitValue", s, v.p); }
        } catch (Tagged& t) {
          gotError("AwaitThrew", s, t.p);
          if (!s.b) throw;
        } catch (...) {                       // anything else is not one of the harness' errors: report it and let it escape
          gotError("AwaitThrew", Stmt{s.k, s.a, 0}, Payload{-999});
          throw;
        }
        break;
      case 'T': case 'O':
        vrt::ev("{\"e\":\"AwaitTask\",\"k\":%d,\"c\":%d,\"mode\":\"%c\"}", k, s.a, s.k);
        try {
          if (s.k == 'T') { Val v = co_await run(w, s.a, FrameTag(&w, s.a)); gotValue("TaskValue", s, v.p); }
          else {
            std::optional<Val> o = co_await unifex::done_as_optional(run(w, s.a, FrameTag(&w, s.a)));
            gotValue("TaskValue", s, o ? o->p : Payload{0});
          }
        } catch (Tagged& t) {
          gotError("TaskThrew", s, t.p);
          if (!s.b) throw;
        } catch (...) {
          gotError("TaskThrew", Stmt{s.k, s.a, 0}, Payload{-999});
          throw;
        }
        break;
      case 'S':
        vrt::ev("{\"e\":\"Sched\",\"k\":%d,\"to\":%d}", k, s.a);
        co_await unifex::schedule(CtxSched{&w, s.a});
        vrt::ev("{\"e\":\"Switched\",\"k\":%d,\"to\":%d," CTXF "}", k, s.a, w.cur().k, w.cur().n);
        w.note("Switched", k, s.a);
        break;
      case 'Q':
        vrt::ev("{\"e\":\"StopIf\",\"k\":%d}", k);
        co_await unifex::stop_if_requested();
        vrt::ev("{\"e\":\"NotStopped\",\"k\":%d," CTXF "}", k, w.cur().k, w.cur().n);
        w.note("NotStopped", k, 0);
        break;
      case 'W':
        vrt::ev("{\"e\":\"Throw\",\"k\":%d,\"a\":%d}", k, s.a);
        throw Tagged{{s.a}};
      case 'R':
        vrt::ev("{\"e\":\"Return\",\"k\":%d,\"a\":%d," CTXF "}", k, s.a, w.cur().k, w.cur().n);
        w.note("Return", k, s.a);
        co_return Val(&w, Payload{s.a});
    }
  }
  vrt::ev("{\"e\":\"Return\",\"k\":%d,\"a\":%d," CTXF "}", k, 900 + k, w.cur().k, w.cur().n);
  w.note("Return", k, 900 + k);
  co_return Val(&w, Payload{900 + k});
}
}  // namespace coro_h
