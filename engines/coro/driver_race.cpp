// Controlled-thread mode of the coroutine engine (C10: "stop requests arriving at each suspension point from another
// thread"; binds spec/coro/SrThunk.tla to task.hpp's stop-request thunk).
// Threads under the token-passing controller (rt/vrt.hpp):
//   1  scheduler M: starts the connected task on context 0, then drains the manual contexts
//   2  scheduler Q (optional): drains the manual contexts too, so that the deferred stop request can run concurrently
//      with the task's completion (a two-thread scheduler)
//   3  completer A: completes the leaf the innermost task is awaiting, from a foreign context
//   4  stopper B: request_stop() on the receiver's stop source
// Schedule points: coro.sr.* (the thunk's atomics in task.hpp), stop.* (inplace_stop_source), spin_wait, and the
// harness' own coro.h.* sites.  Bounded-preemption DFS / seeded random schedules; every execution's event log is
// validated by TLC against TaskMon; ASan/UBSan on; the receiver destroys the operation inside its completion.
#include "coro_rt.hpp"
#include "heap_replace.hpp"

#include <nlohmann/json.hpp>

#include <fstream>
#include <malloc.h>

using namespace coro_h;
using json = nlohmann::json;

struct OpHandle { virtual void start() noexcept = 0; virtual ~OpHandle() = default; };
template <class Op> struct OpImpl final : OpHandle {
  Op op;
  template <class F> explicit OpImpl(F&& f) : op(f()) {}
  void start() noexcept override { unifex::start(op); }
};
template <class F> OpHandle* make_op(F&& f) { return new OpImpl<decltype(f())>((F&&)f); }

static void configure(World& w, const json& sc) {
  for (auto& b : sc["body"]) {
    std::vector<Stmt> v;
    for (auto& s : b) v.push_back(Stmt{s["k"].get<std::string>()[0], s["a"].get<int>(), s.value("b", 0)});
    w.body.push_back(std::move(v));
  }
  for (auto it = sc["mode"].begin(); it != sc["mode"].end(); ++it) {
    const json& m = it.value();
    LeafCtl c; c.id = std::stoi(it.key()); c.inl = m["inl"].get<bool>(); c.ch = m["ch"].get<std::string>()[0]; c.onStopDone = m["onStop"].get<std::string>() == "done";
    w.leaf[c.id] = c;
  }
}
static int ctx_pending(World& w) { int n = 0; for (auto& [c, q] : w.ctxq) n += (int)q.size(); return n; }
static int pending(World& w) { int n = ctx_pending(w); for (auto& [id, c] : w.leaf) if (c.started && !c.completed) ++n; return n; }

int main(int argc, char** argv) {
  vrt::Args a(argc, argv);
  vrt::install_handlers();
  std::vector<json> scns;
  { std::ifstream f(a.str("scenarios")); json j; f >> j; for (auto& s : j) scns.push_back(s); }
  if (a.has("log")) vrt::log_open(a.str("log").c_str());
  FILE* out = a.has("out") ? std::fopen(a.str("out").c_str(), "a") : nullptr;
  std::string mode = a.str("mode", "dfs");
  long from = a.num("from", 0), to = a.num("to", 1L << 40), cap = a.num("cap", 300); int bound = (int)a.num("bound", 2);
  unsigned seed = (unsigned)a.num("seed", 1);
  long execs = 0, steps = 0;
  std::set<std::string> distinct;

  auto runOne = [&](const json& sc, long x, long k, const std::function<vrt::RunResult(vrt::Ctl&)>& drive) {
    vrt::ev("{\"e\":\"Reset\",\"x\":%ld,\"k\":%ld,\"scn\":%d}", x, k, sc["id"].get<int>());
    vrt::log_flush();
    std::fprintf(stderr, "@@X %ld\n", x);
    heapacct::n = 0; heapacct::overflow = 0; heapacct::on = true;
    size_t live = 0, bad = 0; int root = 0; std::string sched;
    {
      World w;
      configure(w, sc);
      const int aLeaf = sc.value("aLeaf", 0); const std::string aCh = sc.value("aCh", std::string("v"));
      const bool stopper = sc.value("stopper", true); const int nsched = sc.value("nsched", 2);
      OpHandle* op = nullptr;
      tl_cur = Cur{'C', 0};
      vrt::ev("{\"e\":\"Connect\"}");
      op = make_op([&] { return unifex::connect(run(w, 0, FrameTag(&w, 0)), Recv{&w}); });
      w.destroyOp = [&op] { OpHandle* p = op; op = nullptr; vrt::ev("{\"e\":\"OpDestroy\"}"); delete p; };
      vrt::RunResult rr;
      {
        vrt::Ctl c; c.accept = {"coro.", "stop.", "spin_wait"};
        auto drain = [&w] {
          for (;;) {
            int cx = -1;
            for (auto& [id, q] : w.ctxq) if (!q.empty()) { cx = id; break; }
            if (cx >= 0) {
              UNIFEX_VERIF_YIELD("coro.h.run");
              auto& q = w.ctxq[cx];
              if (q.empty()) continue;                    // the other scheduler thread took it
              auto it = std::move(q.front()); q.pop_front();
              tl_cur = Cur{'C', cx};
              vrt::ev("{\"e\":\"RunCtx\",\"ctx\":%d}", cx);
              it.run();
              continue;
            }
            if (w.rootCount > 0) break;                   // completed and nothing left to run
            ::unifex_verif::call_hook("coro.h.wait", 1);
          }
        };
        c.spawn(1, [&] {
          UNIFEX_VERIF_YIELD("coro.h.start");
          tl_cur = Cur{'C', 0};
          vrt::ev("{\"e\":\"StartBegin\"}"); if (op) op->start(); vrt::ev("{\"e\":\"StartEnd\"}");
          drain();
        });
        if (nsched > 1) c.spawn(2, [&] { drain(); });
        if (aLeaf > 0) c.spawn(3, [&] {
          LeafCtl& lc = w.leaf[aLeaf];
          while (!lc.complete && !lc.completed && w.rootCount == 0) ::unifex_verif::call_hook("coro.h.wait", 1);
          UNIFEX_VERIF_YIELD("coro.h.complete");
          if (lc.complete) { tl_cur = Cur{'L', aLeaf}; auto f = lc.complete; f(aCh[0]); }
        });
        if (stopper) c.spawn(4, [&] {
          UNIFEX_VERIF_YIELD("coro.h.stop");
          tl_cur = Cur{'X', 0};
          vrt::ev("{\"e\":\"ExtStop\"}");
          w.src.request_stop();
        });
        c.start_all();
        heapacct::skip = true; rr = drive(c); heapacct::skip = false;
        if (rr.deadlock) {
          std::string s = vrt::sched_json(rr);
          vrt::ev("{\"e\":\"Deadlock\",\"sched\":%s}", s.c_str());
          vrt::log_flush();
          std::fprintf(stderr, "deadlock in scenario %d schedule %s\n", sc["id"].get<int>(), s.c_str());
          _exit(75);
        }
        c.join();
      }
      tl_cur = Cur{'-', 0};
      vrt::ev("{\"e\":\"Quiescent\",\"pending\":%d,\"ctxp\":%d,\"asr\":0}", pending(w), ctx_pending(w));
      vrt::ev("{\"e\":\"Drain\"}");
      for (int round = 0; round < 16; ++round) {
        bool any = false;
        for (auto& [id, lc] : w.leaf) if (lc.complete) { any = true; tl_cur = Cur{'L', id}; auto f = lc.complete; f('d'); }
        for (auto& [cx, q] : w.ctxq) while (!q.empty()) { any = true; tl_cur = Cur{'C', cx}; auto it = std::move(q.front()); q.pop_front(); it.run(); }
        if (!any) break;
      }
      if (op) { auto d = std::move(w.destroyOp); w.destroyOp = nullptr; if (d) d(); }
      live = w.tr.live.size(); bad = w.tr.bad.size(); root = w.rootCount;
      sched = "[";
      for (size_t i = 0; i < rr.steps.size(); ++i) { if (i) sched += ","; sched += "[" + std::to_string(rr.steps[i].t) + ",\"" + rr.steps[i].site + "\"]"; }
      sched += "]";
      steps += (long)rr.steps.size();
    }
    heapacct::on = false;
    int heap = heapacct::n - (sched.capacity() > 15 ? 1 : 0);
    if (getenv("VERIF_HEAPDBG")) for (int i = 0; i < heapacct::n; ++i) std::fprintf(stderr, "leftover block %p size %zu\n", heapacct::live[i], malloc_usable_size(heapacct::live[i]));
    vrt::ev("{\"e\":\"End\",\"live\":%zu,\"bad\":%zu,\"heap\":%d,\"root\":%d,\"asr\":0}", live, bad, heap, root);
    if (out) std::fprintf(out, "{\"x\":%ld,\"k\":%ld,\"scn\":%d,\"root\":%d,\"live\":%zu,\"heap\":%d,\"sched\":%s}\n", x, k, sc["id"].get<int>(), root, live, heap, sched.c_str());
    ++execs;
    distinct.insert(std::to_string(x) + sched);
  };

  for (long x = from; x < to && x < (long)scns.size(); ++x) {
    const json& sc = scns[x];
    if (mode == "dfs") {
      vrt::Dfs d; d.bound = bound; long k = 0;
      do { runOne(sc, x, k, [&](vrt::Ctl& c) { return vrt::run_dfs(c, d); }); ++k; } while (d.advance() && k < cap);
    } else {
      std::mt19937 rng(seed * 7919u + (unsigned)x);
      for (long k = 0; k < cap; ++k) runOne(sc, x, k, [&](vrt::Ctl& c) { return vrt::run_random(c, rng, 35); });
    }
  }
  if (out) std::fclose(out);
  vrt::log_close();
  json s = {{"mode", mode}, {"execs", execs}, {"steps", steps}, {"distinct_schedules", (long)distinct.size()}};
  std::printf("%s\n", s.dump().c_str());
  return 0;
}
