// Sender-algebra driver: replays TLC behaviours of spec/algebra/Senders.tla on the real adaptors
// (generated factories, one per catalogue shape) and writes what it observed after every step.
#include "alg_rt.hpp"

#include <nlohmann/json.hpp>
#include <unifex/tracing/async_stack.hpp>

#include <fstream>

using namespace alg;
using json = nlohmann::json;

static json obs_json(World& w) {
  json root = json::array();
  for (auto& r : w.root) root.push_back({{"ch", std::string(1, r.ch)}, {"p", r.p}, {"ctx", {std::string(1, r.ctxk), r.ctxn}}, {"regs", r.regs}, {"inStart", r.inStart}});
  json starts = json::array();
  for (auto& s : w.starts) starts.push_back({{"l", s.l}, {"ctx", {std::string(1, s.ctxk), s.ctxn}}, {"stopped", s.stopped}});
  json fn = json::array();
  for (auto& f : w.fn) fn.push_back({f.q, f.p});
  json env = json::object();
  for (auto& [l, e] : w.env) env[std::to_string(l)] = {{"sched", e.sched}, {"query", e.query}, {"alloc", e.alloc}, {"stoppable", e.stoppable}};
  return {{"root", root}, {"starts", starts}, {"seen", w.seen}, {"fn", fn}, {"env", env}};
}

static void configure(World& w, const json& beh) {
  g_w = &w;
  const json& cfg = beh["cfg"];
  for (auto it = cfg["mode"].begin(); it != cfg["mode"].end(); ++it) {
    const json& m = it.value();
    LeafCtl c; c.id = std::stoi(it.key()); c.inl = m["inl"].get<bool>(); c.ch = m["ch"].get<std::string>()[0]; c.onStopDone = m["onStop"].get<std::string>() == "done";
    w.leaf[c.id] = c;
  }
  w.throwAt = cfg["throwAt"].get<int>(); w.stopIn = cfg["stopIn"].get<int>();
  w.copyThrowAt = beh.value("copyThrowAt", 0L);
  w.moveThrowAt = beh.value("moveThrowAt", 0L);
  w.rootDestroysOp = beh.value("destroyInCompletion", true);
}

// run one behaviour; returns the observation after every step
static json run_behaviour(Factory make, const json& beh, World& w) {
  configure(w, beh);
  json out = json::array();
  OpHandle* op = nullptr;
  bool connectThrew = false;
  vrt::ev("{\"e\":\"Connect\"}");
  try { op = make(w); }
  catch (Tagged& t) { connectThrew = true; vrt::ev("{\"e\":\"ConnectThrew\"}"); }
  if (op) w.destroyOp = [&op] { OpHandle* p = op; op = nullptr; vrt::ev("{\"e\":\"OpDestroy\"}"); delete p; };
  for (auto& st : beh["steps"]) {
    std::string k = st["k"].get<std::string>(); int n = st["n"].get<int>();
    w.curk = k[0]; w.curn = n;
    if (connectThrew) break;
    if (k == "S") { vrt::ev("{\"e\":\"StartBegin\"}"); w.inStart = true; if (op) op->start(); w.inStart = false; vrt::ev("{\"e\":\"StartEnd\"}"); }
    else if (k == "X") { vrt::ev("{\"e\":\"ExtStop\"}"); w.src.request_stop(); }
    else if (k == "L") {
      auto& c = w.leaf[n];
      if (!c.complete) { out.push_back({{"error", "leaf not completable"}, {"l", n}}); break; }
      auto f = c.complete; f(st["ch"].get<std::string>()[0]);
    } else if (k == "I") {
      auto it = w.innerStop.find(n);
      if (it == w.innerStop.end()) { out.push_back({{"error", "no inner stop source"}, {"n", n}}); break; }
      auto f = it->second; f();
    } else if (k == "C") {
      auto& q = w.ctxq[n];
      if (q.empty()) { out.push_back({{"error", "context queue empty"}, {"ctx", n}}); break; }
      auto it = std::move(q.front()); q.pop_front(); it.run();
    }
    int pending = 0; for (auto& [id, c] : w.leaf) if (c.started && !c.completed) ++pending;
    for (auto& [c, q] : w.ctxq) pending += (int)q.size();
    int asr = 0;
#if !UNIFEX_NO_ASYNC_STACKS
    asr = unifex::tryGetCurrentAsyncStackRoot() != nullptr ? 1 : 0;   // the harness thread has no active async stack root outside library calls
#endif
    vrt::ev("{\"e\":\"Quiescent\",\"pending\":%d,\"asr\":%d}", pending, asr);
    out.push_back(obs_json(w));
  }
  // drain: finish whatever is still outstanding so that the operation can be destroyed legally
  for (int round = 0; round < 64; ++round) {
    bool any = false;
    for (auto& [id, c] : w.leaf) if (c.complete) { any = true; w.curk = 'L'; w.curn = id; auto f = c.complete; f('d'); }
    for (auto& [c, q] : w.ctxq) while (!q.empty()) { any = true; w.curk = 'C'; w.curn = c; auto it = std::move(q.front()); q.pop_front(); it.run(); }
    if (!any) break;
  }
  if (op) { auto d = std::move(w.destroyOp); w.destroyOp = nullptr; if (d) d(); }
  g_w = nullptr;
  return out;
}

int main(int argc, char** argv) {
  vrt::Args a(argc, argv);
  vrt::install_handlers();
  if (a.has("traits")) {
    json t = json::object();
    for (auto& [id, tr] : Registry::traits()) t[std::to_string(id)] = {{"blocking", tr.blocking}, {"sends_done", tr.sends_done}, {"affine", tr.affine}};
    std::printf("%s\n", t.dump().c_str());
    return 0;
  }
  if (a.has("sw")) {
    // sync_wait mode: each behaviour is "start with every leaf completing inline"; prints channel/payload/callables
    std::ifstream in(a.str("behaviours")); FILE* out = std::fopen(a.str("out").c_str(), "a");
    std::string line; long x = -1, from = a.num("from", 0), to = a.num("to", 1L << 40), ran = 0;
    while (std::getline(in, line)) {
      if (line.empty()) continue;
      ++x; if (x < from || x >= to) continue;
      json beh = json::parse(line);
      auto it = Registry::sw().find(beh["cfg"]["shape"].get<int>());
      if (it == Registry::sw().end()) continue;
      std::fprintf(stderr, "@@X %ld\n", x);
      Track::reset();
      json rec;
      { World w; configure(w, beh); SwResult r = it->second(w); g_w = nullptr;
        json fn = json::array(); for (auto& f : w.fn) fn.push_back({f.q, f.p});
        rec = {{"x", x}, {"ch", std::string(1, r.ch)}, {"p", r.p}, {"fn", fn}}; }
      rec["live"] = Track::live.size(); rec["bad"] = Track::bad;
      std::fprintf(out, "%s\n", rec.dump().c_str()); ++ran;
    }
    std::fclose(out);
    std::printf("%s\n", json({{"ran", ran}}).dump().c_str());
    return 0;
  }
  if (a.has("log")) vrt::log_open(a.str("log").c_str());
  std::ifstream in(a.str("behaviours"));
  FILE* out = std::fopen(a.str("out").c_str(), "a");
  long from = a.num("from", 0), to = a.num("to", 1L << 40), x = -1, ran = 0, skipped = 0;
  std::string line;
  while (std::getline(in, line)) {
    if (line.empty()) continue;
    ++x; if (x < from || x >= to) continue;
    json beh = json::parse(line);
    int shape = beh["cfg"]["shape"].get<int>();
    auto it = Registry::map().find(shape);
    if (it == Registry::map().end()) { ++skipped; continue; }
    vrt::ev("{\"e\":\"Reset\",\"x\":%ld,\"shape\":%d}", x, shape);
    std::fprintf(stderr, "@@X %ld\n", x);
    Track::reset();
    json obs;
    size_t live = 0; std::vector<std::string> bad;
    {
      World w;
      obs = run_behaviour(it->second, beh, w);
      live = Track::live.size(); bad = Track::bad;
      vrt::ev("{\"e\":\"End\",\"live\":%zu,\"bad\":%zu,\"rootCompletions\":%zu}", live, bad.size(), w.root.size());
      json rec = {{"x", x}, {"b", beh.value("b", x)}, {"obs", obs}, {"live", live}, {"bad", bad}, {"ctor", Track::ctor}, {"dtor", Track::dtor},
                  {"copies", w.copyCount}, {"moves", w.moveCount}, {"final", obs_json(w)}};
      std::fprintf(out, "%s\n", rec.dump().c_str());
    }
    ++ran;
    if ((ran & 255) == 0) std::fflush(out);
  }
  std::fclose(out);
  vrt::log_close();
  json s = {{"ran", ran}, {"skipped", skipped}};
  std::printf("%s\n", s.dump().c_str());
  return 0;
}
