// C12 (allocator clause): spawn_detached / spawn_future in function form and piped form over a v2 async_scope with a
// tagged counting allocator; the spawned sender is allocate(leaf) so that the leaf and a nested allocate() also
// observe the allocator visible below the spawn.  Cases and expected observations come from spec/algebra/SpawnAlloc.tla.
#include "alg_rt.hpp"

#include <unifex/spawn_detached.hpp>
#include <unifex/spawn_future.hpp>
#include <unifex/v2/async_scope.hpp>
#include <unifex/sync_wait.hpp>

#include <nlohmann/json.hpp>

#include <fstream>

using namespace alg;
using json = nlohmann::json;

struct Counts { int allocs = 0, frees = 0; std::map<int, int> byTag; bool foreignFree = false; };
static Counts* g_counts = nullptr;

// TagAlloc logs through vrt::ev only; count here as well
template <class T> struct CountAlloc {
  using value_type = T;
  World* w; int tag;
  CountAlloc(World* w, int tag) : w(w), tag(tag) {}
  template <class U> CountAlloc(const CountAlloc<U>& o) : w(o.w), tag(o.tag) {}
  T* allocate(size_t n) { ++g_counts->allocs; ++g_counts->byTag[tag]; return static_cast<T*>(::operator new(n * sizeof(T))); }
  void deallocate(T* p, size_t) { ++g_counts->frees; if (--g_counts->byTag[tag] < 0) g_counts->foreignFree = true; ::operator delete(p); }
  template <class U> bool operator==(const CountAlloc<U>& o) const { return tag == o.tag; }
  template <class U> bool operator!=(const CountAlloc<U>& o) const { return tag != o.tag; }
};
template <class R> int seenCountAlloc(const R& r) {
  auto a = unifex::get_allocator(r);
  if constexpr (std::is_same_v<decltype(a), CountAlloc<std::byte>>) return a.tag; else return -1;
}
// a leaf that completes inline and records the allocator it can see through its receiver
struct AllocProbe {
  template <template <class...> class V, template <class...> class T> using value_types = V<T<>>;
  template <template <class...> class V> using error_types = V<std::exception_ptr>;
  static constexpr bool sends_done = true;
  int* seen; char ch;
  template <class R> struct Op {
    int* seen; char ch; R r;
    void start() noexcept { *seen = seenCountAlloc(r); if (ch == 'v') unifex::set_value(std::move(r)); else unifex::set_done(std::move(r)); }
  };
  template <class R> Op<unifex::remove_cvref_t<R>> connect(R&& r) const { return Op<unifex::remove_cvref_t<R>>{seen, ch, (R&&)r}; }
};

int main(int argc, char** argv) {
  vrt::Args a(argc, argv);
  vrt::install_handlers();
  std::ifstream in(a.str("cases")); std::string line;
  FILE* out = std::fopen(a.str("out").c_str(), "w");
  while (std::getline(in, line)) {
    if (line.empty()) continue;
    json c = json::parse(line);
    std::string form = c["form"]; int tag = c["tag"]; char ch = c["ch"].get<std::string>()[0];
    Counts counts; g_counts = &counts; World w; int seen = -2;
    {
      unifex::v2::async_scope scope;
      CountAlloc<std::byte> alloc{&w, tag};
      auto mk = [&] { return unifex::allocate(AllocProbe{&seen, ch}); };
      if (form == "detached_fn") unifex::spawn_detached(mk(), scope, alloc);
      else if (form == "detached_pipe") mk() | unifex::spawn_detached(scope, alloc);
      else if (form == "future_fn") { auto f = unifex::spawn_future(mk(), scope, alloc); (void)f; }
      else if (form == "future_pipe") { auto f = mk() | unifex::spawn_future(scope, alloc); (void)f; }
      unifex::sync_wait(scope.join());
    }
    json rec = {{"form", form}, {"tag", tag}, {"ch", std::string(1, ch)}, {"allocs", counts.allocs}, {"frees", counts.frees},
                {"leafAlloc", seen}, {"foreignFree", counts.foreignFree}, {"live", counts.allocs - counts.frees}};
    std::fprintf(out, "%s\n", rec.dump().c_str());
    g_counts = nullptr;
  }
  std::fclose(out);
  return 0;
}
