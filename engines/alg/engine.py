"""Engine `alg`: spec/algebra/Senders.tla <-> the sender adaptors of include/unifex (C01 C02 C04 C05 C11 C12 C18 C20).

 1. shape catalogue (engines/alg/catalogue.py) -> JSON for TLC and generated C++ factories
 2. TLC: invariants on every behaviour of every shape x leaf-mode assignment (x throwing callable, x stop inside start)
 3. export of all transitions, collapse to quiescent macro-steps, edge-covering behaviours with the expected
    observation after every external step
 4. replay on the real adaptors (ASan/UBSan; the outer receiver destroys the operation inside its completion)
 5. compare observation fields relevant to the property; recorded event logs validated by TLC against AlgMon."""
import collections, hashlib, json, os, random, sys, time

sys.path.insert(0, os.path.join(os.path.dirname(__file__), "..", "..", "tools"))
sys.path.insert(0, os.path.dirname(__file__))
import vlib
import catalogue

HERE = os.path.dirname(os.path.abspath(__file__))


def gen_cpp(cat, outdir, per_tu=3, sw_every=0, sw_limit=10**9):
    os.makedirs(outdir, exist_ok=True)
    files = []
    for i in range(0, len(cat), per_tu):
        p = os.path.join(outdir, "shapes_%02d.cpp" % (i // per_tu))
        with open(p, "w") as f:
            f.write('#include "alg_rt.hpp"\n')
            for j, s in enumerate(cat[i:i + per_tu]):
                f.write("// %s\nALG_SHAPE(%d, %s)\n" % (s["spec"]["text"], s["spec"]["id"], s["cpp"]))
                if sw_every and (i + j) % sw_every == 0 and (i + j) < sw_limit and not any(k in ("sched", "lvwss") for k in s["spec"]["kind"]):
                    f.write("ALG_SHAPE_SW(%d)\n" % s["spec"]["id"])      # sync_wait as the outermost driver
        files.append(p)
    return files


def macro_graph(edges_path):
    """Read the macro-step graph exported by SendersMacro (quiescent --external action + cascade--> quiescent)."""
    macro = collections.defaultdict(list)
    targets = set()
    n = 0
    for l in open(edges_path):
        e = json.loads(l)
        s, t = tuple(e["s"]), tuple(e["t"])
        cfg = e["cfg"]
        if cfg.get("shape"):
            cfg = dict(cfg, mode={str(m["l"]): m["m"] for m in cfg["mode"]}, env={str(m["l"]): m["e"] for m in cfg["env"]})
        macro[s].append((t, dict(ext=e["ext"], cfg=cfg, obs=e["obs"])))
        targets.add(t)
        n += 1
    inits = [s for s in macro if s not in targets]
    return macro, inits, n


def norm_obs_exp(o):
    """Observation exported by TLC -> canonical dict."""
    return dict(root=[dict(ch=r["r"]["ch"], p=list(r["r"]["p"]), ctx=list(r["ctx"]), regs=r["regs"]) for r in o["root"]],
                starts=[dict(l=s["l"], ctx=list(s["ctx"]), stopped=s["stopped"]) for s in o["starts"]],
                seen=sorted(o["seen"]), fn=[[f[0], list(f[1])] for f in o["fn"]])


def norm_obs_got(o):
    return dict(root=[dict(ch=r["ch"], p=list(r["p"]), ctx=list(r["ctx"]), regs=r["regs"], inStart=r.get("inStart")) for r in o["root"]],
                starts=[dict(l=s["l"], ctx=list(s["ctx"]), stopped=s["stopped"]) for s in o["starts"]],
                seen=sorted(o["seen"]), fn=[[f[0], list(f[1])] for f in o["fn"]], env=o.get("env", {}))


def msorted(x):
    return sorted(json.dumps(i, sort_keys=True) for i in x)


def compare(exp, got, cfg):
    """Returns dict(field -> description) of differences, keyed by the property they matter to."""
    d = {}
    er, gr = exp["root"], got["root"]
    if len(er) != len(gr):
        d["C01.count"] = "completions delivered to the outer receiver: expected %d got %d" % (len(er), len(gr))
    for a, b in zip(er, gr):
        if a["ch"] != b["ch"] or a["p"] != b["p"]:
            d["C05.result"] = "result expected %s%s got %s%s" % (a["ch"], a["p"], b["ch"], b["p"])
        if a["ctx"] != b["ctx"]:
            d["C11.ctx"] = "completion context expected %s got %s" % (a["ctx"], b["ctx"])
        if b["regs"] != 0:
            d["C04.regs"] = "%d stop callbacks still registered on the receiver's token at completion" % b["regs"]
    if msorted(exp["fn"]) != msorted(got["fn"]):
        d["C05.fn"] = "callable invocations expected %s got %s" % (exp["fn"], got["fn"])
    elif exp["fn"] != got["fn"]:
        d["drift.fn_order"] = "order of callable invocations differs"
    es = [(s["l"]) for s in exp["starts"]]
    gs = [(s["l"]) for s in got["starts"]]
    if sorted(es) != sorted(gs):
        d["C05.starts"] = "operations started expected %s got %s" % (es, gs)
    elif es != gs:
        d["drift.start_order"] = "start order differs: expected %s got %s" % (es, gs)
    if sorted((s["l"], s["stopped"]) for s in exp["starts"]) != sorted((s["l"], s["stopped"]) for s in got["starts"]):
        d["C04.stopped_at_start"] = "stop_requested() seen at start expected %s got %s" % (
            [(s["l"], s["stopped"]) for s in exp["starts"]], [(s["l"], s["stopped"]) for s in got["starts"]])
    if sorted((s["l"], tuple(s["ctx"])) for s in exp["starts"]) != sorted((s["l"], tuple(s["ctx"])) for s in got["starts"]):
        d["C11.start_ctx"] = "start contexts expected %s got %s" % (
            [(s["l"], s["ctx"]) for s in exp["starts"]], [(s["l"], s["ctx"]) for s in got["starts"]])
    if exp["seen"] != got["seen"]:
        d["C04.seen"] = "leaves that observed a stop request expected %s got %s" % (exp["seen"], got["seen"])
    env = cfg.get("env") or {}
    for l, e in got.get("env", {}).items():
        w = env.get(str(l)) or env.get(l)
        if w is None:
            continue
        if (e["sched"], e["query"], e["stoppable"]) != (w["sched"], w["query"], w["stoppable"]):
            d["C12.env"] = "leaf %s sees sched=%s query=%s stoppable=%s, expected sched=%s query=%s stoppable=%s" % (
                l, e["sched"], e["query"], e["stoppable"], w["sched"], w["query"], w["stoppable"])
    return d


# which difference keys are violations of which property (everything else is drift)
RELEVANT = {
    "C01": ("C01.",),
    "C02": ("C02.",),
    "C04": ("C04.",),
    "C05": ("C05.",),
    "C11": ("C11.",),
    "C12": ("C12.",),
    "C18": ("C01.", "C04.", "C05.", "C11.", "C12."),
    "C20": ("C01.", "C04.", "C05.", "C11.", "C12."),
}


def run(ctx):
    rep = ctx.rep
    prop = ctx.prop
    rep.assume("expression trees from the catalogue (curated + seeded random, <=3 controllable leaves, <=9 nodes); payload type Val; "
               "errors are exception_ptr carrying a tagged exception")
    rep.assume("leaf outcomes: inline value/error/done or deferred with any channel; deferred leaves react to stop by ignoring it or completing with done; "
               "one external stop request per behaviour at any quiescent point (thorough: also inside a leaf's start())")
    # the catalogue is fixed per tier (VERIF_SEED only drives sampling of behaviours).  C20 rebuilds all factories once per
    # configuration (thorough: eight), so it always uses the curated catalogue: every second shape in quick, all in thorough
    cat = catalogue.catalogue("quick" if prop == "C20" else ctx.tier, 1, prop)
    if prop == "C20" and ctx.quick:
        cat = cat[::2]
    shapes = [s["spec"] for s in cat]
    by_id = {s["spec"]["id"]: s for s in cat}
    sp = os.path.join(ctx.work, "shapes.json")
    json.dump(shapes, open(sp, "w"))
    # ---- TLC: fine-grained model (every internal step is a state; invariants checked in every state)
    fine = [("0", "0")]
    if not ctx.quick:
        fine += [("1", "0"), ("0", "1")]
    for th, si in fine:
        vlib.model_check(ctx, "algebra", "SendersMC", env={"SHAPES": sp, "ALLOW_THROW": th, "ALLOW_STOPIN": si}, timeout=3000, xmx="12g")
    # ---- TLC: macro-step instance with export of every (quiescent state, external action) -> quiescent state
    runs = [("base", "0", "0")]
    if prop in ("C02", "C05") or not ctx.quick:
        runs.append(("throw", "1", "0"))
    if not ctx.quick:
        runs.append(("stopin", "0", "1"))
    behaviours = []
    for name, th, si in runs:
        edges = os.path.join(ctx.work, "edges_%s.ndjson" % name)
        t0 = time.time()
        vlib.model_check(ctx, "algebra", "SendersMacro", env={"SHAPES": sp, "EDGES": edges, "ALLOW_THROW": th, "ALLOW_STOPIN": si},
                         workers=1, timeout=3000, xmx="12g")
        t1 = time.time()
        macro, inits, nedges = macro_graph(edges)
        adj = {s: [(t, m) for (t, m) in v] for s, v in macro.items()}
        walks = vlib.edge_cover(adj, [i for i in inits])
        if name != "base":
            # keep only configurations that the base run does not contain
            walks = [w for w in walks if (w[0]["cfg"].get("throwAt") or w[0]["cfg"].get("stopIn"))]
        for w in walks:
            cfg = w[0]["cfg"]
            steps = [dict(k=m["ext"]["k"], n=m["ext"]["n"], ch=m["ext"]["ch"], exp=norm_obs_exp(m["obs"])) for m in w]
            behaviours.append(dict(cfg=cfg, steps=steps))
        rep.note("%s: %d macro-steps exported (TLC %.0fs), %d behaviours (%.0fs)" % (name, nedges, t1 - t0, len(walks), time.time() - t1))
        os.remove(edges)
    rep.exhaustive = True
    nall = len(behaviours)
    cap = int(os.environ.get("VERIF_ALG_CAP", "0") or 0) or (7000 if ctx.quick else 10 ** 9)
    if nall > cap:
        # quick tier: seeded, shape-stratified sample of the edge-covering behaviours (TLC still explored all of them)
        groups = collections.defaultdict(list)
        for b in behaviours:
            groups[b["cfg"]["shape"]].append(b)
        per = max(1, cap // max(1, len(groups)))
        chosen, rest = [], []
        for sid in sorted(groups):
            g = groups[sid]
            ctx.rng.shuffle(g)
            chosen += g[:per]
            rest += g[per:]
        ctx.rng.shuffle(rest)
        behaviours = chosen + rest[:max(0, cap - len(chosen))]
        rep.note("replaying a seeded shape-stratified sample of %d of %d edge-covering behaviours (seed %d)" % (len(behaviours), nall, ctx.seed))
    bp = os.path.join(ctx.work, "behaviours.ndjson")
    with open(bp, "w") as f:
        for i, b in enumerate(behaviours):
            f.write(json.dumps(dict(b=i, cfg=b["cfg"], steps=[dict(k=s["k"], n=s["n"], ch=s["ch"]) for s in b["steps"]])) + "\n")
    per_cfg, spec_dev, c20_fault = {}, {}, {}

    def replay_cfg(bc):
        # ---- build
        # sync_wait needs a sender with a single value type: the outer-driver comparison is built for every third shape of
        # the curated catalogue (the same shapes in both tiers; random shapes may send several value types)
        sw_every = 3 if prop == "C05" else 0
        sw_limit = len(catalogue.curated())
        gh = hashlib.sha1(json.dumps([s["cpp"] for s in cat] + [sw_every, sw_limit]).encode()).hexdigest()[:16]
        gdir = os.path.join(vlib.VERIF, "_build", "alg_gen_" + gh)
        files = gen_cpp(cat, gdir, sw_every=sw_every, sw_limit=sw_limit)
        exe = vlib.build(ctx, "alg_driver", [os.path.join(HERE, "driver.cpp")] + files,
                         lib=["inplace_stop_token.cpp", "async_stack.cpp", "exception.cpp", "manual_event_loop.cpp"], incs=[HERE], opt="-O0",
                         std=bc["std"], defs=bc["defs"], cxx=bc.get("cxx", "g++"), recover=True)
        # ---- replay
        outp = os.path.join(ctx.work, "replay_out_%s.ndjson" % bc["name"])
        lp = os.path.join(ctx.work, "alg_log_%s.ndjson" % bc["name"])
        t0 = time.time()
        sums, deaths = vlib.run_batches(ctx, exe, ["--behaviours", bp, "--out", outp] + (["--log", lp] if False else []), len(behaviours), lp, timeout=3000, recover=True)
        rep.note("[%s] replayed %d behaviours in %.1fs" % (bc["name"], sum(s["ran"] for s in sums), time.time() - t0))
        got = {}
        for l in open(outp):
            try:
                r = json.loads(l)
            except Exception:
                continue
            got[r["x"]] = r
        rep.evaluations += len(got)
        if prop in ("C05", "C11"):
            # these two properties are decided in the spec -> code direction only (every replayed TLC behaviour is a trace
            # of the specification validated against the implementation step by step); AlgMon has no rule set for them
            rep.traces += len(got)
        nviol = 0
        rel = RELEVANT.get(prop, ())
        mem_props = ("C02", "C18")
        for d in deaths:
            x = d["x"]
            b = behaviours[x] if x < len(behaviours) else None
            sh = by_id[b["cfg"]["shape"]]["spec"]["text"] if b else "?"
            rec = dict(engine="alg", config=bc["name"], event=d["event"], shape=sh, cfg=(b["cfg"] if b else None),
                       kinds=sorted(set(by_id[b["cfg"]["shape"]]["spec"]["kind"])) if b else [], asan=d.get("asan"), frame=d.get("frame"), where=d.get("where"),
                       steps=[(s["k"], s["n"], s["ch"]) for s in b["steps"]] if b else None,
                       ext_stop=bool(b and any(s["k"] in ("X", "I") for s in b["steps"])),
                       what="%s while replaying %s: %s %s" % (d["event"], sh, d.get("asan", ""), d.get("frame", "")), detail=d.get("stderr_tail"))
            # C18 is about the type-erased wrappers: a memory event counts against it only in a shape that contains one
            if (prop == "C02") or (prop == "C18" and "any" in rec["kinds"]) or (d["event"] in ("Terminate", "Hang", "Deadlock") and prop == "C01"):
                rep.violation(rec)
            else:
                rep.oos.append(dict(event=d["event"], shape=sh, frame=d.get("frame"), where=d.get("where"), asan=d.get("asan"),
                                    steps=rec["steps"], mode=(b["cfg"]["mode"] if b else None), detail=(d.get("stderr_tail") or "")[-600:]))
        tainted = set(d["x"] for d in deaths)
        per_cfg[bc["name"]] = dict(got=got, tainted=tainted)
        for x, b in enumerate(behaviours):
            r = got.get(x)
            if r is None or x in tainted:
                continue               # the process died / a sanitizer report tainted this execution: the memory event is the verdict
            sh = by_id[b["cfg"]["shape"]]["spec"]
            key = (sh["id"], json.dumps(b["cfg"]["mode"], sort_keys=True), b["cfg"].get("throwAt"), tuple((s["k"], s["n"], s["ch"]) for s in b["steps"]))
            if len(b["steps"]) > 1:
                rep.distinct.add(hash(key))
            diffs = {}
            at = None
            for i, (st, ob) in enumerate(zip(b["steps"], r["obs"])):
                if "error" in ob:
                    diffs["drift.unreplayable"] = ob["error"]
                    at = i
                    break
                dd = compare(st["exp"], norm_obs_got(ob), b["cfg"])
                if dd:
                    diffs, at = dd, i
                    break
            if r["live"] or r["bad"]:
                diffs["C02.lifetime"] = "tracked objects alive at the end: %d; %s" % (r["live"], r["bad"][:3])
            fin = r.get("final", {})
            if len(fin.get("root", [])) != 1:
                diffs["C01.final"] = "after all leaves and contexts were drained the outer receiver was completed %d times" % len(fin.get("root", []))
            if not diffs:
                continue
            hard = {k: v for k, v in diffs.items() if k.startswith(rel)}
            if prop == "C04" and any(s_["k"] in ("X", "I") for s_ in b["steps"]):
                # C04: "the composite completes once its running children have completed - without waiting for anything
                # else": a missing (or extra) completion in a behaviour that contains a stop request is a C04 violation too
                hard.update({k: v for k, v in diffs.items() if k.startswith("C01.")})
            if any(k.startswith("drift.") for k in diffs) or not hard:
                rep.drift += 1
                if rep.drift <= 3:
                    rep.note("drift in %s step %s: %s" % (sh["text"], at, list(diffs.items())[:2]))
            if hard and prop == "C20":
                # C20 is about configurations agreeing with each other: a deviation from the specification that every
                # configuration shows identically belongs to C05/C04/... and is decided there
                spec_dev.setdefault(bc["name"], {})[x] = sorted(hard)
                hard = {}
            if hard:
                nviol += 1
                steps = [(s["k"], s["n"], s["ch"]) for s in b["steps"]]
                exp_ch = got_ch = ""
                if at is not None and at < len(r["obs"]) and "error" not in r["obs"][at]:
                    er, gr = b["steps"][at]["exp"]["root"], r["obs"][at]["root"]
                    exp_ch = er[0]["ch"] if er else "-"
                    got_ch = gr[0]["ch"] if gr else "-"
                rep.violation(dict(engine="alg", config=bc["name"], event="ObservationMismatch", shape=sh["text"], shape_id=sh["id"], fields=sorted(hard), step=at,
                                   exp_ch=exp_ch, got_ch=got_ch, ext_stop=any(s["k"] == "X" for s in b["steps"][:(at or 0) + 1]),
                                   kinds=sorted(set(sh["kind"])), mode=b["cfg"]["mode"], throwAt=b["cfg"].get("throwAt"), stopIn=b["cfg"].get("stopIn"),
                                   steps=steps, what="%s: %s [modes %s, steps %s, at step %s]" % (
                                       sh["text"], "; ".join(hard.values()), json.dumps(b["cfg"]["mode"], sort_keys=True), steps, at)))
        # ---- C05: sync_wait as the outermost driver - for behaviours in which everything completes inside start(), the value
        # returned / exception thrown / nullopt must be the channel and payload Senders.tla predicts for the outer receiver
        if prop == "C05" and sw_every:
            swb, seen_sw = [], set()
            for x, b in enumerate(behaviours):
                if (b["steps"] and b["steps"][0]["k"] == "S" and len(b["steps"][0]["exp"]["root"]) == 1
                        and all(m["inl"] for m in b["cfg"]["mode"].values()) and not b["cfg"].get("stopIn")):
                    key = (b["cfg"]["shape"], json.dumps(b["cfg"]["mode"], sort_keys=True), b["cfg"].get("throwAt"))
                    if key not in seen_sw:
                        seen_sw.add(key)
                        swb.append((x, b))
            swp = os.path.join(ctx.work, "sw_behaviours.ndjson")
            with open(swp, "w") as f:
                for i, (x, b) in enumerate(swb):
                    f.write(json.dumps(dict(b=i, cfg=b["cfg"], steps=[])) + "\n")
            swo = os.path.join(ctx.work, "sw_out.ndjson")
            swl = os.path.join(ctx.work, "sw_log.ndjson")
            sums, swdeaths = vlib.run_batches(ctx, exe, ["--sw", "--behaviours", swp, "--out", swo], len(swb), swl, timeout=1200, recover=True)
            nsw = 0
            if os.path.exists(swo):
                for l in open(swo):
                    try:
                        r = json.loads(l)
                    except Exception:
                        continue
                    nsw += 1
                    x, b = swb[r["x"]]
                    er = b["steps"][0]["exp"]["root"][0]
                    sh = by_id[b["cfg"]["shape"]]["spec"]
                    if (r["ch"], r["p"]) != (er["ch"], er["p"]) or msorted(r["fn"]) != msorted(b["steps"][0]["exp"]["fn"]):
                        rep.violation(dict(engine="alg", config=bc["name"], event="ObservationMismatch", driver="sync_wait", shape=sh["text"], shape_id=sh["id"],
                                           fields=["C05.result"], exp_ch=er["ch"], got_ch=r["ch"], ext_stop=False, kinds=sorted(set(sh["kind"])), mode=b["cfg"]["mode"],
                                           throwAt=b["cfg"].get("throwAt"), steps=[("sync_wait", 0, "")],
                                           what="sync_wait(%s): expected %s%s, got %s%s [modes %s]" % (sh["text"], er["ch"], er["p"], r["ch"], r["p"], json.dumps(b["cfg"]["mode"], sort_keys=True))))
            rep.evaluations += nsw
            rep.note("sync_wait driver: %d inline behaviours compared (value / exception / nullopt vs the specification's channel and payload)" % nsw)
        # ---- C11: declared static traits of every shape (read from the code at build time) vs. all behaviours of the shape
        if prop == "C11":
            rc, so, se = vlib.run_exe(exe, ["--traits"], timeout=120)
            traits = json.loads(so.strip().splitlines()[-1]) if rc == 0 and so.strip() else {}
            BK = {0: "always_inline", 1: "always", 2: "maybe", 3: "never"}
            bad_tr = {}
            for x, b in enumerate(behaviours):
                sid = b["cfg"]["shape"]
                tr = traits.get(str(sid))
                if not tr:
                    continue
                r = got.get(x)
                for i, st in enumerate(b["steps"]):
                    for src, obs in (("spec", st["exp"]), ("code", norm_obs_got(r["obs"][i]) if r and i < len(r["obs"]) and "error" not in r["obs"][i] else None)):
                        if obs is None:
                            continue
                        before = len(b["steps"][i - 1]["exp"]["root"]) if i > 0 else 0
                        in_start = st["k"] == "S" and len(obs["root"]) == 1 and before == 0
                        if st["k"] == "S" and BK[tr["blocking"]] in ("always_inline", "always") and not in_start:
                            bad_tr.setdefault((sid, "blocking=%s but start() returned without completion (%s)" % (BK[tr["blocking"]], src)), (b, i))
                        if BK[tr["blocking"]] == "never" and in_start:
                            bad_tr.setdefault((sid, "blocking=never but completed inside start() (%s)" % src), (b, i))
                        # is_always_scheduler_affine: started on the receiver's context (S) with any stop request issued there (X),
                        # the completion must be delivered there too - not on a leaf's foreign thread (L) nor on another context (C,k>0)
                        if tr.get("affine") == 1 and any((rr["ctx"][0] == "L") or (rr["ctx"][0] == "C" and rr["ctx"][1] != 0) for rr in obs["root"]):
                            bad_tr.setdefault((sid, "is_always_scheduler_affine=true but completed on a foreign context %s (%s)" % (obs["root"][0]["ctx"], src)), (b, i))
                        if tr["sends_done"] == 0 and any(rr["ch"] == "d" for rr in obs["root"]):
                            bad_tr.setdefault((sid, "sends_done=false but completed with done (%s)" % src), (b, i))
            for (sid, msg), (b, i) in bad_tr.items():
                sh = by_id[sid]["spec"]
                rep.violation(dict(engine="alg", config=bc["name"], event="TraitUnsound", shape=sh["text"], kinds=sorted(set(sh["kind"])), trait=msg.split(" ")[0],
                                   steps=[(s["k"], s["n"], s["ch"]) for s in b["steps"]], mode=b["cfg"]["mode"],
                                   what="%s declares %s [modes %s, steps %s]" % (sh["text"], msg, json.dumps(b["cfg"]["mode"], sort_keys=True), [(s["k"], s["n"], s["ch"]) for s in b["steps"]])))
            rep.note("static traits checked for %d shapes: %s" % (len(traits), collections.Counter(BK[t["blocking"]] for t in traits.values())))
        # ---- code -> spec: the recorded event log of every execution is validated by TLC against the monitor AlgMon
        monprop = {"C01": "C01", "C02": "C02", "C04": "C04", "C12": "C12", "C18": "ALL", "C20": "ALL"}.get(prop)
        def validate(log_path, label, behs, skip=()):
            t0 = time.time()
            n, rejected = vlib.validate_batched(ctx, "algebra", "AlgMon", log_path, env={"PROP": monprop}, skip_x=skip)
            rep.note("%s: %d recorded executions validated against AlgMon[%s] in %.0fs" % (label, n, monprop, time.time() - t0))
            for rj in rejected:
                x = rj["x"]
                b = behs[x] if x is not None and x < len(behs) else None
                sh = by_id[b["cfg"]["shape"]]["spec"] if b else {"text": "?", "kind": []}
                nxt = rj["events"][rj["prefix"]] if rj.get("prefix") is not None and rj["prefix"] < len(rj["events"]) else None
                rep.violation(dict(engine="alg", config=bc["name"], event="MonitorReject", monitor="AlgMon", rules=monprop, shape=sh["text"], kinds=sorted(set(sh["kind"])),
                                   rejected_event=nxt, copyThrowAt=(b or {}).get("copyThrowAt", 0), cfg=(b or {}).get("cfg"),
                                   steps=[(s["k"], s["n"], s["ch"]) for s in b["steps"]] if b else None,
                                   what="AlgMon[%s] rejects the execution of %s at event %s (%s)" % (monprop, sh["text"], rj.get("prefix"), json.dumps(nxt)),
                                   events=rj["events"][:200]))
        if monprop:
            validate(lp, "replay", behaviours, skip=tainted)
            ex = vlib.split_executions(lp)
            if ex:
                rep.sample(dict(kind="recorded-trace", events=[json.loads(x) for x in ex[len(ex) // 2][1][:40]]))
        # ---- C20: the copy-fault family in every configuration (the same executions, chosen once); outcomes are compared pairwise
        if prop == "C20":
            if "cand" not in c20_fault:
                cand = [x for x, b in enumerate(behaviours) if got.get(x) and got[x].get("copies", 0) > 0 and not b["cfg"].get("throwAt")]
                random.Random(ctx.seed).shuffle(cand)
                cand = cand[:(300 if ctx.quick else 3000)]
                c20_fault["cand"] = [(x, k) for x in cand for k in range(1, min(got[x]["copies"], 6) + 1)]
            fbl = c20_fault["cand"]
            fbp = os.path.join(ctx.work, "c20_fault_%s.ndjson" % bc["name"])
            with open(fbp, "w") as f:
                for i, (x, k) in enumerate(fbl):
                    b = behaviours[x]
                    f.write(json.dumps(dict(b=i, cfg=b["cfg"], copyThrowAt=k, steps=[dict(k=s["k"], n=s["n"], ch=s["ch"]) for s in b["steps"]])) + "\n")
            fout = os.path.join(ctx.work, "c20_fault_out_%s.ndjson" % bc["name"])
            flp = os.path.join(ctx.work, "c20_fault_log_%s.ndjson" % bc["name"])
            sums, fdeaths = vlib.run_batches(ctx, exe, ["--behaviours", fbp, "--out", fout], len(fbl), flp, timeout=3000, recover=True)
            outc = {}
            if os.path.exists(fout):
                for l in open(fout):
                    try:
                        r = json.loads(l)
                    except Exception:
                        continue
                    outc[r["x"]] = json.dumps([[rr["ch"], rr["p"]] for rr in r.get("final", {}).get("root", [])]) + (" live=%d" % r["live"] if r["live"] else "")
            for d in fdeaths:
                outc[d["x"]] = "death:%s" % d["event"]
            per_cfg[bc["name"]]["fault"] = outc
            rep.evaluations += len(fbl)
            rep.note("[%s] copy-fault family: %d executions" % (bc["name"], len(fbl)))
        # ---- fault injection (C02, and C01 in the thorough tier): the k-th copy of a tracked value throws
        if prop == "C02" or (prop in ("C01",) and not ctx.quick):
            cand = [(x, b) for x, b in enumerate(behaviours) if got.get(x) and got[x].get("copies", 0) > 0 and not b["cfg"].get("throwAt")]
            ctx.rng.shuffle(cand)
            cand = cand[:(250 if ctx.quick else 3000)]
            fb = []
            for x, b in cand:
                for k in range(1, min(got[x]["copies"], 8) + 1):
                    fb.append(dict(cfg=b["cfg"], steps=b["steps"], copyThrowAt=k))
            fbp = os.path.join(ctx.work, "fault_behaviours.ndjson")
            with open(fbp, "w") as f:
                for i, b in enumerate(fb):
                    f.write(json.dumps(dict(b=i, cfg=b["cfg"], copyThrowAt=b["copyThrowAt"], steps=[dict(k=s["k"], n=s["n"], ch=s["ch"]) for s in b["steps"]])) + "\n")
            flp = os.path.join(ctx.work, "fault_log.ndjson")
            fout = os.path.join(ctx.work, "fault_out.ndjson")
            sums, deaths = vlib.run_batches(ctx, exe, ["--behaviours", fbp, "--out", fout], len(fb), flp, timeout=3000, recover=True)
            rep.evaluations += len(fb)
            rep.note("fault injection: %d executions with the k-th value copy throwing" % len(fb))
            for d in deaths:
                b = fb[d["x"]] if d["x"] < len(fb) else None
                sh = by_id[b["cfg"]["shape"]]["spec"] if b else {"text": "?", "kind": []}
                rep.violation(dict(engine="alg", event=d["event"], shape=sh["text"], kinds=sorted(set(sh["kind"])), asan=d.get("asan"), frame=d.get("frame"),
                                   where=d.get("where"), copyThrowAt=(b or {}).get("copyThrowAt"), cfg=(b or {}).get("cfg"),
                                   steps=[(s["k"], s["n"], s["ch"]) for s in b["steps"]] if b else None,
                                   what="%s with value copy #%s throwing in %s: %s %s" % (d["event"], (b or {}).get("copyThrowAt"), sh["text"], d.get("asan", ""), d.get("frame", "")),
                                   detail=d.get("stderr_tail")))
            validate(flp, "fault", fb, skip=set(d["x"] for d in deaths))
            # ---- second fault family: the k-th *move* of a tracked value throws (separate build: Val's move constructor is
            # potentially throwing there, which also exercises the library's not-nothrow-movable code paths)
            if prop == "C02":
                exe_tm = vlib.build(ctx, "alg_driver_tm", [os.path.join(HERE, "driver.cpp")] + files,
                                    lib=["inplace_stop_token.cpp", "async_stack.cpp", "exception.cpp"], incs=[HERE], opt="-O0",
                                    std=bc["std"], defs=list(bc["defs"]) + ["ALG_THROWING_MOVE"], cxx=bc.get("cxx", "g++"), recover=True)
                cand = [(x, b) for x, b in enumerate(behaviours) if not b["cfg"].get("throwAt")]
                ctx.rng.shuffle(cand)
                cand = cand[:(400 if ctx.quick else 4000)]
                cbp = os.path.join(ctx.work, "tm_count.ndjson")
                with open(cbp, "w") as f:
                    for i, (x, b) in enumerate(cand):
                        f.write(json.dumps(dict(b=i, cfg=b["cfg"], steps=[dict(k=s["k"], n=s["n"], ch=s["ch"]) for s in b["steps"]])) + "\n")
                cout = os.path.join(ctx.work, "tm_count_out.ndjson")
                clp = os.path.join(ctx.work, "tm_count_log.ndjson")
                vlib.run_batches(ctx, exe_tm, ["--behaviours", cbp, "--out", cout], len(cand), clp, timeout=3000, recover=True)
                moves = {}
                for l in open(cout):
                    try:
                        r = json.loads(l); moves[r["x"]] = r.get("moves", 0)
                    except Exception:
                        pass
                mb = []
                for i, (x, b) in enumerate(cand):
                    for k in range(1, min(moves.get(i, 0), 6) + 1):
                        mb.append(dict(cfg=b["cfg"], steps=b["steps"], moveThrowAt=k))
                mbp = os.path.join(ctx.work, "tm_fault.ndjson")
                with open(mbp, "w") as f:
                    for i, b in enumerate(mb):
                        f.write(json.dumps(dict(b=i, cfg=b["cfg"], moveThrowAt=b["moveThrowAt"], steps=[dict(k=s["k"], n=s["n"], ch=s["ch"]) for s in b["steps"]])) + "\n")
                mlp = os.path.join(ctx.work, "tm_fault_log.ndjson")
                mout = os.path.join(ctx.work, "tm_fault_out.ndjson")
                sums, mdeaths = vlib.run_batches(ctx, exe_tm, ["--behaviours", mbp, "--out", mout], len(mb), mlp, timeout=3000, recover=True)
                rep.evaluations += len(mb)
                rep.note("fault injection: %d executions with the k-th value move throwing (throwing-move build)" % len(mb))
                skip = set()
                for d in mdeaths:
                    skip.add(d["x"])
                    b = mb[d["x"]] if d["x"] < len(mb) else None
                    sh = by_id[b["cfg"]["shape"]]["spec"] if b else {"text": "?", "kind": []}
                    rec = dict(engine="alg", config=bc["name"] + "-throwing-move", event=d["event"], shape=sh["text"], kinds=sorted(set(sh["kind"])), asan=d.get("asan"),
                               frame=d.get("frame"), where=d.get("where"), moveThrowAt=(b or {}).get("moveThrowAt"), cfg=(b or {}).get("cfg"),
                               ext_stop=bool(b and any(s["k"] in ("X", "I") for s in b["steps"])),
                               steps=[(s["k"], s["n"], s["ch"]) for s in b["steps"]] if b else None,
                               what="%s with value move #%s throwing in %s: %s %s" % (d["event"], (b or {}).get("moveThrowAt"), sh["text"], d.get("asan", ""), d.get("frame", "")),
                               detail=d.get("stderr_tail"))
                    if d["event"] == "Terminate":
                        rep.oos.append(dict(event="Terminate", shape=sh["text"], note="a throwing move inside a noexcept library function terminates: out of scope"))
                    else:
                        rep.violation(rec)
                validate(mlp, "move-fault", mb, skip=skip)
                for i, b in enumerate(mb):
                    rep.distinct.add(hash(("mfault", i)))
            for i, b in enumerate(fb):
                rep.distinct.add(hash(("fault", i)))

    # ---- build configurations: the default is C++17 with assertions and async stacks on (no NDEBUG)
    CFGS = {
        "cxx17-debug": dict(name="cxx17-debug", std="c++17", defs=[]),
        "cxx17-release": dict(name="cxx17-release", std="c++17", defs=["NDEBUG"]),
        "cxx20-debug-visit": dict(name="cxx20-debug-visit", std="c++20", defs=["UNIFEX_ENABLE_CONTINUATION_VISITATIONS=1"]),
        "cxx20-release": dict(name="cxx20-release", std="c++20", defs=["NDEBUG"]),
        "cxx17-debug-visit": dict(name="cxx17-debug-visit", std="c++17", defs=["UNIFEX_ENABLE_CONTINUATION_VISITATIONS=1"]),
        "cxx20-debug": dict(name="cxx20-debug", std="c++20", defs=[]),
        "cxx17-release-visit": dict(name="cxx17-release-visit", std="c++17", defs=["NDEBUG", "UNIFEX_ENABLE_CONTINUATION_VISITATIONS=1"]),
        "cxx20-release-visit": dict(name="cxx20-release-visit", std="c++20", defs=["NDEBUG", "UNIFEX_ENABLE_CONTINUATION_VISITATIONS=1"]),
    }
    if prop == "C20":
        names = ["cxx17-release", "cxx20-debug-visit"] if ctx.quick else list(CFGS)
        rep.assume("configurations replayed: %s (gcc 12)" % ", ".join(names))
    else:
        names = ["cxx17-debug"]
    for nm in names:
        replay_cfg(CFGS[nm])
    if prop == "C20" and len(names) > 1:
        ref = names[0]
        ndiff = 0
        for nm in names[1:]:
            for x, b in enumerate(behaviours):
                a, c = per_cfg[ref]["got"].get(x), per_cfg[nm]["got"].get(x)
                ta, tc = x in per_cfg[ref]["tainted"], x in per_cfg[nm]["tainted"]
                if a is None or c is None or ta or tc:
                    if (a is None) != (c is None) or ta != tc:
                        ndiff += 1
                        rep.violation(dict(engine="alg", event="ConfigDiffers", configs=[ref, nm], shape=by_id[b["cfg"]["shape"]]["spec"]["text"],
                                           what="%s: execution completes in one configuration only (%s: %s, %s: %s)" % (
                                               by_id[b["cfg"]["shape"]]["spec"]["text"], ref, "missing/tainted" if (a is None or ta) else "ok", nm, "missing/tainted" if (c is None or tc) else "ok")))
                    continue
                oa = [norm_obs_got(o) if "error" not in o else o for o in a["obs"]]
                oc = [norm_obs_got(o) if "error" not in o else o for o in c["obs"]]
                for o in oa + oc:
                    for r in o.get("root", []):
                        r.pop("inStart", None)
                if oa != oc or a["live"] != c["live"] or bool(a["bad"]) != bool(c["bad"]):
                    ndiff += 1
                    sh = by_id[b["cfg"]["shape"]]["spec"]
                    rep.violation(dict(engine="alg", event="ConfigDiffers", configs=[ref, nm], shape=sh["text"], kinds=sorted(set(sh["kind"])), mode=b["cfg"]["mode"],
                                       steps=[(s["k"], s["n"], s["ch"]) for s in b["steps"]],
                                       what="%s: observations differ between configurations %s and %s [modes %s, steps %s]" % (
                                           sh["text"], ref, nm, json.dumps(b["cfg"]["mode"], sort_keys=True), [(s["k"], s["n"], s["ch"]) for s in b["steps"]])))
            fa, fc = per_cfg[ref].get("fault", {}), per_cfg[nm].get("fault", {})
            for i, (x, k) in enumerate(c20_fault.get("cand", [])):
                if fa.get(i) != fc.get(i):
                    ndiff += 1
                    b = behaviours[x]
                    sh = by_id[b["cfg"]["shape"]]["spec"]
                    rep.violation(dict(engine="alg", event="ConfigDiffers", configs=[ref, nm], shape=sh["text"], kinds=sorted(set(sh["kind"])), mode=b["cfg"]["mode"],
                                       copyThrowAt=k, steps=[(s["k"], s["n"], s["ch"]) for s in b["steps"]],
                                       what="%s with value copy #%d throwing: %s gives %s, %s gives %s [modes %s, steps %s]" % (
                                           sh["text"], k, ref, fa.get(i), nm, fc.get(i), json.dumps(b["cfg"]["mode"], sort_keys=True), [(s["k"], s["n"], s["ch"]) for s in b["steps"]])))
        devs = set(json.dumps(v, sort_keys=True) for v in spec_dev.values())
        rep.note("configurations compared pairwise against %s: %d differing executions; deviations from Senders.tla shared by all configurations: %d executions (decided by C05/C04/C11/C12)" % (
            ref, ndiff, len(next(iter(spec_dev.values()), {}))))
        if len(devs) > 1:
            rep.note("the set of executions deviating from the specification is not the same in every configuration (see ConfigDiffers violations)")
    # ---- C12, allocator clause for the spawn functions (spec/algebra/SpawnAlloc.tla)
    if prop == "C12":
        sedges = os.path.join(ctx.work, "spawnalloc.ndjson")
        vlib.model_check(ctx, "algebra", "SpawnAllocMC", env={"EDGES": sedges}, workers=1, timeout=600)
        sexe = vlib.build(ctx, "spawn_driver", [os.path.join(HERE, "spawn_driver.cpp")],
                          lib=["inplace_stop_token.cpp", "async_stack.cpp", "exception.cpp", "manual_event_loop.cpp", "async_manual_reset_event_v1.cpp"],
                          incs=[HERE], opt="-O0")
        sout = os.path.join(ctx.work, "spawnalloc_out.ndjson")
        rc, so, se = vlib.run_exe(sexe, ["--cases", sedges, "--out", sout], timeout=300)
        d = vlib.classify_death(rc, se)
        if d:
            rep.violation(dict(engine="alg", event=d["event"], component="spawn-alloc", asan=d.get("asan"), frame=d.get("frame"),
                               what="%s in the spawn allocator scenarios: %s %s" % (d["event"], d.get("asan", ""), d.get("frame", "")), detail=d.get("stderr_tail")))
        exp = [json.loads(l) for l in open(sedges) if l.strip()]
        gotc = [json.loads(l) for l in open(sout) if l.strip()] if os.path.exists(sout) else []
        for e_, g_ in zip(exp, gotc):
            rep.evaluations += 1
            rep.distinct.add(hash(("spawn", e_["form"], e_["tag"], e_["ch"])))
            if (g_["allocs"], g_["frees"], g_["leafAlloc"], g_["foreignFree"]) != (e_["allocs"], e_["frees"], e_["leafAlloc"], False):
                rep.violation(dict(engine="alg", event="ObservationMismatch", component="spawn-alloc", form=e_["form"], fields=["C12.alloc"],
                                   what="%s with allocator tag %d: expected %d allocations / %d frees on that allocator and the leaf seeing it; got allocs=%d frees=%d leaf sees %d%s" % (
                                       e_["form"], e_["tag"], e_["allocs"], e_["frees"], g_["allocs"], g_["frees"], g_["leafAlloc"], " (a block was returned to a different allocator)" if g_["foreignFree"] else "")))
        rep.note("spawn allocator scenarios: %d cases (spawn_detached / spawn_future x function / piped form x allocator tag x leaf outcome)" % len(gotc))
    for b in behaviours[:2]:
        rep.sample(dict(kind="tlc-behaviour", shape=by_id[b["cfg"]["shape"]]["spec"]["text"], modes=b["cfg"]["mode"],
                        steps=[dict(k=s["k"], n=s["n"], ch=s["ch"], expect_root=s["exp"]["root"], expect_seen=s["exp"]["seen"]) for s in b["steps"]]))
    rep.rule("one evaluation = one TLC behaviour (shape x leaf modes x external step sequence) replayed on the real adaptors with the observation compared after "
             "every step; distinct_nontrivial = distinct (shape, modes, step sequence) with more than one external step")
