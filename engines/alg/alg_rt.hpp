// Harness runtime of the sender-algebra engine: tracked values / callables, controllable leaf senders,
// manual scheduler contexts, recording receiver with counting stop token, and the behaviour interpreter.
#pragma once
#include "vrt.hpp"

#include <unifex/any_sender_of.hpp>
#include <unifex/dematerialize.hpp>
#include <unifex/done_as_optional.hpp>
#include <unifex/finally.hpp>
#include <unifex/get_allocator.hpp>
#include <unifex/get_stop_token.hpp>
#include <unifex/inplace_stop_token.hpp>
#include <unifex/into_variant.hpp>
#include <unifex/just.hpp>
#include <unifex/just_done.hpp>
#include <unifex/just_error.hpp>
#include <unifex/let_done.hpp>
#include <unifex/let_error.hpp>
#include <unifex/let_value.hpp>
#include <unifex/manual_lifetime.hpp>
#include <unifex/materialize.hpp>
#include <unifex/on.hpp>
#include <unifex/receiver_concepts.hpp>
#include <unifex/repeat_effect_until.hpp>
#include <unifex/retry_when.hpp>
#include <unifex/scheduler_concepts.hpp>
#include <unifex/sender_concepts.hpp>
#include <unifex/sequence.hpp>
#include <unifex/config.hpp>
#if !UNIFEX_NO_COROUTINES
#include <unifex/stop_if_requested.hpp>
#endif
#include <unifex/stop_when.hpp>
#include <unifex/then.hpp>
#include <unifex/typed_via.hpp>
#include <unifex/unstoppable.hpp>
#include <unifex/upon_done.hpp>
#include <unifex/upon_error.hpp>
#include <unifex/via.hpp>
#include <unifex/when_all.hpp>
#include <unifex/when_all_range.hpp>
#include <unifex/when_any.hpp>
#include <unifex/with_allocator.hpp>
#include <unifex/with_query_value.hpp>
#include <unifex/blocking.hpp>
#include <unifex/sync_wait.hpp>
#include <unifex/allocate.hpp>
#include <unifex/defer.hpp>
#include <unifex/just_from.hpp>
#include <unifex/just_void_or_done.hpp>
#include <unifex/let_value_with.hpp>
#include <unifex/let_value_with_stop_source.hpp>
#include <unifex/let_value_with_stop_token.hpp>
#include <unifex/variant_sender.hpp>

#include <deque>
#include <optional>
#include <set>
#include <tuple>
#include <unordered_set>
#include <variant>

namespace alg {
using Payload = std::vector<int>;

struct Tagged { Payload p; };          // the only exception type the harness throws

struct World;
inline World* g_w = nullptr;

// ---------------------------------------------------------------- object tracking (C02)
struct Track {
  static inline std::unordered_set<const void*> live;
  static inline std::vector<std::string> bad;
  static inline long ctor = 0, dtor = 0;
  static void born(const void* p, const char* what) {
    ++ctor;
    if (!live.insert(p).second) bad.push_back(std::string("constructed-over-live ") + what);
  }
  static void died(const void* p, const char* what) {
    ++dtor;
    if (live.erase(p) == 0) bad.push_back(std::string("destroyed-twice-or-never-constructed ") + what);
  }
  static void reset() { live.clear(); bad.clear(); ctor = dtor = 0; }
};

struct LeafCtl {
  int id = 0; bool inl = false; char ch = 'v'; bool onStopDone = false;
  bool started = false, completed = false;
  int instances = 0;
  std::function<void(char)> complete;     // valid while started && !completed
};
struct StartRec { int l; char ctxk; int ctxn; bool stopped; };
struct RootRec { char ch; Payload p; char ctxk; int ctxn; int regs; bool inStart; };
struct FnRec { int q; Payload p; };
struct EnvRec { int sched, query, alloc; bool stoppable; };

struct SchedItem { std::function<void()> run; };

struct World {
  std::map<int, LeafCtl> leaf;
  int throwAt = 0, stopIn = 0;
  std::map<int, int> iter;
  // observations
  std::vector<StartRec> starts; std::set<int> seen; std::vector<RootRec> root; std::vector<FnRec> fn;
  std::map<int, EnvRec> env;
  std::map<int, std::deque<SchedItem>> ctxq;
  char curk = '-'; int curn = 0; bool inStart = false;
  unifex::inplace_stop_source src; int regs = 0;
  long copyCount = 0, copyThrowAt = 0;       // fault injection: k-th Val copy throws
  long moveCount = 0, moveThrowAt = 0;       // fault injection (ALG_THROWING_MOVE builds): k-th Val move throws
  bool rootDestroysOp = true;
  std::function<void()> destroyOp;
  std::map<int, std::function<void()>> innerStop;   // let_value_with_stop_source: request stop on the handed-out source
  void call(int q, Payload p) {
    vrt::ev("{\"e\":\"Fn\",\"q\":%d}", q);
    fn.push_back({q, std::move(p)});
    if (throwAt == q) throw Tagged{{-q}};
  }
  bool budget_exhausted(int q, int budget) { if (iter[q] >= budget) return true; ++iter[q]; return false; }
};

// ---------------------------------------------------------------- tracked value
struct Val {
  Payload p;
  Val(World*, int id) : p{id} { Track::born(this, "Val"); }
  explicit Val(Payload q) : p(std::move(q)) { Track::born(this, "Val"); }
  Val(const Val& o) : p(o.p) {
    if (g_w && g_w->copyThrowAt && ++g_w->copyCount == g_w->copyThrowAt) throw Tagged{{-9000}};
    else if (g_w) { if (!g_w->copyThrowAt) ++g_w->copyCount; }
    Track::born(this, "Val");
  }
#ifdef ALG_THROWING_MOVE
  // fault-injection build: the move constructor may throw (k-th move of an execution)
  Val(Val&& o) noexcept(false) : p(o.p) {
    if (g_w && g_w->moveThrowAt && ++g_w->moveCount == g_w->moveThrowAt) throw Tagged{{-9001}};
    else if (g_w) { if (!g_w->moveThrowAt) ++g_w->moveCount; }
    o.p.clear();
    Track::born(this, "Val");
  }
#else
  Val(Val&& o) noexcept : p(std::move(o.p)) { Track::born(this, "Val"); }
#endif
  Val& operator=(const Val& o) { p = o.p; return *this; }
  Val& operator=(Val&& o) noexcept { p = std::move(o.p); return *this; }
  ~Val() { Track::died(this, "Val"); }
};

// ---------------------------------------------------------------- flatten anything into a payload
inline void flat1(Payload& out, const Val& v) { out.insert(out.end(), v.p.begin(), v.p.end()); }
inline void flat1(Payload& out, const std::exception_ptr& e) {
  try { std::rethrow_exception(e); } catch (Tagged& t) { out.insert(out.end(), t.p.begin(), t.p.end()); } catch (...) { out.push_back(-999); }
}
template <class T> void flat1(Payload& out, const std::vector<T>& v);
template <class... Ts> void flat1(Payload& out, const std::tuple<Ts...>& t);
template <class... Ts> void flat1(Payload& out, const std::variant<Ts...>& v);
template <class T> void flat1(Payload& out, const std::optional<T>& o);
template <class... Ts> void flat1(Payload& out, const std::tuple<Ts...>& t) { std::apply([&](auto const&... x) { (flat1(out, x), ...); }, t); }
template <class... Ts> void flat1(Payload& out, const std::variant<Ts...>& v) { std::visit([&](auto const& x) { flat1(out, x); }, v); }
template <class T> void flat1(Payload& out, const std::optional<T>& o) { if (o) flat1(out, *o); else out.push_back(0); }
template <class T> void flat1(Payload& out, const std::vector<T>& v) { for (auto& x : v) flat1(out, x); }
inline void flat1(Payload& out, const std::optional<std::monostate>& o) { if (!o) out.push_back(0); }
inline void flat1(Payload&, const std::monostate&) {}
inline void flat1(Payload&, const unifex::unit&) {}
template <class... A> Payload flat(const A&... a) { Payload p; (flat1(p, a), ...); return p; }

// ---------------------------------------------------------------- tracked callables
struct FnBase {
  World* w; int id;
  FnBase(World* w, int id) : w(w), id(id) { Track::born(this, "Fn"); }
  FnBase(const FnBase& o) : w(o.w), id(o.id) { Track::born(this, "Fn"); }
  FnBase(FnBase&& o) noexcept : w(o.w), id(o.id) { Track::born(this, "Fn"); }
  FnBase& operator=(const FnBase&) = default;
  ~FnBase() { Track::died(this, "Fn"); }
};
struct Fn : FnBase { using FnBase::FnBase;
  template <class... A> Val operator()(A&&... a) const { Payload p = flat(a...); w->call(id, p); p.push_back(id); return Val(std::move(p)); } };
struct FnV : FnBase { using FnBase::FnBase;
  template <class... A> void operator()(A&&... a) const { w->call(id, flat(a...)); } };
struct FnE : FnBase { using FnBase::FnBase;
  template <class E> Val operator()(E&& e) const { Payload p = flat(e); w->call(id, p); p.push_back(id); return Val(std::move(p)); } };
struct FnD : FnBase { using FnBase::FnBase;
  Val operator()() const { w->call(id, {}); return Val(Payload{id}); } };

// ---------------------------------------------------------------- custom query + tagged scheduler/allocator for C12
// move-sensitive on purpose: a moved-from tag reads -2, so a query value that the library moved out of a sender it was
// only allowed to copy from (lvalue connect, re-connect by retry_when / repeat_effect_until) is visible to the leaves
struct QueryTag {
  int v = 0;
  QueryTag() = default;
  explicit QueryTag(int x) noexcept : v(x) {}
  QueryTag(const QueryTag&) = default;
  QueryTag& operator=(const QueryTag&) = default;
  QueryTag(QueryTag&& o) noexcept : v(o.v) { o.v = -2; }
  QueryTag& operator=(QueryTag&& o) noexcept { v = o.v; o.v = -2; return *this; }
};
inline constexpr struct custom_query_t {
  template <class R, std::enable_if_t<unifex::is_tag_invocable_v<custom_query_t, const R&>, int> = 0>
  QueryTag operator()(const R& r) const noexcept { return unifex::tag_invoke(*this, r); }
  template <class R, std::enable_if_t<!unifex::is_tag_invocable_v<custom_query_t, const R&>, int> = 0>
  QueryTag operator()(const R&) const noexcept { return QueryTag{-1}; }
} custom_query{};
}  // namespace alg
namespace unifex { template <> inline constexpr bool is_receiver_query_cpo_v<alg::custom_query_t> = true; }
namespace alg {

template <class T> struct TagAlloc {
  using value_type = T;
  World* w; int tag;
  TagAlloc(World* w, int tag) : w(w), tag(tag) {}
  template <class U> TagAlloc(const TagAlloc<U>& o) : w(o.w), tag(o.tag) {}
  TagAlloc(const TagAlloc&) = default;
  TagAlloc& operator=(const TagAlloc&) = default;
  // move-sensitive like QueryTag: a moved-from allocator has tag -2
  TagAlloc(TagAlloc&& o) noexcept : w(o.w), tag(o.tag) { o.tag = -2; }
  TagAlloc& operator=(TagAlloc&& o) noexcept { w = o.w; tag = o.tag; o.tag = -2; return *this; }
  T* allocate(size_t n) { vrt::ev("{\"e\":\"Alloc\",\"tag\":%d}", tag); return static_cast<T*>(::operator new(n * sizeof(T))); }
  void deallocate(T* p, size_t) { vrt::ev("{\"e\":\"Free\",\"tag\":%d}", tag); ::operator delete(p); }
  template <class U> bool operator==(const TagAlloc<U>& o) const { return tag == o.tag; }
  template <class U> bool operator!=(const TagAlloc<U>& o) const { return tag != o.tag; }
};

// ---------------------------------------------------------------- counting stop token of the outer receiver
// w->regs = callbacks registered on the outer source that have neither been deregistered nor dequeued for
// execution (a callback that the source is currently running has been unlinked from the source: that is the
// removedDuringCallback protocol of inplace_stop_source, and the reading of C04 adopted in DESIGN.md section 5).
struct CountingToken {
  World* w; unifex::inplace_stop_token tok;
  template <class F> struct callback_type {
    struct Wrapped {
      World* w; bool* executed; F f;
      void operator()() noexcept { *executed = true; --w->regs; f(); }   // f() may destroy this callback object
    };
    World* w; bool executed = false; unifex::inplace_stop_callback<Wrapped> cb;
    template <class F2> callback_type(CountingToken t, F2&& f) : w(t.w), cb(t.tok, Wrapped{t.w, &executed, F((F2&&)f)}) { ++w->regs; }
    ~callback_type() { if (!executed) --w->regs; }
  };
  bool stop_requested() const noexcept { return tok.stop_requested(); }
  bool stop_possible() const noexcept { return tok.stop_possible(); }
};

// ---------------------------------------------------------------- manual scheduler context
struct CtxSched {
  World* w; int ctx; int sid;
  template <class R> struct Op {
    World* w; int ctx; int sid; R r; bool done = false;
    template <class R2> Op(World* w, int ctx, int sid, R2&& r) : w(w), ctx(ctx), sid(sid), r((R2&&)r) { Track::born(this, "SchedOp"); }
    Op(Op&&) = delete;
    ~Op() { Track::died(this, "SchedOp"); }
    void start() noexcept {
      bool stopped = false;
      if constexpr (!unifex::is_stop_never_possible_v<unifex::stop_token_type_t<R&>>) stopped = unifex::get_stop_token(r).stop_requested();
      w->starts.push_back({sid, w->curk, w->curn, stopped});
      vrt::ev("{\"e\":\"SchedStart\",\"l\":%d,\"ctx\":%d}", sid, ctx);
      w->ctxq[ctx].push_back({[this] { run(); }});
    }
    void run() noexcept {
      bool stopped = false;
      if constexpr (!unifex::is_stop_never_possible_v<unifex::stop_token_type_t<R&>>) stopped = unifex::get_stop_token(r).stop_requested();
      if (stopped) unifex::set_done(std::move(r)); else unifex::set_value(std::move(r));
    }
  };
  struct Sender {
    World* w; int ctx; int sid;
    template <template <class...> class V, template <class...> class T> using value_types = V<T<>>;
    template <template <class...> class V> using error_types = V<std::exception_ptr>;
    static constexpr bool sends_done = true;
    static constexpr unifex::blocking_kind blocking = unifex::blocking_kind::never;
    static constexpr bool is_always_scheduler_affine = false;
    template <class R> Op<unifex::remove_cvref_t<R>> connect(R&& r) const { return Op<unifex::remove_cvref_t<R>>{w, ctx, sid, (R&&)r}; }
  };
  Sender schedule() const noexcept { return Sender{w, ctx, sid}; }
  friend bool operator==(const CtxSched& a, const CtxSched& b) noexcept { return a.ctx == b.ctx; }
  friend bool operator!=(const CtxSched& a, const CtxSched& b) noexcept { return a.ctx != b.ctx; }
};
struct RootSched {   // what the outer receiver answers to get_scheduler: tag 0
  int ctx = 0;
  CtxSched::Sender schedule() const noexcept { return CtxSched::Sender{g_w, 0, 0}; }
  friend bool operator==(const RootSched&, const RootSched&) noexcept { return true; }
  friend bool operator!=(const RootSched&, const RootSched&) noexcept { return false; }
};

// ---------------------------------------------------------------- controllable leaf sender
template <class R> int seenSched(const R& r) {
  if constexpr (std::is_invocable_v<unifex::tag_t<unifex::get_scheduler>, const R&>) {
    auto s = unifex::get_scheduler(r);
    if constexpr (std::is_same_v<decltype(s), CtxSched>) return s.ctx;
    else if constexpr (std::is_same_v<decltype(s), RootSched>) return 0;
    else return -2;
  } else return -1;
}
template <class R> int seenAlloc(const R& r) {
  auto a = unifex::get_allocator(r);
  if constexpr (std::is_same_v<decltype(a), TagAlloc<std::byte>>) return a.tag; else return -1;
}

template <class R, bool Void> struct LeafOp {
  World* w; LeafCtl* c; R r;
  struct Cb { LeafOp* op; void operator()() noexcept { op->on_stop(); } };
  using ST = unifex::stop_token_type_t<R&>;
  unifex::manual_lifetime<typename ST::template callback_type<Cb>> cb;
  bool cbLive = false, constructing = false, pendingStop = false, running = false;
  template <class R2> LeafOp(World* w, LeafCtl* c, R2&& r) : w(w), c(c), r((R2&&)r) { Track::born(this, "LeafOp"); vrt::ev("{\"e\":\"LeafConnect\",\"l\":%d}", c->id); }
  LeafOp(LeafOp&&) = delete;
  ~LeafOp() {
    Track::died(this, "LeafOp");
    if (running) Track::bad.push_back("leaf-op-destroyed-while-running " + std::to_string(c->id));
    vrt::ev("{\"e\":\"LeafOpDtor\",\"l\":%d,\"running\":%d}", c->id, running ? 1 : 0);
  }
  void start() noexcept {
    bool stopped = false;
    if constexpr (!unifex::is_stop_never_possible_v<ST>) stopped = unifex::get_stop_token(r).stop_requested();
    c->started = true; c->completed = false; running = true; ++c->instances;
    w->seen.erase(c->id);
    w->starts.push_back({c->id, w->curk, w->curn, stopped});
    w->env[c->id] = EnvRec{seenSched(r), custom_query(r).v, seenAlloc(r), !unifex::is_stop_never_possible_v<ST> && unifex::get_stop_token(r).stop_possible()};
    vrt::ev("{\"e\":\"LeafStart\",\"l\":%d,\"stopped\":%d}", c->id, stopped ? 1 : 0);
    c->complete = [this](char ch) { finish(ch); };
    World* ww = w; LeafCtl* cc = c;        // our own completion may destroy this operation state
    constructing = true;
    cb.construct(unifex::get_stop_token(r), Cb{this});
    cbLive = true; constructing = false;
    if (pendingStop) { pendingStop = false; on_stop(); if (cc->completed) return; }
    if (ww->stopIn == cc->id) {
      ww->src.request_stop();
      if (cc->completed) return;          // our own stop callback completed (and possibly destroyed) us
    }
    if (cc->inl) finish(cc->ch);
  }
  void on_stop() noexcept {
    if (constructing) { pendingStop = true; return; }
    w->seen.insert(c->id);
    vrt::ev("{\"e\":\"LeafStopSeen\",\"l\":%d}", c->id);
    if (c->onStopDone && !c->inl && !c->completed) finish('d');
  }
  void finish(char ch) noexcept {
    c->completed = true; c->started = false; c->complete = nullptr; running = false;
    if (cbLive) { cbLive = false; cb.destruct(); }
    int id = c->id; World* ww = w;
    vrt::ev("{\"e\":\"LeafComplete\",\"l\":%d,\"ch\":\"%c\"}", id, ch);
    R rr = std::move(r);                   // the receiver may destroy this operation state
    if (ch == 'v') { if constexpr (Void) unifex::set_value(std::move(rr)); else unifex::set_value(std::move(rr), Val(ww, id)); }
    else if (ch == 'e') unifex::set_error(std::move(rr), std::make_exception_ptr(Tagged{{id}}));
    else unifex::set_done(std::move(rr));
  }
};
template <bool Void> struct LeafVals { template <template <class...> class V, template <class...> class T> using value_types = V<T<Val>>; };
template <> struct LeafVals<true> { template <template <class...> class V, template <class...> class T> using value_types = V<T<>>; };
template <bool Void> struct LeafT : LeafVals<Void> {
  template <template <class...> class V> using error_types = V<std::exception_ptr>;
  static constexpr bool sends_done = true;
  static constexpr unifex::blocking_kind blocking = unifex::blocking_kind::maybe;
  static constexpr bool is_always_scheduler_affine = false;
  World* w; int id;
  LeafT(World* w, int id) noexcept : w(w), id(id) {}
  template <class R> LeafOp<unifex::remove_cvref_t<R>, Void> connect(R&& r) const { return LeafOp<unifex::remove_cvref_t<R>, Void>{w, &w->leaf[id], (R&&)r}; }
};
using Leaf = LeafT<false>;
using LeafV = LeafT<true>;

inline std::exception_ptr mkerr(int id) { return std::make_exception_ptr(Tagged{{id}}); }
template <class F1, class F2>
auto make_variant(bool first, F1 f1, F2 f2) -> unifex::variant_sender<std::invoke_result_t<F1>, std::invoke_result_t<F2>> {
  if (first) return f1();
  return f2();
}
template <class S> auto AnyVal(S&& s) { return unifex::any_sender_of<Val>((S&&)s); }
template <class S> auto AnyVoid(S&& s) { return unifex::any_sender_of<>((S&&)s); }

// ---------------------------------------------------------------- outer receiver
struct Recv {
  World* w;
  void done(char ch, Payload p) noexcept {
    World* ww = w;
    ww->root.push_back({ch, std::move(p), ww->curk, ww->curn, ww->regs, ww->inStart});
    vrt::ev("{\"e\":\"RootComplete\",\"ch\":\"%c\",\"regs\":%d,\"inStart\":%d}", ch, ww->regs, ww->inStart ? 1 : 0);
    if (ww->rootDestroysOp && ww->destroyOp) { auto d = std::move(ww->destroyOp); ww->destroyOp = nullptr; d(); }
  }
  template <class... Ts> void set_value(Ts&&... ts) noexcept { done('v', flat(ts...)); }
  template <class E> void set_error(E&& e) noexcept { done('e', flat(e)); }
  void set_done() noexcept { done('d', {}); }
  friend CountingToken tag_invoke(unifex::tag_t<unifex::get_stop_token>, const Recv& r) noexcept { return CountingToken{r.w, r.w->src.get_token()}; }
  friend RootSched tag_invoke(unifex::tag_t<unifex::get_scheduler>, const Recv&) noexcept { return RootSched{}; }
  friend QueryTag tag_invoke(custom_query_t, const Recv&) noexcept { return QueryTag{0}; }
  friend TagAlloc<std::byte> tag_invoke(unifex::tag_t<unifex::get_allocator>, const Recv& r) noexcept { return TagAlloc<std::byte>{r.w, 0}; }
};

// ---------------------------------------------------------------- type-erased handle on a connected operation
struct OpHandle {
  virtual void start() noexcept = 0;
  virtual ~OpHandle() = default;
};
struct Traits { int blocking = -1; int sends_done = -1; int affine = -1; };
using Factory = OpHandle* (*)(World&);      // connects the shape's sender to a Recv; may throw Tagged

template <class Make> struct OpImpl final : OpHandle {
  using Op = decltype(unifex::connect(std::declval<Make>()(std::declval<World&>()), Recv{nullptr}));
  Op op;
  OpImpl(Make make, World& w) : op(unifex::connect(make(w), Recv{&w})) {}
  void start() noexcept override { unifex::start(op); }
};
// sync_wait as the outermost driver (C05: "sync_wait maps channels as specified")
struct SwResult { char ch; Payload p; };
using SwFn = SwResult (*)(World&);
template <class Make, Make make> SwResult sw_run(World& w) {
  try {
    auto r = unifex::sync_wait(make(w));
    if (!r) return {'d', {}};
    return {'v', flat(*r)};
  } catch (Tagged& t) { return {'e', t.p}; }
  catch (...) { return {'e', {-999}}; }
}
struct Registry {
  static std::map<int, SwFn>& sw() { static std::map<int, SwFn> m; return m; }
  static std::map<int, Factory>& map() { static std::map<int, Factory> m; return m; }
  static std::map<int, Traits>& traits() { static std::map<int, Traits> m; return m; }
};
template <class Make, Make make> struct Reg {
  static OpHandle* create(World& w) { return new OpImpl<Make>(make, w); }
  explicit Reg(int id) {
    Registry::map()[id] = &create;
    using S = decltype(make(std::declval<World&>()));
    Traits t;
    t.blocking = (int)(unsigned char)static_cast<unifex::_block::_enum>(unifex::sender_traits<S>::blocking);
    t.sends_done = unifex::sender_traits<S>::sends_done ? 1 : 0;
    t.affine = unifex::sender_traits<S>::is_always_scheduler_affine ? 1 : 0;
    Registry::traits()[id] = t;
  }
};
}  // namespace alg
#define ALG_SHAPE_SW(ID) \
  static struct SwReg_##ID { SwReg_##ID() { alg::Registry::sw()[ID] = &alg::sw_run<decltype(&make_##ID), &make_##ID>; } } swreg_##ID;
#define ALG_SHAPE(ID, ...) \
  static auto make_##ID(alg::World& w) { using namespace alg; return __VA_ARGS__; } \
  static alg::Reg<decltype(&make_##ID), &make_##ID> reg_##ID(ID);
