"""Shape catalogue: the single source of the expression trees used by spec/algebra/Senders.tla (constant
Shapes, via JSON) and by the generated C++ factories.

A shape is a nested tuple  (kind, child..., {options})  over the adaptor alphabet below.  `build()` assigns
node ids (preorder over the C++-level tree; nodes introduced by the expansion of via/on into their documented
compositions get ids after those), checks well-typedness (value type 'val' | 'void' per node, copyability where
an algorithm re-connects its source) and returns the spec-level record plus the C++ expression text."""
import json, random

VOID, VAL = "void", "val"

# kind -> (arity or None for n-ary)
UNARY_ID = ("mat", "into_variant", "unstoppable", "wqv", "any", "done_as_optional", "walloc")


class Node:
    def __init__(self, kind, kids=(), arg=0):
        self.kind, self.kids, self.arg = kind, list(kids), arg
        self.id = 0
        self.vt = None


def parse(t):
    if isinstance(t, str):
        t = (t,)
    kind = t[0]
    arg = 0
    kids = []
    for x in t[1:]:
        if isinstance(x, dict):
            arg = x.get("arg", 0)
        else:
            kids.append(parse(x))
    return Node(kind, kids, arg)


class TypeErrorShape(Exception):
    pass


def typecheck(n):
    """Returns the value type of node n ('val'|'void'); raises TypeErrorShape if the shape is ill-typed."""
    k = n.kind
    ks = [typecheck(c) for c in n.kids]

    def need(cond, msg):
        if not cond:
            raise TypeErrorShape("%s: %s" % (k, msg))
    NONE_T = "none"
    def compat(a, b):
        return a == b or a == NONE_T or b == NONE_T
    if k in ("leaf", "just", "just_from"):
        vt = VAL
    elif k in ("just_error", "just_done"):
        vt = NONE_T
    elif k == "just_void_or_done":
        vt = VOID
    elif k in ("defer", "let_value_with", "lvwss", "lvwst", "allocate"):
        need(len(ks) == 1, "arity")
        vt = ks[0]
    elif k == "variant":
        need(len(ks) == 2 and ks[0] == ks[1] and n.arg in (1, 2), "both alternatives must have the same value type")
        vt = ks[0]
    elif k in ("leafv", "justv", "sched", "stop_if_requested"):
        vt = VOID
    elif k in ("then", "upon_error", "upon_done"):
        need(len(ks) == 1, "arity")
        if k != "then":
            need(ks[0] in (VAL, "none"), "function result type must match the predecessor's value type in this harness")
        vt = VAL
    elif k == "thenv":
        vt = VOID
    elif k in ("let_value",):
        need(len(ks) == 2, "arity")
        vt = ks[1]
    elif k in ("let_error", "let_done"):
        need(len(ks) == 2 and compat(ks[0], ks[1]), "successor must produce the predecessor's value type")
        vt = ks[1]
    elif k == "finally":
        need(len(ks) == 2 and ks[1] == VOID, "completion must be void-valued")
        vt = ks[0]
    elif k == "sequence":
        need(len(ks) >= 2 and all(x == VOID for x in ks[:-1]), "predecessors must be void-valued")
        vt = ks[-1]
    elif k == "when_all":
        need(len(ks) >= 1, "arity")
        vt = VAL
    elif k == "when_all_range":
        need(all(c.kind == "leaf" for c in n.kids), "the range holds senders of one type: harness leaves")
        vt = VAL
    elif k == "when_any":
        need(len(ks) >= 2 and len(set(ks)) == 1, "all children must have the same value type")
        vt = ks[0]
    elif k == "stop_when":
        need(len(ks) == 2 and ks[1] == VOID, "trigger must be void-valued")
        vt = ks[0]
    elif k == "retry_when":
        need(len(ks) == 2 and ks[1] == VOID, "trigger must be void-valued")
        need(copyable(n.kids[0]), "source must be lvalue-connectable")
        vt = ks[0]
    elif k == "repeat_effect_until":
        need(len(ks) == 1 and ks[0] == VOID, "source must be void-valued")
        need(copyable(n.kids[0]), "source must be lvalue-connectable")
        vt = VOID
    elif k in UNARY_ID:
        need(len(ks) == 1, "arity")
        vt = ks[0]
        if k == "done_as_optional":
            vt = VAL
    elif k in ("via", "typed_via"):
        need(len(ks) == 1, "arity")
        vt = ks[0]
    elif k == "on":
        need(len(ks) == 1, "arity")
        vt = ks[0]
    else:
        raise TypeErrorShape("unknown kind " + k)
    if k in ("when_all", "when_any", "stop_when", "sequence", "retry_when", "repeat_effect_until", "let_value", "into_variant",
             "done_as_optional", "any", "via", "typed_via", "on", "variant", "defer", "let_value_with", "lvwss", "lvwst", "allocate", "wqv", "walloc", "unstoppable"):
        need("none" not in ks, "a sender without value types is not usable here")
    if k == "retry_when" or k == "repeat_effect_until":
        pass
    # does the node deliver exactly Val / exactly nothing (needed where the harness names the type: any_sender_of<Val>)?
    kx = [getattr(c, "exact", True) for c in n.kids]
    if k in ("when_all", "when_all_range", "into_variant", "done_as_optional"):
        n.exact = False
    elif k in ("then", "thenv", "leaf", "leafv", "just", "justv", "just_from", "sched", "just_void_or_done", "stop_if_requested"):
        n.exact = True
    elif k in ("let_value", "let_error", "let_done", "finally", "retry_when", "upon_error", "upon_done", "when_any", "variant"):
        n.exact = all(kx) if k in ("let_error", "let_done", "upon_error", "upon_done", "when_any", "variant") else (kx[1] if k == "let_value" else kx[0])
    elif k == "sequence":
        n.exact = kx[-1]
    else:
        n.exact = kx[0] if kx else True
    if k == "any":
        need(kx[0], "any_sender_of<Val> needs a child that sends exactly Val")
    if k == "when_any":
        need(all(kx), "children of when_any must all send exactly Val / nothing in this harness")
    n.vt = vt
    return vt


def copyable(n):
    # any_sender_of is move-only; let_* lambdas capture by reference and are copyable; everything else is copyable
    if n.kind == "any":
        return False
    return all(copyable(c) for c in n.kids)


def assign_ids(root):
    cnt = [0]

    def go(n):
        cnt[0] += 1
        n.id = cnt[0]
        for c in n.kids:
            go(c)
    go(root)
    return cnt[0]


def expand(root, nmax):
    """C++-level tree -> spec-level tree (via = finally(src, schedule), on = sequence(schedule, with-scheduler(src)))."""
    cnt = [nmax]

    def fresh():
        cnt[0] += 1
        return cnt[0]

    def go(n):
        kids = [go(c) for c in n.kids]
        if n.kind in ("via", "typed_via"):
            s = Node("sched", [], n.arg)
            s.id = fresh()
            m = Node("finally", [kids[0], s], 0)
            m.id = n.id
            n.sched_id = s.id
            return m
        if n.kind == "on":
            s = Node("sched", [], n.arg)
            s.id = fresh()
            w = Node("wsched", [kids[0]], n.arg)
            w.id = fresh()
            m = Node("sequence", [s, w], 0)
            m.id = n.id
            n.sched_id = s.id
            return m
        m = Node(n.kind, kids, n.arg)
        m.id = n.id
        return m
    r = go(root)
    return r, cnt[0]


def spec_record(sid, root, total, text):
    kind = [""] * total
    kids = [[] for _ in range(total)]
    par = [0] * total
    arg = [0] * total

    def go(n, p):
        kind[n.id - 1] = n.kind
        kids[n.id - 1] = [c.id for c in n.kids]
        par[n.id - 1] = p
        arg[n.id - 1] = n.arg
        for c in n.kids:
            go(c, n.id)
    go(root, 0)
    return dict(id=sid, kind=kind, kids=kids, par=par, arg=arg, root=root.id, text=text)


def cpp(n):
    k = n.kind
    c = [cpp(x) for x in n.kids]
    i = n.id
    if k == "leaf":
        return "Leaf{&w, %d}" % i
    if k == "leafv":
        return "LeafV{&w, %d}" % i
    if k == "just":
        return "unifex::just(Val(&w, %d))" % i
    if k == "justv":
        return "unifex::just()"
    if k == "stop_if_requested":
        return "unifex::stop_if_requested()"
    if k == "just_error":
        return "unifex::just_error(mkerr(%d))" % i
    if k == "just_done":
        return "unifex::just_done()"
    if k == "just_void_or_done":
        return "unifex::just_void_or_done(%s)" % ("true" if n.arg == 1 else "false")
    if k == "just_from":
        return "unifex::just_from(FnD{&w, %d})" % i
    if k == "defer":
        return "unifex::defer([&w]() { w.call(%d, {}); return %s; })" % (i, c[0])
    if k == "let_value_with":
        return "unifex::let_value_with([&w]() { return Val(&w, %d); }, [&w](Val&) { return %s; })" % (i, c[0])
    if k == "variant":
        return "make_variant(%s, [&w]() { return %s; }, [&w]() { return %s; })" % ("true" if n.arg == 1 else "false", c[0], c[1])
    if k == "allocate":
        return "unifex::allocate(%s)" % c[0]
    if k == "lvwss":
        return "unifex::let_value_with_stop_source([&w](auto& src) { w.innerStop[%d] = [&src] { src.request_stop(); }; return %s; })" % (i, c[0])
    if k == "lvwst":
        return "unifex::let_value_with_stop_token([&w](unifex::inplace_stop_token) { return %s; })" % c[0]
    if k == "then":
        return "unifex::then(%s, Fn{&w, %d})" % (c[0], i)
    if k == "thenv":
        return "unifex::then(%s, FnV{&w, %d})" % (c[0], i)
    if k == "upon_error":
        return "unifex::upon_error(%s, FnE{&w, %d})" % (c[0], i)
    if k == "upon_done":
        return "unifex::upon_done(%s, FnD{&w, %d})" % (c[0], i)
    if k == "let_value":
        return "unifex::let_value(%s, [&w](auto&... vs) { w.call(%d, flat(vs...)); return %s; })" % (c[0], i, c[1])
    if k == "let_error":
        return "unifex::let_error(%s, [&w](auto&& e) { w.call(%d, flat(e)); return %s; })" % (c[0], i, c[1])
    if k == "let_done":
        return "unifex::let_done(%s, [&w]() { w.call(%d, {}); return %s; })" % (c[0], i, c[1])
    if k == "finally":
        return "unifex::finally(%s, %s)" % (c[0], c[1])
    if k == "when_all_range":
        return "unifex::when_all_range(std::vector<Leaf>{%s})" % ", ".join(c)
    if k in ("sequence", "when_all", "when_any", "stop_when"):
        return "unifex::%s(%s)" % (k, ", ".join(c))
    if k == "retry_when":
        return ("unifex::retry_when(%s, [&w](std::exception_ptr e) { w.call(%d, flat(e)); "
                "if (w.budget_exhausted(%d, %d)) std::rethrow_exception(e); return %s; })" % (c[0], i, i, n.arg, c[1]))
    if k == "repeat_effect_until":
        return ("unifex::repeat_effect_until(%s, [&w]() { w.call(%d, {}); return w.budget_exhausted(%d, %d); })"
                % (c[0], i, i, n.arg))
    if k == "mat":
        return "unifex::dematerialize(unifex::materialize(%s))" % c[0]
    if k == "into_variant":
        return "unifex::into_variant(%s)" % c[0]
    if k == "done_as_optional":
        return "unifex::done_as_optional(%s)" % c[0]
    if k == "unstoppable":
        return "unifex::unstoppable(%s)" % c[0]
    if k == "wqv":
        return "unifex::with_query_value(%s, custom_query, QueryTag{%d})" % (c[0], n.arg)
    if k == "walloc":
        return "unifex::with_allocator(%s, TagAlloc<std::byte>{&w, %d})" % (c[0], n.arg)
    if k == "any":
        return ("AnyVal(%s)" if n.vt == VAL else "AnyVoid(%s)") % c[0]
    if k == "via":
        return "unifex::via(%s, CtxSched{&w, %d, %d})" % (c[0], n.arg, n.sched_id)
    if k == "typed_via":
        return "unifex::typed_via(%s, CtxSched{&w, %d, %d})" % (c[0], n.arg, n.sched_id)
    if k == "on":
        return "unifex::on(CtxSched{&w, %d, %d}, %s)" % (n.arg, n.sched_id, c[0])
    raise ValueError(k)


def text(t):
    if isinstance(t, str):
        return t
    parts = []
    a = ""
    for x in t[1:]:
        if isinstance(x, dict):
            a = "#%s" % x.get("arg", 0)
        else:
            parts.append(text(x))
    return t[0] + a + ("(" + ",".join(parts) + ")" if parts else "")


def build(sid, t):
    root = parse(t)
    typecheck(root)
    n = assign_ids(root)
    sroot, total = expand(root, n)
    code = cpp(root)
    rec = spec_record(sid, sroot, total, text(t))
    nleaves = sum(1 for k in rec["kind"] if k in ("leaf", "leafv"))
    return rec, code, root.vt, nleaves


# ----------------------------------------------------------------------------- curated catalogue
L, LV = "leaf", "leafv"
A = lambda v: {"arg": v}


def curated():
    T = []
    add = T.append
    # transformers, each over a leaf (all channels reachable through leaf modes)
    add(("then", L))
    add(("thenv", L))
    add(("upon_error", L))
    add(("upon_done", L))
    add(("then", ("then", L)))
    add(("mat", L))
    add(("into_variant", L))
    add(("done_as_optional", L))
    add(("any", L))
    add(("any", LV))
    add(("unstoppable", L))
    add(("wqv", L, A(7)))
    # sequencing
    add(("let_value", L, L))
    add(("let_value", L, LV))
    add(("let_error", L, L))
    add(("let_done", L, L))
    add(("let_done", LV, "justv"))
    add(("finally", L, LV))
    add(("finally", LV, LV))
    add(("finally", L, "justv"))
    add(("finally", L, ("just_void_or_done", A(1))))
    add(("then", ("finally", L, "justv")))
    add(("sequence", LV, L))
    add(("sequence", LV, LV, L))
    add(("sequence", "justv", L))
    add(("let_value", "just", L))
    add(("then", "just"))
    # concurrency / cancellation
    add(("when_all", L, L))
    add(("when_all", L, LV))
    add(("when_all", L, L, L))
    add(("when_all", ("then", L), L))
    add(("when_any", L, L))
    add(("when_any", LV, LV))
    add(("stop_when", L, LV))
    add(("stop_when", LV, LV))
    add(("when_all", L, ("stop_when", L, LV)))
    add(("when_all", ("then", L), ("stop_when", L, LV)))
    add(("stop_when", ("when_all", L, L), LV))
    add(("when_any", ("then", L), L))
    add(("when_all", ("unstoppable", L), L))
    add(("stop_when", ("unstoppable", L), LV))
    add(("when_all", ("when_all", L, L), L))
    add(("let_value", ("when_all", L, L), L))
    add(("finally", ("when_all", L, L), LV))
    add(("finally", L, ("stop_when", LV, LV)))
    # repetition
    add(("retry_when", L, LV, A(1)))
    add(("retry_when", ("then", L), LV, A(1)))
    add(("retry_when", L, LV, A(2)))
    add(("repeat_effect_until", LV, A(1)))
    add(("repeat_effect_until", ("thenv", L), A(2)))
    add(("repeat_effect_until", ("sequence", LV, LV), A(1)))
    # sources that own a tracked value: the re-connect of retry/repeat copies it (lvalue connect)
    add(("repeat_effect_until", ("thenv", "just"), A(2)))
    add(("retry_when", ("then", "just"), LV, A(1)))
    add(("repeat_effect_until", ("sequence", ("thenv", "just"), LV), A(1)))
    # contexts
    add(("via", L, A(1)))
    add(("on", L, A(1)))
    add(("typed_via", L, A(1)))
    add(("via", ("on", L, A(1)), A(2)))
    add(("then", ("via", L, A(1))))
    add(("when_all", ("via", L, A(1)), L))
    add(("on", ("when_all", L, L), A(1)))
    add(("let_value", ("via", L, A(1)), L))
    add(("stop_when", ("on", L, A(1)), LV))
    add(("wqv", ("on", L, A(1)), A(5)))
    add(("on", ("wqv", L, A(5)), A(2)))
    # factories and small adaptors
    add(("then", "just_error"))
    add(("upon_error", "just_error"))
    add(("upon_done", "just_done"))
    add(("let_error", "just_error", L))
    add(("let_done", "just_done", L))
    add(("finally", "just_error", LV))
    add(("mat", "just_done"))
    add(("sequence", ("just_void_or_done", A(1)), L))
    add(("sequence", ("just_void_or_done", A(0)), L))
    add(("then", "just_from"))
    add(("when_all", "just_from", L))
    # re-connect family: a stateful sender / query value in a position that is connected again (as an lvalue) by
    # retry_when / repeat_effect_until - it must be copied, not moved, out of the stored sender
    add(("retry_when", ("sequence", LV, "just"), LV, A(1)))
    add(("repeat_effect_until", ("sequence", LV, ("thenv", "just")), A(1)))
    add(("repeat_effect_until", ("finally", ("thenv", "just"), LV), A(1)))
    add(("retry_when", ("wqv", L, A(5)), LV, A(1)))
    add(("repeat_effect_until", ("wqv", LV, A(5)), A(2)))
    add(("retry_when", ("walloc", ("allocate", L), A(3)), LV, A(1)))
    add(("retry_when", ("then", ("on", L, A(1))), LV, A(1)))
    # trait soundness: an inline child next to a deferred one in every fan-out / sequencing adaptor (a `blocking` trait
    # computed from one child only over-promises exactly here)
    add(("stop_when", "just", LV))
    add(("stop_when", "justv", LV))
    add(("then", ("stop_when", "just", LV)))
    add(("stop_when", L, "justv"))
    add(("when_all", "just", L))
    add(("when_any", "just", L))
    add(("finally", "just", LV))
    add(("sequence", LV, "justv"))
    add(("defer", L))
    add(("defer", ("when_all", L, L)))
    add(("let_value_with", L))
    add(("let_value_with", ("stop_when", L, LV)))
    add(("variant", L, ("then", L), A(1)))
    add(("variant", L, ("then", L), A(2)))
    # stop-source / stop-token injection
    add(("lvwss", L))
    add(("lvwss", ("when_all", L, L)))
    add(("when_all", ("lvwss", L), L))
    add(("lvwss", ("unstoppable", L)))
    add(("unstoppable", ("lvwss", L)))
    add(("lvwst", L))
    add(("stop_when", ("lvwst", L), LV))
    # when_all_range
    add(("when_all_range", L, L))
    add(("when_all_range", L, L, L))
    add(("when_all_range",))
    add(("then", ("when_all_range", L, L)))
    add(("stop_when", ("when_all_range", L, L), LV))
    add(("when_all", ("when_all_range", L, L), L))
    # allocator
    add(("allocate", L))
    add(("walloc", ("allocate", L), A(3)))
    add(("walloc", ("when_all", ("allocate", L), L), A(4)))
    add(("allocate", ("walloc", ("allocate", L), A(3))))
    add(("any", ("walloc", ("allocate", L), A(3))))
    return T


def random_shape(rng, depth, vt=None):
    """A random well-typed tree of the requested value type (None = either)."""
    vt = vt or rng.choice([VAL, VAL, VOID])
    if depth <= 0 or rng.random() < 0.18:
        return L if vt == VAL else LV
    R = lambda v=None: random_shape(rng, depth - 1, v)
    if vt == VAL:
        k = rng.choice(["then", "upon_error", "upon_done", "let_value", "let_error", "let_done", "finally", "sequence",
                        "when_all", "when_any", "stop_when", "retry_when", "mat", "into_variant", "done_as_optional",
                        "unstoppable", "wqv", "any", "via", "on", "typed_via"])
    else:
        k = rng.choice(["thenv", "let_value", "let_done", "finally", "sequence", "when_any", "stop_when", "retry_when",
                        "repeat_effect_until", "mat", "unstoppable", "wqv", "any", "via", "on"])
    if k in ("then",):
        return (k, R())
    if k == "thenv":
        return (k, R())
    if k in ("upon_error", "upon_done"):
        return (k, R(VAL))
    if k == "let_value":
        return (k, R(), R(vt))
    if k in ("let_error", "let_done"):
        return (k, R(vt), R(vt))
    if k == "finally":
        return (k, R(vt), R(VOID))
    if k == "sequence":
        return (k, R(VOID), R(vt))
    if k == "when_all":
        return (k, R(), R()) if rng.random() < 0.8 else (k, R(), R(), R())
    if k == "when_any":
        return (k, R(vt), R(vt))
    if k == "stop_when":
        return (k, R(vt), R(VOID))
    if k == "retry_when":
        return (k, nocopy_free(rng, depth - 1, vt), R(VOID), A(rng.choice([1, 2])))
    if k == "repeat_effect_until":
        return (k, nocopy_free(rng, depth - 1, VOID), A(rng.choice([1, 2])))
    if k in ("mat", "into_variant", "unstoppable", "any"):
        return (k, R(vt))
    if k == "done_as_optional":
        return (k, R(VAL))
    if k == "wqv":
        return (k, R(vt), A(rng.choice([5, 7])))
    if k in ("via", "typed_via", "on"):
        return (k, R(vt), A(rng.choice([1, 2])))
    raise ValueError(k)


def nocopy_free(rng, depth, vt):
    for _ in range(50):
        t = random_shape(rng, depth, vt)
        if "any" not in json.dumps(t):
            return t
    return L if vt == VAL else LV


def with_any_inside(t):
    """Insert an any_sender_of node around the first child (if the shape has children)."""
    if isinstance(t, str):
        return None
    kids = [i for i, x in enumerate(t[1:], 1) if not isinstance(x, dict)]
    if not kids:
        return None
    i = kids[0]
    return t[:i] + (("any", t[i]),) + t[i + 1:]


def erasure_catalogue(tier):
    """C18: every base shape together with the same shape wrapped in / containing an any_sender_of node."""
    base = [t for t in curated() if "any" not in json.dumps(t)]
    if tier == "quick":
        base = base[::2]
    out = []
    for t in base:
        out.append(t)
        out.append(("any", t))
        w = with_any_inside(t)
        if w is not None:
            out.append(w)
    return out


def catalogue(tier, seed, prop=None):
    shapes = erasure_catalogue(tier) if prop == "C18" else curated()
    rng = random.Random(seed * 1000003 + 17)
    nrand = 0 if (tier == "quick" or prop == "C18") else 120
    tries = 0
    seen = set(json.dumps(s) for s in shapes)
    while nrand > 0 and tries < 5000:
        tries += 1
        t = random_shape(rng, 3 if tier == "thorough" else 2)
        key = json.dumps(t)
        if key in seen:
            continue
        try:
            rec, code, vt, nl = build(0, t)
        except TypeErrorShape:
            continue
        if nl > 3 or nl < 1 or len(rec["kind"]) > 9:
            continue
        seen.add(key)
        shapes.append(t)
        nrand -= 1
    out = []
    for t in shapes:
        try:
            rec, code, vt, nl = build(len(out) + 1, t)
        except TypeErrorShape:
            continue          # e.g. an any_sender_of below retry_when (the source must be copyable)
        out.append(dict(spec=rec, cpp=code, vt=vt, leaves=nl, dsl=t))
    return out


if __name__ == "__main__":
    import sys
    c = catalogue(sys.argv[1] if len(sys.argv) > 1 else "quick", 1)
    for s in c:
        print(s["spec"]["id"], s["spec"]["text"], "|", s["cpp"][:150])
