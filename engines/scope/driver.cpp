// C08 driver: executes async_scope scenarios (v2 / v1 / v0 scopes) on the real code with controlled threads.
// modes: guided (TLC behaviours), dfs (bounded-preemption enumeration), random (seeded).
//
// Work items are harness leaf senders whose completion is triggered by a `complete` op of some driver thread; every
// operation state / sender / the scope itself is an individual heap object freed exactly when the API says it may die
// (nest/attach operation: inside its receiver's completion; join operation: inside the join receiver's completion;
// the scope: in "eager" units as soon as every planned join has completed and no thread is inside or still has a direct
// call on the scope object, in "late" units after the execution).
#include "vrt.hpp"

#include <unifex/inline_scheduler.hpp>
#include <unifex/spawn_detached.hpp>
#include <unifex/v0/async_scope.hpp>
#include <unifex/v1/async_scope.hpp>
#include <unifex/v2/async_scope.hpp>

#include <nlohmann/json.hpp>

#include <fstream>
#include <set>
#include <sstream>

using namespace unifex;
using json = nlohmann::json;

struct Op { std::string k; int a = 0, b = 0; };
using Prog = std::vector<Op>;
struct Scenario { int id = 0; int ver = 2; Prog prog[4]; int njoins = 0; int ndirect = 0; };

static bool isDirect(const std::string& k) {
  return k == "nest" || k == "join" || k == "spawn" || k == "cleanup" || k == "reqstop";
}
static bool isCloser(const std::string& k) { return k == "join" || k == "cleanup"; }

constexpr int NW = 8, NJ = 4;

// ------------------------------------------------------------------ shared bookkeeping (one logical thread at a time)
struct WorldBase {
  const Scenario* scn = nullptr;
  bool eager = true;
  int adm[NW];                 // -1 none, 0 refused, 1 admitted, 2 unknown
  bool hasRecv[NW] = {};       // a harness receiver observes the completion (nest/attach operations)
  bool leafStarted[NW] = {}, leafDone[NW] = {}, neverStarts[NW] = {}, fin[NW] = {}, stopSeen[NW] = {};
  std::function<void(int)> fire[NW];
  void* opPtr[NW] = {};
  void (*opDel[NW])(void*) = {};
  void* jopPtr[NJ] = {};
  void (*jopDel[NJ])(void*) = {};
  bool jBegun[NJ] = {}, jDone[NJ] = {};
  int jDoneCount[NJ] = {};
  int directRemaining = 0;
  WorldBase() { for (auto& a : adm) a = -1; }
  virtual ~WorldBase() {}
  virtual void maybeFree() = 0;

  static void E(const char* e, int w, int j, int r) {
    vrt::ev("{\"e\":\"%s\",\"w\":%d,\"j\":%d,\"t\":%d,\"r\":%d}", e, w, j, vrt::self_id(), r);
  }
  void leafStart(int w) { E("LeafStart", w, 0, -1); }
  void sawStop(int w) { if (!stopSeen[w]) { stopSeen[w] = true; E("StopSeen", w, 0, -1); } }
  // completion of the harness receiver of a nest/attach operation; frees the operation (the receiver lives inside it)
  void workDone(int w, int ch) {
    E("WorkDone", w, 0, ch);
    fin[w] = true;
    if (!leafStarted[w]) neverStarts[w] = true;
    void* p = opPtr[w]; auto d = opDel[w]; opPtr[w] = nullptr;
    if (p) d(p);
  }
  void joinDone(int j, int ch) {
    E("JoinDone", 0, j, ch);
    jDone[j] = true; ++jDoneCount[j];
    void* p = jopPtr[j]; auto d = jopDel[j]; jopPtr[j] = nullptr;
    if (p) d(p);
    maybeFree();
  }
  bool ledgerConsistent() const {
    for (int w = 0; w < NW; ++w) if ((adm[w] == 1 || adm[w] == 2) && !fin[w]) return false;
    for (int j = 0; j < NJ; ++j) if (jDoneCount[j] > 1) return false;
    return true;
  }
  bool allPlannedJoinsDone() const {
    if (scn->njoins == 0) return false;
    int n = 0;
    for (int j = 0; j < NJ; ++j) if (jDone[j]) ++n;
    return n >= scn->njoins;
  }
  // the driver's `complete w`
  void completeLeaf(int w) {
    while (!(leafStarted[w] || neverStarts[w])) UNIFEX_VERIF_SPIN("scope.h.wait");
    if (!leafStarted[w] || leafDone[w]) return;
    leafDone[w] = true;
    int ch = stopSeen[w] ? 1 : 0;
    E("LeafFinish", w, 0, stopSeen[w] ? 1 : 0);
    if (!hasRecv[w]) { E("WorkDone", w, 0, ch); fin[w] = true; }
    fire[w](ch);
  }
};

// ------------------------------------------------------------------ the controllable leaf sender
template <class R>
struct LeafOp {
  struct Cb { WorldBase* W; int id; void operator()() noexcept { W->sawStop(id); } };
  using ST = stop_token_type_t<R&>;
  using CbT = typename ST::template callback_type<Cb>;
  WorldBase* W; int id; R r;
  manual_lifetime<CbT> cb;
  template <class R2>
  LeafOp(WorldBase* w, int i, R2&& rr) : W(w), id(i), r((R2&&)rr) {}
  LeafOp(LeafOp&&) = delete;
  void start() noexcept {
    W->leafStart(id);
    cb.construct(get_stop_token(r), Cb{W, id});
    W->fire[id] = [this](int ch) { this->complete(ch); };
    W->leafStarted[id] = true;
  }
  void complete(int ch) noexcept {
    cb.destruct();
    if (ch == 0) unifex::set_value(std::move(r)); else unifex::set_done(std::move(r));
    // `this` is gone
  }
};
// a copy of a nest sender / an lvalue connect creates a *new* work item: the harness names it through this override
static thread_local int tl_idOverride = -1;
struct Leaf {
  Leaf(WorldBase* w, int i) : W(w), id(i) {}
  Leaf(const Leaf& o) : W(o.W), id(tl_idOverride >= 0 ? tl_idOverride : o.id) {}
  Leaf(Leaf&& o) noexcept : W(o.W), id(o.id) {}
  template <template <class...> class Variant, template <class...> class Tuple>
  using value_types = Variant<Tuple<>>;
  template <template <class...> class Variant>
  using error_types = Variant<std::exception_ptr>;
  static constexpr bool sends_done = true;
  static constexpr blocking_kind blocking = blocking_kind::never;
  static constexpr bool is_always_scheduler_affine = false;
  WorldBase* W; int id;
  template <class R>
  LeafOp<remove_cvref_t<R>> connect(R&& r) const {
    return LeafOp<remove_cvref_t<R>>{W, tl_idOverride >= 0 ? tl_idOverride : id, (R&&)r};
  }
};

struct Recv {
  WorldBase* W; int id;
  void set_value() && noexcept { W->workDone(id, 0); }
  template <class Err> void set_error(Err&&) && noexcept { W->workDone(id, 2); }
  void set_done() && noexcept { W->workDone(id, 1); }
};
struct JoinRecv {
  WorldBase* W; int j;
  void set_value() && noexcept { W->joinDone(j, 0); }
  template <class Err> void set_error(Err&&) && noexcept { W->joinDone(j, 2); }
  void set_done() && noexcept { W->joinDone(j, 1); }
  friend inline_scheduler tag_invoke(tag_t<get_scheduler>, const JoinRecv&) noexcept { return {}; }
};

// ------------------------------------------------------------------ per-version API
template <int V> struct Tr;
template <> struct Tr<2> {
  using Scope = unifex::v2::async_scope;
  static auto nest(Scope& s, Leaf l) { return s.nest(std::move(l)); }
  static auto join(Scope& s) { return s.join(); }
  static auto cleanup(Scope& s) { return s.join(); }
  static void reqstop(Scope&) {}
  static void spawn(Scope& s, Leaf l) { unifex::spawn_detached(std::move(l), s); }
};
template <> struct Tr<1> {
  using Scope = unifex::v1::async_scope;
  static auto nest(Scope& s, Leaf l) { return s.attach(std::move(l)); }
  static auto join(Scope& s) { return s.complete(); }
  static auto cleanup(Scope& s) { return s.cleanup(); }
  static void reqstop(Scope& s) { s.request_stop(); }
  static void spawn(Scope& s, Leaf l) { unifex::spawn_detached(std::move(l), s); }
};
template <> struct Tr<0> {
  using Scope = unifex::v0::async_scope;
  static auto nest(Scope& s, Leaf l) { return unifex::v2::async_scope{}.nest(std::move(l)); }   // unused (v0 has no nest)
  static auto join(Scope& s) { return s.complete(); }
  static auto cleanup(Scope& s) { return s.cleanup(); }
  static void reqstop(Scope& s) { s.request_stop(); }
  static void spawn(Scope& s, Leaf l) { s.spawn(std::move(l)); }
};

template <int V>
struct World : WorldBase {
  using T = Tr<V>;
  using Scope = typename T::Scope;
  using NS = decltype(T::nest(std::declval<Scope&>(), std::declval<Leaf>()));
  using NOp = connect_result_t<NS, Recv>;
  using LOp = connect_result_t<const NS&, Recv>;
  Scope* scope = new Scope();
  NS* snd[NW] = {};

  void maybeFree() override {
    if (!eager || !scope) return;
    if (!allPlannedJoinsDone() || directRemaining != 0) return;
    if (!ledgerConsistent()) return;   // leave the judgement to the monitor; do not turn it into an assertion failure
    E("ScopeFreed", 0, 0, -1);
    delete scope; scope = nullptr;
  }
  void directDone() { --directRemaining; maybeFree(); }
  bool admitted(const NS& s) { return unifex::blocking(s) != blocking_kind::always_inline; }

  void doNest(int w) {
    E("NestBegin", w, 0, -1);
    auto* s = new NS(T::nest(*scope, Leaf{this, w}));
    snd[w] = s; hasRecv[w] = true;
    adm[w] = admitted(*s) ? 1 : 0;
    E("NestEnd", w, 0, adm[w]);
    directDone();
  }
  void doCopy(int w, int v) {
    E("NestBegin", v, 0, -1);
    tl_idOverride = v;
    auto* s = new NS(*snd[w]);
    tl_idOverride = -1;
    snd[v] = s; hasRecv[v] = true;
    adm[v] = admitted(*s) ? 1 : 0;
    E("NestEnd", v, 0, adm[v]);
  }
  void doStart(int w) {
    NS* s = snd[w]; snd[w] = nullptr;
    E("StartBegin", w, 0, -1);
    auto* op = new NOp(unifex::connect(std::move(*s), Recv{this, w}));
    delete s;   // moved-from
    opPtr[w] = op; opDel[w] = [](void* p) { delete static_cast<NOp*>(p); };
    unifex::start(*op);
  }
  void doLStart(int w, int v) {
    E("NestBegin", v, 0, -1);
    hasRecv[v] = true;
    tl_idOverride = v;
    auto* op = new LOp(unifex::connect(static_cast<const NS&>(*snd[w]), Recv{this, v}));
    tl_idOverride = -1;
    adm[v] = 2;
    E("NestEnd", v, 0, 2);
    opPtr[v] = op; opDel[v] = [](void* p) { delete static_cast<LOp*>(p); };
    unifex::start(*op);
  }
  void doDiscard(int w) {
    NS* s = snd[w]; snd[w] = nullptr;
    E("Discard", w, 0, -1);
    fin[w] = true; neverStarts[w] = true;
    delete s;
  }
  void doSpawn(int w) {
    E("NestBegin", w, 0, -1);
    hasRecv[w] = false;
    T::spawn(*scope, Leaf{this, w});
    adm[w] = leafStarted[w] ? 1 : 0;
    if (!leafStarted[w]) neverStarts[w] = true;
    E("NestEnd", w, 0, adm[w]);
    directDone();
  }
  template <class S>
  void startJoin(int j, S&& sender, int kind) {
    using JOp = connect_result_t<S, JoinRecv>;
    auto* op = new JOp(unifex::connect((S&&)sender, JoinRecv{this, j}));
    jopPtr[j] = op; jopDel[j] = [](void* p) { delete static_cast<JOp*>(p); };
    jBegun[j] = true;
    E("JoinBegin", 0, j, kind);
    unifex::start(*op);
    E("JoinRet", 0, j, kind);
    directDone();
  }
  void doJoin(int j) { startJoin(j, T::join(*scope), 0); }
  void doCleanup(int j) { startJoin(j, T::cleanup(*scope), 1); }
  void doReqStop() {
    E("ReqStopBegin", 0, 0, -1);
    T::reqstop(*scope);
    E("ReqStopEnd", 0, 0, -1);
    directDone();
  }
  void run(const Prog& p) {
    for (auto& op : p) {
      UNIFEX_VERIF_YIELD("scope.h.op");
      if (op.k == "nest") { if constexpr (V != 0) doNest(op.a); }
      else if (op.k == "copy") { if constexpr (V != 0) doCopy(op.a, op.b); }
      else if (op.k == "start") { if constexpr (V != 0) doStart(op.a); }
      else if (op.k == "lstart") { if constexpr (V != 0) doLStart(op.a, op.b); }
      else if (op.k == "discard") { if constexpr (V != 0) doDiscard(op.a); }
      else if (op.k == "spawn") doSpawn(op.a);
      else if (op.k == "complete") completeLeaf(op.a);
      else if (op.k == "join") doJoin(op.a);
      else if (op.k == "cleanup") doCleanup(op.a);
      else if (op.k == "reqstop") doReqStop();
    }
  }
  // after the execution: everything still alive that may legally be destroyed
  void finish() {
    E("Quiescent", 0, 0, -1);
    bool clean = ledgerConsistent();
    for (int w = 0; w < NW; ++w) {
      if (snd[w]) clean = false;
      if (leafStarted[w] && !leafDone[w]) clean = false;
    }
    if (scope && clean && allPlannedJoinsDone()) { delete scope; scope = nullptr; }
    // otherwise: outstanding work or an incomplete join keeps the scope (and itself) alive - leaked on purpose
  }
};

static bool sameSite(const std::string& want, const std::string& got) {
  if (want == "op") return got == "scope.h.op";
  if (want == "wait") return got == "scope.h.wait";
  return got == "scope." + want;
}

struct Unit { int scn; bool eager; };

int main(int argc, char** argv) {
  vrt::Args a(argc, argv);
  vrt::install_handlers();
  std::string mode = a.str("mode", "guided");
  std::vector<Scenario> scns;
  { std::ifstream f(a.str("scenarios")); json j; f >> j;
    for (auto& s : j) { Scenario sc; sc.id = s["id"].get<int>(); sc.ver = s.value("ver", 2);
      std::set<int> joins;
      for (int t = 1; t <= 3; ++t)
        for (auto& o : s["prog"][t - 1]) {
          Op op{o[0].get<std::string>(), o[1].get<int>(), o[2].get<int>()};
          if (isDirect(op.k)) ++sc.ndirect;
          if (isCloser(op.k)) joins.insert(op.a);
          sc.prog[t].push_back(op);
        }
      sc.njoins = (int)joins.size();
      scns.push_back(sc); } }
  std::map<int, const Scenario*> byId; for (auto& s : scns) byId[s.id] = &s;
  if (a.has("log")) vrt::log_open(a.str("log").c_str());
  long from = a.num("from", 0), to = a.num("to", 1L << 40);
  long execs = 0, steps = 0, drift = 0, unguided = 0, obsMismatch = 0, units = 0;
  std::string firstDrift, firstMismatch;
  std::set<std::string> distinctSched;

  auto runOneV = [&](auto tag, const Scenario& sc, bool eager, long x, long k,
                     const std::function<vrt::RunResult(vrt::Ctl&)>& drive, const json* expect) {
    constexpr int V = decltype(tag)::value;
    vrt::ev("{\"e\":\"Reset\",\"w\":0,\"j\":0,\"t\":0,\"r\":-1,\"x\":%ld,\"k\":%ld,\"scn\":%d,\"eager\":%d}", x, k, sc.id, eager ? 1 : 0);
    auto* w = new World<V>(); w->scn = &sc; w->eager = eager; w->directRemaining = sc.ndirect;
    vrt::RunResult rr;
    {
      vrt::Ctl c; c.accept = {"scope.", "spin_wait"};
      for (int t = 1; t <= 3; ++t) c.spawn(t, [w, t] { w->run(w->scn->prog[t]); });
      c.start_all();
      rr = drive(c);
      if (rr.deadlock) {
        std::string s = vrt::sched_json(rr);
        vrt::ev("{\"e\":\"Deadlock\",\"w\":0,\"j\":0,\"t\":0,\"r\":-1,\"sched\":%s}", s.c_str());
        vrt::log_flush();
        std::fprintf(stderr, "deadlock in scenario %d schedule %s\n", sc.id, s.c_str());
        _exit(75);
      }
      c.join();
    }
    w->finish();
    ++execs; steps += (long)rr.steps.size(); drift += rr.drift ? 1 : 0; unguided += rr.unguided;
    if (rr.drift && firstDrift.empty()) firstDrift = "unit " + std::to_string(x) + ": " + rr.firstDrift;
    distinctSched.insert(std::to_string(sc.id) + ":" + vrt::sched_json(rr));
    if (expect) {
      bool ok = true;
      auto& ea = (*expect)["adm"];
      for (size_t i = 0; i < ea.size() && i + 1 < (size_t)NW; ++i) {
        int e = ea[i].get<int>();                 // spec: 0 none, 1 admitted, 2 refused
        int g = w->adm[i + 1];                    // driver: -1 none, 0 refused, 1 admitted, 2 unknown
        if (g == 2) g = w->leafStarted[i + 1] ? 1 : 0;
        int gs = g < 0 ? 0 : (g == 1 ? 1 : 2);
        if (e != gs) ok = false;
      }
      auto& ej = (*expect)["jst"];
      for (size_t i = 0; i < ej.size() && i + 1 < (size_t)NJ; ++i) {
        std::string e = ej[i].get<std::string>();
        std::string g = w->jDone[i + 1] ? "done" : (w->jBegun[i + 1] ? "begun" : "none");
        if (e != g) ok = false;
      }
      if (!ok) { ++obsMismatch; if (firstMismatch.empty()) firstMismatch = "unit " + std::to_string(x); }
    }
    delete w;
  };
  auto runOne = [&](const Scenario& sc, bool eager, long x, long k,
                    const std::function<vrt::RunResult(vrt::Ctl&)>& drive, const json* expect) {
    if (sc.ver == 2) runOneV(std::integral_constant<int, 2>{}, sc, eager, x, k, drive, expect);
    else if (sc.ver == 1) runOneV(std::integral_constant<int, 1>{}, sc, eager, x, k, drive, expect);
    else runOneV(std::integral_constant<int, 0>{}, sc, eager, x, k, drive, expect);
  };

  if (mode == "guided") {
    std::ifstream in(a.str("behaviours")); std::string line; long x = -1;
    while (std::getline(in, line)) {
      if (line.empty()) continue;
      ++x; if (x < from || x >= to) continue;
      json b = json::parse(line);
      const Scenario& sc = *byId.at(b["scn"].get<int>());
      std::vector<vrt::StepRec> sched;
      for (auto& s : b["sched"]) sched.push_back({s[0].get<int>(), s[1].get<std::string>()});
      ++units;
      runOne(sc, b.value("eager", 1) != 0, x, 0, [&](vrt::Ctl& c) { return vrt::run_guided(c, sched, sameSite); }, &b);
    }
  } else {
    std::vector<Unit> us;
    { std::ifstream f(a.str("units")); json j; f >> j; for (auto& u : j) us.push_back({u[0].get<int>(), u[1].get<int>() != 0}); }
    long cap = a.num("cap", 2000); int bound = (int)a.num("bound", 2); unsigned seed = (unsigned)a.num("seed", 1);
    for (long x = from; x < to && x < (long)us.size(); ++x) {
      const Scenario& sc = scns[us[x].scn]; bool eager = us[x].eager; ++units;
      if (mode == "dfs") {
        vrt::Dfs d; d.bound = bound; long k = 0;
        do { runOne(sc, eager, x, k, [&](vrt::Ctl& c) { return vrt::run_dfs(c, d); }, nullptr); ++k; } while (d.advance() && k < cap);
      } else {
        std::mt19937 rng(seed * 7919u + (unsigned)x);
        for (long k = 0; k < cap; ++k) runOne(sc, eager, x, k, [&](vrt::Ctl& c) { return vrt::run_random(c, rng, 40); }, nullptr);
      }
    }
  }
  vrt::log_close();
  json s = {{"mode", mode}, {"units", units}, {"execs", execs}, {"steps", steps}, {"drift", drift}, {"unguided", unguided},
            {"obs_mismatch", obsMismatch}, {"distinct_schedules", (long)distinctSched.size()},
            {"first_drift", firstDrift}, {"first_mismatch", firstMismatch}};
  std::printf("%s\n", s.dump().c_str());
  return 0;
}
