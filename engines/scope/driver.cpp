// C08 driver: executes async_scope scenarios (v2 / v1 / v0 scopes and the v2 / v1 debug_async_scope wrappers) on the real
// code with controlled threads.  modes: guided (TLC behaviours), dfs (bounded-preemption enumeration), random (seeded).
// The scope flavours live in scope_world.hpp and are instantiated in driver_v*.cpp (parallel compilation).
#include "scope_world.hpp"

// spec schedule point -> site name in the real code
static bool sameSite(const std::string& want, const std::string& got) {
  if (want == "op") return got == "scope.h.op";
  if (want == "wait") return got == "scope.h.wait";
  if (want == "dereg_wait") return got == "spin_wait";
  return got == "scope." + want;
}

struct Unit { int scn; bool eager; };

int main(int argc, char** argv) {
  vrt::Args a(argc, argv);
  vrt::install_handlers();
  std::string mode = a.str("mode", "guided");
  std::vector<Scenario> scns;
  { std::ifstream f(a.str("scenarios")); json j; f >> j;
    for (auto& s : j) { Scenario sc; sc.id = s["id"].get<int>(); sc.ver = s.value("ver", 2); sc.man = s.value("man", 0);
      std::set<int> joins;
      for (int t = 1; t <= 3; ++t)
        for (auto& o : s["prog"][t - 1]) {
          Op op{o[0].get<std::string>(), o[1].get<int>(), o[2].get<int>()};
          if (isDirect(op.k)) ++sc.ndirect;
          if (isCloser(op.k)) joins.insert(op.a);
          sc.prog[t].push_back(op);
        }
      sc.njoins = (int)joins.size();
      scns.push_back(sc); } }
  std::map<int, const Scenario*> byId; for (auto& s : scns) byId[s.id] = &s;
  if (a.has("log")) vrt::log_open(a.str("log").c_str());
  long from = a.num("from", 0), to = a.num("to", 1L << 40);
  RunCtx rc;
  auto runOne = [&](const Scenario& sc, bool eager, long x, long k, const DriveFn& drive, const json* expect) {
    switch (sc.ver) {
      case 2: run_one_v2(rc, sc, eager, x, k, drive, expect); break;
      case 1: run_one_v1(rc, sc, eager, x, k, drive, expect); break;
      case 0: run_one_v0(rc, sc, eager, x, k, drive, expect); break;
      case 12: run_one_v12(rc, sc, eager, x, k, drive, expect); break;
      default: run_one_v11(rc, sc, eager, x, k, drive, expect); break;
    }
  };

  if (mode == "guided") {
    std::ifstream in(a.str("behaviours")); std::string line; long x = -1;
    while (std::getline(in, line)) {
      if (line.empty()) continue;
      ++x; if (x < from || x >= to) continue;
      json b = json::parse(line);
      const Scenario& sc = *byId.at(b["scn"].get<int>());
      std::vector<vrt::StepRec> sched;
      for (auto& s : b["sched"]) sched.push_back({s[0].get<int>(), s[1].get<std::string>()});
      ++rc.units;
      runOne(sc, b.value("eager", 1) != 0, x, 0, [&](vrt::Ctl& c) { return vrt::run_guided(c, sched, sameSite); }, &b);
    }
  } else {
    std::vector<Unit> us;
    { std::ifstream f(a.str("units")); json j; f >> j; for (auto& u : j) us.push_back({u[0].get<int>(), u[1].get<int>() != 0}); }
    long cap = a.num("cap", 2000); int bound = (int)a.num("bound", 2); unsigned seed = (unsigned)a.num("seed", 1);
    for (long x = from; x < to && x < (long)us.size(); ++x) {
      const Scenario& sc = scns[us[x].scn]; bool eager = us[x].eager; ++rc.units;
      if (mode == "dfs") {
        vrt::Dfs d; d.bound = bound; long k = 0;
        do { runOne(sc, eager, x, k, [&](vrt::Ctl& c) { return vrt::run_dfs(c, d); }, nullptr); ++k; } while (d.advance() && k < cap);
      } else {
        std::mt19937 rng(seed * 7919u + (unsigned)x);
        for (long k = 0; k < cap; ++k) runOne(sc, eager, x, k, [&](vrt::Ctl& c) { return vrt::run_random(c, rng, 40); }, nullptr);
      }
    }
  }
  vrt::log_close();
  json s = {{"mode", mode}, {"units", rc.units}, {"execs", rc.execs}, {"steps", rc.steps}, {"drift", rc.drift}, {"unguided", rc.unguided},
            {"obs_mismatch", rc.obsMismatch}, {"distinct_schedules", (long)rc.distinctSched.size()},
            {"first_drift", rc.firstDrift}, {"first_mismatch", rc.firstMismatch}};
  std::printf("%s\n", s.dump().c_str());
  return 0;
}
