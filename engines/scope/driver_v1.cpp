// C08 driver, scope flavour 1 (see scope_world.hpp)
#include "scope_world.hpp"
void run_one_v1(RunCtx& rc, const Scenario& sc, bool eager, long x, long k, const DriveFn& drive, const json* expect) {
  runOneV<1>(rc, sc, eager, x, k, drive, expect);
}
