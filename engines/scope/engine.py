"""Engine `scope` (C08): spec/scope/Scope{V2,V1,V0}.tla <-> include/unifex/{v2,v1,v0}/async_scope.hpp (+ nest.hpp,
spawn_detached.hpp, v1 async_manual_reset_event).
 1. generate scenarios: 3 driver threads running programs over nest/start/discard/copy/lvalue-connect/spawn/complete
    racing 1-2 join()/complete()/cleanup()/request_stop() calls
 2. TLC: invariants on every interleaving at CAS granularity, termination under fairness, the proposed repair
 3. export every transition (v2), build edge-covering behaviours, replay them on the real code (guided),
    plus bounded-preemption DFS and seeded random schedules of the real code for v2, v1 and v0 scopes
 4. validate every recorded execution against the monitor ScopeMon with TLC; sanitizer / crash / deadlock deaths in
    scope code are violations (the statement is about what may still be touched when join completes)."""
import json, os, re, sys, time

sys.path.insert(0, os.path.join(os.path.dirname(__file__), "..", "..", "tools"))
import vlib

LIB = ["inplace_stop_token.cpp", "async_manual_reset_event_v1.cpp", "async_stack.cpp", "exception.cpp"]
CLOSERS = ("join", "cleanup", "reqstop")


def O(k, a=0, b=0):
    return [k, a, b]


# ----------------------------------------------------------------------------- scenarios
def scenarios_v2(tier):
    out, seen = [], set()

    def add(t1, t2, t3):
        sc = dict(ver=2, prog=[list(t1), list(t2), list(t3)])
        key = json.dumps(sc)
        if key in seen:
            return
        seen.add(key)
        sc["id"] = len(out) + 1
        out.append(sc)

    N, S, D, C, J = (lambda w: O("nest", w)), (lambda w: O("start", w)), (lambda w: O("discard", w)), \
        (lambda w: O("complete", w)), (lambda j: O("join", j))
    CP, LS, SP = (lambda w, v: O("copy", w, v)), (lambda w, v: O("lstart", w, v)), (lambda w: O("spawn", w))
    # core (always part of the quick tier)
    add([N(1), S(1)], [C(1)], [J(1)])
    add([N(1), CP(1, 2), D(1), S(2), C(2)], [J(2)], [J(1)])
    add([N(1), S(1), C(1)], [N(2), D(2)], [J(1)])
    add([N(1), LS(1, 2), D(1)], [C(2)], [J(1)])
    add([SP(1)], [C(1)], [J(1)])
    add([N(1), S(1)], [C(1), J(1)], [J(2)])
    add([N(1), D(1)], [J(1)], [J(2)])
    add([N(1), S(1), C(1)], [N(2), S(2), C(2)], [J(1)])
    add([J(1)], [N(1), CP(1, 2), S(1), S(2)], [C(1), C(2)])
    add([N(1), S(1)], [N(2), CP(2, 3), D(2), D(3)], [C(1), J(1)])
    add([SP(1), SP(2)], [C(2), C(1)], [J(1)])
    add([N(1), CP(1, 2), S(1), C(1), LS(2, 3), D(2)], [C(3)], [J(1)])
    # generated family: worker x worker/second-joiner x joiner
    def workers(w, v):
        return {
            "a": [N(w), S(w), C(w)], "b": [N(w), D(w)], "c": [N(w), CP(w, v), S(w), D(v), C(w)],
            "d": [N(w), LS(w, v), D(w), C(v)], "e": [SP(w), C(w)], "f": [N(w), S(w)], "g": [SP(w)],
        }
    w1, w2 = workers(1, 2), workers(3, 4)
    for k1, p1 in w1.items():
        for k2, p2 in list(w2.items()) + [("j", [J(2)]), ("n", [])]:
            if k2 in ("c", "d"):
                continue
            pend = ([1] if k1 in ("f", "g") else []) + ([3] if k2 in ("f", "g") else [])
            joiners = [[J(1)]] if not pend else [[C(x) for x in pend] + [J(1)], [J(1)] + [C(x) for x in pend]]
            for t3 in joiners:
                add(p1, p2, t3)
    if tier == "quick":
        core, rest = out[:12], out[12:]
        step = max(1, len(rest) // 14)
        out = core + rest[::step][:14]
        for i, s in enumerate(out):
            s["id"] = i + 1
    return out


def scenarios_v1(tier):
    out, seen = [], set()

    def add(t1, t2, t3):
        sc = dict(ver=1, prog=[list(t1), list(t2), list(t3)])
        key = json.dumps(sc)
        if key in seen:
            return
        seen.add(key)
        sc["id"] = len(out) + 1
        out.append(sc)

    N, S, D, C = (lambda w: O("nest", w)), (lambda w: O("start", w)), (lambda w: O("discard", w)), (lambda w: O("complete", w))
    J, CL, RS, SP = (lambda j: O("join", j)), (lambda j: O("cleanup", j)), O("reqstop"), (lambda w: O("spawn", w))
    CP, LS = (lambda w, v: O("copy", w, v)), (lambda w, v: O("lstart", w, v))
    add([SP(1)], [C(1)], [CL(1)])                       # cleanup racing a running detached operation
    add([SP(1)], [CL(1), C(1)], [])                     # stop must have been seen by the time the leaf is completed
    add([SP(1)], [RS, C(1)], [J(1)])
    add([N(1), S(1)], [RS, C(1)], [J(1)])               # attach + request_stop
    add([N(1), S(1), C(1)], [SP(2), C(2)], [CL(1)])
    add([N(1), D(1)], [CL(1)], [])                      # single cleanup vs. last reference dropped
    add([SP(1), C(1)], [CL(1)], [])
    add([N(1), S(1)], [C(1)], [J(1)])
    add([SP(1)], [RS, C(1)], [CL(1)])
    add([N(1), CP(1, 2), S(1), S(2)], [RS, C(1), C(2)], [J(1)])
    add([SP(1), SP(2)], [C(1), RS, C(2)], [J(1)])
    add([N(1), LS(1, 2), D(1)], [CL(1), C(2)], [])
    if tier != "quick":
        add([SP(1), C(1)], [SP(2), C(2)], [CL(1)])
        add([N(1), S(1)], [RS, RS, C(1)], [J(1)])
        add([SP(1)], [RS, C(1)], [RS, J(1)])
        add([N(1), S(1), C(1)], [CL(1)], [CL(2)])
        add([SP(1)], [J(1)], [RS, C(1)])
        add([N(1), CP(1, 2), D(1), S(2)], [CL(1)], [C(2)])
    return out


def scenarios_v0(tier):
    out = []

    def add(t1, t2, t3):
        out.append(dict(ver=0, prog=[list(t1), list(t2), list(t3)], id=len(out) + 1))

    C, J, CL, RS, SP = (lambda w: O("complete", w)), (lambda j: O("join", j)), (lambda j: O("cleanup", j)), O("reqstop"), (lambda w: O("spawn", w))
    add([SP(1)], [C(1)], [J(1)])
    add([SP(1)], [C(1)], [CL(1)])
    add([SP(1)], [CL(1), C(1)], [])
    add([SP(1), C(1)], [SP(2), C(2)], [J(1)])
    add([SP(1)], [RS, C(1)], [J(1)])
    add([SP(1), C(1)], [J(1)], [CL(2)])
    add([SP(1), SP(2)], [C(2), C(1)], [CL(1)])
    if tier != "quick":
        add([SP(1), C(1)], [RS], [J(1)])
        add([SP(1)], [RS, C(1)], [RS, J(1)])
        add([SP(1), C(1)], [SP(2), C(2)], [CL(1)])
        add([SP(1)], [J(1)], [C(1), J(2)])
    return out


def n_closers(sc):
    """number of calls that run end_scope()/end_of_scope() (v1 cleanup() runs it twice)."""
    n = 0
    for p in sc["prog"]:
        for o in p:
            if o[0] in CLOSERS:
                n += 2 if (o[0] == "cleanup" and sc["ver"] == 1) else 1
    return n


def prog_text(sc):
    return " | ".join("T%d: " % (i + 1) + " ".join(o[0] + "".join(" %d" % x for x in o[1:] if x) for o in p) for i, p in enumerate(sc["prog"]))


# ----------------------------------------------------------------------------- death classification
SCOPE_FILES = re.compile(r"async_scope\.hpp|async_manual_reset_event|nest\.hpp|spawn_detached\.hpp")


def death_signature(d):
    fr = " ".join(d.get("frames") or [])
    if d.get("event") == "AsanReport" and d.get("asan") == "heap-use-after-free":
        if "async_manual_reset_event::set" in (d.get("frame") or "") and re.search(r"record_completion|record_done", fr):
            return "last-completer calls evt_.set() on a scope whose join already completed (signalled by a later end_scope)"
    return "other"


def report_death(rep, d, mode, sc, eager):
    txt = (d.get("stderr_tail") or "") + " ".join(d.get("frames") or []) + (d.get("where") or "")
    # an exact deadlock (controller: no enabled thread) is a progress failure; a watchdog "Hang" may be machine load -> not an alarm
    in_scope = d["event"] != "Hang" and (d["event"] == "Deadlock" or bool(SCOPE_FILES.search(txt)))
    rec = dict(engine="scope", mode=mode, event=d["event"], unit=d["x"], ver=sc["ver"] if sc else None,
               scenario=prog_text(sc) if sc else None, closers=n_closers(sc) if sc else None, eager=bool(eager),
               asan=d.get("asan"), frame=d.get("frame"), where=(d.get("where") or "").split("/wt_scope/")[-1],
               access=d.get("access"), sig=death_signature(d),
               what="%s in %s unit %s (v%s scope, %s): %s %s" % (d["event"], mode, d["x"], sc["ver"] if sc else "?",
                                                                prog_text(sc) if sc else "", d.get("asan", ""), d.get("frame", "")),
               detail=(d.get("stderr_tail") or "")[-1200:])
    if in_scope:
        rep.violation(rec)
    else:
        rep.oos.append(rec)


# ----------------------------------------------------------------------------- the engine
def run_mode(ctx, exe, mode, args, total, unit_info, label):
    rep = ctx.rep
    t0 = time.time()
    lp = os.path.join(ctx.work, "log_%s.ndjson" % label)
    sums, deaths = vlib.run_batches(ctx, exe, args, total, lp, timeout=1500)
    execs = sum(1 for ln in open(lp) if '"e":"Reset"' in ln) + len(deaths)
    rep.evaluations += execs
    for s in sums:
        rep.drift += s["drift"]
        rep.unguided += s["unguided"] if mode == "guided" else 0
        if s.get("first_drift"):
            rep.note("%s drift: %s" % (label, s["first_drift"]))
        if s.get("obs_mismatch"):
            rep.note("%s: %d executions whose final observation differs from the specification's (sent to the monitor)" % (label, s["obs_mismatch"]))
    for d in deaths:
        sc, eager = unit_info(d["x"])
        report_death(rep, d, label, sc, eager)
    n, rejected = vlib.validate_batched(ctx, "scope", "ScopeMon", lp)
    for ex in vlib.split_executions(lp)[:400000]:
        evs = ex[1]
        if len(evs) > 3:
            rep.distinct.add(hash("".join(evs[1:])))
    for rj in rejected:
        sc, eager = unit_info(rj["x"])
        evs = rj["events"]
        bad = evs[rj["prefix"]] if rj.get("prefix") is not None and rj["prefix"] < len(evs) else None
        rep.violation(dict(engine="scope", mode=label, event="MonitorReject", unit=rj["x"], ver=sc["ver"] if sc else None,
                           scenario=prog_text(sc) if sc else None, rejected_event=bad,
                           what="ScopeMon rejects an execution recorded in %s mode (v%s scope, %s) at event %s: %s"
                                % (label, sc["ver"] if sc else "?", prog_text(sc) if sc else "", rj.get("prefix"), json.dumps(bad)),
                           events=evs))
    rep.note("%s: %d executions, %d deaths, %.1fs incl. validation" % (label, execs, len(deaths), time.time() - t0))
    if mode == "random" and n:
        ex = vlib.split_executions(lp)[0]
        rep.sample(dict(kind="recorded-trace", events=[json.loads(x) for x in ex[1][:40]]))
    return execs


def unexplained(rep):
    """violations that are not listed as known findings (once there is one, the verdict is fixed: stop early)"""
    known = vlib.load_known()
    return [v for v in rep.violations if not vlib.known_match(dict(v, property=rep.prop), known)]


def run(ctx):
    rep = ctx.rep
    rep.assume("sequentially consistent interleavings at schedule-point granularity (x86-TSO hardware; weak-memory reorderings not explored)")
    rep.assume("<= 3 threads, <= 4 work items, <= 2 joins per scenario; join receivers use an inline scheduler; "
               "stop source internals are C03's business (its own schedule points are not interleaved here)")
    q = ctx.quick
    exe = vlib.build(ctx, "scope_driver", ["engines/scope/driver.cpp"], lib=LIB)

    # ================= v2: model checking + export + guided replay
    s2 = scenarios_v2(ctx.tier)
    sp2 = os.path.join(ctx.work, "scn_v2.json")
    json.dump(s2, open(sp2, "w"))
    edges = os.path.join(ctx.work, "edges_v2.ndjson")
    vlib.model_check(ctx, "scope", "ScopeV2MC", env={"SCENARIOS": sp2, "EDGES": edges}, workers=1, timeout=1500)
    vlib.model_check(ctx, "scope", "ScopeV2Live", cfg="ScopeV2Live.cfg", env={"SCENARIOS": sp2}, timeout=1500)
    rt = vlib.model_check(ctx, "scope", "ScopeV2MC", cfg="ScopeV2Touch.cfg", env={"SCENARIOS": sp2, "EDGES": os.devnull},
                          must_hold=False, timeout=1500)
    rf = vlib.model_check(ctx, "scope", "ScopeV2MC", cfg="ScopeV2Fixed.cfg", env={"SCENARIOS": sp2, "EDGES": os.devnull}, timeout=1500)
    if rt["kind"] == "invariant":
        rep.note("ScopeV2 (code as written) violates NoTouchAfterDestruction: a later end_scope() that finds count == 0 signals the "
                 "join event while the last completer is still between fetch_sub and evt_.set(); the variant FirstCloserOnly=TRUE "
                 "(proposed repair) satisfies every invariant (%d states). Reported only through real-code reproductions below." % rf["distinct"])
    elif rt["kind"] != "ok":
        raise vlib.Broken("TLC %s on ScopeV2Touch.cfg:\n%s" % (rt["kind"], rt["out"][-2000:]))
    rep.exhaustive = True
    adj, inits, nedges = vlib.read_edges(edges)
    walks = vlib.edge_cover(adj, inits)
    if not q:
        walks += vlib.random_walks(adj, inits, 2000, ctx.rng)
    bp = os.path.join(ctx.work, "behaviours_v2.ndjson")
    seen, behs, eager_bad = set(), [], set()
    for w in walks:
        sched = [[e["th"], e["pc"]] for e in w]
        fin = w[-1]["obs"]
        hits_bad = any(e["obs"]["bad"] != "ok" for e in w)
        scn = w[0]["scn"]
        eager = 1
        if hits_bad:
            eager = 0 if scn in eager_bad else 1     # the first behaviour per scenario that reaches the bad state is the reproduction
            eager_bad.add(scn)
        b = dict(scn=scn, sched=sched, adm=fin["adm"], jst=fin["jst"], eager=eager, bad=hits_bad)
        k = json.dumps([scn, sched])
        if k in seen:
            continue
        seen.add(k)
        behs.append(b)
    gcap = 1000 if q else 6000
    if len(behs) > gcap:     # every reproduction of the bad state + an even sample of the rest
        keep = [b for b in behs if b["bad"] and b["eager"]]
        rest = [b for b in behs if not (b["bad"] and b["eager"])]
        step = len(rest) // (gcap - len(keep)) + 1
        behs = keep + rest[::step]
    with open(bp, "w") as f:
        for b in behs:
            f.write(json.dumps(b) + "\n")
    for b in behs[:2]:
        rep.sample(dict(kind="tlc-behaviour", scenario=prog_text(s2[b["scn"] - 1]), schedule=b["sched"], expect=dict(adm=b["adm"], joins=b["jst"])))
    rep.note("v2: %d scenarios, edges exported %d, edge-covering walks %d, distinct behaviours %d (%d through the touch-after-destruction state)"
             % (len(s2), nedges, len(walks), len(behs), sum(1 for b in behs if b["bad"])))
    run_mode(ctx, exe, "guided", ["--mode", "guided", "--scenarios", sp2, "--behaviours", bp], len(behs),
             lambda x: (s2[behs[x]["scn"] - 1], behs[x]["eager"]) if x is not None and x < len(behs) else (None, None), "guided-v2")

    if unexplained(rep):
        rep.note("stopping after the first mode that produced a new violation")
        return
    # ================= v2 / v1 / v0: DFS + random schedules of the real code
    for ver, scns in ((2, s2), (1, scenarios_v1(ctx.tier)), (0, scenarios_v0(ctx.tier))):
        sp = os.path.join(ctx.work, "scn_v%d.json" % ver)
        json.dump(scns, open(sp, "w"))
        if ver != 2:
            # implementation-shaped specs of the v1 / v0 scopes: invariants on every interleaving of the same scenarios
            mod = "ScopeV%dMC" % ver
            vlib.model_check(ctx, "scope", mod, cfg="ScopeV%dMC.cfg" % ver, env={"SCENARIOS": sp}, timeout=1500)
            r = vlib.model_check(ctx, "scope", mod, cfg="ScopeV%dTouch.cfg" % ver, env={"SCENARIOS": sp}, must_hold=False, timeout=1500)
            if r["kind"] not in ("ok", "invariant"):
                raise vlib.Broken("TLC %s on ScopeV%dTouch.cfg:\n%s" % (r["kind"], ver, r["out"][-2000:]))
            if r["kind"] == "invariant":
                rep.note("ScopeV%d (code as written) violates NoTouchAfterDestruction (same defect as in ScopeV2)" % ver)
            if not q:
                vlib.model_check(ctx, "scope", mod, cfg="ScopeV%dFixed.cfg" % ver, env={"SCENARIOS": sp}, timeout=1500)
                vlib.model_check(ctx, "scope", mod, cfg="ScopeV%dLive.cfg" % ver, env={"SCENARIOS": sp}, timeout=1500)
        # every scenario with eager destruction of the scope; those in which end_scope runs more than once also with late
        # destruction (the known touch-after-destruction kills the eager unit at its first bad schedule)
        units = [[i, 1] for i in range(len(scns))] + [[i, 0] for i, s in enumerate(scns) if n_closers(s) >= 2]
        up = os.path.join(ctx.work, "units_v%d.json" % ver)
        json.dump(units, open(up, "w"))
        info = (lambda us, ss: (lambda x: (ss[us[x][0]], us[x][1]) if x is not None and x < len(us) else (None, None)))(units, scns)
        run_mode(ctx, exe, "dfs", ["--mode", "dfs", "--scenarios", sp, "--units", up, "--bound", 2 if q else 3,
                                   "--cap", 60 if q else 300], len(units), info, "dfs-v%d" % ver)
        if unexplained(rep):
            rep.note("stopping after the first mode that produced a new violation")
            return
        run_mode(ctx, exe, "random", ["--mode", "random", "--scenarios", sp, "--units", up, "--seed", ctx.seed,
                                      "--cap", 15 if q else 60], len(units), info, "random-v%d" % ver)
        if unexplained(rep):
            rep.note("stopping after the first mode that produced a new violation")
            return
    rep.rule("executions = guided replays of TLC behaviours (v2) + DFS(preemption-bounded) + seeded random schedules of the real "
             "v2/v1/v0 async_scope; distinct_nontrivial = distinct recorded event sequences with more than 3 events")
