"""Engine `scope` (C08): spec/scope/Scope{V2,V1,V0}.tla <-> include/unifex/{v2,v1,v0}/async_scope.hpp (+ nest.hpp,
spawn_detached.hpp, spawn_future.hpp's futures as nest senders, detail/debug_async_scope.hpp, v1 async_manual_reset_event).
 1. scenarios: 3 driver threads running programs over nest/attach/start/discard/copy/lvalue-connect/spawn_detached/
    spawn_future (consume | drop | hold)/complete racing 1-2 join()/complete()/cleanup()/request_stop() calls, stop
    requests through the work's receiver, join receivers on an inline or a manual scheduler
 2. TLC: the transcription of /repo (end_scope signals only if it cleared the open bit) satisfies every invariant on every
    interleaving at CAS granularity, terminates under fairness; the historical variant is a spec-level mutation that must
    violate NoTouchAfterDestruction (non-vacuity).  If the header no longer contains the repair the historical variant
    becomes the transcription and its counterexamples are replayed on the real code.
 3. every transition exported (v2, v1, v0), edge-covering behaviours replayed on the real code (guided), plus
    bounded-preemption DFS and seeded random schedules of the real v2 / v1 / v0 scopes and the debug_async_scope wrappers
 4. every recorded execution validated against the monitor ScopeMon with TLC; sanitizer / crash / deadlock deaths in
    scope code are violations (the statement is about what may still be touched when join completes)."""
import hashlib, json, os, re, sys, time

sys.path.insert(0, os.path.join(os.path.dirname(__file__), "..", "..", "tools"))
import vlib

HERE = os.path.dirname(os.path.abspath(__file__))
LIB = ["inplace_stop_token.cpp", "async_manual_reset_event_v1.cpp", "async_stack.cpp", "exception.cpp"]
CLOSERS = ("join", "cleanup", "reqstop")
VERNAME = {2: "v2", 1: "v1", 0: "v0", 12: "v2 debug", 11: "v1 debug"}


def O(k, a=0, b=0):
    return [k, a, b]


N, S, D, C, J = (lambda w: O("nest", w)), (lambda w: O("start", w)), (lambda w: O("discard", w)), \
    (lambda w: O("complete", w)), (lambda j: O("join", j))
CP, LS, SP = (lambda w, v: O("copy", w, v)), (lambda w, v: O("lstart", w, v)), (lambda w: O("spawn", w))
CL, RS, RST, DR = (lambda j: O("cleanup", j)), O("reqstop"), (lambda w: O("rstop", w)), O("drain")
FS, FT, FD = (lambda w, f: O("fspawn", w, f)), (lambda f, w: O("fstart", f, w)), (lambda f, w: O("fdrop", f, w))


class Fam:
    """a scenario family for one scope flavour"""

    def __init__(self, ver):
        self.ver, self.out, self.seen = ver, [], set()

    def add(self, t1, t2, t3, man=0):
        sc = dict(ver=self.ver, man=man, prog=[list(t1), list(t2), list(t3)])
        key = json.dumps(sc)
        if key not in self.seen:
            self.seen.add(key)
            sc["id"] = len(self.out) + 1
            self.out.append(sc)

    def renumber(self, lst):
        for i, s in enumerate(lst):
            s["id"] = i + 1
        return lst


# ----------------------------------------------------------------------------- scenarios
def scenarios_v2(tier):
    f = Fam(2)
    add = f.add
    # core (always part of the quick tier)
    add([N(1), S(1)], [C(1)], [J(1)])
    add([N(1), CP(1, 2), D(1), S(2), C(2)], [J(2)], [J(1)])
    add([N(1), S(1), C(1)], [N(2), D(2)], [J(1)])
    add([N(1), LS(1, 2), D(1)], [C(2)], [J(1)])
    add([SP(1)], [C(1)], [J(1)])
    add([N(1), S(1)], [C(1), J(1)], [J(2)])
    add([N(1), D(1)], [J(1)], [J(2)])
    add([N(1), S(1), C(1)], [N(2), S(2), C(2)], [J(1)])
    add([J(1)], [N(1), CP(1, 2), S(1), S(2)], [C(1), C(2)])
    add([N(1), S(1)], [N(2), CP(2, 3), D(2), D(3)], [C(1), J(1)])
    add([SP(1), SP(2)], [C(2), C(1)], [J(1)])
    add([N(1), CP(1, 2), S(1), C(1), LS(2, 3), D(2)], [C(3)], [J(1)])
    # join receivers on the manual scheduler (the continuation runs on whichever thread drains)
    add([N(1), S(1), C(1)], [J(2), DR], [J(1), DR], man=1)
    add([N(1), S(1)], [C(1), DR], [J(1)], man=1)
    add([SP(1)], [C(1)], [J(1), DR], man=1)
    ncore = len(f.out)

    # generated family: worker x worker/second-joiner x joiner
    def workers(w, v):
        return {
            "a": [N(w), S(w), C(w)], "b": [N(w), D(w)], "c": [N(w), CP(w, v), S(w), D(v), C(w)],
            "d": [N(w), LS(w, v), D(w), C(v)], "e": [SP(w), C(w)], "f": [N(w), S(w)], "g": [SP(w)],
        }
    w1, w2 = workers(1, 2), workers(3, 4)
    for k1, p1 in w1.items():
        for k2, p2 in list(w2.items()) + [("j", [J(2)]), ("n", [])]:
            if k2 in ("c", "d"):
                continue
            pend = ([1] if k1 in ("f", "g") else []) + ([3] if k2 in ("f", "g") else [])
            joiners = [[J(1)]] if not pend else [[C(x) for x in pend] + [J(1)], [J(1)] + [C(x) for x in pend]]
            for t3 in joiners:
                add(p1, p2, t3)
    if tier != "quick":
        add([N(1), D(1)], [J(1), DR], [J(2), DR], man=1)
        add([N(1), CP(1, 2), D(1), S(2)], [C(2), J(2), DR], [J(1), DR], man=1)
        add([SP(1), C(1)], [SP(2), C(2), DR], [J(1)], man=1)
    out = f.out
    if tier == "quick":
        core, rest = out[:ncore], out[ncore:]
        step = max(1, len(rest) // 12)
        out = core + rest[::step][:12]
    return f.renumber(out)


def scenarios_fut(ver, tier):
    """spawn_future: the future is itself nested in the scope - consumed, dropped, or held while a join races"""
    f = Fam(ver)
    add = f.add
    add([FS(1, 5), FT(5, 1)], [C(1)], [J(1)])                 # awaited
    add([FS(1, 5), C(1), FD(5, 1)], [], [J(1)])               # result stored, future still unconsumed, dropped later
    add([FS(1, 5), FD(5, 1)], [C(1)], [J(1)])                 # dropped while the operation runs (asks it to stop)
    add([FS(1, 5), C(1), FT(5, 1)], [J(2)], [J(1)])           # result ready before the future is awaited
    if ver == 2:
        add([FS(1, 5), FT(5, 1)], [C(1), DR], [J(1)], man=1)
    if tier != "quick":
        add([FS(1, 5), FT(5, 1)], [C(1), J(1)], [N(2), D(2)])
        add([FS(1, 5), FS(2, 6), FT(5, 1), FD(6, 2)], [C(1), C(2)], [J(1)])
        add([FS(1, 5), C(1)], [N(2), S(2), C(2)], [J(1)])     # never consumed: the join must not complete
    return f.out


def scenarios_v1(tier):
    f = Fam(1)
    add = f.add
    add([SP(1)], [C(1)], [CL(1)])                       # cleanup racing a running detached operation
    add([SP(1)], [CL(1), C(1)], [])                     # stop must have been seen by the time the leaf is completed
    add([SP(1)], [RS, C(1)], [J(1)])
    add([N(1), S(1)], [RS, C(1)], [J(1)])               # attach + request_stop
    add([N(1), S(1), C(1)], [SP(2), C(2)], [CL(1)])
    add([N(1), D(1)], [CL(1)], [])                      # single cleanup vs. last reference dropped
    add([SP(1), C(1)], [CL(1)], [])
    add([N(1), S(1)], [C(1)], [J(1)])
    add([SP(1)], [RS, C(1)], [CL(1)])
    add([N(1), CP(1, 2), S(1), S(2)], [RS, C(1), C(2)], [J(1)])
    add([SP(1), SP(2)], [C(1), RS, C(2)], [J(1)])
    add([N(1), LS(1, 2), D(1)], [CL(1), C(2)], [])
    # stop through the receiver's own stop token (receiverCallback_ of the attach operation)
    add([N(1), S(1)], [RST(1), C(1)], [J(1)])
    add([N(1), S(1)], [RST(1), C(1)], [CL(1)])          # both stop callbacks race for refcount_
    add([RST(1), N(1), S(1), C(1)], [RS], [J(1)])       # receiver already stopped when the operation starts
    if tier != "quick":
        add([SP(1), C(1)], [SP(2), C(2)], [CL(1)])
        add([N(1), S(1)], [RS, RS, C(1)], [J(1)])
        add([SP(1)], [RS, C(1)], [RS, J(1)])
        add([N(1), S(1), C(1)], [CL(1)], [CL(2)])
        add([SP(1)], [J(1)], [RS, C(1)])
        add([N(1), CP(1, 2), D(1), S(2)], [CL(1)], [C(2)])
        add([N(1), S(1)], [RST(1)], [RS, C(1), J(1)])
        add([N(1), S(1), N(2), S(2)], [RST(1), C(1), C(2)], [CL(1)])
    return f.out


def scenarios_v0(tier):
    f = Fam(0)
    add = f.add
    add([SP(1)], [C(1)], [J(1)])
    add([SP(1)], [C(1)], [CL(1)])
    add([SP(1)], [CL(1), C(1)], [])
    add([SP(1), C(1)], [SP(2), C(2)], [J(1)])
    add([SP(1)], [RS, C(1)], [J(1)])
    add([SP(1), C(1)], [J(1)], [CL(2)])
    add([SP(1), SP(2)], [C(2), C(1)], [CL(1)])
    if tier != "quick":
        add([SP(1), C(1)], [RS], [J(1)])
        add([SP(1)], [RS, C(1)], [RS, J(1)])
        add([SP(1), C(1)], [SP(2), C(2)], [CL(1)])
        add([SP(1)], [J(1)], [C(1), J(2)])
    return f.out


def scenarios_debug(ver, tier):
    """the debug_async_scope wrappers: same protocol underneath, plus the registry of live operations"""
    f = Fam(ver)
    add = f.add
    if ver == 12:
        add([N(1), CP(1, 2), D(1), S(2), C(2)], [SP(3), C(3)], [J(1)])
        add([N(1), S(1)], [C(1)], [J(1)])
        add([N(1), LS(1, 2), D(1)], [C(2)], [J(1)])
        add([FS(1, 5), FT(5, 1)], [C(1)], [J(1)])
        if tier != "quick":
            add([N(1), D(1)], [J(1)], [J(2)])
            add([N(1), S(1), C(1)], [N(2), S(2), C(2)], [J(1), DR], man=1)
    else:
        add([SP(1)], [C(1)], [CL(1)])
        add([N(1), S(1)], [RS, C(1)], [J(1)])
        add([SP(1)], [CL(1), C(1)], [])
        add([N(1), S(1), C(1)], [SP(2), C(2)], [CL(1)])
        if tier != "quick":
            add([N(1), S(1)], [RST(1), C(1)], [CL(1)])
            add([FS(1, 5), C(1), FD(5, 1)], [], [J(1)])
    return f.out


def n_closers(sc):
    """number of calls that run end_scope()/end_of_scope() (v1 cleanup() runs it twice)."""
    n = 0
    for p in sc["prog"]:
        for o in p:
            if o[0] in CLOSERS:
                n += 2 if (o[0] == "cleanup" and sc["ver"] in (1, 11)) else 1
    return n


def prog_text(sc):
    return " | ".join("T%d: " % (i + 1) + " ".join(o[0] + "".join(" %d" % x for x in o[1:] if x) for o in p) for i, p in enumerate(sc["prog"])) \
        + (" [manual scheduler]" if sc.get("man") else "")


# ----------------------------------------------------------------------------- is the repair in the header?
def repair_present(repo):
    """-> {2: bool, 0: bool}: False iff end_scope()/end_of_scope() has the historical form `if (count(oldState) == 0)`"""
    res = {}
    for ver, path, fn, old in ((2, "include/unifex/v2/async_scope.hpp", "void end_scope() noexcept {", r"if\s*\(\s*use_count\(oldState\)\s*==\s*0u?\s*\)"),
                               (0, "include/unifex/v0/async_scope.hpp", "void end_of_scope() noexcept {", r"if\s*\(\s*op_count\(oldState\)\s*==\s*0u?\s*\)")):
        try:
            s = open(os.path.join(repo, path)).read()
            i = s.index(fn)
            body = s[i:s.index("\n  }", i)]
            res[ver] = re.search(old, body) is None
        except (OSError, ValueError):
            res[ver] = True
    return res


# ----------------------------------------------------------------------------- death classification
SCOPE_FILES = re.compile(r"async_scope\.hpp|async_manual_reset_event|nest\.hpp|spawn_detached\.hpp")


def death_signature(d):
    fr = " ".join(d.get("frames") or [])
    if d.get("event") == "AsanReport" and d.get("asan") == "heap-use-after-free":
        if "async_manual_reset_event::set" in (d.get("frame") or "") and re.search(r"record_completion|record_done", fr):
            return "last-completer calls evt_.set() on a scope whose join already completed (signalled by a later end_scope)"
    return "other"


def report_death(rep, d, mode, sc, eager):
    txt = (d.get("stderr_tail") or "") + " ".join(d.get("frames") or []) + (d.get("where") or "")
    # an exact deadlock (controller: no enabled thread) is a progress failure; a watchdog "Hang" may be machine load -> not an alarm
    in_scope = d["event"] != "Hang" and (d["event"] == "Deadlock" or bool(SCOPE_FILES.search(txt)))
    vn = VERNAME.get(sc["ver"], "?") if sc else "?"
    rec = dict(engine="scope", mode=mode, event=d["event"], unit=d["x"], ver=sc["ver"] if sc else None,
               scenario=prog_text(sc) if sc else None, closers=n_closers(sc) if sc else None, eager=bool(eager),
               asan=d.get("asan"), frame=d.get("frame"), where=re.sub(r"^.*?/(include|source)/", r"\1/", d.get("where") or ""),
               access=d.get("access"), sig=death_signature(d),
               what="%s in %s unit %s (%s scope, %s): %s %s" % (d["event"], mode, d["x"], vn, prog_text(sc) if sc else "", d.get("asan", ""), d.get("frame", "")),
               detail=(d.get("stderr_tail") or "")[-1200:])
    if in_scope:
        rep.violation(rec)
    else:
        rep.oos.append(rec)


def unexplained(rep):
    """violations that are not listed as known findings (once there is one, the verdict is fixed: stop early)"""
    known = vlib.load_known()
    return [v for v in rep.violations if not vlib.known_match(dict(v, property=rep.prop), known)]


# ----------------------------------------------------------------------------- running the real code
def run_mode(ctx, exe, mode, args, total, unit_info, label):
    rep = ctx.rep
    t0 = time.time()
    lp = os.path.join(ctx.work, "log_%s.ndjson" % label)
    sums, deaths = vlib.run_batches(ctx, exe, args, total, lp, timeout=3000)
    execs = sum(1 for ln in open(lp) if '"e":"Reset"' in ln) + len(deaths)
    rep.evaluations += execs
    for s in sums:
        rep.drift += s["drift"]
        rep.unguided += s["unguided"] if mode == "guided" else 0
        if s.get("first_drift"):
            rep.note("%s drift: %s" % (label, s["first_drift"]))
        if s.get("obs_mismatch"):
            rep.note("%s: %d executions whose final observation differs from the specification's (sent to the monitor)" % (label, s["obs_mismatch"]))
    for d in deaths:
        sc, eager = unit_info(d["x"])
        report_death(rep, d, label, sc, eager)
    n, rejected = vlib.validate_batched(ctx, "scope", "ScopeMon", lp)
    for ex in vlib.split_executions(lp)[:400000]:
        evs = ex[1]
        if len(evs) > 3:
            rep.distinct.add(hash("".join(evs[1:])))
    for rj in rejected:
        sc, eager = unit_info(rj["x"])
        evs = rj["events"]
        bad = evs[rj["prefix"]] if rj.get("prefix") is not None and rj["prefix"] < len(evs) else None
        vn = VERNAME.get(sc["ver"], "?") if sc else "?"
        rep.violation(dict(engine="scope", mode=label, event="MonitorReject", unit=rj["x"], ver=sc["ver"] if sc else None,
                           scenario=prog_text(sc) if sc else None, rejected_event=bad,
                           what="ScopeMon rejects an execution recorded in %s mode (%s scope, %s) at event %s: %s"
                                % (label, vn, prog_text(sc) if sc else "", rj.get("prefix"), json.dumps(bad)),
                           events=evs))
    rep.note("%s: %d executions, %d deaths, %.1fs incl. validation" % (label, execs, len(deaths), time.time() - t0))
    if mode == "random" and n and label == "random-v2":
        ex = vlib.split_executions(lp)[0]
        rep.sample(dict(kind="recorded-trace", events=[json.loads(x) for x in ex[1][:40]]))
    return execs


def behaviours_from_edges(ctx, edges, scns, cap, extra_random=0):
    """edge-covering (+ random) walks -> distinct behaviours; those through the touch-after-destruction state (only present when
    the historical variant is the transcription) are kept first"""
    adj, inits, nedges = vlib.read_edges(edges)
    walks = vlib.edge_cover(adj, inits)
    if extra_random:
        walks += vlib.random_walks(adj, inits, extra_random, ctx.rng)
    seen, behs = set(), []
    for w in walks:
        sched = [[e["th"], e["pc"]] for e in w]
        k = json.dumps([w[0]["scn"], sched])
        if k in seen:
            continue
        seen.add(k)
        fin = w[-1]["obs"]
        behs.append(dict(scn=w[0]["scn"], sched=sched, adm=fin["adm"], jst=fin["jst"], eager=1,
                         bad=any(e["obs"]["bad"] != "ok" for e in w)))
    nall = len(behs)
    if len(behs) > cap:
        keep = [b for b in behs if b["bad"]][:40]
        rest = [b for b in behs if not b["bad"]]
        step = len(rest) // max(1, cap - len(keep)) + 1
        behs = keep + rest[::step]
    return behs, nedges, len(walks), nall


def run(ctx):
    rep = ctx.rep
    rep.assume("sequentially consistent interleavings at schedule-point granularity (x86-TSO hardware; weak-memory reorderings not explored)")
    rep.assume("<= 3 threads, <= 4 work items (+ 2 futures), <= 2 joins per scenario; join receivers use an inline or a manual "
               "(harness run queue) scheduler; stop source internals are C03's and the future's own state machine is C09's "
               "business (their schedule points are interleaved only where they are seams of the scope protocol)")
    q = ctx.quick
    hdr = hashlib.sha1(open(os.path.join(HERE, "scope_world.hpp"), "rb").read()).hexdigest()[:12]
    exe = vlib.build(ctx, "scope_driver", ["engines/scope/driver.cpp"] + ["engines/scope/driver_v%d.cpp" % v for v in (2, 1, 0, 12, 11)],
                     lib=LIB, incs=[HERE], defs=["SCOPE_WORLD_HDR=%s" % hdr])
    fixed = repair_present(ctx.repo)
    fixed[1] = fixed[2]
    for ver in (2, 0):
        if not fixed[ver]:
            rep.note("REGRESSION: %s no longer signals from end_scope only when the call cleared the open bit; the historical "
                     "variant is used as the transcription and its counterexamples are replayed on the real code"
                     % ("v2/async_scope.hpp (v2 and v1 scopes)" if ver == 2 else "v0/async_scope.hpp"))

    fams = {2: scenarios_v2(ctx.tier), 1: scenarios_v1(ctx.tier), 0: scenarios_v0(ctx.tier)}
    gcap = {2: 600 if q else 3000, 1: 500 if q else 2000, 0: 250 if q else 1000}
    dcap = {2: 30 if q else 150, 1: 60 if q else 200, 0: 60 if q else 200}
    for ver in (2, 1, 0):
        scns = fams[ver]
        sp = os.path.join(ctx.work, "scn_v%d.json" % ver)
        json.dump(scns, open(sp, "w"))
        mod = "ScopeV%dMC" % ver
        # ---- TLC: the transcription (+ edge export), liveness, the spec-level mutation
        edges = os.path.join(ctx.work, "edges_v%d.ndjson" % ver)
        cfg = "ScopeV%dMC.cfg" % ver if fixed[ver] else "ScopeV%dMCOld.cfg" % ver
        vlib.model_check(ctx, "scope", mod, cfg=cfg, env={"SCENARIOS": sp, "EDGES": edges}, workers=1, timeout=3000)
        if not q:   # quick tier: deadlock freedom + TerminalJoined of the (acyclic) MC run already give 'join does complete'
            vlib.model_check(ctx, "scope", "ScopeV2Live" if ver == 2 else mod, cfg="ScopeV%dLive.cfg" % ver, env={"SCENARIOS": sp}, timeout=3000)
        ro = vlib.model_check(ctx, "scope", mod, cfg="ScopeV%dOld.cfg" % ver, env={"SCENARIOS": sp}, must_hold=False, timeout=3000)
        if not (ro["kind"] == "invariant" and ro["violated"] == "NoTouchAfterDestruction"):
            raise vlib.Broken("spec-level mutation ScopeV%dOld.cfg (historical end_scope) does not violate NoTouchAfterDestruction: %s\n%s"
                              % (ver, ro["kind"], ro["out"][-1500:]))
        rep.exhaustive = True
        # ---- guided replay of edge-covering behaviours
        behs, nedges, nwalks, nall = behaviours_from_edges(ctx, edges, scns, gcap[ver], 0 if q else 1000)
        bp = os.path.join(ctx.work, "behaviours_v%d.ndjson" % ver)
        with open(bp, "w") as f:
            for b in behs:
                f.write(json.dumps(b) + "\n")
        if ver == 2:
            for b in behs[:2]:
                rep.sample(dict(kind="tlc-behaviour", scenario=prog_text(scns[b["scn"] - 1]), schedule=b["sched"], expect=dict(adm=b["adm"], joins=b["jst"])))
        rep.note("v%d: %d scenarios, edges exported %d, edge-covering walks %d, distinct behaviours %d, replayed %d%s"
                 % (ver, len(scns), nedges, nwalks, nall, len(behs), "" if fixed[ver] else " (%d through the touch-after-destruction state)" % sum(1 for b in behs if b["bad"])))
        run_mode(ctx, exe, "guided", ["--mode", "guided", "--scenarios", sp, "--behaviours", bp], len(behs),
                 (lambda bs, ss: (lambda x: (ss[bs[x]["scn"] - 1], bs[x]["eager"]) if x is not None and x < len(bs) else (None, None)))(behs, scns),
                 "guided-v%d" % ver)
        if unexplained(rep):
            rep.note("stopping after the first mode that produced a new violation")
            return
        # ---- DFS + random schedules of the real code (scope destroyed eagerly; under a regression also late, because the
        # touch-after-destruction kills an eager unit at its first bad schedule)
        units = [[i, 1] for i in range(len(scns))] + ([] if fixed[ver] else [[i, 0] for i, s in enumerate(scns) if n_closers(s) >= 2])
        if not real_runs(ctx, exe, scns, units, sp, "v%d" % ver, dcap[ver], 15 if q else 40):
            return

    # ================= futures nested in the scope (v2: also model-checked; v1: real code + monitor)
    for ver in (2, 1):
        scns = scenarios_fut(ver, ctx.tier)
        sp = os.path.join(ctx.work, "scn_fut%d.json" % ver)
        json.dump(scns, open(sp, "w"))
        if ver == 2:
            vlib.model_check(ctx, "scope", "ScopeV2MC", cfg="ScopeV2NoExport.cfg", env={"SCENARIOS": sp}, timeout=3000)
            if not q:
                vlib.model_check(ctx, "scope", "ScopeV2Live", cfg="ScopeV2Live.cfg", env={"SCENARIOS": sp}, timeout=3000)
        if not real_runs(ctx, exe, scns, [[i, 1] for i in range(len(scns))], sp, "fut-v%d" % ver, 50 if q else 200, 15 if q else 40):
            return
    # ================= debug_async_scope wrappers
    for ver in (12, 11):
        scns = scenarios_debug(ver, ctx.tier)
        sp = os.path.join(ctx.work, "scn_dbg%d.json" % ver)
        json.dump(scns, open(sp, "w"))
        if not real_runs(ctx, exe, scns, [[i, 1] for i in range(len(scns))], sp, "debug-v%d" % (ver - 10), 40 if q else 200, 10 if q else 40):
            return
    rep.rule("executions = guided replays of TLC behaviours (v2, v1, v0) + DFS(preemption-bounded) + seeded random schedules of the real "
             "v2/v1/v0 async_scope, futures nested in them and the debug_async_scope wrappers; distinct_nontrivial = distinct "
             "recorded event sequences with more than 3 events")


def real_runs(ctx, exe, scns, units, sp, tag, dcap, rcap):
    q = ctx.quick
    up = os.path.join(ctx.work, "units_%s.json" % tag)
    json.dump(units, open(up, "w"))
    info = (lambda us, ss: (lambda x: (ss[us[x][0]], us[x][1]) if x is not None and x < len(us) else (None, None)))(units, scns)
    for mode, args in (("dfs", ["--bound", 2 if q else 3, "--cap", dcap]), ("random", ["--seed", ctx.seed, "--cap", rcap])):
        run_mode(ctx, exe, mode, ["--mode", mode, "--scenarios", sp, "--units", up] + args, len(units), info, "%s-%s" % (mode, tag))
        if unexplained(ctx.rep):
            ctx.rep.note("stopping after the first mode that produced a new violation")
            return False
    return True
