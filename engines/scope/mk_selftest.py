#!/usr/bin/env python3
"""Generates engines/scope/selftest.json: unified diffs (relative to the tree with hooks.patch applied) of the mutants
and benign edits used to demonstrate the binding.  Usage: mk_selftest.py <hooked tree>"""
import difflib, json, os, sys
tree = sys.argv[1] if len(sys.argv) > 1 else "/tmp/wt_scope"
V2, V1, V0, EV = "include/unifex/v2/async_scope.hpp", "include/unifex/v1/async_scope.hpp", "include/unifex/v0/async_scope.hpp", "source/async_manual_reset_event_v1.cpp"
M = [
 ("rc_signals_at_one", V2, "    if (scope_ended(oldState) && use_count(oldState) == 1u) {", "    if (scope_ended(oldState) && use_count(oldState) <= 2u) {", "violation",
  "record_completion signals the join event already when the count drops to 1"),
 ("end_scope_never_signals", V2, "    if (use_count(oldState) == 0) {\n      // there are no outstanding operations to wait for\n      evt_.set();", "    if (use_count(oldState) == 0 && scope_ended(oldState)) {\n      // there are no outstanding operations to wait for\n      evt_.set();", "violation",
  "end_scope does not signal when it closes a scope whose count is already 0 (join never completes)"),
 ("admit_after_close", V2, "      if (scope_ended(opState)) {\n        return false;\n      }\n\n      UNIFEX_ASSERT(opState + 2u > opState);", "      if (scope_ended(opState) && use_count(opState) == 0) {\n        return false;\n      }\n\n      UNIFEX_ASSERT(opState + 2u > opState);", "violation",
  "try_record_start keeps admitting after the close while other work is outstanding"),
 ("copy_without_count", V2, "  scope_reference(const scope_reference& other) noexcept\n    : scope_reference(other.scope_) {}", "  scope_reference(const scope_reference& other) noexcept\n    : scope_(other.scope_) {}", "violation",
  "copying a nest sender copies the scope reference without a second try_record_start"),
 ("v1_cleanup_no_stop", V1, "        just_from([this]() noexcept { request_stop(); }), scope_.join());", "        just_from([this]() noexcept { scope_.end_scope(); }), scope_.join());", "violation",
  "v1 cleanup() closes the scope but does not request stop"),
 ("v1_request_stop_no_stop", V1, "    UNIFEX_VERIF_YIELD(\"scope.v1_rs\");\n    stopSource_.request_stop();", "    UNIFEX_VERIF_YIELD(\"scope.v1_rs\");", "violation",
  "v1 request_stop() closes the scope but does not request stop"),
 ("v0_record_done_early", V0, "    if (is_stopping(oldState) && op_count(oldState) == 1) {", "    if (is_stopping(oldState) && op_count(oldState) <= 2) {", "violation",
  "v0 record_done signals the join event already when the count drops to 1"),
 ("event_set_first_waiter_only", EV, "  while (op != nullptr) {", "  if (op != nullptr) {", "violation",
  "async_manual_reset_event::set() completes only the first waiter (second racing join never completes)"),
 ("v0_admit_after_close", V0, "      if (is_stopping(opState)) {\n        return false;\n      }", "      if (is_stopping(opState) && op_count(opState) == 0) {\n        return false;\n      }", "violation",
  "v0 try_record_start keeps admitting after the close while other work is outstanding"),
 ("proposed_fix_end_scope", V2, "    if (use_count(oldState) == 0) {\n      // there are no outstanding operations to wait for\n      evt_.set();", "    if (!scope_ended(oldState) && use_count(oldState) == 0) {\n      // there are no outstanding operations to wait for\n      evt_.set();", "clean",
  "the proposed repair of the known finding in v2::async_scope::end_scope (v2 + v1 scopes; v0 keeps the finding): no violation, v2/v1 eager units survive"),
 ("benign_comment", V2, "    auto oldState = scope->opState_.fetch_sub(2u, std::memory_order_acq_rel);", "    // drop one reference\n    auto oldState = scope->opState_.fetch_sub(2u, std::memory_order_acq_rel);", "clean",
  "comment added"),
 ("benign_hook_removed", V2, "    UNIFEX_VERIF_YIELD(\"scope.rc_fsub\");\n", "", "clean",
  "schedule point scope.rc_fsub removed (guided replay drifts; no alarm)"),
 ("benign_seq_cst", V2, "        opState, opState + 2u, std::memory_order_relaxed));", "        opState, opState + 2u, std::memory_order_seq_cst));", "clean",
  "memory order of the admission CAS strengthened"),
]
out = []
for name, f, old, new, expect, desc in M:
    a = open(os.path.join(tree, f)).read()
    assert a.count(old) == 1, (name, a.count(old))
    b = a.replace(old, new)
    d = "".join(difflib.unified_diff(a.splitlines(True), b.splitlines(True), "a/" + f, "b/" + f))
    out.append(dict(name=name, patch=d, expect=expect, what=desc))
json.dump(out, open(os.path.join(os.path.dirname(os.path.abspath(__file__)), "selftest.json"), "w"), indent=1)
print(len(out), "entries")
