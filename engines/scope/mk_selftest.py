#!/usr/bin/env python3
"""Generates engines/scope/selftest.json: unified diffs (relative to /repo, which contains the scope.* schedule points and the
end_scope repair) of the mutants and benign edits used to demonstrate the binding.  Usage: mk_selftest.py [tree]"""
import difflib, json, os, sys
tree = sys.argv[1] if len(sys.argv) > 1 else "/repo"
V2, V1, V0, EV = "include/unifex/v2/async_scope.hpp", "include/unifex/v1/async_scope.hpp", "include/unifex/v0/async_scope.hpp", "source/async_manual_reset_event_v1.cpp"
DBG = "include/unifex/detail/debug_async_scope.hpp"
M = [
 ("regress_end_scope_fix", V2, "    if ((oldState & scopeEndedBit) != 0u && use_count(oldState) == 0) {", "    if (use_count(oldState) == 0) {", "violation",
  "regression of the repair: every end_scope() that finds count == 0 signals (must be a VIOLATION, not a known finding)"),
 ("regress_end_of_scope_fix_v0", V0, "    if ((oldState & stoppedBit) != 0u && op_count(oldState) == 0) {", "    if (op_count(oldState) == 0) {", "violation",
  "regression of the repair in the v0 scope"),
 ("rc_signals_at_one", V2, "    if (scope_ended(oldState) && use_count(oldState) == 1u) {", "    if (scope_ended(oldState) && use_count(oldState) <= 2u) {", "violation",
  "record_completion signals the join event already when the count drops to 1"),
 ("end_scope_never_signals", V2, "    if ((oldState & scopeEndedBit) != 0u && use_count(oldState) == 0) {", "    if ((oldState & scopeEndedBit) == 0u && use_count(oldState) == 0) {", "violation",
  "end_scope does not signal when it closes a scope whose count is already 0 (join never completes)"),
 ("admit_after_close", V2, "      if (scope_ended(opState)) {\n        return false;\n      }\n\n      UNIFEX_ASSERT(opState + 2u > opState);", "      if (scope_ended(opState) && use_count(opState) == 0) {\n        return false;\n      }\n\n      UNIFEX_ASSERT(opState + 2u > opState);", "violation",
  "try_record_start keeps admitting after the close while other work is outstanding"),
 ("trs_closed_test_hoisted", V2, "    do {\n      if (scope_ended(opState)) {\n        return false;\n      }\n\n      UNIFEX_ASSERT(opState + 2u > opState);", "    if (scope_ended(opState)) {\n      return false;\n    }\n    do {\n      UNIFEX_ASSERT(opState + 2u > opState);", "violation",
  "try_record_start tests the open bit only before the CAS loop (a failed CAS that reloads a closed word still admits)"),
 ("copy_without_count", V2, "  scope_reference(const scope_reference& other) noexcept\n    : scope_reference(other.scope_) {}", "  scope_reference(const scope_reference& other) noexcept\n    : scope_(other.scope_) {}", "violation",
  "copying a nest sender copies the scope reference without a second try_record_start"),
 ("v1_cleanup_no_stop", V1, "        just_from([this]() noexcept { request_stop(); }), scope_.join());", "        just_from([this]() noexcept { scope_.end_scope(); }), scope_.join());", "violation",
  "v1 cleanup() closes the scope but does not request stop"),
 ("v1_request_stop_no_stop", V1, "    UNIFEX_VERIF_YIELD(\"scope.v1_rs\");\n    stopSource_.request_stop();", "    UNIFEX_VERIF_YIELD(\"scope.v1_rs\");", "violation",
  "v1 request_stop() closes the scope but does not request stop"),
 ("v1_attach_no_forward", V1, "    UNIFEX_VERIF_YIELD(\"future.att_req_stop\");\n    stopSource_.request_stop();", "    UNIFEX_VERIF_YIELD(\"future.att_req_stop\");", "violation",
  "the attach operation's stop callbacks (scope token and receiver token) no longer forward the stop request to the nested operation"),
 ("v1_attach_double_complete", V1, "    if (refcount_.fetch_sub(1, std::memory_order_acq_rel) == 1) {", "    if (refcount_.fetch_sub(1, std::memory_order_acq_rel) <= 2) {", "violation",
  "attach try_complete: both the nested completion and a stop callback believe they are the completer"),
 ("v0_record_done_early", V0, "    if (is_stopping(oldState) && op_count(oldState) == 1) {", "    if (is_stopping(oldState) && op_count(oldState) <= 2) {", "violation",
  "v0 record_done signals the join event already when the count drops to 1"),
 ("v0_admit_after_close", V0, "      if (is_stopping(opState)) {\n        return false;\n      }", "      if (is_stopping(opState) && op_count(opState) == 0) {\n        return false;\n      }", "violation",
  "v0 try_record_start keeps admitting after the close while other work is outstanding"),
 ("event_set_first_waiter_only", EV, "  while (op != nullptr) {", "  if (op != nullptr) {", "violation",
  "async_manual_reset_event::set() completes only the first waiter (second racing join never completes)"),
 ("debug_deregister_after_complete", DBG, "    ops_->deregister_debug_operation(this);\n    func(std::move(receiver_));", "    auto ops = ops_;\n    func(std::move(receiver_));\n    ops->deregister_debug_operation(this);", "violation",
  "debug_async_scope: the operation is removed from the scope's registry only after its receiver (and with it possibly the join) has completed"),
 ("benign_comment", V2, "    auto oldState = scope->opState_.fetch_sub(2u, std::memory_order_acq_rel);", "    // drop one reference\n    auto oldState = scope->opState_.fetch_sub(2u, std::memory_order_acq_rel);", "clean",
  "comment added"),
 ("benign_hook_removed", V2, "    UNIFEX_VERIF_YIELD(\"scope.rc_fsub\");\n", "", "clean",
  "schedule point scope.rc_fsub removed (guided replay drifts; no alarm)"),
 ("benign_seq_cst", V2, "        opState, opState + 2u, std::memory_order_relaxed));", "        opState, opState + 2u, std::memory_order_seq_cst));", "clean",
  "memory order of the admission CAS strengthened"),
 ("benign_equivalent_fix_form", V2, "    if ((oldState & scopeEndedBit) != 0u && use_count(oldState) == 0) {", "    if (!scope_ended(oldState) && use_count(oldState) == 0) {", "clean",
  "the repair written with the helper predicate (behaviourally identical; header detection must not misfire)"),
]
out = []
for name, f, old, new, expect, desc in M:
    a = open(os.path.join(tree, f)).read()
    assert a.count(old) == 1, (name, a.count(old))
    b = a.replace(old, new)
    d = "".join(difflib.unified_diff(a.splitlines(True), b.splitlines(True), "a/" + f, "b/" + f))
    out.append(dict(name=name, patch=d, expect=expect, what=desc))
json.dump(out, open(os.path.join(os.path.dirname(os.path.abspath(__file__)), "selftest.json"), "w"), indent=1)
print(len(out), "entries")
