// C08 driver: executes async_scope scenarios (v2 / v1 / v0 scopes) on the real code with controlled threads.
// modes: guided (TLC behaviours), dfs (bounded-preemption enumeration), random (seeded).
//
// Work items are harness leaf senders whose completion is triggered by a `complete` op of some driver thread; every
// operation state / sender / the scope itself is an individual heap object freed exactly when the API says it may die
// (nest/attach operation: inside its receiver's completion; join operation: inside the join receiver's completion;
// the scope: in "eager" units as soon as every planned join has completed and no thread is inside or still has a direct
// call on the scope object, in "late" units after the execution).
#pragma once
#include "vrt.hpp"

#include <unifex/inline_scheduler.hpp>
#include <unifex/spawn_detached.hpp>
#include <unifex/spawn_future.hpp>
#include <unifex/v0/async_scope.hpp>
#include <unifex/v1/async_scope.hpp>
#include <unifex/v1/debug_async_scope.hpp>
#include <unifex/v2/async_scope.hpp>
#include <unifex/v2/debug_async_scope.hpp>

#include <nlohmann/json.hpp>

#include <fstream>
#include <set>
#include <sstream>

using namespace unifex;
using json = nlohmann::json;

struct Op { std::string k; int a = 0, b = 0; };
using Prog = std::vector<Op>;
// ver: 2 / 1 / 0 = v2 / v1 / v0 async_scope; 12 / 11 = v2 / v1 debug_async_scope.  man: join receivers use the manual run queue
struct Scenario { int id = 0; int ver = 2; int man = 0; Prog prog[4]; int njoins = 0; int ndirect = 0; };

inline bool isDirect(const std::string& k) {
  return k == "nest" || k == "join" || k == "spawn" || k == "cleanup" || k == "reqstop" || k == "fspawn";
}
inline bool isCloser(const std::string& k) { return k == "join" || k == "cleanup"; }

constexpr int NW = 8, NJ = 4;

struct HOpBase { virtual void run() noexcept = 0; };

// ------------------------------------------------------------------ shared bookkeeping (one logical thread at a time)
struct WorldBase {
  const Scenario* scn = nullptr;
  bool eager = true;
  int adm[NW];                 // -1 none, 0 refused, 1 admitted, 2 unknown
  bool hasRecv[NW] = {};       // a harness receiver observes the completion (nest/attach operations)
  bool leafStarted[NW] = {}, leafDone[NW] = {}, neverStarts[NW] = {}, fin[NW] = {}, stopSeen[NW] = {};
  std::function<void(int)> fire[NW];
  void* opPtr[NW] = {};
  void (*opDel[NW])(void*) = {};
  void* jopPtr[NJ] = {};
  void (*jopDel[NJ])(void*) = {};
  bool jBegun[NJ] = {}, jDone[NJ] = {};
  int jDoneCount[NJ] = {};
  int directRemaining = 0;
  std::vector<HOpBase*> jq;             // manual scheduler: queued continuations
  inplace_stop_source* rsrc[NW] = {};   // the stop source behind each work item's receiver
  WorldBase() { for (auto& a : adm) a = -1; for (auto& r : rsrc) r = new inplace_stop_source(); }
  virtual ~WorldBase() { for (auto r : rsrc) delete r; }
  virtual void maybeFree() = 0;

  static void E(const char* e, int w, int j, int r) {
    vrt::ev("{\"e\":\"%s\",\"w\":%d,\"j\":%d,\"t\":%d,\"r\":%d}", e, w, j, vrt::self_id(), r);
  }
  void leafStart(int w) { E("LeafStart", w, 0, -1); }
  void sawStop(int w) { if (!stopSeen[w]) { stopSeen[w] = true; E("StopSeen", w, 0, -1); } }
  // completion of the harness receiver of a nest/attach operation; frees the operation (the receiver lives inside it)
  void workDone(int w, int ch) {
    E("WorkDone", w, 0, ch);
    fin[w] = true;
    if (!leafStarted[w]) neverStarts[w] = true;
    void* p = opPtr[w]; auto d = opDel[w]; opPtr[w] = nullptr;
    if (p) d(p);
  }
  // completion of the receiver of a started future; frees the future's operation
  void futDone(int f, int ch) {
    E("FutDone", f, 0, ch);
    fin[f] = true;
    void* p = opPtr[f]; auto d = opDel[f]; opPtr[f] = nullptr;
    if (p) d(p);
  }
  void drainOne() {
    while (jq.empty()) UNIFEX_VERIF_SPIN("scope.h.wait");
    HOpBase* o = jq.front(); jq.erase(jq.begin());
    o->run();
  }
  void rstop(int w) {
    E("RStopBegin", w, 0, -1);
    rsrc[w]->request_stop();
    E("RStopEnd", w, 0, -1);
  }
  void joinDone(int j, int ch) {
    E("JoinDone", 0, j, ch);
    jDone[j] = true; ++jDoneCount[j];
    void* p = jopPtr[j]; auto d = jopDel[j]; jopPtr[j] = nullptr;
    if (p) d(p);
    maybeFree();
  }
  bool ledgerConsistent() const {
    for (int w = 0; w < NW; ++w) if ((adm[w] == 1 || adm[w] == 2) && !fin[w]) return false;
    for (int j = 0; j < NJ; ++j) if (jDoneCount[j] > 1) return false;
    return true;
  }
  bool allPlannedJoinsDone() const {
    if (scn->njoins == 0) return false;
    int n = 0;
    for (int j = 0; j < NJ; ++j) if (jDone[j]) ++n;
    return n >= scn->njoins;
  }
  // the driver's `complete w`
  void completeLeaf(int w) {
    while (!(leafStarted[w] || neverStarts[w])) UNIFEX_VERIF_SPIN("scope.h.wait");
    if (!leafStarted[w] || leafDone[w]) return;
    leafDone[w] = true;
    int ch = stopSeen[w] ? 1 : 0;
    E("LeafFinish", w, 0, stopSeen[w] ? 1 : 0);
    if (!hasRecv[w]) { E("WorkDone", w, 0, ch); fin[w] = true; }
    fire[w](ch);
  }
};

// ------------------------------------------------------------------ the controllable leaf sender
template <class R>
struct LeafOp {
  struct Cb { WorldBase* W; int id; void operator()() noexcept { W->sawStop(id); } };
  using ST = stop_token_type_t<R&>;
  using CbT = typename ST::template callback_type<Cb>;
  WorldBase* W; int id; R r;
  manual_lifetime<CbT> cb;
  template <class R2>
  LeafOp(WorldBase* w, int i, R2&& rr) : W(w), id(i), r((R2&&)rr) {}
  LeafOp(LeafOp&&) = delete;
  void start() noexcept {
    W->leafStart(id);
    cb.construct(get_stop_token(r), Cb{W, id});
    W->fire[id] = [this](int ch) { this->complete(ch); };
    W->leafStarted[id] = true;
  }
  void complete(int ch) noexcept {
    cb.destruct();
    if (ch == 0) unifex::set_value(std::move(r)); else unifex::set_done(std::move(r));
    // `this` is gone
  }
};
// a copy of a nest sender / an lvalue connect creates a *new* work item: the harness names it through this override
inline thread_local int tl_idOverride = -1;
struct Leaf {
  Leaf(WorldBase* w, int i) : W(w), id(i) {}
  Leaf(const Leaf& o) : W(o.W), id(tl_idOverride >= 0 ? tl_idOverride : o.id) {}
  Leaf(Leaf&& o) noexcept : W(o.W), id(o.id) {}
  template <template <class...> class Variant, template <class...> class Tuple>
  using value_types = Variant<Tuple<>>;
  template <template <class...> class Variant>
  using error_types = Variant<std::exception_ptr>;
  static constexpr bool sends_done = true;
  static constexpr blocking_kind blocking = blocking_kind::never;
  static constexpr bool is_always_scheduler_affine = false;
  WorldBase* W; int id;
  template <class R>
  LeafOp<remove_cvref_t<R>> connect(R&& r) const {
    return LeafOp<remove_cvref_t<R>>{W, tl_idOverride >= 0 ? tl_idOverride : id, (R&&)r};
  }
};

struct Recv {
  WorldBase* W; int id;
  void set_value() && noexcept { W->workDone(id, 0); }
  template <class Err> void set_error(Err&&) && noexcept { W->workDone(id, 2); }
  void set_done() && noexcept { W->workDone(id, 1); }
  friend inplace_stop_token tag_invoke(tag_t<get_stop_token>, const Recv& r) noexcept { return r.W->rsrc[r.id]->get_token(); }
};
// receiver of a started future (its private event needs a scheduler: inline; unstoppable: the future's own stop
// protocol is C09's business)
struct FRecv {
  WorldBase* W; int id;
  template <class... Vs> void set_value(Vs&&...) && noexcept { W->futDone(id, 0); }
  template <class Err> void set_error(Err&&) && noexcept { W->futDone(id, 2); }
  void set_done() && noexcept { W->futDone(id, 1); }
  friend inline_scheduler tag_invoke(tag_t<get_scheduler>, const FRecv&) noexcept { return {}; }
};
// the join receiver's scheduler: inline, or (scenario.man) a run queue served by `drain` ops
template <class R>
struct HSchedOp final : HOpBase {
  WorldBase* W; R r;
  template <class R2> HSchedOp(WorldBase* w, R2&& rr) : W(w), r((R2&&)rr) {}
  HSchedOp(HSchedOp&&) = delete;
  void start() noexcept { if (W->scn->man) W->jq.push_back(this); else run(); }
  void run() noexcept override { unifex::set_value(std::move(r)); }
};
struct HSched {
  WorldBase* W;
  struct Task {
    template <template <class...> class Variant, template <class...> class Tuple> using value_types = Variant<Tuple<>>;
    template <template <class...> class Variant> using error_types = Variant<std::exception_ptr>;
    static constexpr bool sends_done = true;
    static constexpr blocking_kind blocking = blocking_kind::maybe;
    static constexpr bool is_always_scheduler_affine = false;
    WorldBase* W;
    template <class R> HSchedOp<remove_cvref_t<R>> connect(R&& r) const { return HSchedOp<remove_cvref_t<R>>{W, (R&&)r}; }
  };
  Task schedule() const noexcept { return Task{W}; }
  friend bool operator==(HSched a, HSched b) noexcept { return a.W == b.W; }
  friend bool operator!=(HSched a, HSched b) noexcept { return a.W != b.W; }
};
struct JoinRecv {
  WorldBase* W; int j;
  void set_value() && noexcept { W->joinDone(j, 0); }
  template <class Err> void set_error(Err&&) && noexcept { W->joinDone(j, 2); }
  void set_done() && noexcept { W->joinDone(j, 1); }
  friend HSched tag_invoke(tag_t<get_scheduler>, const JoinRecv& r) noexcept { return HSched{r.W}; }
};

// ------------------------------------------------------------------ per-version API
template <int V> struct Tr;
template <> struct Tr<2> {
  using Scope = unifex::v2::async_scope;
  static auto nest(Scope& s, Leaf l) { return s.nest(std::move(l)); }
  static auto join(Scope& s) { return s.join(); }
  static auto cleanup(Scope& s) { return s.join(); }
  static void reqstop(Scope&) {}
  static void spawn(Scope& s, Leaf l) { unifex::spawn_detached(std::move(l), s); }
  static auto spawnf(Scope& s, Leaf l) { return unifex::spawn_future(std::move(l), s); }
};
template <> struct Tr<12> {
  using Scope = unifex::v2::debug_async_scope;
  static auto nest(Scope& s, Leaf l) { return s.nest(std::move(l)); }
  static auto join(Scope& s) { return s.join(); }
  static auto cleanup(Scope& s) { return s.join(); }
  static void reqstop(Scope&) {}
  static void spawn(Scope& s, Leaf l) { unifex::spawn_detached(std::move(l), s); }
  static auto spawnf(Scope& s, Leaf l) { return unifex::spawn_future(std::move(l), s); }
};
template <> struct Tr<11> {
  using Scope = unifex::v1::debug_async_scope;
  static auto nest(Scope& s, Leaf l) { return s.attach(std::move(l)); }
  static auto join(Scope& s) { return s.complete(); }
  static auto cleanup(Scope& s) { return s.cleanup(); }
  static void reqstop(Scope& s) { s.request_stop(); }
  static void spawn(Scope& s, Leaf l) { s.detached_spawn(std::move(l)); }
  static auto spawnf(Scope& s, Leaf l) { return s.spawn(std::move(l)); }
};
template <> struct Tr<1> {
  using Scope = unifex::v1::async_scope;
  static auto nest(Scope& s, Leaf l) { return s.attach(std::move(l)); }
  static auto join(Scope& s) { return s.complete(); }
  static auto cleanup(Scope& s) { return s.cleanup(); }
  static void reqstop(Scope& s) { s.request_stop(); }
  static void spawn(Scope& s, Leaf l) { s.detached_spawn(std::move(l)); }
  static auto spawnf(Scope& s, Leaf l) { return s.spawn(std::move(l)); }
};
template <> struct Tr<0> {
  using Scope = unifex::v0::async_scope;
  static auto nest(Scope& s, Leaf l) { return unifex::v2::async_scope{}.nest(std::move(l)); }   // unused (v0 has no nest)
  static auto join(Scope& s) { return s.complete(); }
  static auto cleanup(Scope& s) { return s.cleanup(); }
  static void reqstop(Scope& s) { s.request_stop(); }
  static void spawn(Scope& s, Leaf l) { s.spawn(std::move(l)); }
};

template <int V> struct FutTypes {
  using Fut = decltype(Tr<V>::spawnf(std::declval<typename Tr<V>::Scope&>(), std::declval<Leaf>()));
  using FOp = connect_result_t<Fut, FRecv>;
};
template <> struct FutTypes<0> { using Fut = int; using FOp = int; };   // v0 has no futures

template <int V>
struct World : WorldBase {
  using T = Tr<V>;
  using Scope = typename T::Scope;
  using NS = decltype(T::nest(std::declval<Scope&>(), std::declval<Leaf>()));
  using NOp = connect_result_t<NS, Recv>;
  using LOp = connect_result_t<const NS&, Recv>;
  using Fut = typename FutTypes<V>::Fut;
  using FOp = typename FutTypes<V>::FOp;
  Scope* scope = new Scope();
  NS* snd[NW] = {};
  Fut* futp[NW] = {};
  int futOf[NW] = {};

  void maybeFree() override {
    if (!eager || !scope) return;
    if (!allPlannedJoinsDone() || directRemaining != 0) return;
    if (!ledgerConsistent()) return;   // leave the judgement to the monitor; do not turn it into an assertion failure
    E("ScopeFreed", 0, 0, -1);
    delete scope; scope = nullptr;
  }
  void directDone() { --directRemaining; maybeFree(); }
  bool admitted(const NS& s) { return unifex::blocking(s) != blocking_kind::always_inline; }

  void doNest(int w) {
    E("NestBegin", w, 0, -1);
    auto* s = new NS(T::nest(*scope, Leaf{this, w}));
    snd[w] = s; hasRecv[w] = true;
    adm[w] = admitted(*s) ? 1 : 0;
    E("NestEnd", w, 0, adm[w]);
    directDone();
  }
  void doCopy(int w, int v) {
    E("NestBegin", v, 0, -1);
    tl_idOverride = v;
    auto* s = new NS(*snd[w]);
    tl_idOverride = -1;
    snd[v] = s; hasRecv[v] = true;
    adm[v] = admitted(*s) ? 1 : 0;
    E("NestEnd", v, 0, adm[v]);
  }
  void doStart(int w) {
    NS* s = snd[w]; snd[w] = nullptr;
    E("StartBegin", w, 0, -1);
    auto* op = new NOp(unifex::connect(std::move(*s), Recv{this, w}));
    delete s;   // moved-from
    opPtr[w] = op; opDel[w] = [](void* p) { delete static_cast<NOp*>(p); };
    unifex::start(*op);
  }
  void doLStart(int w, int v) {
    E("NestBegin", v, 0, -1);
    hasRecv[v] = true;
    tl_idOverride = v;
    auto* op = new LOp(unifex::connect(static_cast<const NS&>(*snd[w]), Recv{this, v}));
    tl_idOverride = -1;
    adm[v] = 2;
    E("NestEnd", v, 0, 2);
    opPtr[v] = op; opDel[v] = [](void* p) { delete static_cast<LOp*>(p); };
    unifex::start(*op);
  }
  void doDiscard(int w) {
    NS* s = snd[w]; snd[w] = nullptr;
    E("Discard", w, 0, -1);
    fin[w] = true; neverStarts[w] = true;
    delete s;
  }
  void doSpawn(int w) {
    E("NestBegin", w, 0, -1);
    hasRecv[w] = false;
    T::spawn(*scope, Leaf{this, w});
    adm[w] = leafStarted[w] ? 1 : 0;
    if (!leafStarted[w]) neverStarts[w] = true;
    E("NestEnd", w, 0, adm[w]);
    directDone();
  }
  // spawn_future: the future (item f) is itself a nest sender of the scope; the operation is item w
  void doFSpawn(int w, int f) {
    E("NestBegin", f, 0, -1);
    E("NestBegin", w, 0, -1);
    hasRecv[w] = false; hasRecv[f] = true; futOf[f] = w;
    auto* fu = new Fut(T::spawnf(*scope, Leaf{this, w}));
    futp[f] = fu;
    adm[w] = leafStarted[w] ? 1 : 0;
    if (!leafStarted[w]) neverStarts[w] = true;
    // the future nests itself first, the operation second: an admitted operation implies an admitted future; otherwise
    // the future's admission is not observable (its blocking() customisation is shadowed by its own `blocking` member)
    adm[f] = leafStarted[w] ? 1 : 2;
    E("NestEnd", w, 0, adm[w]);
    E("NestEnd", f, 0, adm[f]);
    directDone();
  }
  void doFStart(int f) {
    Fut* fu = futp[f]; futp[f] = nullptr;
    E("StartBegin", f, 0, -1);
    auto* op = new FOp(unifex::connect(std::move(*fu), FRecv{this, f}));
    delete fu;   // moved-from
    opPtr[f] = op; opDel[f] = [](void* p) { delete static_cast<FOp*>(p); };
    unifex::start(*op);
  }
  void doFDrop(int f) {
    Fut* fu = futp[f]; futp[f] = nullptr;
    E("FutDrop", f, 0, futOf[f]);      // r = the operation's item: dropping the future requests stop on it
    fin[f] = true;
    delete fu;
  }
  template <class S>
  void startJoin(int j, S&& sender, int kind) {
    using JOp = connect_result_t<S, JoinRecv>;
    auto* op = new JOp(unifex::connect((S&&)sender, JoinRecv{this, j}));
    jopPtr[j] = op; jopDel[j] = [](void* p) { delete static_cast<JOp*>(p); };
    jBegun[j] = true;
    E("JoinBegin", 0, j, kind);
    unifex::start(*op);
    E("JoinRet", 0, j, kind);
    directDone();
  }
  void doJoin(int j) { startJoin(j, T::join(*scope), 0); }
  void doCleanup(int j) { startJoin(j, T::cleanup(*scope), 1); }
  void doReqStop() {
    E("ReqStopBegin", 0, 0, -1);
    T::reqstop(*scope);
    E("ReqStopEnd", 0, 0, -1);
    directDone();
  }
  void run(const Prog& p) {
    for (auto& op : p) {
      UNIFEX_VERIF_YIELD("scope.h.op");
      if (op.k == "nest") { if constexpr (V != 0) doNest(op.a); }
      else if (op.k == "copy") { if constexpr (V != 0) doCopy(op.a, op.b); }
      else if (op.k == "start") { if constexpr (V != 0) doStart(op.a); }
      else if (op.k == "lstart") { if constexpr (V != 0) doLStart(op.a, op.b); }
      else if (op.k == "discard") { if constexpr (V != 0) doDiscard(op.a); }
      else if (op.k == "spawn") doSpawn(op.a);
      else if (op.k == "complete") completeLeaf(op.a);
      else if (op.k == "join") doJoin(op.a);
      else if (op.k == "cleanup") doCleanup(op.a);
      else if (op.k == "reqstop") doReqStop();
      else if (op.k == "rstop") rstop(op.a);
      else if (op.k == "drain") drainOne();
      else if (op.k == "fspawn") { if constexpr (V != 0) doFSpawn(op.a, op.b); }
      else if (op.k == "fstart") { if constexpr (V != 0) doFStart(op.a); }
      else if (op.k == "fdrop") { if constexpr (V != 0) doFDrop(op.a); }
    }
  }
  // after the execution: everything still alive that may legally be destroyed
  void finish() {
    while (!jq.empty()) { HOpBase* o = jq.front(); jq.erase(jq.begin()); o->run(); }   // continuations nobody drained
    E("Quiescent", 0, 0, -1);
    bool clean = ledgerConsistent();
    for (int w = 0; w < NW; ++w) {
      if (snd[w] || futp[w]) clean = false;
      if (leafStarted[w] && !leafDone[w]) clean = false;
    }
    if (scope && clean && allPlannedJoinsDone()) { delete scope; scope = nullptr; }
    // otherwise: outstanding work or an incomplete join keeps the scope (and itself) alive - leaked on purpose
  }
};


// ------------------------------------------------------------------ one execution
using DriveFn = std::function<vrt::RunResult(vrt::Ctl&)>;
struct RunCtx {
  long execs = 0, steps = 0, drift = 0, unguided = 0, obsMismatch = 0, units = 0;
  std::string firstDrift, firstMismatch;
  std::set<std::string> distinctSched;
};

template <int V>
void runOneV(RunCtx& rc, const Scenario& sc, bool eager, long x, long k, const DriveFn& drive, const json* expect) {
  vrt::ev("{\"e\":\"Reset\",\"w\":0,\"j\":0,\"t\":0,\"r\":-1,\"x\":%ld,\"k\":%ld,\"scn\":%d,\"eager\":%d}", x, k, sc.id, eager ? 1 : 0);
  auto* w = new World<V>(); w->scn = &sc; w->eager = eager; w->directRemaining = sc.ndirect;
  vrt::RunResult rr;
  {
    // the future's own protocol points (C09's hooks) are seams only in the spawn_future families; elsewhere they would
    // merely split the attach operation's steps
    bool fut = false;
    for (int t = 1; t <= 3; ++t) for (auto& o : sc.prog[t]) if (o.k == "fspawn") fut = true;
    vrt::Ctl c; c.accept = {"scope.", "spin_wait"};
    if (fut) c.accept.push_back("future.");
    for (int t = 1; t <= 3; ++t) c.spawn(t, [w, t] { w->run(w->scn->prog[t]); });
    c.start_all();
    rr = drive(c);
    if (rr.deadlock) {
      std::string s = vrt::sched_json(rr);
      vrt::ev("{\"e\":\"Deadlock\",\"w\":0,\"j\":0,\"t\":0,\"r\":-1,\"sched\":%s}", s.c_str());
      vrt::log_flush();
      std::fprintf(stderr, "deadlock in scenario %d schedule %s\n", sc.id, s.c_str());
      _exit(75);
    }
    c.join();
  }
  w->finish();
  ++rc.execs; rc.steps += (long)rr.steps.size(); rc.drift += rr.drift ? 1 : 0; rc.unguided += rr.unguided;
  if (rr.drift && rc.firstDrift.empty()) rc.firstDrift = "unit " + std::to_string(x) + ": " + rr.firstDrift;
  rc.distinctSched.insert(std::to_string(sc.id) + ":" + vrt::sched_json(rr));
  if (expect) {
    bool ok = true;
    auto& ea = (*expect)["adm"];
    for (size_t i = 0; i < ea.size() && i + 1 < (size_t)NW; ++i) {
      int e = ea[i].get<int>();                 // spec: 0 none, 1 admitted, 2 refused
      int g = w->adm[i + 1];                    // driver: -1 none, 0 refused, 1 admitted, 2 unknown
      if (g == 2) g = w->leafStarted[i + 1] ? 1 : 0;
      int gs = g < 0 ? 0 : (g == 1 ? 1 : 2);
      if (e != gs) ok = false;
    }
    auto& ej = (*expect)["jst"];
    for (size_t i = 0; i < ej.size() && i + 1 < (size_t)NJ; ++i) {
      std::string e = ej[i].get<std::string>();
      std::string g = w->jDone[i + 1] ? "done" : (w->jBegun[i + 1] ? "begun" : "none");
      if (e != g) ok = false;
    }
    if (!ok) { ++rc.obsMismatch; if (rc.firstMismatch.empty()) rc.firstMismatch = "unit " + std::to_string(x); }
  }
  delete w;
}
// one translation unit per scope flavour (driver_vN.cpp)
void run_one_v2(RunCtx&, const Scenario&, bool, long, long, const DriveFn&, const json*);
void run_one_v1(RunCtx&, const Scenario&, bool, long, long, const DriveFn&, const json*);
void run_one_v0(RunCtx&, const Scenario&, bool, long, long, const DriveFn&, const json*);
void run_one_v12(RunCtx&, const Scenario&, bool, long, long, const DriveFn&, const json*);
void run_one_v11(RunCtx&, const Scenario&, bool, long, long, const DriveFn&, const json*);
