// C08 driver, scope flavour 11 (see scope_world.hpp)
#include "scope_world.hpp"
void run_one_v11(RunCtx& rc, const Scenario& sc, bool eager, long x, long k, const DriveFn& drive, const json* expect) {
  runOneV<11>(rc, sc, eager, x, k, drive, expect);
}
