#!/usr/bin/env python3
"""Runs engines/scope/selftest.json: each entry is applied to a private copy of the hooked tree (include/ + source/), then
`./check C08 --tier quick --engine scope` must exit 1 (violation) resp. 0 (clean).  Usage: run_selftest.py <hooked tree> [names...]"""
import json, os, shutil, subprocess, sys, concurrent.futures as cf
here = os.path.dirname(os.path.abspath(__file__))
tree = sys.argv[1]
names = set(sys.argv[2:])
ents = [e for e in json.load(open(os.path.join(here, "selftest.json"))) if not names or e["name"] in names]
def one(e):
    d = "/var/tmp/scope_st/" + e["name"]
    shutil.rmtree(d, ignore_errors=True); os.makedirs(d)
    for sub in ("include", "source"):
        shutil.copytree(os.path.join(tree, sub), os.path.join(d, sub))
    p = subprocess.run(["patch", "-p1", "-s"], input=e["patch"], cwd=d, text=True, capture_output=True)
    if p.returncode: return e["name"], "patch failed: " + p.stdout + p.stderr, None
    env = dict(os.environ, VERIF_REPO=d, VERIF_JOBS="3", VERIF_KNOWN_EXTRA=os.path.join(here, "proposed_findings.json"))
    p = subprocess.run(["./check", "C08", "--tier", "quick", "--engine", "scope"], cwd="/verif", env=env, text=True, capture_output=True)
    shutil.rmtree(d, ignore_errors=True)
    lines = [l for l in p.stdout.splitlines() if l.startswith("VIOLATION") or l.startswith("  ")][:6]
    return e["name"], p.returncode, lines
with cf.ThreadPoolExecutor(4) as ex:
    for (name, rc, lines), e in zip(ex.map(one, ents), ents):
        want = 1 if e["expect"] == "violation" else 0
        print("%-30s expect=%-9s rc=%s %s" % (name, e["expect"], rc, "OK" if rc == want else "MISMATCH"), flush=True)
        for l in (lines or [])[:4]: print("     " + l[:260], flush=True)
