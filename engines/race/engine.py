"""Engine `race` (C19): completion vs cancellation races have one winner in the cancel wrappers.

 spec/race/{Cancellable,DetachOnCancel,StopOnRequest,Canary}.tla  <->  include/unifex/{cancellable,detach_on_cancel,
 stop_on_request,canary}.hpp ;  spec/race/CreateBasicSender.tla <-> create_basic_sender.hpp (C++20 driver)

 1. scenarios (shared JSON between TLC and the C++ drivers)
 2. TLC: every interleaving of each implementation-shaped spec: invariants (one completer, stop hook window, child freed
    once, ...), termination under fairness; every transition exported.  `NoTouchAfterWinner` is evaluated on the graph:
    states in which the design touches a destroyed operation are terminal and become *replay targets*.
 3. real code: guided replay of edge-covering TLC behaviours and of the shortest behaviour into every bad state,
    bounded-preemption DFS and seeded random schedules, all under ASan/UBSan with individually heap-allocated operation
    states that the receiver frees on completion.
 4. every recorded execution is validated by TLC against the monitor RaceMon; a sanitizer death is a violation (the
    property is about lifetime) and is classified by following its recorded schedule in the TLC state graph: `spec_bad`
    = what the specification of the unchanged design predicts for exactly that schedule ("" = not predicted)."""
import collections, json, os, sys, time

sys.path.insert(0, os.path.join(os.path.dirname(__file__), "..", "..", "tools"))
import vlib

ENGINE = "race"
SPIN_SITES = {"spin_wait", "h_await", "h_lockw", "c_spin", "h_fire", "h_cwait", "k_wspin", "k_wspin2", "k_cspin", "k_gspin"}


# ----------------------------------------------------------------------------- scenarios
def gen_scenarios(tier):
    out = []

    def add(**kw):
        kw["id"] = len(out) + 1
        out.append(kw)

    # cancellable: StopsEarly mode x nested start (async / completes inline) x who arbitrates x participating threads
    for mode, nested, arb, a, b in [("normal", "async", "slot", 1, 0), ("normal", "async", "slot", 1, 1),
                                    ("normal", "async", "slot", 0, 1), ("normal", "sync", "slot", 0, 1),
                                    ("early", "async", "slot", 1, 1), ("early", "async", "slot", 0, 1),
                                    ("normal", "async", "tc", 1, 1), ("early", "async", "tc", 1, 1),
                                    ("early", "sync", "slot", 0, 1), ("normal", "async", "tc", 0, 1)]:
        add(comp="canc", mode=mode, nested=nested, arb=arb, a=a, b=b)
    # detach_on_cancel: what the child does with the stop request x participating threads
    for child, a, b in [("ignore", 1, 1), ("ignore", 1, 0), ("stopcb", 1, 1), ("stopcb", 0, 1), ("sync", 0, 1)]:
        add(comp="doc", mode="", child=child, a=a, b=b)
    # stop_on_request: receiver token (0) + one external token (1); which construction throws; who requests stop
    for throw_at, b0, b1 in [(9, 1, 1), (9, 1, 0), (9, 0, 1), (1, 1, 1), (0, 1, 0), (1, 0, 1)]:
        add(comp="sor", mode="", throwAt=throw_at, b0=b0, b1=b1)
    # canary: destructor of the canary vs destructor of the watcher, without / with a guard cycle
    for guard in (0, 1):
        add(comp="canary", mode="", guard=guard)
    # create_basic_sender (C++20 driver): safe callback invoked twice by A (the 2nd call is certainly late) vs stop
    # lk = 1: built with the harness lock factory (schedule point in front of every lock acquisition)
    for a, b, lk in [(1, 1, 0), (1, 0, 0), (0, 1, 0), (1, 1, 1), (0, 1, 1), (1, 0, 1)]:
        add(comp="cbs", mode="", a=a, b=b, lk=lk, mut=0)
    return out


COMPONENTS = collections.OrderedDict([
    ("canc", dict(label="cancellable", spec="Cancellable", live=True, notouch=True)),
    ("doc", dict(label="detach_on_cancel", spec="DetachOnCancel", live=True)),
    ("sor", dict(label="stop_on_request", spec="StopOnRequest", live=True)),
    ("canary", dict(label="canary", spec="Canary", live=True)),
    ("cbs", dict(label="create_basic_sender", spec="CreateBasicSender", live=True, notouch=True, cxx20=True,
                 spec_mutation="stop callback tests finished() before taking the lock, no re-check under the lock")),
])


# ----------------------------------------------------------------------------- TLC state graph helpers
class Graph:
    def __init__(self, path):
        self.adj, self.inits, self.n = vlib.read_edges(path)
        self.init_of = {}
        for i in self.inits:
            for _, e in self.adj[i]:
                self.init_of[e["scn"]] = i

    def _internal(self, cur):
        """follow the (deterministic) internal continuation steps; returns (state, bad)"""
        while True:
            nxt = [(v, e) for v, e in self.adj.get(cur, ()) if e["pc"] == ""]
            if not nxt:
                return cur, None
            cur = nxt[0][0]
            if nxt[0][1]["bad"] != "ok":
                return cur, nxt[0][1]["bad"]

    def _seek(self, cur, t, name, depth=4):
        """The real thread t is parked at `name` but the specification's thread is not: the tree may have lost (or
        gained) a schedule point.  Let the specification's thread t run alone (<= depth steps) until it is at `name`.
        Returns (state, bad) or None."""
        for _ in range(depth):
            nxt = [(v, e) for v, e in self.adj.get(cur, ()) if e["th"] == t]
            if len(nxt) != 1:
                return None
            v, e = nxt[0]
            if e["bad"] != "ok":
                return v, e["bad"]
            cur = v
            if any(e2["th"] == t and e2["pc"] == name for _, e2 in self.adj.get(cur, ())):
                return cur, None
        return None

    def predict(self, scn_id, sched, dying=None):
        """Follow a recorded schedule [[thread, site], ...].  Returns ('bad', message) if the specification predicts a
        touch of a destroyed object, ('ok', '') if the schedule stays inside the specification without one,
        ('left', site) if the real execution took a step the specification does not have.  Tolerates schedule points
        that were removed from / added to the tree (a step may cover several specification steps of the same thread)."""
        cur = self.init_of.get(scn_id)
        if cur is None:
            return "left", "no-init"
        cur, bad = self._internal(cur)
        known_sites = self.sites()
        for t, site in sched:
            name = site[5:] if site.startswith("race.") else site
            c = [(v, e) for v, e in self.adj.get(cur, ()) if e["th"] == t and e["pc"] == name]
            if not c:
                if name in SPIN_SITES or name not in known_sites:
                    continue          # a spinning thread re-checked its condition / a site the specification lacks
                sk = self._seek(cur, t, name)
                if sk is None:
                    return "left", "%d@%s" % (t, name)
                cur, bad = sk
                if bad:
                    return "bad", bad
                c = [(v, e) for v, e in self.adj.get(cur, ()) if e["th"] == t and e["pc"] == name]
            cur = c[0][0]
            if c[0][1]["bad"] != "ok":
                return "bad", c[0][1]["bad"]
            cur, bad = self._internal(cur)
            if bad:
                return "bad", bad
        if dying:
            # the execution died inside its last step: that step may extend over the next specification steps of the
            # dying thread (removed schedule point)
            for _ in range(3):
                nxt = [(v, e) for v, e in self.adj.get(cur, ()) if e["th"] == dying]
                if len(nxt) != 1:
                    break
                if nxt[0][1]["bad"] != "ok":
                    return "bad", nxt[0][1]["bad"]
                cur = nxt[0][0]
        return "ok", ""

    def sites(self):
        if not hasattr(self, "_sites"):
            self._sites = {e["pc"] for l in self.adj.values() for _, e in l}
        return self._sites

    def shortest_to_bad(self):
        """one shortest walk from an initial state into every distinct (scenario, message, site) bad edge"""
        out, seen = [], set()
        for i in self.inits:
            par = {i: None}
            q = collections.deque([i])
            while q:
                u = q.popleft()
                for v, e in self.adj.get(u, ()):
                    if e["bad"] != "ok":
                        key = (e["scn"], e["bad"])
                        if key in seen:
                            continue
                        seen.add(key)
                        walk = [e]
                        w = u
                        while par[w] is not None:
                            walk.append(par[w][1])
                            w = par[w][0]
                        walk.reverse()
                        out.append(walk)
                    elif v not in par:
                        par[v] = (u, e)
                        q.append(v)
        return out

    def good_part(self):
        """the graph without edges into bad states (for edge-covering replays that are expected to survive)"""
        adj = collections.defaultdict(list)
        for u, l in self.adj.items():
            for v, e in l:
                if e["bad"] == "ok":
                    adj[u].append((v, e))
        return adj


def _try(f, *a):
    try:
        return f(*a), None
    except Exception as ex:          # re-raised in the main thread
        return None, ex


def sched_of(walk):
    return [[e["th"], e["pc"]] for e in walk if e["pc"] != ""]


# ----------------------------------------------------------------------------- runner
ASAN_SYM = ("detect_leaks=0:abort_on_error=0:exitcode=71:allocator_may_return_null=1:detect_stack_use_after_return=0:"
            "handle_segv=1:print_summary=1:symbolize=1:halt_on_error=1")


def run_units(ctx, exe, args, total, log_path, mode, timeout=1500):
    """Run units [0,total) of a driver.  ASan reports are recoverable (the driver records report + schedule of the
    tainted execution in the deaths file and goes on); a fatal event (crash, UBSan, terminate, deadlock, hang) ends the
    process: it is recorded and the run restarts at the next unit."""
    import re
    k, sums, deaths = 0, [], []
    dpath = os.path.join(ctx.work, "deaths_%s.ndjson" % mode)
    for pth in (log_path, dpath):
        open(pth, "w").close()
    while k < total:
        a = list(args) + ["--from", k, "--to", total, "--log", log_path, "--deaths", dpath]
        rc, so, se = vlib.run_exe(exe, a, timeout=timeout)
        for ln in so.splitlines():
            if ln.startswith("{"):
                try:
                    sums.append(json.loads(ln))
                except Exception:
                    pass
        d = vlib.classify_death(rc, se[-20000:] if rc == 71 else se)
        if d is None or (rc == 1 and sums):
            break
        reset, sched, dthread = None, None, 0
        for ln in open(log_path, errors="replace").read()[-(1 << 20):].splitlines():
            if '"e":"Reset"' in ln:
                try:
                    reset, sched, dthread = json.loads(ln), None, 0
                except Exception:
                    pass
            elif '"e":"Deadlock"' in ln or '"e":"DeathSched"' in ln:
                try:
                    j = json.loads(ln)
                    sched, dthread = j.get("sched"), j.get("t", 0)
                except Exception:
                    pass
        x = reset.get("x", k) if reset else k
        d.update(x=x, k=(reset or {}).get("k", 0), scn=(reset or {}).get("scn"), sched=sched or [], thread=dthread, mode=mode, fatal=True)
        deaths.append(d)
        vlib.truncate_after_last_reset(log_path)
        ctx.rep.note("%s: fatal %s in unit %s (execution %s); the rest of that unit was not run" % (mode, d["event"], x, d["k"]))
        k = x + 1
        if len([1 for q in deaths if q.get("fatal")]) >= 25:
            break
    for ln in open(dpath, errors="replace"):
        try:
            j = json.loads(ln)
        except Exception:
            continue
        txt = j.get("stderr", "")
        m = re.search(r"AddressSanitizer: ([\w-]+)", txt)
        j.update(event="AsanReport", asan=m.group(1) if m else "?",
                 access="READ" if re.search(r"\bREAD of size", txt) else ("WRITE" if re.search(r"\bWRITE of size", txt) else ""),
                 stderr_tail=txt[:1500], frame="", where="")
        deaths.append(j)
    return sums, deaths


def symbolize(ctx, exe, sp, scn_id, sched, tag):
    """Re-execute one recorded schedule in a fresh process with symbolization and halt_on_error to obtain the frames."""
    bp = os.path.join(ctx.work, "replay_%s.ndjson" % tag)
    with open(bp, "w") as f:
        f.write(json.dumps(dict(scn=scn_id, sched=sched)) + "\n")
    rc, so, se = vlib.run_exe(exe, ["--mode", "guided", "--scenarios", sp, "--behaviours", bp], timeout=120,
                              env={"ASAN_OPTIONS": ASAN_SYM})
    return vlib.classify_death(rc, se) or {}


def replay(ctx, rec):
    """./check C19 --replay <file>: re-execute exactly the recorded schedule of one scenario on the real code."""
    rep = ctx.rep
    scn = rec["scenario"]
    is20 = bool(COMPONENTS.get(scn["comp"], {}).get("cxx20"))
    exe = vlib.build(ctx, "race_driver" + ("20" if is20 else "17"), ["engines/race/driver.cpp"],
                     lib=["inplace_stop_token.cpp", "async_stack.cpp", "exception.cpp"], std="c++20" if is20 else "c++17",
                     defs=["RACE_CBS=1"] if is20 else [], extra=["-fsanitize-recover=address"])
    sp = os.path.join(ctx.work, "scenarios.json")
    json.dump([scn], open(sp, "w"))
    d = symbolize(ctx, exe, sp, scn["id"], rec["schedule"], "replay")
    rep.evaluations += 1
    if d.get("event"):
        out = dict(rec)
        out.update(event=d["event"], asan=d.get("asan") or "", frame=d.get("frame") or "", where=d.get("where") or "",
                   access=d.get("access") or "", frames=d.get("frames"), detail=d.get("stderr_tail", "")[-1200:],
                   what="replay: %s %s %s at %s" % (d["event"], d.get("asan", ""), d.get("frame", ""), d.get("where", "")))
        rep.violation(out)
    else:
        rep.note("replay: the recorded schedule ran to completion without a memory event")


# ----------------------------------------------------------------------------- the engine
def run(ctx):
    rep = ctx.rep
    rep.assume("sequentially consistent interleavings at schedule-point granularity (one logical thread runs at a time; "
               "weak-memory reorderings are not explored)")
    rep.assume("one operation per execution, <= 3 threads: start() caller, one foreign completer, one stop requester "
               "(stop_on_request: two requesters); the harness nested operation / child / body follows the documented usage")
    rep.assume("inplace_stop_source internals are atomic steps here (their interleavings are C03's subject); only the "
               "blocking of a callback's destructor on a running callback is a schedule point")
    if isinstance(ctx.replay, dict) and ctx.replay.get("scenario") and ctx.replay.get("schedule") is not None:
        return replay(ctx, ctx.replay)
    scns = gen_scenarios(ctx.tier)
    only = [c for c in os.environ.get("RACE_ONLY", "").split(",") if c]      # development aid (self-test of one component)
    if only:
        scns = [s for s in scns if s["comp"] in only]
        rep.note("RACE_ONLY=%s: only these components were run" % ",".join(only))
    byid = {s["id"]: s for s in scns}
    sp = os.path.join(ctx.work, "scenarios.json")
    json.dump(scns, open(sp, "w"))
    graphs = {}
    behaviours = []          # dicts(scn, sched, expect)
    t0 = time.time()
    # ---- 2. model checking of every component's specification (the TLC runs are independent: run them concurrently)
    from concurrent.futures import ThreadPoolExecutor
    jobs = []
    for comp, info in COMPONENTS.items():
        cs = [s for s in scns if s["comp"] == comp]
        if not cs or not info.get("spec"):
            continue
        csp = os.path.join(ctx.work, "scn_%s.json" % comp)
        json.dump(cs, open(csp, "w"))
        edges = os.path.join(ctx.work, "edges_%s.ndjson" % comp)
        mod = info["spec"]
        jobs.append((comp, "mc", dict(area="race", module=mod + "MC", env={"SCENARIOS": csp, "EDGES": edges}, workers=1, timeout=900)))
        if info.get("live"):
            jobs.append((comp, "live", dict(area="race", module=mod + "Live", cfg=mod + "Live.cfg", env={"SCENARIOS": csp}, workers=1, timeout=900)))
        if info.get("notouch"):
            jobs.append((comp, "notouch", dict(area="race", module=mod + "MC", cfg=mod + "NoTouch.cfg", env={"SCENARIOS": csp},
                                               must_hold=False, workers=1, timeout=900)))

    for comp, info in COMPONENTS.items():
        if info.get("spec_mutation") and any(s["comp"] == comp for s in scns):
            msp = os.path.join(ctx.work, "scn_%s_mut.json" % comp)
            json.dump([dict(s, mut=1) for s in scns if s["comp"] == comp], open(msp, "w"))
            jobs.append((comp, "mut", dict(area="race", module=info["spec"] + "MC", cfg=info["spec"] + "Mut.cfg",
                                           env={"SCENARIOS": msp}, must_hold=False, workers=1, timeout=900)))

    def mc(job):
        kw = dict(job[2])
        return vlib.model_check(ctx, kw.pop("area"), kw.pop("module"), **kw)

    with ThreadPoolExecutor(max_workers=max(1, min(4, vlib.NCPU))) as pool:
        results = list(pool.map(lambda jb: (jb, _try(mc, jb)), jobs))
    for jb, (r, err) in results:
        if err:
            raise err
    res = {(jb[0], jb[1]): r for jb, (r, err) in results}
    for (comp, kind), r in res.items():
        if kind == "mut":
            if r["kind"] != "invariant":
                raise vlib.Broken("spec-level mutation of %s (%s) is not rejected by its invariants: %s"
                                  % (comp, COMPONENTS[comp]["spec_mutation"], r["kind"]))
            rep.note("%s: spec-level mutation '%s' violates %s (as it must)" % (COMPONENTS[comp]["spec"],
                     COMPONENTS[comp]["spec_mutation"], r["violated"]))
    for comp, info in COMPONENTS.items():
        if (comp, "mc") not in res:
            continue
        mod = info["spec"]
        edges = os.path.join(ctx.work, "edges_%s.ndjson" % comp)
        g = graphs[comp] = Graph(edges)
        badwalks = g.shortest_to_bad()
        if info.get("notouch"):
            r = res[(comp, "notouch")]
            if r["kind"] in ("error", "timeout", "assert"):
                raise vlib.Broken("TLC %s on %s NoTouch:\n%s" % (r["kind"], mod, r["out"][-2000:]))
            if r["kind"] == "invariant":
                msgs = sorted({w[-1]["bad"] for w in badwalks})
                rep.note("%s: TLC reports %s violated by the transcription of the unchanged design (%d distinct "
                         "(scenario, touch) targets: %s); the counterexamples are replayed on the real code before "
                         "anything is reported" % (mod, r["violated"], len(badwalks), "; ".join(msgs)))
                rep.sample(dict(kind="tlc-counterexample", module=mod, scenario=byid[badwalks[0][0]["scn"]],
                                schedule=sched_of(badwalks[0]), predicts=badwalks[0][-1]["bad"]))
        elif badwalks:
            raise vlib.Broken("model %s reaches a bad state: %s" % (mod, badwalks[0][-1]["bad"]))
        good = g.good_part()
        walks = vlib.edge_cover(good, g.inits)
        if ctx.tier == "thorough":
            walks += vlib.random_walks(good, g.inits, 400, ctx.rng)
        seen = set()
        nb = 0
        for w in walks:
            if not w or not w[-1]["done"]:
                continue          # ends where the only continuation is a bad edge: covered by the bad walks
            b = dict(scn=w[0]["scn"], sched=sched_of(w), expect=w[-1]["obs"], bad="")
            key = json.dumps([b["scn"], b["sched"]])
            if key in seen:
                continue
            seen.add(key)
            behaviours.append(b)
            nb += 1
        for w in badwalks:
            behaviours.append(dict(scn=w[0]["scn"], sched=sched_of(w), expect=w[-1]["obs"], bad=w[-1]["bad"]))
        rep.note("%s: %d edges exported, %d surviving behaviours (edge cover), %d behaviours into bad states"
                 % (mod, g.n, nb, len(badwalks)))
    rep.exhaustive = True
    rep.note("model checking phase %.1fs" % (time.time() - t0))
    for b in behaviours[:1]:
        rep.sample(dict(kind="tlc-behaviour", scenario=byid[b["scn"]], schedule=b["sched"], expect=b["expect"]))
    # ---- 3. real code: two executables (C++17 components; C++20 for create_basic_sender)
    libs = ["inplace_stop_token.cpp", "async_stack.cpp", "exception.cpp"]
    q = ctx.quick
    runs = []
    for kind, std, defs in (("17", "c++17", []), ("20", "c++20", ["RACE_CBS=1"])):
        is20 = kind == "20"
        kscns = [s for s in scns if bool(COMPONENTS[s["comp"]].get("cxx20")) == is20]
        if not kscns:
            continue
        exe = vlib.build(ctx, "race_driver" + kind, ["engines/race/driver.cpp"], lib=libs, std=std, defs=defs,
                         extra=["-fsanitize-recover=address"])
        ksp = os.path.join(ctx.work, "scenarios_%s.json" % kind)
        json.dump(kscns, open(ksp, "w"))
        kids = {s["id"] for s in kscns}
        kbeh = [b for b in behaviours if b["scn"] in kids]
        bp = os.path.join(ctx.work, "behaviours_%s.ndjson" % kind)
        with open(bp, "w") as f:
            for b in kbeh:
                f.write(json.dumps(b) + "\n")
        common = dict(exe=exe, sp=ksp, scns=kscns, beh=kbeh)
        runs.append(dict(common, mode="guided", tag="guided" + kind, args=["--mode", "guided", "--scenarios", ksp, "--behaviours", bp], total=len(kbeh)))
        runs.append(dict(common, mode="dfs", tag="dfs" + kind, total=len(kscns),
                         args=["--mode", "dfs", "--scenarios", ksp, "--bound", 2 if q else 3, "--cap", 200 if q else 1200]))
        runs.append(dict(common, mode="random", tag="random" + kind, total=len(kscns),
                         args=["--mode", "random", "--scenarios", ksp, "--seed", ctx.seed, "--cap", 50 if q else 300]))
    groups = collections.OrderedDict()
    reproduced = set()

    def do_mode(run_):
        t0 = time.time()
        lp = os.path.join(ctx.work, "log_%s.ndjson" % run_["tag"])
        sums, deaths = run_units(ctx, run_["exe"], run_["args"], run_["total"], lp, run_["tag"])
        n, rejected = vlib.validate_batched(ctx, "race", "RaceMon", lp)
        return run_, lp, sums, deaths, n, rejected, time.time() - t0

    with ThreadPoolExecutor(max_workers=max(1, min(4, vlib.NCPU))) as pool:
        outs = list(pool.map(lambda r_: _try(do_mode, r_), runs))
    for out, err in outs:
        if err:
            raise err
        run_, lp, sums, deaths, n, rejected, secs = out
        mode, exe_, sp, kscns, kbeh = run_["mode"], run_["exe"], run_["sp"], run_["scns"], run_["beh"]
        execs = sum(s["execs"] for s in sums) + len([1 for d in deaths if d.get("fatal")])
        rep.evaluations += execs
        for s in sums:
            if mode == "guided":
                rep.drift += s["drift"]
                rep.unguided += s["unguided"]
                if s.get("first_drift"):
                    rep.note("guided drift: %s" % s["first_drift"])
        for d in deaths:
            if mode == "guided":
                b = kbeh[d["x"]] if d["x"] < len(kbeh) else None
                scn = byid.get(b["scn"]) if b else None
            else:
                scn = kscns[d["x"]] if d["x"] < len(kscns) else None
            comp = scn["comp"] if scn else "?"
            verdict, msg = ("n/a", "")
            if comp in graphs and scn:
                verdict, msg = graphs[comp].predict(scn["id"], d.get("sched") or [], dying=d.get("thread") or None)
            spec_bad = msg if verdict == "bad" else ""
            if verdict == "bad":
                reproduced.add((comp, msg))
            label = COMPONENTS.get(comp, {}).get("label", comp)
            last_site = (d.get("sched") or [[0, ""]])[-1][1]
            key = (label, d["event"], d.get("asan"), d.get("access"), d.get("thread"), last_site if verdict != "bad" else "",
                   spec_bad, verdict if verdict != "bad" else "")
            gk = groups.get(key)
            if gk is None:
                if d["event"] == "AsanReport" and not d.get("frame") and scn:
                    sd = symbolize(ctx, exe_, sp, scn["id"], d.get("sched") or [], "g%d" % len(groups))
                    if sd.get("event") == "AsanReport":
                        for f in ("frame", "where", "frames", "access", "asan"):
                            d[f] = sd.get(f) or d.get(f)
                        d["stderr_tail"] = sd.get("stderr_tail", d.get("stderr_tail", ""))
                    else:
                        d["where"] = "(not reproduced by the symbolizing re-run: %s)" % sd.get("event")
                what = "%s in %s (%s execution, scenario %s): %s %s at %s; thread %s; the specification of the unchanged design %s" % (
                    d["event"], label, mode, json.dumps(scn), d.get("asan", ""), d.get("frame", ""), d.get("where", ""),
                    d.get("thread"), ("predicts for this schedule: " + msg) if verdict == "bad" else
                    ("does not predict a touch of a destroyed object for this schedule (%s %s)" % (verdict, msg)))
                groups[key] = dict(engine=ENGINE, component=label, mode=mode, event=d["event"], asan=d.get("asan") or "",
                                   frame=d.get("frame") or "", where=d.get("where") or "", access=d.get("access") or "",
                                   thread=d.get("thread"), scenario=scn, schedule=d.get("sched"), spec_verdict=verdict,
                                   spec_bad=spec_bad, what=what, count=1, frames=d.get("frames"),
                                   detail=d.get("stderr_tail", "")[-1200:])
            else:
                gk["count"] += 1
        for ex in vlib.split_executions(lp)[:400000]:
            if len(ex[1]) > 3:
                rep.distinct.add(hash("".join(ex[1][1:])))
        for rj in rejected:
            r0 = rj["events"][0] if rj["events"] else {}
            scn = byid.get(r0.get("scn"))
            label = COMPONENTS.get(r0.get("comp"), {}).get("label", r0.get("comp"))
            pref = rj.get("prefix") or 0
            at = rj["events"][pref] if pref < len(rj["events"]) else {}
            rep.violation(dict(engine=ENGINE, component=label, mode=mode, event="MonitorReject", unit=rj["x"], scenario=scn,
                               rejected_event=at.get("e", "end-of-execution obligations"),
                               what="RaceMon rejects an execution of %s recorded in %s mode at event %s (#%s of %s), scenario %s"
                                    % (label, mode, json.dumps(at), pref, rj.get("total"), json.dumps(scn)),
                               events=rj["events"]))
        rep.note("%s: %d executions (%d with a memory event), %.1fs incl. validation" % (run_["tag"], execs, len(deaths), secs))
        if mode == "random" and n:
            ex = vlib.split_executions(lp)[0]
            rep.sample(dict(kind="recorded-trace", events=[json.loads(x) for x in ex[1][:40]]))
    for gk in groups.values():
        gk["what"] += " [%d executions]" % gk["count"]
        rep.violation(gk)
    for comp, g in graphs.items():
        for w in g.shortest_to_bad():
            if (comp, w[-1]["bad"]) not in reproduced:
                rep.note("%s: the specification's counterexample '%s' (scenario %d) was NOT reproduced on the real code "
                         "(the transcription may be stale)" % (comp, w[-1]["bad"], w[0]["scn"]))
    rep.rule("executions = guided replays of TLC behaviours (edge cover of the surviving graph + shortest behaviour into every "
             "bad state) + bounded-preemption DFS + seeded random schedules of the real headers under ASan/UBSan; "
             "distinct_nontrivial = distinct recorded event sequences with more than 3 events")
