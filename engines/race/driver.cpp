// C19 driver (C++17 components): cancellable/try_complete, detach_on_cancel, stop_on_request, canary.
// Each execution builds ONE operation (heap-allocated, freed by its receiver on completion) and runs the scripted
// threads  1 = S (unifex::start / destructor), 2 = A (natural completion / watcher), 3 = B (stop request)
// under the token-passing controller.  modes: guided (TLC behaviours), dfs (bounded preemption), random (seeded).
#include "race_rt.hpp"

// Built twice: C++17 (cancellable, detach_on_cancel, stop_on_request, canary) and, with -DRACE_CBS=1, C++20
// (create_basic_sender).
#if RACE_CBS
#include <unifex/create_basic_sender.hpp>
#else
#include <unifex/cancellable.hpp>
#include <unifex/canary.hpp>
#include <unifex/detach_on_cancel.hpp>
#include <unifex/stop_on_request.hpp>
#endif
#include <unifex/inplace_stop_token.hpp>
#include <unifex/receiver_concepts.hpp>
#include <unifex/sender_concepts.hpp>

#include <nlohmann/json.hpp>

#include <set>
#include <stdexcept>

using namespace unifex;
using json = nlohmann::json;

static void E(const char* e, int r = 0, const char* ch = "") {
  vrt::ev("{\"e\":\"%s\",\"t\":%d,\"r\":%d,\"ch\":\"%s\"}", e, vrt::self_id(), r, ch);
}

struct Exec {
  virtual ~Exec() = default;
  virtual std::vector<int> threads() = 0;
  virtual void run(int t) = 0;
  virtual void finish() {}          // after all threads have been joined (single-threaded)
};

struct OpBase { virtual ~OpBase() = default; };
template <class Op>
struct Holder : OpBase {
  Op op;
  template <class F> explicit Holder(F&& f) : op(((F&&)f)()) {}
};

#if !RACE_CBS
// ===================================================================== cancellable
namespace canc {
enum Slot { UNPUB, ARMED, FIRING, TAKEN, FIRED, CANCELLED };
struct World {
  bool early = false, sync = false, tc = false, a = true, b = true;
  inplace_stop_source src;
  OpBase* holder = nullptr;
  bool opDone = false;
  int completions = 0;
  Slot slot = UNPUB;
  void* nested = nullptr;
  void (*fire)(void*) = nullptr;
};
static World* W = nullptr;

// the receiver destroys the operation state when it is completed (like sync_wait / a coroutine frame would later)
struct Recv {
  static void complete(const char* ch) noexcept {
    World* w = W;
    E("Complete", 0, ch);
    ++w->completions;
    OpBase* h = w->holder; w->holder = nullptr;
    delete h;
    E("OpFreed");
    w->opDone = true;
  }
  void set_value(int) && noexcept { complete("value"); }
  void set_error(std::exception_ptr) && noexcept { complete("error"); }
  void set_done() && noexcept { complete("done"); }
  friend inplace_stop_token tag_invoke(tag_t<get_stop_token>, const Recv&) noexcept { return W->src.get_token(); }
};

template <class R>
struct NestedOp {
  R r;
  int magic = 0x5eed;
  static void fire(void* p) noexcept {
    World* w = W;
    auto* self = static_cast<NestedOp*>(p);
    w->slot = w->tc ? FIRING : TAKEN;
    bool ok = try_complete(self);
    E("Try", ok ? 1 : 0);
    if (ok) unifex::set_value(std::move(self->r), 42);
    if (w->tc) w->slot = FIRED;
  }
  void start() noexcept {
    World* w = W;
    E("NStartBegin");
    w->nested = this; w->fire = &NestedOp::fire;
    if (w->sync) {
      w->slot = TAKEN;
      bool ok = try_complete(this);
      E("Try", ok ? 1 : 0);
      if (ok) unifex::set_value(std::move(r), 42);
      E("NStartEnd");        // `this` may be gone
      return;
    }
    w->slot = ARMED;
    UNIFEX_VERIF_YIELD("race.h_ns");
    E("NStartEnd");
  }
  void stop() noexcept {
    World* w = W;
    // a user's stop() hook works on its own members first (e.g. removes itself from a waiter list)
    volatile int m = magic;
    E("NStop", m == 0x5eed ? 0 : 1);
    if (!w->tc) {
      if (w->slot == ARMED || w->slot == UNPUB) {
        w->slot = TAKEN;
        bool ok = try_complete(this);
        E("Try", ok ? 1 : 0);
        if (ok) unifex::set_done(std::move(r));
      }
    } else {
      bool ok = try_complete(this);
      E("Try", ok ? 1 : 0);
      if (ok) {
        while (w->slot == FIRING) UNIFEX_VERIF_SPIN("race.h_fire");   // natural completion in flight: let it leave
        if (w->slot == ARMED) w->slot = CANCELLED;
        unifex::set_done(std::move(r));
      }
    }
  }
};
struct NestedSender {
  template <template <class...> class V, template <class...> class T> using value_types = V<T<int>>;
  template <template <class...> class V> using error_types = V<std::exception_ptr>;
  static constexpr bool sends_done = true;
  template <class R>
  friend auto tag_invoke(tag_t<connect>, NestedSender&&, R&& r) noexcept { return NestedOp<remove_cvref_t<R>>{(R&&)r}; }
};

struct X : Exec {
  World w;
  void (*startFn)(OpBase*) = nullptr;
  template <bool Early> void build() {
    using S = cancellable<NestedSender, Early>;
    using H = Holder<connect_result_t<S, Recv>>;
    w.holder = new H([] { return unifex::connect(S{NestedSender{}}, Recv{}); });
    startFn = [](OpBase* h) { unifex::start(static_cast<H*>(h)->op); };
  }
  explicit X(const json& s) {
    w.early = s["mode"] == "early"; w.sync = s["nested"] == "sync"; w.tc = s["arb"] == "tc";
    w.a = s["a"].get<int>() == 1; w.b = s["b"].get<int>() == 1;
    W = &w;
    if (w.early) build<true>(); else build<false>();
  }
  std::vector<int> threads() override {
    std::vector<int> v{1};
    if (w.a) v.push_back(2);
    if (w.b) v.push_back(3);
    return v;
  }
  void run(int t) override {
    if (t == 1) {
      UNIFEX_VERIF_YIELD("race.h_s0");
      OpBase* h = w.holder;
      E("StartBegin");
      startFn(h);
      E("StartEnd");
    } else if (t == 2) {
      UNIFEX_VERIF_YIELD("race.h_a0");
      while (w.slot == UNPUB && !w.opDone) UNIFEX_VERIF_SPIN("race.h_await");
      UNIFEX_VERIF_YIELD("race.h_a1");
      if (w.slot == ARMED) w.fire(w.nested);
    } else {
      UNIFEX_VERIF_YIELD("race.h_b0");
      E("ReqBegin");
      w.src.request_stop();
      E("ReqEnd");
    }
  }
  void finish() override {
    E("Quiescent", w.completions);
    if (w.holder) { delete w.holder; w.holder = nullptr; }
    W = nullptr;
  }
};
}  // namespace canc

// ===================================================================== detach_on_cancel
namespace doc {
enum Slot { UNPUB, ARMED, TAKEN };
struct World {
  std::string child = "ignore";
  bool a = true, b = true;
  inplace_stop_source src;
  OpBase* holder = nullptr;
  int completions = 0, childFreed = 0;
  Slot slot = UNPUB;
  void* childp = nullptr;
  void (*fire)(void*) = nullptr;
};
static World* W = nullptr;
struct Recv {
  static void complete(const char* ch) noexcept {
    World* w = W;
    E("Complete", 0, ch);
    ++w->completions;
    OpBase* h = w->holder; w->holder = nullptr;
    delete h;
    E("OpFreed");
  }
  void set_value(int) && noexcept { complete("value"); }
  void set_error(std::exception_ptr) && noexcept { complete("error"); }
  void set_done() && noexcept { complete("done"); }
  friend inplace_stop_token tag_invoke(tag_t<get_stop_token>, const Recv&) noexcept { return W->src.get_token(); }
};
template <class R>
struct ChildOp {
  struct OnStop { ChildOp* self; void operator()() noexcept { self->on_stop(); } };
  R r;
  manual_lifetime<inplace_stop_callback<OnStop>> cb;
  ChildOp(R&& rr) : r((R&&)rr) {}
  ChildOp(ChildOp&& o) noexcept : r(std::move(o.r)) {}
  ~ChildOp() { E("ChildFreed"); ++W->childFreed; }
  void on_stop() noexcept {
    World* w = W;
    if (w->slot != ARMED) return;
    w->slot = TAKEN;
    cb.destruct();               // from inside the callback: self-deregistration
    E("CComplBegin", 0, "done");
    unifex::set_done(std::move(r));
  }
  static void fire(void* p) noexcept {
    World* w = W;
    auto* self = static_cast<ChildOp*>(p);
    w->slot = TAKEN;
    if (w->child == "stopcb") {
      UNIFEX_VERIF_YIELD("race.h_cdereg");
      self->cb.destruct();       // waits while the callback runs on another thread
    }
    E("CComplBegin", 0, "value");
    unifex::set_value(std::move(self->r), 7);
  }
  void start() noexcept {
    World* w = W;
    E("NStartBegin");
    w->childp = this; w->fire = &ChildOp::fire;
    if (w->child == "sync") {
      w->slot = TAKEN;
      E("CComplBegin", 0, "value");
      unifex::set_value(std::move(r), 7);
    } else {
      w->slot = ARMED;
      if (w->child == "stopcb") cb.construct(get_stop_token(r), OnStop{this});   // may complete (and free) us inline
      UNIFEX_VERIF_YIELD("race.h_cs");
    }
    E("NStartEnd");
  }
};
struct ChildSender {
  template <template <class...> class V, template <class...> class T> using value_types = V<T<int>>;
  template <template <class...> class V> using error_types = V<std::exception_ptr>;
  static constexpr bool sends_done = true;
  template <class R>
  friend auto tag_invoke(tag_t<connect>, ChildSender&&, R&& r) noexcept { return ChildOp<remove_cvref_t<R>>{(R&&)r}; }
};
struct X : Exec {
  World w;
  void (*startFn)(OpBase*) = nullptr;
  explicit X(const json& s) {
    w.child = s["child"].get<std::string>();
    w.a = s["a"].get<int>() == 1; w.b = s["b"].get<int>() == 1;
    W = &w;
    using S = decltype(detach_on_cancel(ChildSender{}));
    using H = Holder<connect_result_t<S, Recv>>;
    w.holder = new H([] { return unifex::connect(detach_on_cancel(ChildSender{}), Recv{}); });
    startFn = [](OpBase* h) { unifex::start(static_cast<H*>(h)->op); };
  }
  std::vector<int> threads() override {
    std::vector<int> v{1};
    if (w.a) v.push_back(2);
    if (w.b) v.push_back(3);
    return v;
  }
  void run(int t) override {
    if (t == 1) {
      UNIFEX_VERIF_YIELD("race.h_s0");
      OpBase* h = w.holder;
      E("StartBegin");
      startFn(h);
      E("StartEnd");
    } else if (t == 2) {
      UNIFEX_VERIF_YIELD("race.h_a0");
      while (w.slot == UNPUB) UNIFEX_VERIF_SPIN("race.h_await");
      UNIFEX_VERIF_YIELD("race.h_a1");
      if (w.slot == ARMED) w.fire(w.childp);
    } else {
      UNIFEX_VERIF_YIELD("race.h_b0");
      E("ReqBegin");
      w.src.request_stop();
      E("ReqEnd");
    }
  }
  void finish() override {
    E("Quiescent", w.completions);
    if (w.holder) { delete w.holder; w.holder = nullptr; }
    W = nullptr;
  }
};
}  // namespace doc

// ===================================================================== stop_on_request
namespace sor {
struct World {
  int throwAt = 9;
  bool b0 = true, b1 = true;
  inplace_stop_source src[2];
  OpBase* holder = nullptr;
  int completions = 0;
};
static World* W = nullptr;
// a stop token whose callback construction is observable (CbCtor/CbDtor) and can be made to throw
struct TokX {
  inplace_stop_token tok; int idx = 0;
  bool stop_requested() const noexcept { return tok.stop_requested(); }
  bool stop_possible() const noexcept { return true; }
  template <class F>
  struct Cb {
    int idx;
    manual_lifetime<inplace_stop_callback<F>> inner;
    Cb(TokX t, F&& f) : idx(t.idx) {
      UNIFEX_VERIF_YIELD("race.h_cb");
      if (W->throwAt == idx) { E("CbThrow", idx); throw std::runtime_error("callback construction failed"); }
      E("CbCtor", idx);
      inner.construct(t.tok, (F&&)f);
    }
    Cb(const Cb&) = delete;
    ~Cb() { int i = idx; inner.destruct(); E("CbDtor", i); }
  };
  template <class F> using callback_type = Cb<F>;
};
struct Recv {
  static void complete(const char* ch) noexcept {
    World* w = W;
    E("Complete", 0, ch);
    ++w->completions;
    OpBase* h = w->holder; w->holder = nullptr;
    delete h;
    E("OpFreed");
  }
  void set_value() && noexcept { complete("value"); }
  void set_error(std::exception_ptr) && noexcept { complete("error"); }
  void set_done() && noexcept { complete("done"); }
  friend TokX tag_invoke(tag_t<get_stop_token>, const Recv&) noexcept { return TokX{W->src[0].get_token(), 0}; }
};
struct X : Exec {
  World w;
  void (*startFn)(OpBase*) = nullptr;
  explicit X(const json& s) {
    w.throwAt = s["throwAt"].get<int>(); w.b0 = s["b0"].get<int>() == 1; w.b1 = s["b1"].get<int>() == 1;
    W = &w;
    using S = decltype(stop_on_request(TokX{}));
    using H = Holder<connect_result_t<S, Recv>>;
    w.holder = new H([this] { return unifex::connect(stop_on_request(TokX{w.src[1].get_token(), 1}), Recv{}); });
    startFn = [](OpBase* h) { unifex::start(static_cast<H*>(h)->op); };
  }
  std::vector<int> threads() override {
    std::vector<int> v{1};
    if (w.b0) v.push_back(2);
    if (w.b1) v.push_back(3);
    return v;
  }
  void run(int t) override {
    if (t == 1) {
      UNIFEX_VERIF_YIELD("race.h_s0");
      OpBase* h = w.holder;
      E("StartBegin");
      startFn(h);
      E("StartEnd");
    } else {
      UNIFEX_VERIF_YIELD(t == 2 ? "race.h_b0" : "race.h_b1");
      E("ReqBegin");
      w.src[t - 2].request_stop();
      E("ReqEnd");
    }
  }
  void finish() override {
    E("Quiescent", w.completions);
    if (w.holder) { delete w.holder; w.holder = nullptr; }
    W = nullptr;
  }
};
}  // namespace sor

// ===================================================================== canary
namespace can {
struct Owner { canary c; int data = 0x600d; };       // the object whose lifetime the canary reports
struct X : Exec {
  bool useGuard = false;
  Owner* owner = nullptr;
  canary::watcher* watcher = nullptr;
  explicit X(const json& s) {
    useGuard = s["guard"].get<int>() == 1;
    owner = new Owner;
    watcher = new canary::watcher(owner->c.watch());
  }
  std::vector<int> threads() override { return {1, 2}; }
  void run(int t) override {
    if (t == 1) {
      UNIFEX_VERIF_YIELD("race.h_c0");
      Owner* o = owner; owner = nullptr;
      E("CDtorBegin");
      delete o;                                     // ~canary, then the storage goes away
      E("CDtorEnd");
    } else {
      UNIFEX_VERIF_YIELD("race.h_w0");
      Owner* o = owner ? owner : nullptr;
      (void)o;
      if (useGuard) {
        Owner* target = ownerAtStart;
        if (auto g = watcher->alive()) {
          E("Alive", 1);
          UNIFEX_VERIF_YIELD("race.h_guse");
          volatile int d = target->data;            // use the guarded object while the guard is held
          E("GuardUse", d == 0x600d ? 0 : 1);
          E("GuardRelease");
        } else {
          E("Alive", 0);
        }
      }
      canary::watcher* wp = watcher; watcher = nullptr;
      E("WDtorBegin");
      delete wp;
      E("WDtorEnd");
    }
  }
  Owner* ownerAtStart = nullptr;
  void finish() override { E("Quiescent", 0); delete owner; delete watcher; }
};
}  // namespace can

#else   // RACE_CBS
// ===================================================================== create_basic_sender (safe callbacks)
namespace cbs {
struct World {
  bool a = true, b = true, hlock = false;
  inplace_stop_source src;
  OpBase* holder = nullptr;
  int completions = 0, bodyRan = 0;
  bool published = false;
  std::function<void(int)> cb;       // copy of safe_callback<int>(op), handed to the "external API" (thread A)
  int lockOwner = 0, lockDepth = 0;  // the harness lock (lk = 1)
};
static World* W = nullptr;
// User lock factory (a documented customisation of create_basic_sender): a recursive lock with a schedule point in
// front of every acquisition, so that "tested something, then took the lock" stretches of the library are exposed to
// the scheduler without a hook in the library.  One logical thread runs at a time, so plain fields suffice; a
// contended acquisition is a schedulable spin, never a blocked OS thread.
struct HGuard {
  World* w;
  HGuard() noexcept : w(W) {
    UNIFEX_VERIF_YIELD("race.h_lock");
    int me = vrt::self_id();
    while (w->lockDepth > 0 && w->lockOwner != me) UNIFEX_VERIF_SPIN("race.h_lockw");
    w->lockOwner = me; ++w->lockDepth;
  }
  HGuard(const HGuard&) = delete;
  ~HGuard() noexcept { if (--w->lockDepth == 0) w->lockOwner = 0; }
};
struct HLockFactory { HGuard operator()() const noexcept { return HGuard{}; } };
struct NoCtx { std::tuple<> operator()() const noexcept { return {}; } };
struct Recv {
  static void complete(const char* ch) noexcept {
    World* w = W;
    E("Complete", 0, ch);
    ++w->completions;
    OpBase* h = w->holder; w->holder = nullptr;
    delete h;
    E("OpFreed");
  }
  void set_value(int) && noexcept { complete("value"); }
  void set_error(std::exception_ptr) && noexcept { complete("error"); }
  void set_done() && noexcept { complete("done"); }
  friend inplace_stop_token tag_invoke(tag_t<get_stop_token>, const Recv&) noexcept { return W->src.get_token(); }
};
struct Body {
  void start(auto& op) noexcept {
    E("NStartBegin");
    W->cb = safe_callback<int>(op);
    W->published = true;
    E("NStartEnd");
  }
  void stop(auto& op) noexcept {
    E("NStop");
    op.set_done();
  }
  void callback(auto& op, int v) noexcept {
    E("BodyCb", v);
    ++W->bodyRan;
    op.set_value(v);
  }
};
struct X : Exec {
  World w;
  void (*startFn)(OpBase*) = nullptr;
  explicit X(const json& s) {
    w.a = s["a"].get<int>() == 1; w.b = s["b"].get<int>() == 1; w.hlock = s.value("lk", 0) == 1;
    W = &w;
    if (w.hlock) {
      using S = decltype(create_basic_sender<int>(Body{}, NoCtx{}, HLockFactory{}));
      using H = Holder<connect_result_t<S, Recv>>;
      w.holder = new H([] { return unifex::connect(create_basic_sender<int>(Body{}, NoCtx{}, HLockFactory{}), Recv{}); });
      startFn = [](OpBase* h) { unifex::start(static_cast<H*>(h)->op); };
    } else {
      using S = decltype(create_basic_sender<int>(Body{}));
      using H = Holder<connect_result_t<S, Recv>>;
      w.holder = new H([] { return unifex::connect(create_basic_sender<int>(Body{}), Recv{}); });
      startFn = [](OpBase* h) { unifex::start(static_cast<H*>(h)->op); };
    }
  }
  std::vector<int> threads() override {
    std::vector<int> v{1};
    if (w.a) v.push_back(2);
    if (w.b) v.push_back(3);
    return v;
  }
  void run(int t) override {
    if (t == 1) {
      UNIFEX_VERIF_YIELD("race.h_s0");
      OpBase* h = w.holder;
      E("StartBegin");
      startFn(h);
      E("StartEnd");
    } else if (t == 2) {
      UNIFEX_VERIF_YIELD("race.h_a0");
      while (!w.published && w.completions == 0) UNIFEX_VERIF_SPIN("race.h_await");
      if (!w.published) return;
      std::function<void(int)> cb = w.cb;      // the external API owns its copy of the callable
      UNIFEX_VERIF_YIELD("race.h_a1");
      int before = w.bodyRan;
      cb(42);
      E("Late", w.bodyRan > before ? 1 : 0);
      UNIFEX_VERIF_YIELD("race.h_a2");
      before = w.bodyRan;
      cb(43);                                  // certainly after the completion: must be a no-op
      E("Late", w.bodyRan > before ? 1 : 0);
    } else {
      UNIFEX_VERIF_YIELD("race.h_b0");
      E("ReqBegin");
      w.src.request_stop();
      E("ReqEnd");
    }
  }
  void finish() override {
    E("Quiescent", w.completions);
    w.cb = nullptr;
    if (w.holder) { delete w.holder; w.holder = nullptr; }
    W = nullptr;
  }
};
}  // namespace cbs
#endif  // RACE_CBS

// ===================================================================== main
static std::unique_ptr<Exec> make_exec(const json& s) {
  std::string comp = s["comp"].get<std::string>();
#if RACE_CBS
  if (comp == "cbs") return std::make_unique<cbs::X>(s);
#else
  if (comp == "canc") return std::make_unique<canc::X>(s);
  if (comp == "doc") return std::make_unique<doc::X>(s);
  if (comp == "sor") return std::make_unique<sor::X>(s);
  if (comp == "canary") { auto x = std::make_unique<can::X>(s); x->ownerAtStart = x->owner; return x; }
#endif
  std::fprintf(stderr, "unknown component %s\n", comp.c_str());
  std::exit(2);
}

// Runs the executions in-process.  The driver is built with -fsanitize-recover=address: an execution in which ASan
// reports costs one record in the deaths file (report + schedule) and the enumeration continues; fatal events (crash,
// UBSan, terminate, deadlock, hang) end the process and the engine restarts it at the next unit.
struct Runner {
  std::string mode;
  FILE* deaths = nullptr;
  long execs = 0, died = 0, steps = 0, drift = 0, unguided = 0;
  std::string firstDrift;

  void one(const json& sc, long x, long k, const std::function<vrt::RunResult(vrt::Ctl&)>& drive) {
    ++execs;
    rrt::g_err = rrt::ErrRec{};
    vrt::log_flush();
    off_t size0 = vrt::g_log.f ? lseek(fileno(vrt::g_log.f), 0, SEEK_END) : 0;
    body(sc, x, k, drive);
    if (!rrt::g_err.set) { account(); return; }
    // a sanitizer report happened in this execution: record it, drop its (tainted) events
    ++died;
    vrt::log_flush();
    if (vrt::g_log.f) { if (ftruncate(fileno(vrt::g_log.f), size0) != 0) {} }
    if (deaths) {
      json d = {{"x", x}, {"k", k}, {"scn", sc["id"]}, {"rc", 71}, {"thread", rrt::g_err.thread}, {"mode", mode},
                {"stderr", rrt::g_err.report}};
      d["sched"] = json::parse(rrt::g_err.sched, nullptr, false);
      if (d["sched"].is_discarded()) d["sched"] = json::array();
      std::string line = d.dump(-1, ' ', false, json::error_handler_t::replace);
      std::fprintf(deaths, "%s\n", line.c_str()); std::fflush(deaths);
    }
  }
  void account() {
    steps += rrt::g_sh.steps(); unguided += rrt::g_sh.unguided();
    if (rrt::g_sh.drift()) { ++drift; if (firstDrift.empty()) firstDrift = rrt::g_sh.drift_msg(); }
  }
  void body(const json& sc, long x, long k, const std::function<vrt::RunResult(vrt::Ctl&)>& drive) {
    rrt::g_steps.clear();
    vrt::ev("{\"e\":\"Reset\",\"t\":0,\"r\":0,\"ch\":\"\",\"x\":%ld,\"k\":%ld,\"scn\":%d,\"comp\":\"%s\",\"mode\":\"%s\"}", x, k,
            sc["id"].get<int>(), sc["comp"].get<std::string>().c_str(), sc.value("mode", std::string("")).c_str());
    auto ex = make_exec(sc);
    vrt::RunResult rr;
    {
      vrt::Ctl c; c.accept = {"race.", "spin_wait"};
      for (int t : ex->threads()) c.spawn(t, [&, t] { ex->run(t); });
      c.start_all();
      rr = drive(c);
      if (rr.deadlock) {
        std::string sj = rrt::steps_json();
        vrt::ev("{\"e\":\"Deadlock\",\"t\":0,\"r\":0,\"ch\":\"\",\"sched\":%s}", sj.c_str());
        vrt::log_flush();
        std::fprintf(stderr, "deadlock: no enabled thread; schedule %s\n", sj.c_str());
        _exit(75);
      }
      c.join();
    }
    ex->finish();
    rrt::g_sh.steps() = (long)rr.steps.size(); rrt::g_sh.drift() = rr.drift; rrt::g_sh.unguided() = rr.unguided;
    std::snprintf(rrt::g_sh.drift_msg(), 400, "unit %ld: %s", x, rr.firstDrift.c_str());
    rrt::g_sh.finished() = 1;
  }
};

extern "C" const char* __asan_default_options() { return "halt_on_error=0:suppress_equal_pcs=0:symbolize=0:detect_leaks=0"; }

int main(int argc, char** argv) {
  vrt::Args a(argc, argv);
  rrt::install();
  rrt::g_sh.open();
  Runner R;
  R.mode = a.str("mode", "dfs");
  json scns;
  { std::ifstream f(a.str("scenarios")); f >> scns; }
  std::map<int, json> byId;
  for (auto& s : scns) byId[s["id"].get<int>()] = s;
  if (a.has("log")) vrt::log_open(a.str("log").c_str());
  if (a.has("deaths")) R.deaths = std::fopen(a.str("deaths").c_str(), "a");
  long from = a.num("from", 0), to = a.num("to", 1L << 40), units = 0;

  if (R.mode == "guided") {
    std::ifstream in(a.str("behaviours")); std::string line; long x = -1;
    while (std::getline(in, line)) {
      if (line.empty()) continue;
      ++x; if (x < from || x >= to) continue;
      json b = json::parse(line);
      const json& sc = byId.at(b["scn"].get<int>());
      std::vector<vrt::StepRec> sched;
      for (auto& s : b["sched"]) {
        std::string site = s[1].get<std::string>();
        if (site.rfind("race.", 0) == 0) site = site.substr(5);
        sched.push_back({s[0].get<int>(), site});
      }
      ++units;
      R.one(sc, x, 0, [&](vrt::Ctl& c) { return rrt::run_guided(c, sched); });
    }
  } else {
    long cap = a.num("cap", 2000); int bound = (int)a.num("bound", 2); unsigned seed = (unsigned)a.num("seed", 1);
    for (long x = from; x < to && x < (long)scns.size(); ++x) {
      const json& sc = scns[x]; ++units;
      if (R.mode == "dfs") {
        vrt::Dfs d; d.bound = bound; long k = 0; bool go = true;
        while (go && k < cap) {
          R.one(sc, x, k, [&](vrt::Ctl& c) { return rrt::run_dfs_p(c, d); });
          ++k; go = d.advance();
        }
      } else {
        for (long k = 0; k < cap; ++k) {
          std::mt19937 rng(seed * 7919u + (unsigned)x * 104729u + (unsigned)k);
          R.one(sc, x, k, [&](vrt::Ctl& c) { return rrt::run_random(c, rng, 50); });
        }
      }
    }
  }
  vrt::log_close();
  if (R.deaths) std::fclose(R.deaths);
  json s = {{"mode", R.mode}, {"units", units}, {"execs", R.execs}, {"died", R.died}, {"steps", R.steps}, {"drift", R.drift},
            {"unguided", R.unguided}, {"first_drift", R.firstDrift}};
  std::printf("%s\n", s.dump().c_str());
  return 0;
}
