// Helpers of the `race` engine on top of rt/vrt.hpp:
//  * schedule strategies that record every (thread, site) step in a global, so that a sanitizer report can be
//    stored together with the exact schedule that led to it (the engine classifies it against the TLC state graph);
//  * recoverable ASan reports (ErrRec): the execution is marked tainted, the enumeration goes on in-process;
//  * a small shared block (Shared) carrying per-execution result counters and the schedule of a fatal death.
#pragma once
#include "vrt.hpp"

#include <fcntl.h>
#include <sys/wait.h>
#include <sys/mman.h>
#include <fstream>
#include <sstream>

namespace rrt {

inline std::vector<std::pair<int, const char*>> g_steps;

inline std::string steps_json() {
  std::string s = "[";
  for (size_t i = 0; i < g_steps.size(); ++i) {
    if (i) s += ",";
    s += "[" + std::to_string(g_steps[i].first) + ",\"" + g_steps[i].second + "\"]";
  }
  return s + "]";
}

inline void note_death() noexcept;
inline void dump_death(const char* what) noexcept {
  note_death();
  if (!vrt::g_log.f) return;
  std::string s = steps_json();
  std::fprintf(vrt::g_log.f, "{\"e\":\"DeathSched\",\"t\":%d,\"r\":0,\"ch\":\"%s\",\"sched\":%s}\n", vrt::self_id(), what, s.c_str());
  std::fflush(vrt::g_log.f);
}

// ---- recoverable sanitizer reports: the driver is built with -fsanitize-recover=address and runs with
// halt_on_error=0, so a report does not kill the process; the first report of an execution is recorded here together
// with the schedule that led to it, the execution is marked tainted and dropped from the event log.
struct ErrRec { bool set = false; std::string report, sched; int thread = 0; };
inline ErrRec g_err;
extern "C" void __asan_set_error_report_callback(void (*)(const char*));
inline void on_asan_report(const char* text) {
  if (g_err.set) return;
  g_err.set = true;
  g_err.report.assign(text ? text : "", text ? strnlen(text, 6000) : 0);
  g_err.sched = steps_json();
  g_err.thread = vrt::self_id();
}

inline void install() {
  vrt::install_handlers();
#ifdef VRT_ASAN
  __asan_set_error_report_callback(&on_asan_report);
#endif
  std::set_terminate([] { dump_death("terminate"); vrt::die("Terminate", 73); });
#ifdef VRT_ASAN
  __sanitizer_set_death_callback([] { dump_death("sanitizer"); });
#endif
}

template <class Choose>
vrt::RunResult run_rec(vrt::Ctl& c, Choose&& choose) {
  return vrt::run_all(c, [&](const std::vector<int>& en, int last) {
    int t = choose(en, last);
    g_steps.push_back({t, c.site(t)});
    return t;
  });
}

inline vrt::RunResult run_random(vrt::Ctl& c, std::mt19937& rng, int stickiness) {
  return run_rec(c, [&](const std::vector<int>& en, int last) {
    if (last >= 0 && (int)(rng() % 100) < stickiness)
      for (int t : en) if (t == last) return t;
    return en[rng() % en.size()];
  });
}

inline vrt::RunResult run_dfs(vrt::Ctl& c, vrt::Dfs& d) {
  d.begin();
  return run_rec(c, [&](const std::vector<int>& en, int last) {
    bool le = false;
    for (int t : en) if (t == last) le = true;
    return d.pick(en, le);
  });
}

// guided: the behaviour lists (thread, site-at-which-the-thread-is-parked) for every visible step
inline vrt::RunResult run_guided(vrt::Ctl& c, const std::vector<vrt::StepRec>& sched) {
  vrt::RunResult r;
  for (auto& s : sched) {
    if (c.thr.find(s.t) == c.thr.end()) { ++r.unguided; continue; }
    std::string got = c.site(s.t);
    std::string g2 = got.rfind("race.", 0) == 0 ? got.substr(5) : got;
    if (g2 != s.site) {
      if (!r.drift) r.firstDrift = "thread " + std::to_string(s.t) + " at '" + got + "' expected '" + s.site + "'";
      ++r.drift;
    }
    if (!c.enabled(s.t)) { ++r.unguided; continue; }
    g_steps.push_back({s.t, c.site(s.t)});
    r.steps.push_back({s.t, got});
    c.step(s.t);
  }
  auto rest = run_rec(c, [&](const std::vector<int>& en, int) { return en[0]; });
  r.unguided += (long)rest.steps.size();
  for (auto& s : rest.steps) r.steps.push_back(s);
  r.deadlock = rest.deadlock;
  return r;
}

// ---- per-execution result block (anonymous MAP_SHARED so that it could also be filled by a forked child: fork per
// execution was tried and is ~250 ms/execution under ASan here, so executions run in-process): the DFS stack, the
// execution's result counters, and the schedule of a dying execution.
struct Shared {
  static constexpr size_t kLongs = 1 << 16, kRes = 8000, kSched = 8192, kDrift = 40000;
  long* m = nullptr;
  bool open() {
    void* p = mmap(nullptr, kLongs * sizeof(long), PROT_READ | PROT_WRITE, MAP_SHARED | MAP_ANONYMOUS, -1, 0);
    if (p == MAP_FAILED) return false;
    m = static_cast<long*>(p);
    return true;
  }
  void save_stack(const vrt::Dfs& d) {
    size_t pos = 4, n = 0;
    for (auto& c : d.stack) {
      if (pos + 2 + c.en.size() >= kRes) break;
      m[pos++] = (long)c.idx; m[pos++] = (long)c.en.size();
      for (int e : c.en) m[pos++] = e;
      ++n;
    }
    m[3] = (long)n;
  }
  void load_stack(vrt::Dfs& d) {
    d.stack.clear();
    size_t pos = 4;
    for (long i = 0; i < m[3]; ++i) {
      vrt::Dfs::Choice c; c.idx = (size_t)m[pos++]; long n = m[pos++];
      for (long j = 0; j < n; ++j) c.en.push_back((int)m[pos++]);
      d.stack.push_back(c);
    }
  }
  long& steps() { return m[kRes]; }
  long& drift() { return m[kRes + 1]; }
  long& unguided() { return m[kRes + 2]; }
  long& finished() { return m[kRes + 3]; }
  long& dthread() { return m[kRes + 4]; }
  char* sched() { return reinterpret_cast<char*>(m + kSched); }          // up to (kDrift-kSched)*8 bytes
  static constexpr size_t kSchedBytes = (kDrift - kSched) * sizeof(long);
  char* drift_msg() { return reinterpret_cast<char*>(m + kDrift); }
};
inline Shared g_sh;

inline void note_death() noexcept {
  if (!g_sh.m) return;
  std::string s = steps_json();
  std::snprintf(g_sh.sched(), Shared::kSchedBytes, "%s", s.size() < Shared::kSchedBytes ? s.c_str() : "[]");
  g_sh.dthread() = vrt::self_id();
}

inline vrt::RunResult run_dfs_p(vrt::Ctl& c, vrt::Dfs& d) {
  d.begin();
  return run_rec(c, [&](const std::vector<int>& en, int last) {
    bool le = false;
    for (int t : en) if (t == last) le = true;
    size_t before = d.stack.size();
    int t = d.pick(en, le);
    if (d.stack.size() != before && g_sh.m) g_sh.save_stack(d);
    return t;
  });
}

}  // namespace rrt
