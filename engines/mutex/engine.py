"""Engine `mutex` (C15): spec/sync/MutexV1.tla, MutexV2.tla (+ spec/prim/AtomicIntrusiveQueue, AtomicIntrusiveList)
<-> v1/async_mutex.hpp + async_mutex_v1.cpp, v2/async_mutex.hpp + async_mutex_v2.cpp + atomic_intrusive_list.cpp
+ cancellable.hpp.
 1. generate scenarios (programs over async_lock / unlock / try_lock / request_stop for <= 3 threads)
 2. TLC: invariants (mutual exclusion, each lock once, cancelled never owns, FIFO, terminal no-lost-waiter /
    lock-not-leaked, deadlock freedom) on every interleaving; termination under fairness; list module
 3. export transitions, build edge-covering behaviours, replay them on the real code (guided), plus
    bounded-preemption DFS (two granularities) and seeded random schedules of the real code
 4. validate every recorded execution against the monitor MutexMon with TLC; a proven deadlock of the controlled
    execution is a lost wake-up / leaked lock (progress clause of the statement).
Memory events are out-of-scope observations for this property (operation states are kept alive until the end of
an execution, so the known stale read in atomic_intrusive_list.cpp does not surface here)."""
import json, os, sys, time

sys.path.insert(0, os.path.join(os.path.dirname(__file__), "..", "..", "tools"))
import vlib

L = lambda a: ["lock", a]
U = lambda a: ["unlock", a]
T = lambda a: ["try", a]
S = lambda a: ["stop", a]
LIB = ["inplace_stop_token.cpp", "async_stack.cpp", "exception.cpp", "async_mutex_v1.cpp", "async_mutex_v2.cpp",
       "atomic_intrusive_list.cpp"]
SCHED_NAME = {0: "plain", 1: "unifex::inline_scheduler", 2: "recording"}


def gen_scenarios(tier):
    base = [  # programs without stop requests (both versions)
        ("A", [L(1), U(1)], [L(2), U(2)], [L(3), U(3)]),
        ("B", [T(1), U(1)], [L(2), U(2)], [L(3), U(3)]),
        ("C", [L(1), U(1), L(4), U(4)], [L(2), U(2)], [T(3), U(3)]),
        ("D", [T(1), U(1), T(4), U(4)], [L(2), U(2)], [L(3), U(3)]),
        ("F", [L(1), U(1), L(4), U(4)], [L(2), U(2), L(5), U(5)], []),
    ]
    big = [
        ("E", [L(1), U(1), L(4), U(4)], [L(2), U(2), L(5), U(5)], [L(3), U(3)]),
        ("E2", [T(1), U(1), L(4), U(4)], [L(2), U(2), T(5), U(5)], [L(3), U(3)]),
    ]
    stops = [  # cancellable mutex only
        ("G", [L(1), U(1)], [L(2), U(2)], [S(2)]),
        ("H", [L(1), U(1)], [L(2), U(2)], [S(1), S(2)]),
        ("I", [T(1), U(1)], [L(2), U(2)], [L(3), S(3), U(3)]),
        ("J", [L(1), U(1)], [L(2), U(2)], [S(2), L(3), U(3)]),
        ("K", [T(1), S(2), U(1)], [L(2), U(2)], [L(3), U(3)]),
        ("Lq", [L(1), U(1)], [S(2), L(2), U(2)], [L(3), U(3)]),
        ("M", [L(1), U(1), S(3)], [L(2), U(2)], [L(3), U(3)]),
    ]
    bigstops = [
        ("N", [T(1), U(1)], [L(2), U(2), L(4), U(4)], [S(2), S(4)]),
        ("O", [T(1), S(3), U(1)], [L(2), S(2), U(2)], [L(3), U(3)]),
        ("P", [L(1), U(1), S(2)], [L(2), U(2), L(4), U(4)], [L(3), U(3), S(4)]),
    ]
    out = []

    def add(name, ver, sched, progs):
        out.append(dict(id=len(out) + 1, name=name, ver=ver, sched=sched, prog=[list(p) for p in progs]))

    for n, *p in base + (big if tier == "thorough" else []):
        add(n, 1, 0, p)
    for n, *p in base + stops + (big + bigstops if tier == "thorough" else []):
        add(n, 2, 0, p)
    main = list(out)
    out = []
    for n, *p in [x for x in stops if x[0] in ("G", "J", "K")]:
        add(n, 2, 1, p)
    inline = list(out)
    return main, inline


def gen_sweep_scenarios(tier):
    """Targeted family for the systematic one-long-preemption sweep at full granularity (list internals included):
    a holder unlocks while two waiters enqueue concurrently; three contending lockers; a stop racing; a second round."""
    progs = [
        ("B", 2, [T(1), U(1)], [L(2), U(2)], [L(3), U(3)]),
        ("A", 2, [L(1), U(1)], [L(2), U(2)], [L(3), U(3)]),
        ("J", 2, [L(1), U(1)], [L(2), U(2)], [S(2), L(3), U(3)]),
        ("C", 2, [L(1), U(1), L(4), U(4)], [L(2), U(2)], [T(3), U(3)]),
        ("B", 1, [T(1), U(1)], [L(2), U(2)], [L(3), U(3)]),
    ]
    if tier == "thorough":
        progs += [
            ("K", 2, [T(1), S(2), U(1)], [L(2), U(2)], [L(3), U(3)]),
            ("F", 2, [L(1), U(1), L(4), U(4)], [L(2), U(2), L(5), U(5)], []),
            ("I", 2, [T(1), U(1)], [L(2), U(2)], [L(3), S(3), U(3)]),
            ("C", 1, [L(1), U(1), L(4), U(4)], [L(2), U(2)], [T(3), U(3)]),
        ]
    return [dict(id=i + 1, name=n, ver=v, sched=0, prog=[list(x) for x in p]) for i, (n, v, *p) in enumerate(progs)]


def gen_c11_scenarios(tier):
    """Cancellable mutex with one recording manual scheduler per harness thread (= context)."""
    progs = [
        ("A", [L(1), U(1)], [L(2), U(2)], [L(3), U(3)]),
        ("B", [T(1), U(1)], [L(2), U(2)], [L(3), U(3)]),
        ("G", [L(1), U(1)], [L(2), U(2)], [S(2)]),                    # foreign stop (premise of the clause fails for 2)
        ("I", [T(1), U(1)], [L(2), U(2)], [L(3), S(3), U(3)]),        # stop issued on the waiter's own context
        ("J", [L(1), U(1)], [L(2), U(2)], [S(2), L(3), U(3)]),
        ("Lq", [L(1), U(1)], [S(2), L(2), U(2)], [L(3), U(3)]),       # own stop before start
        ("Q", [T(1), U(1)], [L(2), S(2), U(2)], [L(3), S(3), U(3)]),  # two own stops racing with the foreign unlock
    ]
    if tier == "thorough":
        progs += [
            ("C", [L(1), U(1), L(4), U(4)], [L(2), U(2)], [T(3), U(3)]),
            ("F", [L(1), U(1), L(4), U(4)], [L(2), U(2), L(5), U(5)], []),
            ("K", [T(1), S(2), U(1)], [L(2), U(2)], [L(3), U(3)]),
            ("R", [L(1), S(1), U(1), L(4), U(4)], [L(2), U(2)], [L(3), S(3), U(3)]),
        ]
    return [dict(id=i + 1, name=n, ver=2, sched=2, prog=[list(x) for x in p]) for i, (n, *p) in enumerate(progs)]


def analyse(events, deadlock):
    """Classify a failing execution from its API-level events (for the violation record)."""
    holder, done, probe = 0, [], None
    for e in events:
        k = e.get("e")
        if k in ("Acquired",) or (k == "TryLock" and e.get("r") == 1):
            holder = e.get("a")
        elif k == "Unlock":
            holder = 0
        elif k == "Done":
            done.append(e.get("a"))
        elif k == "Probe":
            probe = e.get("r")
    if done and holder == 0 and (deadlock or probe == 0):
        return "lock-leaked-after-done"
    if holder == 0 and (deadlock or probe == 0):
        return "lost-wakeup-or-leaked-lock"
    return "other"


def execute_runs(ctx, runs, prop):
    """Run the driver for every entry of `runs` = (mode, exe, scenario file, args, total, {id: scenario}), handle deaths,
    validate every recorded execution against MutexMon (PROP = prop) and turn rejections into violations."""
    from concurrent.futures import ThreadPoolExecutor
    rep = ctx.rep
    menv = {"PROP": prop}
    base_traces, base_events = rep.traces, rep.events
    vpool = ThreadPoolExecutor(max_workers=3)
    pending = []
    sc_f = None

    def validate(mode, lp):
        t1 = time.time()
        n, rejected = vlib.validate_batched(ctx, "sync", "MutexMon", lp, env=menv, max_reports=2)
        nev = sum(1 for ln in open(lp) if ln.strip())
        return n, nev, rejected, time.time() - t1

    def selfcheck(lp):
        """The monitor must reject a recorded trace from which one Unlock event has been removed."""
        exs = [e for e in vlib.split_executions(lp)[:60]]
        lines = [ln for _, ls in exs for ln in ls]
        idx = [i for i, ln in enumerate(lines) if '"e":"Unlock"' in ln]
        if not idx:
            return None
        cp = os.path.join(ctx.work, "corrupt.ndjson")
        with open(cp, "w") as f:
            f.writelines(lines[:idx[len(idx) // 2]] + lines[idx[len(idx) // 2] + 1:])
        return vlib.validate_trace(ctx, "sync", "MutexMon", cp, env=menv)["accepted"]

    def found_so_far():
        n = sum(1 for v in rep.violations if v.get("sched") in ("plain", "recording"))
        for _, _, _, fu in pending:
            if fu.done() and not fu.exception():
                n += len(fu.result()[2])
        return n

    for mode, xe, scnfile, args, total, scnmap in runs:
        t0 = time.time()
        if not mode.startswith("inline") and mode not in ("guided-v1", "sweep-l2") and found_so_far() >= 3:
            rep.note("%s: skipped (violations already found in earlier runs)" % mode)
            continue
        lp = os.path.join(ctx.work, "log_%s.ndjson" % mode)
        sums, deaths = vlib.run_batches(ctx, xe, ["--scenarios", scnfile] + args, total, lp, timeout=3000,
                                        max_deaths=6 if mode.startswith("inline") else 12)
        execs = sum(s["execs"] for s in sums)
        rep.evaluations += execs
        for s in sums:
            if "guided" in mode:
                rep.drift += s["drift"]
                rep.unguided += s["unguided"]
                if s.get("first_drift"):
                    rep.note("%s drift: %s" % (mode, s["first_drift"]))
                if s.get("obs_mismatch"):
                    rep.note("%s: %d executions whose final observation differs from the specification's (sent to the monitor)" % (mode, s["obs_mismatch"]))
        dl = {}
        if os.path.exists(lp + ".dl"):
            for ln in open(lp + ".dl"):
                try:
                    d = json.loads(ln)
                    dl[d["x"]] = d
                except Exception:
                    pass
        parts, npart = {}, 0
        if os.path.exists(lp + ".partial"):
            for ln in open(lp + ".partial"):
                try:
                    evs = json.loads(ln)["events"]
                    if evs:
                        parts[evs[0].get("x")] = evs
                except Exception:
                    pass
        for d in deaths:
            unit = d["x"]
            if d["event"] == "Deadlock" and prop != "C15":
                rep.oos.append(dict(kind="Deadlock", mode=mode, unit=unit, what="deadlock of the controlled execution (a C15 matter, not a %s clause)" % prop))
            elif d["event"] == "Deadlock":
                info = dl.get(unit, {})
                sc = scnmap.get(info.get("scn")) or {}
                cause = analyse(info.get("events", []), True)
                rep.violation(dict(engine="mutex", mode=mode, event="Deadlock", unit=unit, k=info.get("k"), ver=sc.get("ver"),
                                   sched=SCHED_NAME.get(sc.get("sched")), cause=cause, scenario=sc, level=info.get("level"),
                                   schedule=info.get("sched"), sites=info.get("sites"), events=info.get("events"),
                                   what="proven deadlock of the controlled execution (%s): every thread is blocked waiting for a lock "
                                        "attempt that never completes although no party holds the mutex - lost wake-up / leaked lock; "
                                        "v%s async_mutex, scenario %s, receiver scheduler %s, %s mode"
                                        % (cause, sc.get("ver"), sc.get("name"), SCHED_NAME.get(sc.get("sched")), mode)))
            else:
                # the events recorded before the death must still be acceptable to the monitor (safety clauses only)
                part = parts.get(unit)
                if part and npart < 3:
                    npart += 1
                    pp = os.path.join(ctx.work, "partial_%s_%s.ndjson" % (mode, unit))
                    with open(pp, "w") as f:
                        for e in part:
                            f.write(json.dumps(e) + "\n")
                    vr = vlib.validate_trace(ctx, "sync", "MutexMon", pp, env=menv)
                    if vr["prefix"] < vr["total"]:
                        sc = scnmap.get(part[0].get("scn")) or {}
                        rep.violation(dict(engine="mutex", mode=mode, event="MonitorReject", unit=unit, k=part[0].get("k"), ver=sc.get("ver"),
                                           sched=SCHED_NAME.get(sc.get("sched")), cause="safety-clause-before-%s" % d["event"], scenario=sc,
                                           what="MutexMon rejects event %d of the %d events recorded before a %s in %s mode (v%s async_mutex, "
                                                "scenario %s, scheduler %s): %s" % (vr["prefix"] + 1, vr["total"], d["event"], mode, sc.get("ver"),
                                                                                   sc.get("name"), SCHED_NAME.get(sc.get("sched")),
                                                                                   json.dumps(part[vr["prefix"]]) if vr["prefix"] < len(part) else ""),
                                           events=part, death=d.get("frame") or d.get("stderr_tail", "")[-300:]))
                rep.oos.append(dict(kind=d["event"], mode=mode, unit=unit, asan=d.get("asan"), frame=d.get("frame"), where=d.get("where"),
                                    access=d.get("access"), what="memory/crash event in the C15 engine (not a C15 clause): %s %s %s"
                                                                 % (d["event"], d.get("asan", ""), d.get("frame", "")),
                                    detail=d.get("stderr_tail", "")[-600:]))
                rep.note("%s: %s in unit %s recorded as out-of-scope observation" % (mode, d["event"], unit))
        rep.note("%s: %d executions, %d deaths, %.1fs" % (mode, execs, len(deaths), time.time() - t0))
        pending.append((mode, lp, scnmap, vpool.submit(validate, mode, lp)))
        if sc_f is None and prop == "C15" and mode == "guided-v1":
            sc_f = vpool.submit(selfcheck, lp)
    tot_n = tot_ev = 0
    for mode, lp, scnmap, fu in pending:
        n, nev, rejected, secs = fu.result()
        tot_n += n
        tot_ev += nev
        for ex in vlib.split_executions(lp)[:400000]:
            evs = ex[1]
            if len(evs) > 3:
                rep.distinct.add(hash("".join(evs[1:])))
        for rj in rejected:
            hdr = rj["events"][0] if rj["events"] else {}
            sc = scnmap.get(hdr.get("scn")) or {}
            cause = analyse(rj["events"], False) if prop == "C15" else "completion-on-foreign-context"
            rep.violation(dict(engine="mutex", mode=mode, event="MonitorReject", unit=rj["x"], k=hdr.get("k"), ver=sc.get("ver"),
                               sched=SCHED_NAME.get(sc.get("sched")), cause=cause, scenario=sc,
                               what="MutexMon (" + prop + " rules) rejects an execution recorded in %s mode at event %s of %s (v%s async_mutex, scenario %s, "
                                    "scheduler %s, %s)" % (mode, rj.get("prefix"), rj.get("total"), sc.get("ver"), sc.get("name"),
                                                           SCHED_NAME.get(sc.get("sched")), cause),
                               events=rj["events"]))
        rep.note("%s: %d executions validated by MutexMon in %.1fs, %d rejected" % (mode, n, secs, len(rejected)))
        if mode == "random-l2" and n:
            exs = vlib.split_executions(lp)
            pick = [e for e in exs if any('"Done"' in x for x in e[1])] or exs
            rep.sample(dict(kind="recorded-trace", events=[json.loads(x) for x in pick[0][1][:40]]))
    acc = sc_f.result() if sc_f is not None else None
    vpool.shutdown()
    rep.traces, rep.events = base_traces + tot_n, base_events + tot_ev      # (the pool's increments may have raced)
    if acc is True:
        raise vlib.Broken("monitor self-check failed: MutexMon accepted a recorded trace with one Unlock event removed")
    if prop == "C15":
        rep.note("monitor self-check: a recorded trace with one Unlock removed is %s" % ("rejected" if acc is False else "not available"))


def run_c15(ctx):
    rep = ctx.rep
    quick = ctx.quick
    rep.assume("sequentially consistent interleavings at schedule-point granularity (x86-TSO hardware); the need for the two "
               "seq_cst Dekker fences of v2::async_mutex is shown only at design level (sync/MutexV2Tso, thorough tier), "
               "it is not bound to the code")
    rep.assume("<= 3 threads, <= 6 lock attempts per scenario; every owner unlocks; receivers complete on a scheduler that "
               "completes inline ('plain': never cancels; 'unifex::inline_scheduler': honours the receiver's stop token)")
    rep.assume("list layer: TLC checks the refinement prim/AtomicIntrusiveList (single atomic accesses) => prim/AbstractList "
               "(two-phase insert/obtain list) for bounded programs (3 threads, 3 items, push_back/pop_front/try_remove/empty and "
               "the latch operations); MutexV2 is model-checked both over an atomic sequence (the granularity replayed on the code) "
               "and over that abstract list (TwoPhase)")
    main, inline = gen_scenarios(ctx.tier)
    sp = os.path.join(ctx.work, "scenarios.json")
    json.dump(main, open(sp, "w"))
    spi = os.path.join(ctx.work, "scenarios_inline.json")
    json.dump(inline, open(spi, "w"))
    v1 = [s for s in main if s["ver"] == 1]
    v2 = [s for s in main if s["ver"] == 2]
    f1 = os.path.join(ctx.work, "scn_v1.json"); json.dump(v1, open(f1, "w"))
    f2 = os.path.join(ctx.work, "scn_v2.json"); json.dump(v2, open(f2, "w"))
    # scenarios whose transitions are exported for guided replay (export is single-threaded)
    exp2 = [s for s in v2 if s["name"] in (("B", "G") if quick else ("A", "B", "C", "G", "H", "I", "J", "K", "Lq", "M"))]
    f2e = os.path.join(ctx.work, "scn_v2e.json"); json.dump(exp2, open(f2e, "w"))
    tp2 = [s for s in v2 if quick and s["name"] in ("B", "G", "J") or not quick and s["name"] not in ("E", "E2", "P")]
    ftp = os.path.join(ctx.work, "scn_v2tp.json"); json.dump(tp2, open(ftp, "w"))
    live1 = [s for s in v1 if s["name"] in (("A", "B") if quick else ("A", "B", "C", "D", "F"))]
    live2 = [s for s in v2 if s["name"] in (("G",) if quick else ("B", "G", "J", "K"))]
    fl1 = os.path.join(ctx.work, "scn_l1.json"); json.dump(live1, open(fl1, "w"))
    fl2 = os.path.join(ctx.work, "scn_l2.json"); json.dump(live2, open(fl2, "w"))
    e1 = os.path.join(ctx.work, "edges_v1.ndjson")
    e2 = os.path.join(ctx.work, "edges_v2.ndjson")

    # ---- 2. model checking (small single-worker jobs run side by side with the harness builds)
    import hashlib
    from concurrent.futures import ThreadPoolExecutor
    hh = hashlib.sha1(open(os.path.join(os.path.dirname(os.path.abspath(__file__)), "msched.hpp"), "rb").read()).hexdigest()[:12]
    bargs = dict(name="mutex_driver", srcs=["engines/mutex/driver.cpp"], lib=LIB, defs=["MSCHED_HDR_HASH=0x" + hh])
    listcfg = "AtomicIntrusiveListQuick.cfg" if quick else "AtomicIntrusiveListMC.cfg"
    jobs = [
        ("v1", lambda: vlib.model_check(ctx, "sync", "MutexV1MC", env={"SCENARIOS": f1, "EDGES": e1}, workers=1, timeout=1500)),
        ("v2e", lambda: vlib.model_check(ctx, "sync", "MutexV2MC", env={"SCENARIOS": f2e, "EDGES": e2}, workers=1, timeout=1500)),
        ("live1", lambda: vlib.model_check(ctx, "sync", "MutexV1Live", cfg="MutexV1Live.cfg", env={"SCENARIOS": fl1}, workers=1, timeout=1500)),
        ("live2", lambda: vlib.model_check(ctx, "sync", "MutexV2Live", cfg="MutexV2Live.cfg", env={"SCENARIOS": fl2}, workers=1 if quick else 2, timeout=2400)),
        ("queue", lambda: vlib.model_check(ctx, "prim", "AtomicIntrusiveQueueMC", workers=1, timeout=600)),
        # MutexV2 over the abstract list that the real list is shown to refine (two-phase insert / obtain, weak empty())
        ("v2tp", lambda: vlib.model_check(ctx, "sync", "MutexV2MC", cfg="MutexV2TwoPhase.cfg", env={"SCENARIOS": ftp, "EDGES": ""},
                                          workers=1 if quick else 3, timeout=3000)),
        # list protocol invariants + PROPERTY Refines (AtomicIntrusiveList => AbstractList)
        ("list", lambda: vlib.model_check(ctx, "prim", "AtomicIntrusiveListMC", cfg=listcfg, workers=1 if quick else 3, timeout=3000)),
        # design-level results that are not C15 alarms by themselves
        ("kill", lambda: vlib.model_check(ctx, "prim", "AtomicIntrusiveListMC", cfg="AtomicIntrusiveListKill.cfg", must_hold=False, workers=1, timeout=600)),
        ("inline", lambda: vlib.model_check(ctx, "sync", "MutexV2MC", cfg="MutexV2Inline.cfg", env={"SCENARIOS": spi, "EDGES": ""}, must_hold=False, workers=1, timeout=900)),
        # bulk driver: library assertions compiled out (-DNDEBUG), so that a broken list protocol shows its semantic consequence
        # (lost waiter, double grant) to the monitor / deadlock detector instead of aborting in UNIFEX_ASSERT first; the
        # ASan build keeps the assertions
        ("exe_ub", lambda: vlib.build(ctx, san="undefined", **dict(bargs, defs=bargs["defs"] + ["NDEBUG"]))),
        # non-vacuity of the list model: the variant "tail hint swung after the predecessor link is unlocked" must be refuted
        ("hint", lambda: vlib.model_check(ctx, "prim", "AtomicIntrusiveListMC", cfg="AtomicIntrusiveListHint.cfg", must_hold=False, workers=1, timeout=600)),
        ("exe_asan", lambda: vlib.build(ctx, san="address,undefined", **bargs)),
    ]
    if os.environ.get("MUTEX_DEV_SKIP_MC"):     # development aid for iterating on mutants: keep only what the replay needs
        jobs = [j for j in jobs if j[0] in ("v1", "v2e", "exe_ub", "exe_asan")]
        rep.note("MUTEX_DEV_SKIP_MC set: tree-independent model checking skipped")
    res = {}
    with ThreadPoolExecutor(max_workers=3) as pool:
        futs = {k: pool.submit(fn) for k, fn in jobs}
        # the big exhaustive run uses the remaining cores
        if not os.environ.get("MUTEX_DEV_SKIP_MC"):
            vlib.model_check(ctx, "sync", "MutexV2MC", env={"SCENARIOS": f2, "EDGES": ""}, workers=2 if quick else None, timeout=3000)
        for k, fu in futs.items():
            res[k] = fu.result()      # re-raises vlib.Broken
    if not quick and not os.environ.get("MUTEX_DEV_SKIP_MC"):
        # store-buffer variant of the Dekker core (design-level result; see the header of sync/MutexV2Tso.tla)
        for cfg, expect in (("MutexV2Tso.cfg", "ok"), ("MutexV2TsoNoStartFence.cfg", "ok"), ("MutexV2TsoWeak.cfg", "ok"),
                            ("MutexV2TsoR2.cfg", "ok"), ("MutexV2TsoNoUnlockFence.cfg", "deadlock"),
                            ("MutexV2TsoWeakNoStartFence.cfg", "deadlock")):
            rt = vlib.model_check(ctx, "sync", "MutexV2Tso", cfg=cfg, must_hold=(expect == "ok"), workers=2, timeout=600)
            if rt["kind"] != expect:
                rep.note("MutexV2Tso %s: expected %s, TLC reports %s (design-level model out of date?)" % (cfg, expect, rt["kind"]))
        rep.note("store-buffer variant (sync/MutexV2Tso): both fences -> no lost wake-up under TSO and under a non-draining RMW; "
                 "without the process_queue() fence a wake-up is lost already on TSO; without the start() fence it is lost "
                 "when the exchange is not a full barrier (on x86-TSO the locked exchange makes that fence redundant)")
    if res.get("list"):
        rep.note("list refinement: TLC checked PROPERTY Refines (prim/AtomicIntrusiveList => prim/AbstractList under the mapping of "
                 "prim/AtomicIntrusiveListRef) together with the list invariants on %s (%d states); MutexV2 re-checked over that "
                 "abstract list (MutexV2TwoPhase.cfg, %d states)" % (listcfg, res["list"]["distinct"], (res.get("v2tp") or {}).get("distinct", 0)))
    rh = res.get("hint")
    if rh is not None:
        if rh["kind"] != "invariant":
            raise vlib.Broken("list model is vacuous: the wrong variant HintAfterUnlock of push_back is not refuted (%s)" % rh["kind"])
        rep.note("non-vacuity: prim/AtomicIntrusiveList with HintAfterUnlock (sentinel_.self stored after unlock of the predecessor "
                 "link) violates %s" % rh["violated"])
    r = res.get("kill") or {"kind": "skipped"}
    if r["kind"] == "invariant":
        rep.oos.append(dict(kind="tlc", module="prim/AtomicIntrusiveList", violated=r["violated"],
                            what="with a popped/removed node's storage destroyed at once, push_back/try_lock_checking reads the dead "
                                 "node's link word (stale read, re-check fails, nothing written) - not a C15 clause"))
    ri = res.get("inline") or {"ok": True}
    if not ri["ok"]:
        rep.note("MutexV2 with SchedKind=inline (unifex::inline_scheduler): TLC reports %s %s - the lock is leaked when the "
                 "scheduler turns a grant into set_done; confirmed/refuted below on the real code (inline-scheduler scenarios)"
                 % (ri["kind"], ri["violated"] or ""))
    rep.exhaustive = True
    exe, exe_asan = res["exe_ub"], res["exe_asan"]

    # ---- 3. behaviours for guided replay
    def behaviours(edges, path, nrand, cap):
        adj, inits, nedges = vlib.read_edges(edges)
        walks = vlib.edge_cover(adj, inits)
        if len(walks) > cap:
            ctx.rng.shuffle(walks)
            walks = walks[:cap]
        walks += vlib.random_walks(adj, inits, nrand, ctx.rng)
        seen, nb = set(), 0
        with open(path, "w") as f:
            for w in walks:
                sched = [[e["th"], e["pc"]] for e in w if e["pc"] != ""]
                b = dict(scn=w[0]["scn"], sched=sched, st=w[-1]["obs"]["st"])
                k = json.dumps([b["scn"], sched])
                if k in seen:
                    continue
                seen.add(k)
                f.write(json.dumps(b) + "\n")
                nb += 1
                if nb <= 1:
                    rep.sample(dict(kind="tlc-behaviour", scenario=b["scn"], schedule=sched[:60], expect=dict(st=b["st"])))
        rep.note("%s: edges %d, walks %d, distinct visible schedules %d" % (os.path.basename(edges), nedges, len(walks), nb))
        return nb

    b1 = os.path.join(ctx.work, "beh_v1.ndjson")
    b2 = os.path.join(ctx.work, "beh_v2.ndjson")
    nb1 = behaviours(e1, b1, 60 if quick else 2000, 350 if quick else 8000)
    nb2 = behaviours(e2, b2, 60 if quick else 2000, 450 if quick else 8000)

    # ---- 4. real code
    byid = {s["id"]: s for s in main}
    byid_inline = {s["id"]: s for s in inline}
    sweep = gen_sweep_scenarios(ctx.tier)
    sps = os.path.join(ctx.work, "scenarios_sweep.json")
    json.dump(sweep, open(sps, "w"))
    byid_sweep = {s["id"]: s for s in sweep}
    runs = [
        ("guided-v1", exe, sp, ["--mode", "guided", "--level", 2, "--behaviours", b1], nb1, byid),
        ("guided-v2", exe, sp, ["--mode", "guided", "--level", 1, "--behaviours", b2], nb2, byid),
        ("sweep-l2", exe, sps, ["--mode", "sweep", "--level", 2], len(sweep), byid_sweep),
        ("dfs-l1", exe, sp, ["--mode", "dfs", "--level", 1, "--bound", 2 if quick else 3, "--cap", 200 if quick else 2000], len(main), byid),
        ("dfs-l2", exe, sp, ["--mode", "dfs", "--level", 2, "--bound", 2, "--cap", 150 if quick else 1500], len(main), byid),
        ("random-l2", exe, sp, ["--mode", "random", "--level", 2, "--seed", ctx.seed, "--cap", 120 if quick else 1000], len(main), byid),
        ("random-l1", exe, sp, ["--mode", "random", "--level", 1, "--seed", ctx.seed + 1000, "--cap", 60 if quick else 500], len(main), byid),
        ("asan-random-l2", exe_asan, sp, ["--mode", "random", "--level", 2, "--seed", ctx.seed + 2000, "--cap", 20 if quick else 100], len(main), byid),
        ("inline-random", exe, spi, ["--mode", "random", "--level", 1, "--seed", ctx.seed, "--cap", 60 if quick else 600], len(inline), byid_inline),
    ]
    execute_runs(ctx, runs, "C15")
    rep.rule("executions = guided replays of TLC behaviours (MutexV1 at full granularity, MutexV2 with list operations atomic) + "
             "DFS(preemption-bounded, two granularities) + systematic one-long-preemption sweep at full granularity + seeded random schedules of the real v1/v2 async_mutex; "
             "distinct_nontrivial = distinct recorded event sequences with more than 3 events")


def run_c11(ctx):
    """C11 clause for the cancellable mutex (lock_raw_sender::is_always_scheduler_affine): completions are delivered on
    the context of the receiver's scheduler even when the unlock that grants the lock runs on a foreign thread."""
    import hashlib
    from concurrent.futures import ThreadPoolExecutor
    rep = ctx.rep
    quick = ctx.quick
    rep.assume("mutex engine, C11: every harness thread is a context with its own recording manual scheduler (drained only by "
               "that thread while it waits for its attempt); the clause is checked for attempts started on their context "
               "whose stop requests (if any) were issued there; <= 3 contexts, <= 5 attempts; sequentially consistent interleavings")
    scns = gen_c11_scenarios(ctx.tier)
    sp = os.path.join(ctx.work, "scenarios_c11.json")
    json.dump(scns, open(sp, "w"))
    hh = hashlib.sha1(open(os.path.join(os.path.dirname(os.path.abspath(__file__)), "msched.hpp"), "rb").read()).hexdigest()[:12]
    bargs = dict(name="mutex_driver", srcs=["engines/mutex/driver.cpp"], lib=LIB, defs=["MSCHED_HDR_HASH=0x" + hh])
    exp = [s for s in scns if s["name"] in (("B", "I") if quick else ("A", "B", "G", "I", "J", "Lq", "Q"))]
    spe = os.path.join(ctx.work, "scenarios_c11e.json")
    json.dump(exp, open(spe, "w"))
    edges = os.path.join(ctx.work, "edges_c11.ndjson")
    with ThreadPoolExecutor(max_workers=2) as pool:
        fx = pool.submit(lambda: vlib.build(ctx, san="undefined", **bargs))
        fe = pool.submit(lambda: vlib.model_check(ctx, "sync", "MutexV2MC", cfg="MutexV2C11.cfg", env={"SCENARIOS": spe, "EDGES": edges},
                                                  workers=1, timeout=3000))
        # exhaustive: MutexV2 with SchedKind = rec; AffineCompletion + the mutex invariants
        vlib.model_check(ctx, "sync", "MutexV2MC", cfg="MutexV2C11.cfg", env={"SCENARIOS": sp, "EDGES": ""}, workers=2 if quick else 3, timeout=3000)
        exe = fx.result()
        fe.result()
    rep.exhaustive = True
    # behaviours of the specification for guided replay
    adj, inits, nedges = vlib.read_edges(edges)
    walks = vlib.edge_cover(adj, inits)
    cap = 400 if quick else 6000
    if len(walks) > cap:
        ctx.rng.shuffle(walks)
        walks = walks[:cap]
    walks += vlib.random_walks(adj, inits, 50 if quick else 1500, ctx.rng)
    bp = os.path.join(ctx.work, "beh_c11.ndjson")
    seen, nb = set(), 0
    with open(bp, "w") as f:
        for w in walks:
            sched = [[e["th"], e["pc"]] for e in w if e["pc"] != ""]
            k = json.dumps([w[0]["scn"], sched])
            if k in seen:
                continue
            seen.add(k)
            f.write(json.dumps(dict(scn=w[0]["scn"], sched=sched, st=w[-1]["obs"]["st"])) + "\n")
            nb += 1
    rep.note("edges_c11: edges %d, distinct visible schedules %d" % (nedges, nb))
    byid = {s["id"]: s for s in scns}
    runs = [
        ("c11-guided", exe, sp, ["--mode", "guided", "--level", 1, "--behaviours", bp], nb, byid),
        ("c11-dfs-l1", exe, sp, ["--mode", "dfs", "--level", 1, "--bound", 2 if quick else 3, "--cap", 200 if quick else 2000], len(scns), byid),
        ("c11-dfs-l2", exe, sp, ["--mode", "dfs", "--level", 2, "--bound", 2, "--cap", 100 if quick else 1000], len(scns), byid),
        ("c11-random-l2", exe, sp, ["--mode", "random", "--level", 2, "--seed", ctx.seed, "--cap", 150 if quick else 1500], len(scns), byid),
        ("c11-random-l1", exe, sp, ["--mode", "random", "--level", 1, "--seed", ctx.seed + 1000, "--cap", 100 if quick else 1000], len(scns), byid),
    ]
    execute_runs(ctx, runs, "C11")
    rep.rule("mutex/C11: executions = guided replays of TLC behaviours of MutexV2 (SchedKind = rec) + DFS(preemption-bounded, two granularities) + seeded random schedules of the real "
             "v2::async_mutex whose receivers report a per-thread recording scheduler; the monitor compares the thread that "
             "delivers Acquired/Done with the thread that started the attempt")


def run(ctx):
    if ctx.prop == "C11":
        return run_c11(ctx)
    return run_c15(ctx)
