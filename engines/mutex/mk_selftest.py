#!/usr/bin/env python3
"""Generates engines/mutex/selftest.json: each mutant is produced by a textual replacement in the scratch worktree
(/tmp/wt_mutex, hooks applied), captured as a unified diff relative to the hooked tree, and reverted."""
import json, os, subprocess, sys
WT = os.environ.get("MUTEX_WT", "/var/tmp/mutex_wt")   # a copy of /repo's include/ + source/ (hooks applied)
M = []


def mut(name, expect, path, old, new, what, prop="C15"):
    M.append(dict(name=name, expect=expect, path=path, old=old, new=new, what=what, prop=prop))


mut("v1_unlock_store_instead_of_cas", "violation", "include/unifex/detail/atomic_intrusive_queue.hpp",
    """      if (head_.compare_exchange_strong(
              oldValue,
              inactive,
              std::memory_order_release,
              std::memory_order_relaxed)) {
        // Successfully marked as inactive
        return true;
      }""",
    """      head_.store(inactive, std::memory_order_release);
      return true;""",
    "v1 unlock marks the mutex unlocked with a plain store: a waiter enqueued between the load and the store is never handed the lock (lost wake-up)")
mut("v1_try_lock_succeeds_when_locked", "violation", "include/unifex/detail/atomic_intrusive_queue.hpp",
    """    return head_.compare_exchange_strong(
        oldValue,
        nullptr,
        std::memory_order_acquire,
        std::memory_order_relaxed);
  }

  // Either enqueue""",
    """    return head_.compare_exchange_strong(
        oldValue,
        nullptr,
        std::memory_order_acquire,
        std::memory_order_relaxed) || oldValue == nullptr;
  }

  // Either enqueue""",
    "v1 try_lock also succeeds when the mutex is held and nobody waits")
mut("v2_try_lock_succeeds_when_locked", "violation", "include/unifex/v2/async_mutex.hpp",
    "  return !locked_.exchange(true, std::memory_order_acquire);",
    "  return !locked_.exchange(true, std::memory_order_acquire) || queue_.empty();",
    "v2 try_lock also succeeds when the mutex is held and nobody waits")
mut("v2_process_queue_no_recheck", "violation", "source/async_mutex_v2.cpp",
    """    if (queue_.empty()) {
      return;
    }
""",
    """    return;
""",
    "v2 process_queue releases the lock without re-checking the queue (Dekker re-check dropped): a waiter pushed in the window is lost")
mut("v2_start_no_exchange_after_push", "violation", "include/unifex/v2/async_mutex.hpp",
    """  if (!mutex.locked_.exchange(true, std::memory_order_acq_rel)) {
    mutex.process_queue();
  }""",
    """  (void)mutex;""",
    "v2 start() does not try to take the lock after pushing itself: lost wake-up when the holder released in between")
mut("v2_cancelled_waiter_granted", "violation", "include/unifex/v2/async_mutex.hpp",
    """  if (mutex_.queue_.try_remove(this)) {
    cancelled_ = true;""",
    """  if (mutex_.queue_.try_remove(this)) {""",
    "a waiter removed from the queue by its stop request completes with set_value (believes it owns the lock)")
mut("equivalent_v2_popped_cancelled_branch_removed", "clean", "include/unifex/v2/async_mutex.hpp",
    """              op->mutex_.unlock();""",
    """              (void)op;""",
    "EQUIVALENT mutant: resume_'s 'popped waiter already completed by stop' branch no longer releases the lock; the branch is "
    "dead code (stop() completes only a waiter it removed itself; TLC invariant PoppedNotCompleted of sync/MutexV2), so the property still holds")
mut("v2_lifo_grant", "violation", "include/unifex/v2/async_mutex.hpp",
    "  mutex.queue_.push_back(this);",
    "  mutex.queue_.push_front(this);",
    "waiters are queued at the front: LIFO grant in the cancellable mutex")
mut("v1_resume_without_pop", "violation", "source/async_mutex_v1.cpp",
    """    pendingQueue_ = std::move(newWaiters);
  }""",
    """    pendingQueue_ = std::move(newWaiters);
    waiter_base* extra = pendingQueue_.pop_front();
    if (!pendingQueue_.empty()) { extra->resume_(extra); }
    else { pendingQueue_.push_front(extra); }
  }""",
    "v1 unlock resumes two waiters of a fresh batch at once (double hand-off)")
mut("list_push_back_hint_after_unlock", "violation", "source/atomic_intrusive_list.cpp",
    """    UNIFEX_VERIF_YIELD("mutex.l.pb4");
    sentinel_.self.store(&item->rest, std::memory_order_release);

    UNIFEX_VERIF_YIELD("mutex.l.pb5");
    unlock(*pred_link, to_value(item));""",
    """    UNIFEX_VERIF_YIELD("mutex.l.pb4");
    unlock(*pred_link, to_value(item));

    UNIFEX_VERIF_YIELD("mutex.l.pb5");
    sentinel_.self.store(&item->rest, std::memory_order_release);""",
    "push_back swings the tail hint after unlocking the predecessor link: a second pusher takes the same link (orphaned waiter) "
    "- caught by the full-granularity sweep (deadlock = lost waiter); the bulk driver is built with -DNDEBUG so that "
    "UNIFEX_ASSERT(pred_val == sentinel) does not abort first")
RESUME_OLD = """            if (try_complete(op)) {
              op->forwardingOp_.start(*op);
            } else {"""
RESUME_NEW = """            if (try_complete(op)) {
              op->forward_set_value();
            } else {"""
mut("c11_resume_completes_inline", "violation", "include/unifex/v2/async_mutex.hpp", RESUME_OLD, RESUME_NEW,
    "resume_ of a popped waiter completes the receiver inline on the unlocking thread instead of re-scheduling onto the "
    "receiver's scheduler (breaks is_always_scheduler_affine)", prop="C11")
mut("c11_resume_completes_inline_is_not_C15", "clean", "include/unifex/v2/async_mutex.hpp", RESUME_OLD, RESUME_NEW,
    "the same change leaves mutual exclusion / no-lost-waiter intact: the C15 check stays clean (property separation)", prop="C15")
mut("c11_forwarder_skips_scheduler", "violation", "include/unifex/detail/completion_forwarder.hpp",
    """    started_ = true;
    unifex::start(inner_.get());""",
    """    started_ = true;
    outer.forward_set_value();""",
    "completion_forwarder builds the schedule operation but forwards the value inline without starting it", prop="C11")
mut("benign_hook_removed", "clean", "source/async_mutex_v2.cpp",
    """    UNIFEX_VERIF_YIELD("mutex.v2.empty");\n""", "", "a schedule-point hook removed (benign)")
mut("benign_stronger_order_and_comment", "clean", "source/async_mutex_v2.cpp",
    "    locked_.store(false, std::memory_order_release);",
    "    // release the lock (sequentially consistent store)\n    locked_.store(false, std::memory_order_seq_cst);",
    "memory order strengthened + comment (benign)")
mut("benign_v1_reorder", "clean", "source/async_mutex_v1.cpp",
    """  waiter_base* item = pendingQueue_.pop_front();
  item->resume_(item);""",
    """  waiter_base* const item = pendingQueue_.pop_front();
  auto* const fn = item->resume_;
  fn(item);""",
    "v1 unlock: local refactoring without behavioural change (benign)")

out = []
for m in M:
    p = os.path.join(WT, m["path"])
    src = open(p).read()
    if src.count(m["old"]) != 1:
        sys.exit("mutant %s: anchor occurs %d times in %s" % (m["name"], src.count(m["old"]), m["path"]))
    open(p, "w").write(src.replace(m["old"], m["new"]))
    # diff against the hooked version: stash-free approach using git diff with a temp copy
    base = p + ".orig_selftest"
    open(base, "w").write(src)
    d = subprocess.run(["diff", "-u", "--label", "a/" + m["path"], "--label", "b/" + m["path"], base, p], stdout=subprocess.PIPE, text=True).stdout
    os.remove(base)
    open(p, "w").write(src)
    out.append(dict(name=m["name"], what=m["what"], expect=m["expect"], prop=m["prop"], patch=d))
json.dump(out, open(os.path.join(os.path.dirname(os.path.abspath(__file__)), "selftest.json"), "w"), indent=1)
print("wrote", len(out), "mutants")
