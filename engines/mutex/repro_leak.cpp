// Deterministic (single-threaded) reproduction of the C15 finding "v2::async_mutex leaks the lock when the
// re-scheduled completion of a granted waiter is cancelled".  No verification hooks needed.
//   g++-12 -std=c++17 -I/repo/include -I/repo/source repro_leak.cpp /repo/source/{async_mutex_v2,atomic_intrusive_list,
//          inplace_stop_token,manual_event_loop,async_stack,exception}.cpp -lpthread -o repro_leak && ./repro_leak
// Expected on a correct mutex: B completes with value (or the lock is released before done) and C acquires.
#include <unifex/v2/async_mutex.hpp>
#include <unifex/inplace_stop_token.hpp>
#include <unifex/manual_event_loop.hpp>
#include <unifex/scheduler_concepts.hpp>
#include <cstdio>
using namespace unifex;
struct Recv {
  const char* name; int* outcome; inplace_stop_source* src; manual_event_loop* loop;
  void set_value() noexcept { std::printf("%s: set_value (owns the mutex)\n", name); *outcome = 1; }
  void set_done() noexcept { std::printf("%s: set_done\n", name); *outcome = 2; }
  template <class E> void set_error(E&&) noexcept { *outcome = 3; }
  friend inplace_stop_token tag_invoke(tag_t<get_stop_token>, const Recv& r) noexcept { return r.src->get_token(); }
  friend auto tag_invoke(tag_t<get_scheduler>, const Recv& r) noexcept { return r.loop->get_scheduler(); }
};
int main() {
  v2::async_mutex m;
  manual_event_loop loop;
  inplace_stop_source srcB, srcC;
  int b = 0, c = 0;
  if (!m.try_lock()) return 2;                                   // A holds the mutex
  auto opB = connect(m.async_lock(), Recv{"B", &b, &srcB, &loop});
  start(opB);                                                    // B queued
  m.unlock();                                                    // A unlocks: B is popped = granted; its completion is scheduled on B's loop
  srcB.request_stop();                                           // stop arrives before the loop runs the completion
  auto opC = connect(m.async_lock(), Recv{"C", &c, &srcC, &loop});
  start(opC);                                                    // C queues behind the (leaked) lock
  loop.stop(); loop.run();                                       // drain the loop
  std::printf("B outcome=%d (1 value, 2 done)  C outcome=%d (0 = still waiting)  fresh try_lock()=%d\n", b, c, (int)m.try_lock());
  bool leaked = (b == 2 && c == 0);
  std::printf(leaked ? "LEAKED: B got done after having been handed the lock; nobody will ever unlock\n" : "ok\n");
  std::fflush(stdout);
  if (leaked) std::_Exit(1);   // (skip destructors: C is still queued)
  return 0;
}
