#!/usr/bin/env python3
"""Applies every entry of selftest.json on top of the hooked scratch worktree, runs ./check C15 --engine mutex and
compares the exit code with the expectation (violation -> 1, clean -> 0).  Usage: run_selftest.py [name ...]
Environment: MUTEX_WT (default /var/tmp/mutex_wt; create it with: mkdir -p $MUTEX_WT && cp -r /repo/include /repo/source $MUTEX_WT/), VERIF_JOBS, MUTEX_DEV_SKIP_MC=1 to skip tree-independent TLC runs."""
import json, os, subprocess, sys, time
HERE = os.path.dirname(os.path.abspath(__file__))
WT = os.environ.get("MUTEX_WT", "/var/tmp/mutex_wt")   # a copy of /repo's include/ + source/ (hooks applied)
tests = json.load(open(os.path.join(HERE, "selftest.json")))
sel = set(sys.argv[1:])
res = []
for t in tests:
    if sel and t["name"] not in sel:
        continue
    p = subprocess.run(["patch", "-p1", "--no-backup-if-mismatch"], cwd=WT, input=t["patch"], text=True, stdout=subprocess.PIPE, stderr=subprocess.STDOUT)
    if p.returncode != 0:
        print("PATCH FAILED", t["name"], p.stdout)
        res.append((t["name"], "patch-failed"))
        continue
    t0 = time.time()
    env = dict(os.environ, VERIF_REPO=WT, VERIF_KNOWN_EXTRA=os.path.join(HERE, "proposed_findings.json"))
    env.setdefault("VERIF_JOBS", "4")
    try:
        c = subprocess.run(["./check", t.get("prop", "C15"), "--tier", "quick", "--engine", "mutex"], cwd=os.path.join(HERE, "..", ".."), env=env,
                           stdout=subprocess.PIPE, stderr=subprocess.STDOUT, text=True, timeout=3000)
        rc, out = c.returncode, c.stdout
    finally:
        subprocess.run(["patch", "-R", "-p1", "--no-backup-if-mismatch"], cwd=WT, input=t["patch"], text=True, stdout=subprocess.PIPE)
    want = 1 if t["expect"] == "violation" else 0
    first = [l for l in out.splitlines() if l.startswith("  ") or l.startswith("VIOLATION") or l.startswith("BROKEN")][:2]
    ok = rc == want
    print("%-48s %s expect=%-9s rc=%d %s %.0fs  %s" % (t["name"], t.get("prop", "C15"), t["expect"], rc, "OK" if ok else "MISMATCH", time.time() - t0, " | ".join(x.strip()[:160] for x in first)), flush=True)
    res.append((t["name"], rc, ok))
json.dump(res, open("/var/tmp/mutex_selftest_result.json", "w"))
sys.exit(0 if all(r[-1] is True for r in res) else 1)
