// C15 driver: executes async_mutex scenarios (v1, v2 cancellable) on the real code with controlled threads.
// modes: guided (TLC behaviours of MutexV1/MutexV2), dfs (bounded-preemption enumeration), random (seeded).
// Scenario = {id, ver: 1|2, sched: 0 plain | 1 unifex::inline_scheduler, prog: [[op,a]..] x 3 threads}
//   ["lock",a]   connect+start an async_lock() for attempt a (harness receiver records Acquired/Done)
//   ["unlock",a] wait for the outcome of attempt a; if it owns the mutex: unlock()
//   ["try",a]    try_lock() as attempt a
//   ["stop",a]   request_stop() on attempt a's stop source (v2 only)
// sched 2 = recording manual scheduler per harness thread (C11 clause: completions arrive on the waiter's own context)
// Operation states live in per-execution heap objects that are freed only after every thread has finished
// (C15 is not a lifetime property; see engine.py).
#include "vrt.hpp"
#include "msched.hpp"

#include <unifex/v1/async_mutex.hpp>
#include <unifex/v2/async_mutex.hpp>
#include <unifex/inline_scheduler.hpp>
#include <unifex/inplace_stop_token.hpp>
#include <unifex/scheduler_concepts.hpp>
#include <unifex/sender_concepts.hpp>
#include <unifex/receiver_concepts.hpp>

#include <nlohmann/json.hpp>

#include <deque>
#include <fstream>
#include <set>

using namespace unifex;
using json = nlohmann::json;

static const int NA = 6;   // attempts 1..NA
struct Op { char k; int a; };
using Prog = std::vector<Op>;
struct Scenario { int id; int ver; int sched; Prog prog[4]; };

static Prog parseProg(const json& j) {
  Prog p;
  for (auto& o : j) {
    std::string k = o[0].get<std::string>();
    char c = k == "lock" ? 'l' : k == "unlock" ? 'u' : k == "try" ? 't' : 's';
    p.push_back({c, o[1].get<int>()});
  }
  return p;
}

// A scheduler whose schedule() completes inline with set_value and never looks at the stop token.
struct plain_scheduler {
  struct sender {
    template <template <typename...> class Variant, template <typename...> class Tuple>
    using value_types = Variant<Tuple<>>;
    template <template <typename...> class Variant>
    using error_types = Variant<>;
    static constexpr bool sends_done = false;
    static constexpr blocking_kind blocking = blocking_kind::always_inline;
    template <typename R>
    struct op {
      R r;
      void start() noexcept { unifex::set_value((R &&) r); }
    };
    template <typename R>
    op<remove_cvref_t<R>> connect(R&& r) const noexcept { return op<remove_cvref_t<R>>{(R &&) r}; }
  };
  sender schedule() const noexcept { return {}; }
  friend bool operator==(plain_scheduler, plain_scheduler) noexcept { return true; }
  friend bool operator!=(plain_scheduler, plain_scheduler) noexcept { return false; }
};

static std::vector<std::string> g_cur;   // events of the current execution (for the deadlock / crash report)
static std::string g_partial_path;       // <log>.partial: events of an execution that died (validated as a prefix)
extern "C" void __sanitizer_set_death_callback(void (*)(void)) __attribute__((weak));
static void dump_partial(const char* why) noexcept {
  static bool done = false;
  if (done || g_partial_path.empty()) return;
  done = true;
  FILE* f = std::fopen(g_partial_path.c_str(), "a");
  if (!f) return;
  std::fprintf(f, "{\"why\":\"%s\",\"events\":[", why);
  for (size_t i = 0; i < g_cur.size(); ++i) std::fprintf(f, "%s%s", i ? "," : "", g_cur[i].c_str());
  std::fprintf(f, "]}\n");
  std::fclose(f);
}
static void install_partial_handlers() {
  std::set_terminate([] { dump_partial("Terminate"); vrt::die("Terminate", 73); });
  if (__sanitizer_set_death_callback) __sanitizer_set_death_callback([] { dump_partial("Sanitizer"); vrt::log_flush(); });
  auto h = [](int sig) { dump_partial("Crash"); vrt::on_signal(sig); };
  signal(SIGABRT, h);
#ifndef VRT_ASAN
  for (int sg : {SIGSEGV, SIGBUS, SIGFPE, SIGILL}) signal(sg, h);
#endif
}
static void lev(const char* e, int a, int r) {
  char buf[160];
  std::snprintf(buf, sizeof buf, "{\"e\":\"%s\",\"a\":%d,\"t\":%d,\"r\":%d}", e, a, vrt::self_id(), r);
  g_cur.push_back(buf);
  vrt::ev("%s", buf);
}

// A recording manual scheduler (C11 clause): schedule() enqueues the completion in the queue of the context that owns
// the receiver; only that context (the harness thread that started the lock attempt) drains the queue, so the thread id
// in a completion event names the context on which the completion was delivered.  It never looks at the stop token.
struct RecTask { virtual void run() noexcept = 0; virtual ~RecTask() = default; };
struct RecQ { std::deque<RecTask*> q; };
struct rec_scheduler {
  RecQ* sq = nullptr;
  template <typename R>
  struct op final : RecTask {
    RecQ* sq; R r;
    template <typename R2> op(RecQ* s, R2&& rr) : sq(s), r((R2 &&) rr) {}
    op(op&&) = delete;
    void start() noexcept { sq->q.push_back(this); }
    void run() noexcept override { unifex::set_value(std::move(r)); }
  };
  struct sender {
    RecQ* sq;
    template <template <typename...> class Variant, template <typename...> class Tuple>
    using value_types = Variant<Tuple<>>;
    template <template <typename...> class Variant>
    using error_types = Variant<>;
    static constexpr bool sends_done = false;
    template <typename R>
    friend op<remove_cvref_t<R>> tag_invoke(tag_t<unifex::connect>, const sender& s, R&& r) noexcept {
      return op<remove_cvref_t<R>>(s.sq, (R &&) r);
    }
  };
  sender schedule() const noexcept { return sender{sq}; }
  friend bool operator==(const rec_scheduler& a, const rec_scheduler& b) noexcept { return a.sq == b.sq; }
  friend bool operator!=(const rec_scheduler& a, const rec_scheduler& b) noexcept { return a.sq != b.sq; }
};

struct Book {   // harness bookkeeping (one logical thread runs at a time)
  // 0 idle, 1 started (outcome unknown), 2 owns, 3 done, 4 unlocked, 5 try_lock failed
  int st[NA + 1] = {};
  int grants = 0, dones = 0;
  void acquired(int a) { lev("Acquired", a, -1); st[a] = 2; ++grants; }
  void done(int a) { lev("Done", a, -1); st[a] = 3; ++dones; }
};

struct RecvV1 {
  Book* b; int a;
  void set_value() noexcept { b->acquired(a); }
  void set_done() noexcept { b->done(a); }
  template <class E> void set_error(E&&) noexcept { std::terminate(); }
};
template <class Sched>
struct RecvV2 {
  Book* b; int a; inplace_stop_source* src; Sched sch;
  void set_value() noexcept { b->acquired(a); }
  void set_done() noexcept { b->done(a); }
  template <class E> void set_error(E&&) noexcept { std::terminate(); }
  friend inplace_stop_token tag_invoke(tag_t<get_stop_token>, const RecvV2& r) noexcept { return r.src->get_token(); }
  friend Sched tag_invoke(tag_t<get_scheduler>, const RecvV2& r) noexcept { return r.sch; }
};

struct HolderBase { virtual ~HolderBase() = default; virtual void go() noexcept = 0; };
template <class S, class R>
struct Holder : HolderBase {
  connect_result_t<S, R> op;
  Holder(S&& s, R r) : op(unifex::connect((S &&) s, std::move(r))) {}
  void go() noexcept override { unifex::start(op); }
};

struct WorldBase {
  const Scenario* scn = nullptr;
  Book bk;
  inplace_stop_source src[NA + 1];
  HolderBase* ops[NA + 1] = {};
  RecQ sq[4];                  // per harness thread (= context) queue of the recording scheduler
  int drainOwn() {             // deliver what was scheduled onto the calling thread's context
    RecQ& q = sq[vrt::self_id() & 3]; int n = 0;
    while (!q.q.empty()) { RecTask* t = q.q.front(); q.q.pop_front(); t->run(); ++n; }
    return n;
  }
  virtual ~WorldBase() { for (auto*& p : ops) { delete p; p = nullptr; } }
  virtual HolderBase* make(int a) = 0;
  virtual bool tryLock() = 0;
  virtual void unlock() = 0;

  void run(const Prog& p) {
    for (auto op : p) {
      int a = op.a;
      switch (op.k) {
        case 'l': {
          UNIFEX_VERIF_YIELD("mutex.h.lock");
          ops[a] = make(a);
          lev("LockStart", a, -1);
          bk.st[a] = 1;
          ops[a]->go();
          lev("StartEnd", a, -1);
          break;
        }
        case 't': {
          UNIFEX_VERIF_YIELD("mutex.h.try");
          bool r = tryLock();
          lev("TryLock", a, r ? 1 : 0);
          bk.st[a] = r ? 2 : 5;
          break;
        }
        case 'u': {
          while (bk.st[a] == 1) { if (drainOwn() == 0) UNIFEX_VERIF_SPIN("mutex.h.wait"); }
          if (bk.st[a] != 2) break;
          UNIFEX_VERIF_YIELD("mutex.h.unlock");
          lev("Unlock", a, -1);
          bk.st[a] = 4;
          unlock();
          break;
        }
        case 's': {
          UNIFEX_VERIF_YIELD("mutex.h.stop");
          lev("Stop", a, -1);
          src[a].request_stop();
          break;
        }
      }
    }
    drainOwn();
  }
  // end of execution: every thread has finished.  A fresh try_lock must succeed (lock not leaked).
  void probe() {
    bool r = tryLock();
    lev("Probe", 0, r ? 1 : 0);
    if (r) unlock();
  }
};

struct WorldV1 : WorldBase {
  v1::async_mutex m;
  HolderBase* make(int a) override {
    auto s = m.async_lock();
    return new Holder<decltype(s), RecvV1>(std::move(s), RecvV1{&bk, a});
  }
  bool tryLock() override { return m.try_lock(); }
  void unlock() override { m.unlock(); }
  ~WorldV1() override { for (auto*& p : ops) { delete p; p = nullptr; } }
};
template <class Sched>
struct WorldV2 : WorldBase {
  v2::async_mutex m;
  HolderBase* make(int a) override {
    auto s = m.async_lock();
    Sched sch{};
    if constexpr (std::is_same_v<Sched, rec_scheduler>) sch.sq = &sq[vrt::self_id() & 3];
    return new Holder<decltype(s), RecvV2<Sched>>(std::move(s), RecvV2<Sched>{&bk, a, &src[a], sch});
  }
  bool tryLock() override { return m.try_lock(); }
  void unlock() override { m.unlock(); }
  ~WorldV2() override { for (auto*& p : ops) { delete p; p = nullptr; } }
};

static std::unique_ptr<WorldBase> makeWorld(const Scenario& sc) {
  std::unique_ptr<WorldBase> w;
  if (sc.ver == 1) w = std::make_unique<WorldV1>();
  else if (sc.sched == 1) w = std::make_unique<WorldV2<inline_scheduler>>();
  else if (sc.sched == 2) w = std::make_unique<WorldV2<rec_scheduler>>();
  else w = std::make_unique<WorldV2<plain_scheduler>>();
  w->scn = &sc;
  return w;
}

// guided replay: a TLC label is "<site>" of the spec; the spec uses the hook names without the "mutex." prefix
static bool sameSite(const std::string& want, const std::string& got) {
  return got == "mutex." + want || got == want;
}

int main(int argc, char** argv) {
  vrt::Args a(argc, argv);
  vrt::install_handlers();
  std::string mode = a.str("mode", "dfs");
  int level = (int)a.num("level", 2);     // 1: every schedule point except the list internals (list operations atomic), 2: all
  std::vector<Scenario> scns;
  { std::ifstream f(a.str("scenarios")); json j; f >> j;
    for (auto& s : j) { Scenario sc; sc.id = s["id"].get<int>(); sc.ver = s["ver"].get<int>(); sc.sched = s["sched"].get<int>();
      for (int t = 1; t <= 3; ++t) sc.prog[t] = parseProg(s["prog"][t - 1]);
      scns.push_back(sc); } }
  std::map<int, const Scenario*> byId; for (auto& s : scns) byId[s.id] = &s;
  if (a.has("log")) { vrt::log_open(a.str("log").c_str()); g_partial_path = a.str("log") + ".partial"; install_partial_handlers(); }
  long from = a.num("from", 0), to = a.num("to", 1L << 40);
  long execs = 0, steps = 0, drift = 0, unguided = 0, obsMismatch = 0, units = 0, grants = 0, dones = 0;
  std::string firstDrift, firstMismatch;
  std::set<std::string> distinctSched;

  auto runOne = [&](const Scenario& sc, long x, long k, const std::function<vrt::RunResult(vrt::Ctl&)>& drive,
                    const json* expect) {
    g_cur.clear();
    { char hb[200]; std::snprintf(hb, sizeof hb, "{\"e\":\"Reset\",\"a\":0,\"t\":0,\"r\":%d,\"x\":%ld,\"k\":%ld,\"scn\":%d,\"sched\":%d}", sc.ver, x, k, sc.id, sc.sched);
      g_cur.push_back(hb); vrt::ev("%s", hb); }
    auto w = makeWorld(sc);
    vrt::RunResult rr;
    {
      vrt::Ctl c;
      if (level <= 1) c.accept = {"mutex.h.", "mutex.v1.", "mutex.v2.", "mutex.q.", "mutex.c.", "spin_wait", "mutex.l.lock.spin", "mutex.l.tlc.spin", "mutex.c.syncspin"};
      else c.accept = {"mutex.", "spin_wait"};
      for (int t = 1; t <= 3; ++t) c.spawn(t, [&, t] { w->run(w->scn->prog[t]); });
      c.start_all();
      rr = drive(c);
      if (rr.deadlock) {
        std::string s = vrt::sched_json(rr);
        std::string sites = "[";
        for (auto& [id, u] : c.thr) { if (sites.size() > 1) sites += ","; sites += "\"" + std::string(c.site(id)) + "\""; }
        sites += "]";
        vrt::ev("{\"e\":\"Deadlock\",\"a\":0,\"t\":0,\"r\":-1,\"sched\":%s,\"sites\":%s}", s.c_str(), sites.c_str());
        vrt::log_flush();
        std::string evs = "[";
        for (size_t i = 1; i < g_cur.size(); ++i) { if (evs.size() > 1) evs += ","; evs += g_cur[i]; }
        evs += "]";
        if (a.has("log")) { FILE* df = std::fopen((a.str("log") + ".dl").c_str(), "a");
          if (df) { std::fprintf(df, "{\"x\":%ld,\"scn\":%d,\"k\":%ld,\"mode\":\"%s\",\"level\":%d,\"sites\":%s,\"sched\":%s,\"events\":%s}\n",
                     x, sc.id, k, mode.c_str(), level, sites.c_str(), s.c_str(), evs.c_str()); std::fclose(df); } }
        std::fprintf(stderr, "DEADLOCK-REPORT {\"scn\":%d,\"k\":%ld,\"mode\":\"%s\",\"level\":%d,\"sites\":%s,\"sched\":%s,\"events\":%s}\n",
                     sc.id, k, mode.c_str(), level, sites.c_str(), s.c_str(), evs.c_str());
        _exit(75);
      }
      c.join();
    }
    w->probe();
    ++execs; steps += (long)rr.steps.size(); drift += rr.drift ? 1 : 0; unguided += rr.unguided;
    grants += w->bk.grants; dones += w->bk.dones;
    if (rr.drift && firstDrift.empty()) firstDrift = "unit " + std::to_string(x) + ": " + rr.firstDrift;
    if (distinctSched.size() < 2000000) distinctSched.insert(std::to_string(sc.id) + ":" + vrt::sched_json(rr));
    if (expect && expect->contains("st")) {
      bool ok = true;
      for (int i = 1; i <= NA && i <= (int)(*expect)["st"].size(); ++i) if (w->bk.st[i] != (*expect)["st"][i - 1].get<int>()) ok = false;
      if (!ok) { ++obsMismatch; if (firstMismatch.empty()) firstMismatch = "unit " + std::to_string(x); }
    }
  };

  if (mode == "guided") {
    std::ifstream in(a.str("behaviours")); std::string line; long x = -1;
    while (std::getline(in, line)) {
      if (line.empty()) continue;
      ++x; if (x < from || x >= to) continue;
      json b = json::parse(line);
      const Scenario& sc = *byId.at(b["scn"].get<int>());
      std::vector<vrt::StepRec> sched;
      for (auto& s : b["sched"]) sched.push_back({s[0].get<int>(), s[1].get<std::string>()});
      ++units;
      runOne(sc, x, 0, [&](vrt::Ctl& c) { return msched::run_guided(c, sched, sameSite); }, &b);
    }
  } else if (mode == "sweep") {
    // One long preemption at every step of every thread: (optional prologue: thread 1 runs until it is about to unlock)
    // thread X runs alone for n steps, is then parked, and the threads run by fixed priority `perm` (X included, so X
    // may come back before or after the others).  n = 0,1,2,... until X cannot make n steps.  This covers "A parked at
    // list-internal site S while B performs a whole push_back / the holder a whole unlock()" for every S.
    static const int perms[6][3] = {{1,2,3},{1,3,2},{2,1,3},{2,3,1},{3,1,2},{3,2,1}};
    long cap = a.num("cap", 100000);
    for (long x = from; x < to && x < (long)scns.size(); ++x) {
      const Scenario& sc = scns[x]; ++units; long k = 0;
      for (int pro = 0; pro <= 1; ++pro)
        for (int X = 1; X <= 3; ++X) {
          if (sc.prog[X].empty() || (pro == 1 && X == 1)) continue;
          for (int pi = 0; pi < 6; ++pi) {
            if (perms[pi][0] == X) continue;                 // X first again = no preemption
            for (long n = 0; n < 400 && k < cap; ++n) {
              long xsteps = 0; int phase = pro ? 0 : 1;
              runOne(sc, x, k++, [&](vrt::Ctl& c) {
                msched::Fair f(c);
                return msched::run_all(c, f, [&](const std::vector<int>& en, int) {
                  auto isEn = [&](int t) { for (int e : en) if (e == t) return true; return false; };
                  if (phase == 0) {
                    if (isEn(1) && std::string(c.site(1)) != "mutex.h.unlock") return 1;
                    phase = 1;
                  }
                  if (phase == 1) {
                    if (xsteps < n && isEn(X)) { ++xsteps; return X; }
                    if (xsteps < n && !c.finished(X)) {          // X is blocked: let the others help it, X keeps priority
                      for (int j = 0; j < 3; ++j) if (perms[pi][j] != X && isEn(perms[pi][j])) return perms[pi][j];
                    }
                    phase = 2;
                  }
                  for (int j = 0; j < 3; ++j) if (isEn(perms[pi][j])) return perms[pi][j];
                  return en[0];
                });
              }, nullptr);
              if (xsteps < n) break;                          // X has no n-th step: all its preemption points are done
            }
          }
        }
    }
  } else if (mode == "replay") {   // one explicit schedule: --scn ID --sched 1,2,2,3...
    const Scenario& sc = *byId.at((int)a.num("scn", 1));
    std::vector<int> ts; { std::string s = a.str("sched"); size_t p = 0; while (p < s.size()) { size_t q = s.find(',', p); if (q == std::string::npos) q = s.size(); ts.push_back(std::stoi(s.substr(p, q - p))); p = q + 1; } }
    runOne(sc, 0, 0, [&](vrt::Ctl& c) { return msched::run_list(c, ts);
    }, nullptr);
    ++units;
  } else {
    long cap = a.num("cap", 2000); int bound = (int)a.num("bound", 2); unsigned seed = (unsigned)a.num("seed", 1);
    for (long x = from; x < to && x < (long)scns.size(); ++x) {
      const Scenario& sc = scns[x]; ++units;
      if (mode == "dfs") {
        vrt::Dfs d; d.bound = bound; long k = 0;
        do { runOne(sc, x, k, [&](vrt::Ctl& c) { return msched::run_dfs(c, d); }, nullptr); ++k; } while (d.advance() && k < cap);
      } else {
        std::mt19937 rng(seed * 7919u + (unsigned)x);
        for (long k = 0; k < cap; ++k) {
          int stick = (k % 3 == 0) ? 85 : (k % 3 == 1) ? 60 : 30;
          runOne(sc, x, k, [&](vrt::Ctl& c) { return msched::run_random(c, rng, stick); }, nullptr);
        }
      }
    }
  }
  vrt::log_close();
  json s = {{"mode", mode}, {"units", units}, {"execs", execs}, {"steps", steps}, {"drift", drift}, {"unguided", unguided},
            {"obs_mismatch", obsMismatch}, {"distinct_schedules", (long)distinctSched.size()}, {"grants", grants}, {"dones", dones},
            {"first_drift", firstDrift}, {"first_mismatch", firstMismatch}};
  std::printf("%s\n", s.dump().c_str());
  return 0;
}
