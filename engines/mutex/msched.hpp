// Schedule loops for the mutex engine (helper on top of vrt.hpp).
// vrt::Ctl::enabled() lets a thread parked at a SPIN site run again as soon as *any* other thread stepped, including
// another spinner that merely re-checked its own condition; two waiting threads can then wake each other forever and
// starve a thread that could make progress (a livelock of the harness, reported as a bogus deadlock at maxSteps).
// Here a spinner becomes enabled only after a *progress* step: a step after which the stepping thread is not parked
// again at the same SPIN site.  No enabled thread while some thread is unfinished = exact deadlock.
#pragma once
#include "vrt.hpp"

namespace msched {

struct Fair {
  vrt::Ctl& c;
  unsigned long progress = 0;   // stepNo of the last progress step
  explicit Fair(vrt::Ctl& ctl) : c(ctl) { progress = c.stepNo; }
  bool enabled(int t) {
    vrt::Thr* p = c.thr[t].get();
    if (p->st.load(std::memory_order_acquire) != 1) return false;
    if (p->kind != 1) return true;
    return progress > p->parkedAt;
  }
  std::vector<int> enabled_set() {
    std::vector<int> v;
    for (auto& [id, u] : c.thr) if (enabled(id)) v.push_back(id);
    return v;
  }
  void step(int t) {
    vrt::Thr* p = c.thr[t].get();
    const char* before = p->site; int kindBefore = p->kind;
    c.step(t);
    bool sameSpin = !c.finished(t) && kindBefore == 1 && p->kind == 1 && p->site == before;
    if (!sameSpin) progress = c.stepNo;
  }
};

template <class Choose>
vrt::RunResult run_all(vrt::Ctl& c, Fair& f, Choose&& choose, long maxSteps = 100000) {
  vrt::RunResult r; int last = -1;
  while ((long)r.steps.size() < maxSteps) {
    auto en = f.enabled_set();
    if (en.empty()) break;
    int t = choose(en, last);
    r.steps.push_back({t, c.site(t)});
    f.step(t); last = t;
  }
  r.deadlock = !c.all_finished();
  return r;
}

inline vrt::RunResult run_random(vrt::Ctl& c, std::mt19937& rng, int stickiness) {
  Fair f(c);
  return run_all(c, f, [&](const std::vector<int>& en, int last) {
    if (last >= 0 && (int)(rng() % 100) < stickiness)
      for (int t : en) if (t == last) return t;
    return en[rng() % en.size()];
  });
}

inline vrt::RunResult run_dfs(vrt::Ctl& c, vrt::Dfs& d) {
  Fair f(c);
  d.begin();
  return run_all(c, f, [&](const std::vector<int>& en, int last) {
    bool le = false; for (int t : en) if (t == last) le = true;
    return d.pick(en, le);
  });
}

// explicit list of thread choices; falls back to the lowest enabled thread
inline vrt::RunResult run_list(vrt::Ctl& c, const std::vector<int>& ts) {
  Fair f(c); size_t i = 0;
  return run_all(c, f, [&](const std::vector<int>& en, int) {
    int t = i < ts.size() ? ts[i] : en[0]; ++i;
    for (int e : en) if (e == t) return t;
    return en[0];
  });
}

// guided: sched = list of (thread, expected site)
inline vrt::RunResult run_guided(vrt::Ctl& c, const std::vector<vrt::StepRec>& sched,
                                 const std::function<bool(const std::string& want, const std::string& got)>& same) {
  Fair f(c);
  vrt::RunResult r;
  for (auto& s : sched) {
    std::string got = c.site(s.t);
    if (!same(s.site, got)) { if (!r.drift) r.firstDrift = "thread " + std::to_string(s.t) + " at '" + got + "' expected '" + s.site + "'"; ++r.drift; }
    if (!f.enabled(s.t)) { ++r.unguided; continue; }
    r.steps.push_back({s.t, got});
    f.step(s.t);
  }
  auto rest = run_all(c, f, [&](const std::vector<int>& en, int) { return en[0]; });
  r.unguided += (long)rest.steps.size();
  for (auto& s : rest.steps) r.steps.push_back(s);
  r.deadlock = rest.deadlock;
  return r;
}

}  // namespace msched
