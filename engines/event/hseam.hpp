// Cooperative std::mutex for the auto-reset-event driver (C16): pthread_mutex_lock / pthread_mutex_unlock are defined in
// the driver executable (its definition wins over libc's), so that schedule points may be accepted while the event's
// mutex_ is held without ever blocking the token-passing controller:
//   lock   : trylock; contended -> spin point "event.h.mtx" (re-tried after another thread has run), acquired ->
//            schedule point "event.h.lock" (the thread is parked *holding* the mutex)
//   unlock : real unlock, then schedule point "event.h.unlock"
// A thread parked inside set()/set_done()/try_reset() therefore keeps the others out exactly as the real mutex does,
// and the atomicity of those sections is something the executions observe rather than something the harness assumes.
// Threads that are not controlled (the main thread; any thread while no controller exists) go straight to libc.
// Scheduling machinery only; no oracle depends on it.
#pragma once
#include "vrt.hpp"

#include <dlfcn.h>
#include <pthread.h>

namespace hseam {
using mfn = int (*)(pthread_mutex_t*);
template <class F> inline F real(const char* n) { return (F)dlsym(RTLD_NEXT, n); }
inline mfn r_lock() { static mfn f = real<mfn>("pthread_mutex_lock"); return f; }
inline mfn r_trylock() { static mfn f = real<mfn>("pthread_mutex_trylock"); return f; }
inline mfn r_unlock() { static mfn f = real<mfn>("pthread_mutex_unlock"); return f; }
inline bool controlled() { return vrt::tl_self != nullptr && vrt::g_ctl != nullptr; }
inline void park(const char* site, int kind) noexcept { vrt::Ctl::hook(site, kind, nullptr); }
}  // namespace hseam

extern "C" {
int pthread_mutex_lock(pthread_mutex_t* m) {
  if (!hseam::controlled()) return hseam::r_lock()(m);
  while (hseam::r_trylock()(m) != 0) hseam::park("event.h.mtx", 1);
  hseam::park("event.h.lock", 0);
  return 0;
}
int pthread_mutex_unlock(pthread_mutex_t* m) {
  int r = hseam::r_unlock()(m);
  if (hseam::controlled()) hseam::park("event.h.unlock", 0);
  return r;
}
}
