"""Engine `event` (C16): events and async_pass wake every waiter exactly once and rendezvous atomically.
 spec/event/EventV1.tla      <-> v1/async_manual_reset_event.hpp + source/async_manual_reset_event_v1.cpp
 spec/event/EventV2.tla      <-> v2/async_manual_reset_event.hpp + source/async_manual_reset_event_v2.cpp (+ cancellable)
 spec/event/AsyncPass.tla    <-> async_pass.hpp + source/async_pass.cpp (C++20 build)
 spec/event/AutoResetEvent.tla <-> async_auto_reset_event.hpp + source/async_auto_reset_event.cpp
 For each part: 1. generate scenarios (thread programs over the public API)  2. TLC: invariants on every interleaving of
 the implementation-shaped spec + termination under fairness, every transition exported  3. the exported behaviours are
 (a) turned into event logs and validated against the monitor (spec => monitor) and (b) for EventV1 replayed on the
 real code (guided)  4. bounded-preemption DFS and seeded random schedules of the real code  5. every recorded
 execution is validated by TLC against the monitor (EventMon / PassMon / AutoMon)."""
import itertools, json, os, sys, time

sys.path.insert(0, os.path.join(os.path.dirname(__file__), "..", "..", "tools"))
import vlib

ENG = "event"
W = lambda w: ["wait", w]
SET, RST, RDY = ["set"], ["reset"], ["ready"]
DR = lambda s: ["drain", s]
STOP = lambda w: ["stop", w]


def sig_of(evs):
    if evs and "p" in evs[0]:
        return "".join("%s:%d:%d:%d:%d:%d:%d;" % (e["e"], e["t"], e["w"], e["r"], e["c"], e["p"], e["m"]) for e in evs)
    return "".join("%s:%d:%d:%d:%d;" % (e["e"], e["t"], e["w"], e["r"], e["c"]) for e in evs)


def ev_line(e):
    return json.dumps(e, separators=(",", ":")) + "\n"


# ----------------------------------------------------------------------------- scenarios
def _mk(out, seen, impl, init, p1, p2, p3, sched=(1, 2, 3, 1), extra=None):
    sc = dict(impl=impl, init=init, prog=[list(p1), list(p2), list(p3)], sched=list(sched))
    if extra:
        sc.update(extra)
    ops = [o for p in sc["prog"] for o in p]
    for w in (1, 2, 3, 4):
        if ops.count(W(w)) > 1:
            return
    key = json.dumps(sc)
    if key in seen:
        return
    seen.add(key)
    sc["id"] = len(out) + 1
    out.append(sc)


SCALE = float(os.environ.get("VERIF_EVENT_SCALE", "1") or 1)     # development aid: scales the thorough tier's bounds


def thin(out, ncore, n):
    if n >= 100:
        n = max(8, int(n * SCALE))
    core, rest = out[:ncore], out[ncore:]
    step = max(1, len(rest) // max(1, n))
    out = core + rest[::step][:n]
    for i, s in enumerate(out):
        s["id"] = i + 1
    return out


def gen_v1(tier):
    out, seen = [], set()
    add = lambda *a, **k: _mk(out, seen, "v1", *a, **k)
    # hand-written core
    add(0, [W(1), DR(0)], [SET, RST, RDY], [W(2), DR(2)])
    add(1, [W(1)], [RST, SET], [W(2), W(3)], sched=(1, 1, 2, 1))
    add(0, [W(1), W(2)], [SET], [W(3), DR(0), RST])
    add(0, [W(1)], [SET, RST, SET], [W(2), RDY])
    add(0, [W(1), W(2), W(3)], [SET], [SET], sched=(3, 2, 1, 1))
    add(1, [W(1), DR(1)], [RST, RDY], [SET, W(2), DR(0)])
    add(0, [W(1), RDY], [W(2), SET], [RST, W(3)])
    add(0, [W(1)], [W(2)], [W(3), SET], sched=(2, 2, 2, 1))
    # generated family
    t1s = [[W(1)], [W(1), W(2)], [W(1), DR(0)], [W(1), RDY], [SET, W(1)]]
    t2s = [[SET], [SET, RST], [RST, SET], [SET, RST, SET], [SET, SET], [RST], [SET, RDY, RST]]
    t3s = [[W(3)], [W(3), DR(0)], [SET], [RST], [RDY, W(3)], [SET, W(3)], [W(3), RST], []]
    for init, t1, t2, t3 in itertools.product((0, 1), t1s, t2s, t3s):
        add(init, t1, t2, t3, sched=(1, 2, 2, 1))
    return thin(out, 8, 16 if tier == "quick" else 100)


def gen_v2(tier):
    out, seen = [], set()
    add = lambda *a, **k: _mk(out, seen, "v2", *a, **k)
    add(0, [W(1), DR(0)], [SET, RST, RDY], [W(2), STOP(2)])
    add(1, [W(1)], [RST, STOP(1), SET], [W(2), W(3)], sched=(1, 1, 2, 1))
    add(0, [W(1), W(2)], [STOP(1), STOP(2)], [SET])
    add(0, [W(1)], [SET, RST, SET], [STOP(1), RDY])
    add(0, [W(1), W(2), W(3)], [SET], [STOP(2), SET], sched=(3, 2, 1, 1))
    add(0, [STOP(1), W(1), DR(1)], [SET, RDY], [W(2), RST, DR(0)])
    add(0, [W(1)], [W(2), STOP(1)], [W(3), SET, STOP(3)], sched=(2, 2, 2, 1))
    add(1, [W(1), RDY], [STOP(1), RST], [W(2), SET])
    t1s = [[W(1)], [W(1), W(2)], [W(1), DR(0)], [STOP(1), W(1)], [SET, W(1)]]
    t2s = [[SET], [SET, RST], [RST, SET], [STOP(1), SET], [SET, STOP(1)], [STOP(1)], [SET, RDY, RST]]
    t3s = [[W(3)], [W(3), STOP(3)], [SET], [RST], [STOP(1), W(3)], [SET, W(3)], [W(3), RST], [STOP(2)]]
    for init, t1, t2, t3 in itertools.product((0, 1), t1s, t2s, t3s):
        ops = t1 + t2 + t3
        if any(ops.count(STOP(w)) > 1 for w in (1, 2, 3)):
            continue
        add(init, t1, t2, t3, sched=(1, 2, 2, 1))
    return thin(out, 8, 14 if tier == "quick" else 100)


# ----------------------------------------------------------------------------- shared run/validate
def run_real(ctx, part, exe, runs, area, mon, scns, mon_env=None, crash_is_lost_completion=False):
    """runs: [(mode, args, total)] ; executes, classifies deaths, validates every execution against the monitor."""
    rep = ctx.rep
    merged = os.path.join(ctx.work, "log_%s_all.ndjson" % part)
    open(merged, "w").close()
    t0 = time.time()
    for mode, args, total in runs:
        if total <= 0:
            continue
        lp = os.path.join(ctx.work, "log_%s_%s.ndjson" % (part, mode))
        sums, deaths = vlib.run_batches(ctx, exe, args, total, lp, timeout=1500 if ctx.quick else 6000)
        if any(d.get("rc") == -9 for d in deaths):
            # the driver process ran out of wall-clock time (overloaded machine): inconclusive, never a violation
            raise vlib.Broken("%s/%s: the driver did not finish within its time budget" % (part, mode))
        execs = sum(s["execs"] for s in sums)
        rep.evaluations += execs
        for s in sums:
            if mode == "guided":
                rep.drift += s["drift"]
                rep.unguided += s["unguided"]
            if mode == "probe":
                continue      # schedules of a deliberately wrong design: the real code is expected to differ from them
            if s.get("first_drift"):
                rep.note("%s/%s drift: %s" % (part, mode, s["first_drift"]))
            if s.get("obs_mismatch"):
                rep.note("%s/%s: %d executions whose event sequence differs from the specification's (sent to the monitor): %s"
                         % (part, mode, s["obs_mismatch"], s.get("first_mismatch", "")[:400]))
        for d in deaths:
            unit = d["x"]
            scn = scns[unit] if mode not in ("guided", "probe") and unit is not None and unit < len(scns) else None
            what = "%s in %s/%s execution unit %s: %s %s" % (d["event"], part, mode, unit, d.get("asan", ""), d.get("frame", ""))
            rec = dict(engine=ENG, part=part, mode=mode, event=d["event"], unit=unit, asan=d.get("asan"), frame=d.get("frame"),
                       where=d.get("where"), access=d.get("access"), what=what, detail=d.get("stderr_tail", ""), scenario=scn)
            fatal = d["event"] in ("Crash", "Terminate") or (d["event"] == "AsanReport" and d.get("asan") == "SEGV")
            if d["event"] in ("Deadlock", "Hang"):
                # the statement demands progress: a wait racing with set() is never stranded
                rep.violation(rec)
            elif crash_is_lost_completion and fatal:
                # fine-grained v2 family: the process died (SIGSEGV / abort / terminate) inside set()/start()/stop() of
                # the event, i.e. that call never returns and the waits registered before it are never resumed - the
                # "every wait started before a set() is resumed exactly once" clause.  (Sanitizer reports that do not
                # kill the call, e.g. a stale read, stay out-of-scope observations.)
                rec["what"] = ("%s inside an event operation (lost completion: the waits started before it are never resumed) in "
                               "%s/%s unit %s: %s %s %s" % (d["event"], part, mode, unit, d.get("asan") or "", d.get("frame") or "",
                                                          ((d.get("stderr_tail") or "").strip().splitlines() or [""])[-1][-170:]))
                rep.violation(rec)
            else:
                # C16 is not a lifetime property: memory events are out-of-scope observations (DESIGN 4, rule 3)
                rep.oos.append({k: rec[k] for k in ("part", "mode", "event", "unit", "asan", "frame", "where", "access", "what")})
        nex = 0
        with open(merged, "a") as f:
            for ln in open(lp):
                if ln.startswith('{"e":"Reset"'):
                    ln = '{"e":"Reset","m":"%s",' % mode + ln[len('{"e":"Reset",'):]
                    nex += 1
                f.write(ln)
        rep.note("%s/%s: %d executions" % (part, mode, execs))
        if mode == "random" and nex:
            ex = vlib.split_executions(lp)[0]
            rep.sample(dict(kind="recorded-trace-" + part, events=[json.loads(x) for x in ex[1][:40]]), cap=1)
    n, rejected = vlib.validate_batched(ctx, area, mon, merged, env=mon_env, max_reports=2)
    for ex in vlib.split_executions(merged)[:400000]:
        evs = ex[1]
        if len(evs) > 3:
            rep.distinct.add(hash(part + "".join(evs[1:])))
    for rj in rejected:
        head = rj["events"][0] if rj["events"] else {}
        scn = None
        for s in scns:
            if s["id"] == head.get("scn"):
                scn = s
        rep.violation(dict(engine=ENG, part=part, mode=head.get("m"), event="MonitorReject", unit=rj["x"], k=head.get("k"),
                           scenario=scn, scn=head.get("scn"),
                           what="%s rejects an execution of %s recorded in %s mode, scenario %s (matched %s of %s events)"
                                % (mon, part, head.get("m"), head.get("scn"), rj.get("prefix"), rj.get("total")),
                           events=rj["events"]))
    rep.note("%s: %d executions validated against %s, %.1fs incl. validation" % (part, n, mon, time.time() - t0))


def spec_vs_monitor(ctx, part, walks, scns, area, mon, init_of=lambda sc: sc.get("init", 0)):
    """Behaviours of the implementation-shaped spec, rendered as event logs, must be accepted by the monitor."""
    byid = {s["id"]: s for s in scns}
    lp = os.path.join(ctx.work, "speclog_%s.ndjson" % part)
    with open(lp, "w") as f:
        for i, w in enumerate(walks):
            sc = byid[w[0]["scn"]]
            f.write(ev_line(dict(e="Reset", x=i, k=0, scn=sc["id"], init=init_of(sc))))
            for e in w:
                for evr in e["evs"]:
                    f.write(ev_line(evr))
    tr0 = ctx.rep.traces
    ev0 = ctx.rep.events
    n, rejected = vlib.validate_batched(ctx, area, mon, lp)
    ctx.rep.traces, ctx.rep.events = tr0, ev0      # these are model behaviours, not executions of the real code
    if rejected:
        raise vlib.Broken("the monitor %s rejects a behaviour of the specification of %s (spec or monitor is wrong): %s"
                          % (mon, part, json.dumps(rejected[0]["events"])[:3000]))
    ctx.rep.note("%s: %d behaviours of the specification rendered as event logs, all accepted by %s" % (part, n, mon))


_COMMON = ["inplace_stop_token.cpp", "async_stack.cpp", "exception.cpp"]
_BUILT = {}


def build_driver(ctx, which):
    """cached per process; run() builds all drivers before the parts start (vlib.build is not re-entrant per target)"""
    if which not in _BUILT:
        if which == "event":
            _BUILT[which] = vlib.build(ctx, "event_driver", ["engines/event/driver_event.cpp"],
                                       lib=_COMMON + ["async_manual_reset_event_v1.cpp", "async_manual_reset_event_v2.cpp",
                                                      "atomic_intrusive_list.cpp"])
        elif which == "pass":
            _BUILT[which] = vlib.build(ctx, "pass_driver", ["engines/event/driver_pass.cpp"], std="c++20",
                                       lib=_COMMON + ["async_pass.cpp"])
        else:
            # NDEBUG: release behaviour (UNIFEX_ASSERT is assert(); a wrong outcome must reach the monitor, not abort)
            _BUILT[which] = vlib.build(ctx, "auto_driver", ["engines/event/driver_auto.cpp"], defs=["NDEBUG"],
                                       lib=_COMMON + ["async_manual_reset_event_v1.cpp", "async_auto_reset_event.cpp"])
    return _BUILT[which]


def gen_v2fine(tier):
    """2-3 waiters parked on an unset v2 event, a stop for the oldest / middle / newest racing set() (and set+reset)
    from another thread; executed with the schedule points inside atomic_intrusive_list.cpp accepted."""
    out, seen = [], set()

    def add(p1, p2, p3, init=0, sched=(1, 2, 3, 1)):
        _mk(out, seen, "v2", init, p1, p2, p3, sched=sched, extra=dict(fine=1))

    add([W(1), W(2)], [STOP(1)], [SET])                 # oldest of two
    add([W(1), W(2)], [STOP(2)], [SET])                 # newest of two
    add([W(1), W(2), W(3)], [STOP(1)], [SET])           # oldest of three
    add([W(1), W(2), W(3)], [STOP(2)], [SET])           # middle
    add([W(1), W(2)], [STOP(1)], [SET, RST])
    add([W(1), W(2)], [STOP(1), STOP(2)], [SET])
    add([W(1)], [W(2), STOP(1)], [SET])                 # registration, cancellation and set() all concurrent
    add([W(1), W(2)], [STOP(1)], [SET, DR(0), RST, RDY])
    if tier != "quick":
        add([W(1), W(2), W(3)], [STOP(3)], [SET])
        add([W(1), W(2), W(3)], [STOP(1), STOP(3)], [SET, RST])
        add([W(1), W(2)], [STOP(2), W(3)], [SET, RST, SET])
        add([W(1), W(2)], [SET], [STOP(1), RST, W(3)])
        add([W(1), W(2)], [STOP(1)], [RST, SET], init=1)
        add([W(1)], [W(2), STOP(2)], [W(3), SET, STOP(3)])
    return out


def part_v2fine(ctx):
    """v2 event over the real latchable list at link-lock granularity (monitor + progress/crash oracle only: the
    implementation-shaped model of the list itself is spec/prim/AtomicIntrusiveList, refined to AbstractList there)."""
    scns = gen_v2fine(ctx.tier)
    sp = os.path.join(ctx.work, "scn_v2fine.json")
    json.dump(scns, open(sp, "w"))
    exe = build_driver(ctx, "event")
    # bound 1 = every schedule with at most one preemption (complete for these scenarios within the cap)
    runs = [("dfs", ["--mode", "dfs", "--scenarios", sp, "--bound", 1 if ctx.quick else 2, "--cap", 400 if ctx.quick else 4000], len(scns)),
            ("random", ["--mode", "random", "--scenarios", sp, "--seed", ctx.seed, "--cap", 40 if ctx.quick else 400], len(scns))]
    run_real(ctx, "v2fine", exe, runs, "event", "EventMon", scns, crash_is_lost_completion=True)


def gen_pass(tier):
    out, seen = [], set()
    CALL = lambda x, p: ["call", x, p]
    THROW = lambda x: ["throw", x]
    ACC = lambda x: ["accept", x]
    TC = lambda p: ["trycall", p]
    TA, IDLE = ["tryaccept"], ["idle"]

    def add(p1, p2, p3, sched=(1, 2, 3, 1)):
        ops = p1 + p2 + p3
        # precondition of async_pass: at most one suspended caller and one suspended acceptor (std::terminate otherwise)
        if sum(1 for o in ops if o[0] in ("call", "throw")) > 1 or sum(1 for o in ops if o[0] == "accept") > 1:
            return
        _mk(out, seen, "pass", 0, p1, p2, p3, sched=sched)

    add([CALL(1, 7), DR(0)], [ACC(2), IDLE], [STOP(1), TA])
    add([THROW(1)], [ACC(2), STOP(2)], [TC(5), DR(2)])
    add([CALL(1, 9)], [TA, TA], [STOP(1), IDLE], sched=(2, 2, 3, 1))
    add([ACC(2)], [TC(4), TC(5)], [STOP(2), DR(0)])
    add([STOP(1), CALL(1, 3)], [ACC(2)], [STOP(2)])
    add([CALL(1, 6)], [ACC(2), DR(0)], [TA, TC(8)], sched=(3, 3, 1, 1))
    add([THROW(1), IDLE], [TA], [STOP(1)])
    add([CALL(1, 2)], [STOP(2), ACC(2)], [STOP(1), TC(9)])
    # cancellation of a parked operation racing with the counterpart that claims it (window claim -> resume_)
    add([THROW(1)], [ACC(2)], [STOP(1)])
    add([THROW(1)], [TA], [STOP(1)])
    add([CALL(1, 4)], [ACC(2)], [STOP(1)])
    add([CALL(1, 4)], [TA], [STOP(1)])
    add([ACC(2)], [CALL(1, 5)], [STOP(2)])
    add([ACC(2)], [THROW(1)], [STOP(2)])
    add([ACC(2)], [TC(6)], [STOP(2)])
    add([THROW(1)], [ACC(2), DR(0)], [STOP(1), STOP(2)])
    t1s = [[CALL(1, 7)], [THROW(1)], [CALL(1, 7), DR(0)], [STOP(1), CALL(1, 7)], [TC(3)], [IDLE, CALL(1, 5)]]
    t2s = [[ACC(2)], [ACC(2), DR(0)], [TA], [STOP(2), ACC(2)], [TA, ACC(2)], [ACC(2), IDLE]]
    t3s = [[STOP(1)], [STOP(2)], [STOP(1), STOP(2)], [TA], [TC(4)], [TC(4), TA], [STOP(2), TC(4)], [STOP(1), TA], [IDLE]]
    for t1, t2, t3 in itertools.product(t1s, t2s, t3s):
        ops = t1 + t2 + t3
        if any(ops.count(STOP(w)) > 1 for w in (1, 2)):
            continue
        add(t1, t2, t3, sched=(1, 2, 2, 1))
    return thin(out, 16, 12 if tier == "quick" else 100)


def part_pass(ctx):
    scns = gen_pass(ctx.tier)
    sp, bp, nb = tlc_behaviours(ctx, "pass", "AsyncPass", scns, "PassMon", 3000 if ctx.quick else 6000)
    exe = build_driver(ctx, "pass")
    run_real(ctx, "pass", exe, std_runs(ctx, sp, bp, nb, len(scns), 30 if ctx.quick else 100, 10 if ctx.quick else 30),
             "event", "PassMon", scns)


def gen_auto(tier):
    out, seen = [], set()
    NX = lambda n: ["next", n]
    SD = ["setdone"]

    def add(init, p1, p2, p3, sched=(1, 1, 1, 1)):
        sc = dict(impl="auto", init=init, prog=[list(p1), list(p2), list(p3)], sched=list(sched))
        key = json.dumps(sc)
        if key not in seen:
            seen.add(key)
            sc["id"] = len(out) + 1
            out.append(sc)

    add(0, [NX(1), NX(2)], [SET, SET], [STOP(2)], sched=(1, 2, 3, 1))
    add(1, [NX(1), NX(2), NX(3)], [SET, SD], [SET], sched=(1, 1, 2, 1))
    add(0, [NX(1)], [STOP(1)], [], sched=(2, 1, 2, 1))
    add(0, [NX(1), NX(2)], [SET], [SET, SD])
    add(0, [NX(1), NX(2), NX(3)], [SET, SET, SET], [STOP(3)])
    add(0, [STOP(1)], [NX(1), NX(2)], [SET])
    # two overlapping producers + a consumer with >= 2 next(): state_ / inner event atomicity under the mutex
    add(0, [NX(1), NX(2)], [SET], [SET])
    add(0, [NX(1), NX(2), NX(3)], [SET], [SET])
    add(0, [NX(1), NX(2)], [SET, SET], [SET])
    add(0, [NX(1), NX(2)], [SET], [SD])
    add(1, [NX(1), NX(2)], [SET], [SET])
    add(0, [NX(1), NX(2)], [SET], [STOP(1), SET])
    t1s = [[NX(1)], [NX(1), NX(2)], [NX(1), NX(2), NX(3)]]
    t2s = [[SET], [SET, SET], [SET, SD], [SD], [SET, SET, SET], [SD, SET]]
    t3s = [[STOP(1)], [STOP(2)], [SET], [], [SD], [STOP(2), SET], [SET, STOP(1)]]
    for init, t1, t2, t3 in itertools.product((0, 1), t1s, t2s, t3s):
        add(init, t1, t2, t3, sched=(1, 2, 1, 1))
    return thin(out, 12, 8 if tier == "quick" else 100)


def part_auto(ctx):
    rep = ctx.rep
    scns = gen_auto(ctx.tier)
    sp, bp, nb = tlc_behaviours(ctx, "auto", "AutoResetEvent", scns, "AutoMon", 800 if ctx.quick else 6000)
    # ---- the seeded-bad design "event_.set() after the unlock" (Variant = "notify_outside"): TLC must refute it, and
    # its behaviours give schedules that sit in the window between a section's unlock and what follows it ("probe"
    # replays: on the real code they are ordinary executions, validated by the monitor; not counted as drift)
    multi = [s for s in scns if sum(1 for p in s["prog"] for o in p if o[0] in ("set", "setdone", "stop")) >= 2
             and any(o[0] == "next" for p in s["prog"] for o in p)][:10 if ctx.quick else 40]
    sp2 = os.path.join(ctx.work, "scn_auto_bad.json")
    json.dump(multi, open(sp2, "w"))
    for inv in ("InnerConsistentWhenFree", "DoneOnlyAfterDoneRequest"):
        r = vlib.model_check(ctx, "event", "AutoResetEventMC", cfg="AutoResetEventBad_%s.cfg" % inv,
                             env={"SCENARIOS": sp2, "EDGES": os.path.join(ctx.work, "unused.ndjson")}, must_hold=False, timeout=900)
        if r["kind"] != "invariant":
            raise vlib.Broken("the seeded-bad variant of AutoResetEvent (notify outside the lock) is not refuted by %s (%s)"
                              % (inv, r["kind"]))
    rep.note("auto: TLC refutes the variant 'event_.set() after the unlock' (InnerConsistentWhenFree, DoneOnlyAfterDoneRequest)")
    edges2 = os.path.join(ctx.work, "edges_auto_bad.ndjson")
    rb = vlib.tlc(os.path.join(ctx.work, "tlc"), os.path.join(vlib.VERIF, "spec", "event"), "AutoResetEventMC",
                  cfg="AutoResetEventBadExport.cfg", env={"SCENARIOS": sp2, "EDGES": edges2}, workers=1, timeout=1500)
    if not rb["ok"]:
        raise vlib.Broken("export of the bad variant's behaviours failed: " + rb["out"][-1500:])
    adj, inits, _ = vlib.read_edges(edges2)
    walks = vlib.edge_cover(adj, inits)
    cap = 800 if ctx.quick else 6000
    if len(walks) > cap:
        ctx.rng.shuffle(walks)
        walks = walks[:cap]
    bp2 = os.path.join(ctx.work, "beh_auto_probe.ndjson")
    seen, np_ = set(), 0
    with open(bp2, "w") as f:
        for w in walks:
            sched = [[e["th"], e["pc"]] for e in w if e["th"] != 0]
            k = json.dumps([w[0]["scn"], sched])
            if k in seen:
                continue
            seen.add(k)
            f.write(json.dumps(dict(scn=w[0]["scn"], sched=sched, sig=sig_of([x for e in w for x in e["evs"]]))) + "\n")
            np_ += 1
    exe = build_driver(ctx, "auto")
    runs = std_runs(ctx, sp, bp, nb, len(scns), 30 if ctx.quick else 100, 12 if ctx.quick else 30)
    runs.insert(1, ("probe", ["--mode", "guided", "--scenarios", sp, "--behaviours", bp2], np_))
    run_real(ctx, "auto", exe, runs, "event", "AutoMon", scns)


def tlc_behaviours(ctx, part, module, scns, mon, max_guided):
    """model-check module+MC / module+Live on the scenarios, export edges, check spec => monitor, write behaviours."""
    rep = ctx.rep
    sp = os.path.join(ctx.work, "scn_%s.json" % part)
    json.dump(scns, open(sp, "w"))
    edges = os.path.join(ctx.work, "edges_%s.ndjson" % part)
    vlib.model_check(ctx, "event", module + "MC", env={"SCENARIOS": sp, "EDGES": edges}, workers=1, timeout=1500)
    vlib.model_check(ctx, "event", module + "Live", cfg=module + "Live.cfg", env={"SCENARIOS": sp}, timeout=1500)
    adj, inits, nedges = vlib.read_edges(edges)
    walks = vlib.edge_cover(adj, inits)
    if not ctx.quick:
        walks += vlib.random_walks(adj, inits, 2000, ctx.rng)
    spec_vs_monitor(ctx, part, walks[::max(1, len(walks) // (500 if ctx.quick else 4000))], scns, "event", mon)
    if not ctx.quick:
        max_guided = max(300, int(max_guided * SCALE))
    if len(walks) > max_guided:
        ctx.rng.shuffle(walks)
        walks = walks[:max_guided]
    bp = os.path.join(ctx.work, "beh_%s.ndjson" % part)
    seen, nb = set(), 0
    with open(bp, "w") as f:
        for w in walks:
            sched = [[e["th"], e["pc"]] for e in w if e["th"] != 0]
            b = dict(scn=w[0]["scn"], sched=sched, sig=sig_of([x for e in w for x in e["evs"]]))
            k = json.dumps([b["scn"], sched])
            if k in seen:
                continue
            seen.add(k)
            f.write(json.dumps(b) + "\n")
            nb += 1
            if nb <= 1:
                rep.sample(dict(kind="tlc-behaviour-" + part, scenario=scns[b["scn"] - 1], schedule=sched), cap=1)
    rep.note("%s: edges exported %d, behaviours replayed (edge-covering%s) %d" % (part, nedges, "" if ctx.quick else " + random walks", nb))
    return sp, bp, nb


def std_runs(ctx, sp, bp, nb, nscn, dfs_cap, rnd_cap):
    if not ctx.quick:
        dfs_cap, rnd_cap = max(5, int(dfs_cap * SCALE)), max(3, int(rnd_cap * SCALE))
    return [("guided", ["--mode", "guided", "--scenarios", sp, "--behaviours", bp], nb),
            ("dfs", ["--mode", "dfs", "--scenarios", sp, "--bound", 2 if ctx.quick else 3, "--cap", dfs_cap], nscn),
            ("random", ["--mode", "random", "--scenarios", sp, "--seed", ctx.seed, "--cap", rnd_cap], nscn)]


def part_manual(ctx, impl):
    module = "EventV1" if impl == "v1" else "EventV2"
    scns = gen_v1(ctx.tier) if impl == "v1" else gen_v2(ctx.tier)
    sp, bp, nb = tlc_behaviours(ctx, impl, module, scns, "EventMon", 500 if ctx.quick else 6000)
    exe = build_driver(ctx, "event")
    run_real(ctx, impl, exe, std_runs(ctx, sp, bp, nb, len(scns), 30 if ctx.quick else 100, 10 if ctx.quick else 30),
             "event", "EventMon", scns)


PARTS = {"v1": lambda c: part_manual(c, "v1"), "v2": lambda c: part_manual(c, "v2"), "pass": part_pass, "auto": part_auto,
         "v2fine": part_v2fine}


def run(ctx):
    import concurrent.futures, copy, random
    rep = ctx.rep
    rep.assume("sequentially consistent interleavings at schedule-point granularity (x86-TSO hardware; weak-memory reorderings not explored)")
    rep.assume("<= 3 controlled threads, <= 4 waiters per scenario; every receiver's scheduler is a manual recording scheduler "
               "whose queue is drained only by harness threads")
    rep.assume("async_pass: at most one suspended caller and one suspended acceptor at a time (the library calls std::terminate otherwise)")
    parts = [x for x in os.environ.get("VERIF_EVENT_PARTS", "").split(",") if x] or list(PARTS)   # (development aid)
    # the parts are independent: run them concurrently, each with its own report, and merge
    subs = []
    for i, name in enumerate(parts):
        sub = copy.copy(ctx)
        sub.rep = vlib.Report(ctx.prop, ctx.tier, ctx.seed)
        sub.rng = random.Random(ctx.seed * 1000 + i)
        subs.append((name, sub))
    for name in parts:
        build_driver(ctx, {"v1": "event", "v2": "event", "v2fine": "event", "pass": "pass", "auto": "auto"}[name])
    with concurrent.futures.ThreadPoolExecutor(max_workers=min(len(subs), max(1, vlib.NCPU))) as ex:
        futs = [(name, sub, ex.submit(PARTS[name], sub)) for name, sub in subs]
        errs = []
        for name, sub, f in futs:
            try:
                f.result()
            except vlib.Broken as e:
                errs.append("%s: %s" % (name, e))
            r = sub.rep
            rep.mc += r.mc
            rep.traces += r.traces
            rep.events += r.events
            rep.evaluations += r.evaluations
            rep.distinct |= r.distinct
            rep.samples += r.samples
            rep.violations += r.violations
            rep.oos += r.oos
            rep.drift += r.drift
            rep.unguided += r.unguided
            rep.notes += r.notes
    if errs:
        raise vlib.Broken("; ".join(errs))
    rep.exhaustive = True
    rep.rule("executions = guided replays of TLC behaviours + DFS(preemption-bounded) + seeded random schedules of the real "
             "primitives (v1/v2 manual-reset event, async_pass, auto-reset event); distinct_nontrivial = distinct recorded event "
             "sequences with more than 3 events")
