// C16 driver for async_pass (C++20 build): executes scenarios over async_call / async_throw / async_accept / try_call /
// try_accept / is_idle / stop on the real async_pass<Payload> with controlled threads.  Receivers name a recording manual
// scheduler through get_scheduler; completions log the context they were delivered in, the payload an acceptor received
// and whether the caller's argument object was moved from.
// modes: guided (TLC behaviours of AsyncPass), dfs (bounded-preemption enumeration), random (seeded).
#include "evh.hpp"

#include <unifex/async_pass.hpp>
#include <unifex/inplace_stop_token.hpp>

#include <nlohmann/json.hpp>

#include <fstream>
#include <set>
#include <stdexcept>

using json = nlohmann::json;

struct Payload {
  int v = 0;
  bool moved = false;
  Payload() = default;
  explicit Payload(int x) : v(x) {}
  Payload(Payload&& o) noexcept : v(o.v) { o.moved = true; }
  Payload& operator=(Payload&& o) noexcept { v = o.v; moved = false; o.moved = true; return *this; }
  Payload(const Payload&) = delete;
};
using Pass = unifex::async_pass<Payload>;

static void emitp(const char* e, int t, int w, long r, long c, long p, long m) {
  vrt::ev("{\"e\":\"%s\",\"t\":%d,\"w\":%d,\"r\":%ld,\"c\":%ld,\"p\":%ld,\"m\":%ld}", e, t, w, r, c, p, m);
  auto& g = evh::g_sig;
  g += e; for (long x : {(long)t, (long)w, r, c, p, m}) { g += ':'; g += std::to_string(x); } g += ';';
}

struct Op { char k; int a; int b; };   // 'c' call x p, 't' throw x, 'a' accept x, 'C' trycall p, 'A' tryaccept, 'x' stop x, 'i' idle, 'd' drain s
using Prog = std::vector<Op>;
struct Scenario { int id; Prog prog[4]; int sched[5]; };

static Prog parseProg(const json& j) {
  Prog p;
  for (auto& o : j) {
    std::string k = o[0].get<std::string>();
    int a = o.size() > 1 ? o[1].get<int>() : 0, b = o.size() > 2 ? o[2].get<int>() : 0;
    if (k == "call") p.push_back({'c', a, b});
    else if (k == "throw") p.push_back({'t', a, 0});
    else if (k == "accept") p.push_back({'a', a, 0});
    else if (k == "trycall") p.push_back({'C', a, 0});
    else if (k == "tryaccept") p.push_back({'A', 0, 0});
    else if (k == "stop") p.push_back({'x', a, 0});
    else if (k == "idle") p.push_back({'i', 0, 0});
    else if (k == "drain") p.push_back({'d', a, 0});
  }
  return p;
}

struct Ent {
  char kind = 0;
  int sched = 0;
  unifex::inplace_stop_source ss;
  Payload payload;
  void* mem = nullptr;
  void (*dtor)(void*) = nullptr;
  bool begun = false, completed = false;
};
struct World {
  const Scenario* scn;
  Pass pass;
  evh::SchedQ sq[4];
  Ent en[5];
  evh::Graveyard grave;
  explicit World(const Scenario* s) : scn(s) {
    for (int i = 0; i < 4; ++i) sq[i].id = i;
    for (int i = 1; i <= 4; ++i) en[i].sched = s->sched[i];
  }
  void complete(int x, int ch, int p) noexcept {
    Ent& e = en[x];
    emitp("Done", vrt::self_id(), x, ch, evh::tl_ctx, p, (e.kind != 'a' && e.payload.moved) ? 1 : 0);
    e.completed = true;
    void* m = e.mem; e.mem = nullptr;
    if (m) { e.dtor(m); grave.bury(m); }
  }
};
struct RcvBase {
  World* w; int x;
  friend evh::RecSched tag_invoke(unifex::tag_t<unifex::get_scheduler>, const RcvBase& r) noexcept {
    return evh::RecSched{&r.w->sq[r.w->en[r.x].sched]};
  }
  friend unifex::inplace_stop_token tag_invoke(unifex::tag_t<unifex::get_stop_token>, const RcvBase& r) noexcept {
    return r.w->en[r.x].ss.get_token();
  }
};
struct CallRcv : RcvBase {
  void set_value() noexcept { World* ww = w; int i = x; ww->complete(i, 1, 0); }
  template <class E> void set_error(E&&) noexcept { World* ww = w; int i = x; ww->complete(i, 3, 0); }
  void set_done() noexcept { World* ww = w; int i = x; ww->complete(i, 2, 0); }
};
struct AccRcv : RcvBase {
  void set_value(Payload&& p) noexcept { World* ww = w; int i = x; int v = p.v; ww->complete(i, 1, v); }
  template <class E> void set_error(E&&) noexcept { World* ww = w; int i = x; ww->complete(i, 3, 0); }
  void set_done() noexcept { World* ww = w; int i = x; ww->complete(i, 2, 0); }
};

using CallOpT = decltype(unifex::connect(std::declval<Pass&>().async_call(std::declval<Payload&>()), std::declval<CallRcv>()));
using ThrowOpT = decltype(unifex::connect(std::declval<Pass&>().async_throw(std::declval<std::runtime_error>()), std::declval<CallRcv>()));
using AccOpT = decltype(unifex::connect(std::declval<Pass&>().async_accept(), std::declval<AccRcv>()));

static void idle(World& w, int t) {
  emitp("IdleB", t, 0, -1, 0, 0, 0); bool r = w.pass.is_idle(); emitp("IdleE", t, 0, r ? 1 : 0, 0, 0, 0);
}

static void runProg(World& w, const Prog& p) {
  int t = vrt::self_id();
  for (auto op : p) {
    UNIFEX_VERIF_YIELD("event.op");
    switch (op.k) {
      case 'c': {
        Ent& e = w.en[op.a]; if (e.begun) break; e.begun = true; e.kind = 'c';
        e.payload = Payload(op.b); e.payload.moved = false;
        emitp("CallB", t, op.a, -1, e.sched, op.b, 0);
        void* m = w.grave.alloc(sizeof(CallOpT));
        auto* o = ::new (m) CallOpT(unifex::connect(w.pass.async_call(e.payload), CallRcv{{&w, op.a}}));
        e.mem = m; e.dtor = [](void* q) { static_cast<CallOpT*>(q)->~CallOpT(); };
        unifex::start(*o);
        emitp("CallE", t, op.a, -1, 0, 0, 0);
        break;
      }
      case 't': {
        Ent& e = w.en[op.a]; if (e.begun) break; e.begun = true; e.kind = 't';
        emitp("ThrowB", t, op.a, -1, e.sched, 0, 0);
        void* m = w.grave.alloc(sizeof(ThrowOpT));
        auto* o = ::new (m) ThrowOpT(unifex::connect(w.pass.async_throw(std::runtime_error("boom")), CallRcv{{&w, op.a}}));
        e.mem = m; e.dtor = [](void* q) { static_cast<ThrowOpT*>(q)->~ThrowOpT(); };
        unifex::start(*o);
        emitp("ThrowE", t, op.a, -1, 0, 0, 0);
        break;
      }
      case 'a': {
        Ent& e = w.en[op.a]; if (e.begun) break; e.begun = true; e.kind = 'a';
        emitp("AccB", t, op.a, -1, e.sched, 0, 0);
        void* m = w.grave.alloc(sizeof(AccOpT));
        auto* o = ::new (m) AccOpT(unifex::connect(w.pass.async_accept(), AccRcv{{&w, op.a}}));
        e.mem = m; e.dtor = [](void* q) { static_cast<AccOpT*>(q)->~AccOpT(); };
        unifex::start(*o);
        emitp("AccE", t, op.a, -1, 0, 0, 0);
        break;
      }
      case 'C': {
        Payload tmp(op.a);
        emitp("TryCallB", t, 0, -1, 0, op.a, 0);
        bool r = w.pass.try_call(std::move(tmp));
        emitp("TryCallE", t, 0, r ? 1 : 0, 0, 0, 0);
        break;
      }
      case 'A': {
        emitp("TryAccB", t, 0, -1, 0, 0, 0);
        long rv = 0;
        try { auto r = w.pass.try_accept(); if (r) rv = std::get<0>(*r).v; } catch (...) { rv = -1; }
        emitp("TryAccE", t, 0, rv, 0, 0, 0);
        break;
      }
      case 'x': emitp("Stop", t, op.a, -1, 0, 0, 0); w.en[op.a].ss.request_stop(); break;
      case 'i': idle(w, t); break;
      case 'd': evh::drain(w.sq, op.a); break;
    }
  }
}

// main thread, after all controlled threads finished; false = some operation neither completed nor could be cancelled
static bool finish(World& w) {
  bool clean = true;
  evh::drain(w.sq, 0);
  idle(w, 0);
  emitp("Quiesce", 0, 0, -1, 0, 0, 0);
  for (int i = 1; i <= 4; ++i) {
    Ent& e = w.en[i];
    if (e.begun && !e.completed && e.mem) {
      emitp("Stop", 0, i, -1, 0, 0, 0);
      e.ss.request_stop();
      evh::drain(w.sq, 0);
      if (e.mem) clean = false;
    }
  }
  return clean;
}

static bool sameSite(const std::string& want, const std::string& got) {
  if (want == "pass.dereg_wait") return got == "spin_wait";
  return got == "event." + want;
}

struct Stats {
  long execs = 0, steps = 0, drift = 0, unguided = 0, obsMismatch = 0, units = 0;
  std::string firstDrift, firstMismatch;
  std::set<std::string> distinctSched;
};

static void runOne(const Scenario& sc, long x, long k, Stats& st, const std::function<vrt::RunResult(vrt::Ctl&)>& drive,
                   const std::string* expectSig) {
  vrt::ev("{\"e\":\"Reset\",\"x\":%ld,\"k\":%ld,\"scn\":%d}", x, k, sc.id);
  evh::g_sig.clear();
  auto w = std::make_unique<World>(&sc);
  vrt::RunResult rr;
  {
    vrt::Ctl c; c.accept = {"event.", "spin_wait"};
    for (int t = 1; t <= 3; ++t) c.spawn(t, [&, t] { runProg(*w, w->scn->prog[t]); });
    c.start_all();
    rr = drive(c);
    if (rr.deadlock) {
      std::string s = vrt::sched_json(rr);
      vrt::ev("{\"e\":\"Deadlock\",\"sched\":%s}", s.c_str());
      vrt::log_flush();
      std::fprintf(stderr, "deadlock in scenario %d schedule %s\n", sc.id, s.c_str());
      _exit(75);
    }
    c.join();
  }
  if (!finish(*w)) (void)w.release();
  ++st.execs; st.steps += (long)rr.steps.size(); st.drift += rr.drift ? 1 : 0; st.unguided += rr.unguided;
  if (rr.drift && st.firstDrift.empty()) st.firstDrift = "unit " + std::to_string(x) + ": " + rr.firstDrift;
  st.distinctSched.insert(std::to_string(sc.id) + ":" + vrt::sched_json(rr));
  if (expectSig) {
    const std::string& got = evh::g_sig;
    if (got != *expectSig) {
      ++st.obsMismatch; if (st.firstMismatch.empty()) st.firstMismatch = "unit " + std::to_string(x) + " got " + got + " want " + *expectSig;
    }
  }
}

int main(int argc, char** argv) {
  vrt::Args a(argc, argv);
  vrt::install_handlers();
  std::string mode = a.str("mode", "guided");
  std::vector<Scenario> scns;
  { std::ifstream f(a.str("scenarios")); json j; f >> j;
    for (auto& s : j) { Scenario sc; sc.id = s["id"].get<int>();
      for (int t = 1; t <= 3; ++t) sc.prog[t] = parseProg(s["prog"][t - 1]);
      for (int i = 1; i <= 4; ++i) sc.sched[i] = i <= (int)s["sched"].size() ? s["sched"][i - 1].get<int>() : 1;
      scns.push_back(sc); } }
  std::map<int, const Scenario*> byId; for (auto& s : scns) byId[s.id] = &s;
  if (a.has("log")) vrt::log_open(a.str("log").c_str());
  long from = a.num("from", 0), to = a.num("to", 1L << 40);
  Stats st;
  if (mode == "guided") {
    std::ifstream in(a.str("behaviours")); std::string line; long x = -1;
    while (std::getline(in, line)) {
      if (line.empty()) continue;
      ++x; if (x < from || x >= to) continue;
      json b = json::parse(line);
      const Scenario& sc = *byId.at(b["scn"].get<int>());
      std::vector<vrt::StepRec> sched;
      for (auto& s : b["sched"]) sched.push_back({s[0].get<int>(), s[1].get<std::string>()});
      std::string sig = b["sig"].get<std::string>();
      ++st.units;
      runOne(sc, x, 0, st, [&](vrt::Ctl& c) { return vrt::run_guided(c, sched, sameSite); }, &sig);
    }
  } else {
    long cap = a.num("cap", 2000); int bound = (int)a.num("bound", 2); unsigned seed = (unsigned)a.num("seed", 1);
    for (long x = from; x < to && x < (long)scns.size(); ++x) {
      const Scenario& sc = scns[x]; ++st.units;
      if (mode == "dfs") {
        vrt::Dfs d; d.bound = bound; long k = 0;
        do { runOne(sc, x, k, st, [&](vrt::Ctl& c) { return vrt::run_dfs(c, d); }, nullptr); ++k; } while (d.advance() && k < cap);
      } else {
        std::mt19937 rng(seed * 7919u + (unsigned)x);
        for (long k = 0; k < cap; ++k) runOne(sc, x, k, st, [&](vrt::Ctl& c) { return vrt::run_random(c, rng, 40); }, nullptr);
      }
    }
  }
  vrt::log_close();
  json s = {{"mode", mode}, {"units", st.units}, {"execs", st.execs}, {"steps", st.steps}, {"drift", st.drift}, {"unguided", st.unguided},
            {"obs_mismatch", st.obsMismatch}, {"distinct_schedules", (long)st.distinctSched.size()},
            {"first_drift", st.firstDrift}, {"first_mismatch", st.firstMismatch}};
  std::printf("%s\n", s.dump().c_str());
  return 0;
}
