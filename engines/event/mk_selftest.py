#!/usr/bin/env python3
"""Builds engines/event/selftest.json: each mutant is a textual edit of the (hooked) worktree rendered as a unified
diff (git apply -p1).  Usage: mk_selftest.py <worktree>   (development aid; the json is the deliverable)"""
import difflib, json, os, sys

WT = sys.argv[1] if len(sys.argv) > 1 else "/tmp/wt_event"
M = []


def mut(name, expect, parts, file, old, new, why):
    M.append(dict(name=name, expect=expect, parts=parts, file=file, old=old, new=new, why=why))


V1C = "source/async_manual_reset_event_v1.cpp"
V1H = "include/unifex/v1/async_manual_reset_event.hpp"
V2H = "include/unifex/v2/async_manual_reset_event.hpp"
V2C = "source/async_manual_reset_event_v2.cpp"
PH = "include/unifex/async_pass.hpp"
PC = "source/async_pass.cpp"
AC = "source/async_auto_reset_event.cpp"

mut("v1_set_resumes_only_first", "violation", "v1", V1C,
    "    std::exchange(op, op->next_)->set_value();\n",
    "    std::exchange(op, nullptr)->set_value();\n",
    "set() resumes only the first waiter of the stack")
mut("v1_start_or_wait_no_recheck", "violation", "v1", V1C,
    "  do {\n    UNIFEX_VERIF_YIELD(\"event.v1.sow_cas\");\n    if (top == signalledState) {\n      // Already in the signalled state; don't push it.\n      op.set_value();\n      return;\n    }\n",
    "  if (top == signalledState) {\n    op.set_value();\n    return;\n  }\n  do {\n    UNIFEX_VERIF_YIELD(\"event.v1.sow_cas\");\n",
    "signalled state only checked before the CAS loop: a wait racing with set() is pushed on top of the signalled state (stranded)")
mut("v1_reset_clears_waiters", "violation", "v1", V1H,
    "    (void)state_.compare_exchange_strong(\n        oldState, nullptr, std::memory_order_acq_rel);\n",
    "    (void)oldState;\n    state_.store(nullptr, std::memory_order_release);\n",
    "reset() stores nullptr unconditionally: drops the registered waiters")
mut("v1_set_skips_when_waiters", "violation", "v1", V1C,
    "  void* top = state_.exchange(signalledState, std::memory_order_acq_rel);\n",
    "  void* top = state_.exchange(signalledState, std::memory_order_acq_rel);\n  if (top != nullptr && top != signalledState && static_cast<_op_base*>(top)->next_ != nullptr) {\n    top = static_cast<_op_base*>(top)->next_;\n  }\n",
    "set() skips the most recent waiter when more than one is registered")
mut("v2_set_forgets_to_latch", "violation", "v2", V2C,
    "  waiters_.latch_and_drain(local);\n",
    "  waiters_.drain_into(local);\n",
    "set() drains without latching: ready() stays false, later waits are stranded")
mut("v2_completion_inline", "violation", "v2", V2H,
    "            if (try_complete(op)) {\n              op->reschedule();\n            }\n",
    "            if (try_complete(op)) {\n              op->complete_value();\n            }\n",
    "set() completes the receiver inline on the setting thread instead of via the receiver's scheduler")
mut("v2_fastpath_no_complete", "violation", "v2", V2H,
    "    // Already signalled — complete via fast path.\n    if (try_complete(this)) {\n      reschedule();\n    }\n    return;\n",
    "    // Already signalled — complete via fast path.\n    return;\n",
    "a wait started while the event is set never completes")
mut("v2_stop_done_without_remove", "violation", "v2", V2H,
    "  if (evt_.waiters_.try_remove(this)) {\n    if (try_complete(this)) {\n      unifex::set_done(std::move(receiver_));\n    }\n  }\n",
    "  if (evt_.waiters_.try_remove(this)) {\n  }\n",
    "a cancelled wait is removed from the list but never completed")
mut("benign_comment_v1", "clean", "v1", V1C,
    "  // replace the stack of waiting operations with a sentinel indicating we've\n",
    "  // swap the stack of waiting operations with a sentinel indicating we've\n",
    "comment edit")
mut("benign_hook_removed_v1", "clean", "v1", V1C,
    "    UNIFEX_VERIF_YIELD(\"event.v1.set_pop\");\n", "",
    "a schedule point removed (fewer interleavings, drift only)")
mut("benign_seq_cst_v2", "clean", "v2", V2C,
    "  while (auto* w = local.pop_front()) {\n", "  while (auto* w = local.pop_front()) {\n    std::atomic_thread_fence(std::memory_order_seq_cst);\n",
    "an extra fence")
EXTRA = os.path.join(os.path.dirname(os.path.abspath(__file__)), "mutants_extra.py")
if os.path.exists(EXTRA):
    exec(open(EXTRA).read())

out = []
for m in M:
    p = os.path.join(WT, m["file"])
    src = open(p).read()
    if src.count(m["old"]) != 1:
        print("mutant %s: pattern occurs %d times in %s" % (m["name"], src.count(m["old"]), m["file"]), file=sys.stderr)
        sys.exit(2)
    dst = src.replace(m["old"], m["new"], 1)
    diff = "".join(difflib.unified_diff(src.splitlines(True), dst.splitlines(True), "a/" + m["file"], "b/" + m["file"]))
    out.append(dict(name=m["name"], patch=diff, expect=m["expect"], parts=m["parts"], what=m["why"]))
json.dump(out, open(os.path.join(os.path.dirname(os.path.abspath(__file__)), "selftest.json"), "w"), indent=1)
print(len(out), "mutants")
