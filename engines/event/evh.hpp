// Shared pieces of the C16 drivers: a recording manual scheduler (completions are tasks in a per-scheduler queue and
// are delivered only when a harness thread drains that queue, inside which tl_ctx names the scheduler), an event
// emitter that also accumulates a per-execution signature, and deferred-free operation storage.
#pragma once
#include "vrt.hpp"

#include <unifex/receiver_concepts.hpp>
#include <unifex/scheduler_concepts.hpp>
#include <unifex/sender_concepts.hpp>

#include <deque>
#include <string>
#include <vector>

namespace evh {

struct Task { virtual void run() noexcept = 0; virtual ~Task() = default; };
struct SchedQ { int id = 0; std::deque<Task*> q; };
inline thread_local int tl_ctx = 0;     // scheduler whose queue the current thread is draining (0 = none)

struct RecSched {
  SchedQ* sq;
  template <class R>
  struct Op final : Task {
    SchedQ* sq; R r;
    template <class R2> Op(SchedQ* s, R2&& rr) : sq(s), r((R2&&)rr) {}
    Op(Op&&) = delete;
    void start() noexcept { sq->q.push_back(this); }
    void run() noexcept override { unifex::set_value(std::move(r)); }
  };
  struct Sender {
    SchedQ* sq;
    template <template <class...> class V, template <class...> class T> using value_types = V<T<>>;
    template <template <class...> class V> using error_types = V<>;
    static constexpr bool sends_done = false;
    template <class R>
    friend Op<unifex::remove_cvref_t<R>> tag_invoke(unifex::tag_t<unifex::connect>, const Sender& s, R&& r) noexcept {
      return Op<unifex::remove_cvref_t<R>>(s.sq, (R&&)r);
    }
  };
  Sender schedule() const noexcept { return Sender{sq}; }
  friend bool operator==(const RecSched& a, const RecSched& b) noexcept { return a.sq == b.sq; }
  friend bool operator!=(const RecSched& a, const RecSched& b) noexcept { return a.sq != b.sq; }
};

// deliver queued tasks of scheduler s (0 = all schedulers, in id order, repeated until every queue is empty)
template <size_t N>
inline int drain(SchedQ (&sq)[N], int s) {
  int n = 0;
  bool again = true;
  while (again) {
    again = false;
    for (size_t i = 1; i < N; ++i) {
      if (s != 0 && (int)i != s) continue;
      while (!sq[i].q.empty()) {
        Task* t = sq[i].q.front(); sq[i].q.pop_front();
        int saved = tl_ctx; tl_ctx = (int)i;
        t->run();
        tl_ctx = saved; ++n; again = (s == 0);
      }
    }
  }
  return n;
}

// ---- event emission: ndjson line + signature of the execution (for comparison with the TLC behaviour)
inline std::string g_sig;
inline void emit(const char* e, int t, int w, long r, long c) {
  vrt::ev("{\"e\":\"%s\",\"t\":%d,\"w\":%d,\"r\":%ld,\"c\":%ld}", e, t, w, r, c);
  g_sig += e; g_sig += ':'; g_sig += std::to_string(t); g_sig += ':'; g_sig += std::to_string(w); g_sig += ':';
  g_sig += std::to_string(r); g_sig += ':'; g_sig += std::to_string(c); g_sig += ';';
}

// ---- operation storage: destroyed exactly when the receiver completes, memory released at the end of the execution
// (the stale read of a popped node in atomic_intrusive_list / the late fetch_or in cancellable::start are lifetime
//  matters of other properties; C16 is not a lifetime property)
struct Graveyard {
  std::vector<void*> mem;
  void* alloc(size_t n) { void* p = ::operator new(n); return p; }
  void bury(void* p) { mem.push_back(p); }
  ~Graveyard() { for (void* p : mem) ::operator delete(p); }
};

}  // namespace evh
