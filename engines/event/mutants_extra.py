# async_pass / auto-reset mutants (exec'd by mk_selftest.py)
mut("pass_payload_to_two_acceptors", "violation", "pass", PC,
    "  while (is_caller(s)) {\n    UNIFEX_VERIF_YIELD(\"event.pass.tcc\");\n    if (state_.compare_exchange_weak(\n            s, 0, std::memory_order_acq_rel, std::memory_order_acquire)) {\n",
    "  while (is_caller(s)) {\n    UNIFEX_VERIF_YIELD(\"event.pass.tcc\");\n    if (state_.compare_exchange_weak(\n            s, s, std::memory_order_acq_rel, std::memory_order_acquire)) {\n",
    "try_accept claims the waiting caller without clearing the slot: a second acceptor receives the same payload")
mut("pass_cancelled_call_completes_with_value", "violation", "pass", PH,
    "  void forward_set_value() noexcept {\n    if (cancelled_) {\n      unifex::set_done(std::move(receiver_));\n    } else {\n      unifex::set_value(std::move(receiver_));\n    }\n  }\n\nprivate:\n  async_pass_base& pass_;\n  CallerFn callerFn_;\n",
    "  void forward_set_value() noexcept {\n    unifex::set_value(std::move(receiver_));\n  }\n\nprivate:\n  async_pass_base& pass_;\n  CallerFn callerFn_;\n",
    "a cancelled async_call completes with value although no acceptor received the payload")
mut("pass_accept_completion_inline", "violation", "pass", PH,
    "    this->unlocked_complete_ = [](accept_op_base_noargs* base) noexcept {\n      auto* self = static_cast<accept_op*>(base);\n      if (try_complete(self)) {\n        self->forwardingOp_.start(*self);\n      }\n    };\n",
    "    this->unlocked_complete_ = [](accept_op_base_noargs* base) noexcept {\n      auto* self = static_cast<accept_op*>(base);\n      if (try_complete(self)) {\n        self->forward_set_value();\n      }\n    };\n",
    "the acceptor is completed inline on the calling thread instead of on its own scheduler")
mut("pass_stop_leaves_slot", "violation", "pass", PH,
    "    if (pass_.state_.compare_exchange_strong(\n            expected, 0, std::memory_order_acq_rel)) {\n      locked_complete_with(defer_set_done());\n",
    "    if (pass_.state_.compare_exchange_strong(\n            expected, expected, std::memory_order_acq_rel)) {\n      locked_complete_with(defer_set_done());\n",
    "a cancelled accept completes with done but stays in the slot: a later call rendezvous with the dead acceptor")
mut("auto_set_after_done", "violation", "auto", AC,
    "  if (state_ != state::DONE) {\n    state_ = state::SET;\n",
    "  if (state_ != state::DONE || true) {\n    state_ = state::SET;\n",
    "set() after set_done() revives the event: done is not permanent")
mut("auto_set_done_does_not_wake", "violation", "auto", AC,
    "  state_ = state::DONE;\n  event_.set();\n",
    "  state_ = state::DONE;\n",
    "set_done() (and cancellation) does not wake the pending next()")
mut("benign_hook_removed_pass", "clean", "pass", PC,
    "    UNIFEX_VERIF_YIELD(\"event.pass.aos\");\n", "",
    "a schedule point removed")
mut("pass_throw_stop_try_complete_before_cas", "violation", "pass", PH,
    "    if (pass_.state_.compare_exchange_strong(\n            expected, 0, std::memory_order_acq_rel)) {\n      if (try_complete(this)) {\n        cancelled_ = true;\n        forwardingOp_.start(*this);\n      }\n    }\n  }\n\n  Receiver& get_receiver() noexcept { return receiver_; }\n\n  void forward_set_value() noexcept {\n    if (cancelled_) {\n      unifex::set_done(std::move(receiver_));\n    } else {\n      unifex::set_value(std::move(receiver_));\n    }\n  }\n\nprivate:\n  async_pass_base& pass_;\n  Receiver receiver_;\n  completion_forwarder<throw_op, Receiver> forwardingOp_;\n",
    "    if (try_complete(this) &&\n        pass_.state_.compare_exchange_strong(\n            expected, 0, std::memory_order_acq_rel)) {\n      cancelled_ = true;\n      forwardingOp_.start(*this);\n    }\n  }\n\n  Receiver& get_receiver() noexcept { return receiver_; }\n\n  void forward_set_value() noexcept {\n    if (cancelled_) {\n      unifex::set_done(std::move(receiver_));\n    } else {\n      unifex::set_value(std::move(receiver_));\n    }\n  }\n\nprivate:\n  async_pass_base& pass_;\n  Receiver receiver_;\n  completion_forwarder<throw_op, Receiver> forwardingOp_;\n",
    "throw_op::stop() evaluates try_complete before the un-claim CAS: a stop landing between an acceptor's claim and its resume_ strands the async_throw (seeded defect C16-1)")
mut("pass_accept_stop_try_complete_before_cas", "violation", "pass", PH,
    "    if (pass_.state_.compare_exchange_strong(\n            expected, 0, std::memory_order_acq_rel)) {\n      locked_complete_with(defer_set_done());\n      if (try_complete(this)) {\n        forwardingOp_.start(*this);\n      }\n    }\n",
    "    if (try_complete(this) &&\n        pass_.state_.compare_exchange_strong(\n            expected, 0, std::memory_order_acq_rel)) {\n      locked_complete_with(defer_set_done());\n      forwardingOp_.start(*this);\n    }\n",
    "accept_op::stop() evaluates try_complete before the un-claim CAS: a stop landing between a caller's claim and the acceptor's unlocked_complete_ strands the async_accept")
mut("auto_notify_outside_lock", "violation", "auto", AC,
    "void async_auto_reset_event::set() noexcept {\n  std::lock_guard lock{mutex_};\n\n  if (state_ != state::DONE) {\n    state_ = state::SET;\n    event_.set();\n  }\n}\n",
    "void async_auto_reset_event::set() noexcept {\n  {\n    std::lock_guard lock{mutex_};\n\n    if (state_ == state::DONE) {\n      return;\n    }\n\n    state_ = state::SET;\n  }\n\n  event_.set();\n}\n",
    "set() updates state_ under the mutex but calls the inner event_.set() after unlocking: a consumer's try_reset() can run in the gap, the late event_.set() leaves the inner event signalled while state_ is UNSET and the following next() completes with done (seeded defect C16-2)")
mut("auto_try_reset_outside_lock", "violation", "auto", AC,
    "bool async_auto_reset_event::try_reset() noexcept {\n  std::lock_guard lock{mutex_};\n",
    "bool async_auto_reset_event::try_reset() noexcept {\n",
    "try_reset() no longer takes the mutex: it can run inside a producer's set() between 'state_ = SET' and event_.set()")
mut("v2_latch_and_drain_locks_tail_directly", "violation", "v2fine", "source/atomic_intrusive_list.cpp",
    "    // Has items — drain them into target, then latch.\n    link* pred_link;\n    uintptr_t pred_val;\n    while (true) {\n      pred_link = sentinel_.self.load(std::memory_order_acquire);\n      if (try_lock_checking(*pred_link, sentinel_.self, pred_link, pred_val)) {\n        break;\n      }\n    }\n    UNIFEX_ASSERT(pred_val == to_value(&sentinel_));\n\n    sentinel_.self.store(nullptr, std::memory_order_relaxed);\n",
    "    // Has items — drain them into target, then latch.\n    link* pred_link = sentinel_.self.load(std::memory_order_acquire);\n    uintptr_t pred_val = lock(*pred_link);\n    (void)pred_val;\n\n    sentinel_.self.store(nullptr, std::memory_order_relaxed);\n",
    "latch_and_drain locks the tail link read once instead of re-checking sentinel_.self: a try_remove of the oldest waiter racing set() makes set() splice behind an unlinked node (seeded defect C16-3)")
