#!/usr/bin/env python3
"""Development aid: applies each patch of selftest.json to the scratch worktree, runs ./check C16, reverts.
Usage: run_selftest.py <worktree> [name-substring ...]"""
import json, os, subprocess, sys, time
HERE = os.path.dirname(os.path.abspath(__file__))
WT = sys.argv[1]
sel = sys.argv[2:]
res = []
for m in json.load(open(os.path.join(HERE, "selftest.json"))):
    if sel and not any(x in m["name"] for x in sel):
        continue
    pf = "/var/tmp/event_st/%s_%d.patch" % (m["name"], os.getpid())
    os.makedirs("/var/tmp/event_st", exist_ok=True)
    open(pf, "w").write(m["patch"])
    subprocess.run(["git", "-C", WT, "apply", pf], check=True)
    t0 = time.time()
    try:
        env = dict(os.environ, VERIF_REPO=WT, VERIF_JOBS=os.environ.get("VERIF_JOBS", "4"), VERIF_EVENT_PARTS=m.get("parts", ""))
        if os.environ.get("VERIF_ST_FULL"):
            env.pop("VERIF_EVENT_PARTS")
        p = subprocess.run(["timeout", "1500", "./check", "C16", "--tier", "quick", "--engine", "event"], cwd="/verif", env=env,
                           stdout=subprocess.PIPE, stderr=subprocess.STDOUT, text=True)
    finally:
        subprocess.run(["git", "-C", WT, "apply", "-R", pf], check=True)
    ok = (p.returncode == 1) if m["expect"] == "violation" else (p.returncode == 0)
    lines = [l for l in p.stdout.splitlines() if l.startswith("VIOLATION") or l.startswith("  ") or "BROKEN" in l][:4]
    res.append(dict(name=m["name"], expect=m["expect"], rc=p.returncode, ok=ok, secs=round(time.time() - t0, 1), out=lines))
    print(json.dumps(res[-1]), flush=True)
print("ALL OK" if all(r["ok"] for r in res) else "SOME FAILED")
