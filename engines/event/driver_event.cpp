// C16 driver for the manual-reset events: executes scenarios over set/reset/ready/async_wait (+ stop for v2) on the
// real v1 / v2 async_manual_reset_event with controlled threads.  Every waiter's receiver names a recording manual
// scheduler through get_scheduler; completions log the context they were delivered in.
// modes: guided (TLC behaviours of EventV1), dfs (bounded-preemption enumeration), random (seeded).
#include "evh.hpp"

#include <unifex/inplace_stop_token.hpp>
#include <unifex/v1/async_manual_reset_event.hpp>
#include <unifex/v2/async_manual_reset_event.hpp>

#include <nlohmann/json.hpp>

#include <fstream>
#include <set>

using json = nlohmann::json;
using evh::emit;

struct Op { char k; int a; };   // 'w' wait, 's' set, 'r' reset, 'y' ready, 'd' drain, 'x' stop
using Prog = std::vector<Op>;
struct Scenario { int id; std::string impl; int init; Prog prog[4]; int sched[5]; bool fine = false; };

static Prog parseProg(const json& j) {
  Prog p;
  for (auto& o : j) {
    std::string k = o[0].get<std::string>();
    int a = o.size() > 1 ? o[1].get<int>() : 0;
    if (k == "wait") p.push_back({'w', a});
    else if (k == "set") p.push_back({'s', 0});
    else if (k == "reset") p.push_back({'r', 0});
    else if (k == "ready") p.push_back({'y', 0});
    else if (k == "drain") p.push_back({'d', a});
    else if (k == "stop") p.push_back({'x', a});
  }
  return p;
}

struct WorldBase;
struct WaiterRec {
  int sched = 0;
  unifex::inplace_stop_source ss;
  void* mem = nullptr;
  void (*dtor)(void*) = nullptr;
  bool begun = false, completed = false;
};
struct WorldBase {
  evh::SchedQ sq[4];
  WaiterRec wt[5];
  evh::Graveyard grave;
  WorldBase() { for (int i = 0; i < 4; ++i) sq[i].id = i; }
  void complete(int id, int ch) noexcept {
    WaiterRec& r = wt[id];
    emit("Done", vrt::self_id(), id, ch, evh::tl_ctx);
    r.completed = true;
    void* m = r.mem; r.mem = nullptr;
    if (m) { r.dtor(m); grave.bury(m); }     // the receiver (inside the operation) is dead from here on
  }
};
struct Rcv {
  WorldBase* w; int id;
  void set_value() noexcept { WorldBase* ww = w; int i = id; ww->complete(i, 1); }
  template <class E> void set_error(E&&) noexcept { WorldBase* ww = w; int i = id; ww->complete(i, 3); }
  void set_done() noexcept { WorldBase* ww = w; int i = id; ww->complete(i, 2); }
  friend evh::RecSched tag_invoke(unifex::tag_t<unifex::get_scheduler>, const Rcv& r) noexcept {
    return evh::RecSched{&r.w->sq[r.w->wt[r.id].sched]};
  }
  friend unifex::inplace_stop_token tag_invoke(unifex::tag_t<unifex::get_stop_token>, const Rcv& r) noexcept {
    return r.w->wt[r.id].ss.get_token();
  }
};

template <class Evt>
struct World : WorldBase {
  const Scenario* scn;
  Evt evt;
  explicit World(const Scenario* s) : scn(s), evt(s->init != 0) { for (int i = 1; i <= 4; ++i) wt[i].sched = s->sched[i]; }
  using OpT = decltype(unifex::connect(std::declval<Evt&>().async_wait(), std::declval<Rcv>()));
  void ready(int t) { emit("RdyB", t, 0, -1, 0); bool r = evt.ready(); emit("RdyE", t, 0, r ? 1 : 0, 0); }
  void run(const Prog& p) {
    int t = vrt::self_id();
    for (auto op : p) {
      UNIFEX_VERIF_YIELD("event.op");
      switch (op.k) {
        case 'w': {
          WaiterRec& r = wt[op.a];
          if (r.begun) break;
          r.begun = true;
          emit("WaitB", t, op.a, -1, r.sched);
          void* m = grave.alloc(sizeof(OpT));
          OpT* o = ::new (m) OpT(unifex::connect(evt.async_wait(), Rcv{this, op.a}));
          r.mem = m; r.dtor = [](void* p) { static_cast<OpT*>(p)->~OpT(); };
          unifex::start(*o);
          emit("WaitE", t, op.a, -1, 0);
          break;
        }
        case 's': emit("SetB", t, 0, -1, 0); evt.set(); emit("SetE", t, 0, -1, 0); break;
        case 'r': emit("RstB", t, 0, -1, 0); evt.reset(); emit("RstE", t, 0, -1, 0); break;
        case 'y': ready(t); break;
        case 'd': evh::drain(sq, op.a); break;
        case 'x': emit("Stop", t, op.a, -1, 0); wt[op.a].ss.request_stop(); break;
      }
    }
  }
  // main thread, after all controlled threads finished
  bool finish(bool cancellable) {
    bool clean = true;
    evh::drain(sq, 0);
    ready(0);
    emit("Quiesce", 0, 0, -1, 0);
    for (int i = 1; i <= 4; ++i) {
      WaiterRec& r = wt[i];
      if (r.begun && !r.completed && r.mem) {
        if (cancellable) {        // v2: the list must be empty when the event dies; a registered wait is cancellable
          emit("Stop", 0, i, -1, 0);
          r.ss.request_stop();
          evh::drain(sq, 0);
        }
        if (r.mem) {
          if (cancellable) { clean = false; }    // still linked into the v2 list: the event cannot be destroyed
          else { void* m = r.mem; r.mem = nullptr; r.dtor(m); grave.bury(m); }
        }
      }
    }
    return clean;
  }
};

static bool sameSite(const std::string& want, const std::string& got) {
  if (want == "v2.dereg_wait") return got == "spin_wait";
  return got == "event." + want;
}

struct Stats {
  long execs = 0, steps = 0, drift = 0, unguided = 0, obsMismatch = 0, units = 0;
  std::string firstDrift, firstMismatch;
  std::set<std::string> distinctSched;
};

template <class Evt>
static void runOne(const Scenario& sc, bool cancellable, long x, long k, Stats& st,
                   const std::function<vrt::RunResult(vrt::Ctl&)>& drive, const std::string* expectSig) {
  vrt::ev("{\"e\":\"Reset\",\"x\":%ld,\"k\":%ld,\"scn\":%d,\"init\":%d}", x, k, sc.id, sc.init);
  evh::g_sig.clear();
  auto w = std::make_unique<World<Evt>>(&sc);
  vrt::RunResult rr;
  {
    // fine-grained family: the schedule points inside source/atomic_intrusive_list.cpp (sites of the mutex engine) are
    // accepted too, so set() / start() / stop() interleave INSIDE the latchable list's link-lock protocol
    vrt::Ctl c; c.accept = {"event.", "spin_wait"};
    if (sc.fine) c.accept.push_back("mutex.l.");
    for (int t = 1; t <= 3; ++t) c.spawn(t, [&, t] { w->run(w->scn->prog[t]); });
    c.start_all();
    rr = drive(c);
    if (rr.deadlock) {
      std::string s = vrt::sched_json(rr);
      vrt::ev("{\"e\":\"Deadlock\",\"sched\":%s}", s.c_str());
      vrt::log_flush();
      std::fprintf(stderr, "deadlock in scenario %d schedule %s\n", sc.id, s.c_str());
      _exit(75);
    }
    c.join();
  }
  if (!w->finish(cancellable)) (void)w.release();   // a wait that neither completed nor could be cancelled: leak the world
  ++st.execs; st.steps += (long)rr.steps.size(); st.drift += rr.drift ? 1 : 0; st.unguided += rr.unguided;
  if (rr.drift && st.firstDrift.empty()) st.firstDrift = "unit " + std::to_string(x) + ": " + rr.firstDrift;
  st.distinctSched.insert(std::to_string(sc.id) + ":" + vrt::sched_json(rr));
  if (expectSig) {
    // compare up to the end of the main thread's ready() sample (the cleanup that follows is harness-only)
    std::string got = evh::g_sig;
    if (got.compare(0, expectSig->size(), *expectSig) != 0 || got.size() < expectSig->size()) {
      ++st.obsMismatch; if (st.firstMismatch.empty()) st.firstMismatch = "unit " + std::to_string(x) + " got " + got + " want " + *expectSig;
    }
  }
}

static void runAny(const Scenario& sc, long x, long k, Stats& st, const std::function<vrt::RunResult(vrt::Ctl&)>& drive,
                   const std::string* expectSig) {
  if (sc.impl == "v2") runOne<unifex::v2::async_manual_reset_event>(sc, true, x, k, st, drive, expectSig);
  else runOne<unifex::v1::async_manual_reset_event>(sc, false, x, k, st, drive, expectSig);
}

int main(int argc, char** argv) {
  vrt::Args a(argc, argv);
  vrt::install_handlers();
  std::string mode = a.str("mode", "guided");
  std::vector<Scenario> scns;
  { std::ifstream f(a.str("scenarios")); json j; f >> j;
    for (auto& s : j) { Scenario sc; sc.id = s["id"].get<int>(); sc.impl = s["impl"].get<std::string>(); sc.init = s["init"].get<int>(); sc.fine = s.value("fine", 0) != 0;
      for (int t = 1; t <= 3; ++t) sc.prog[t] = parseProg(s["prog"][t - 1]);
      for (int i = 1; i <= 4; ++i) sc.sched[i] = i <= (int)s["sched"].size() ? s["sched"][i - 1].get<int>() : 1;
      scns.push_back(sc); } }
  std::map<int, const Scenario*> byId; for (auto& s : scns) byId[s.id] = &s;
  if (a.has("log")) vrt::log_open(a.str("log").c_str());
  long from = a.num("from", 0), to = a.num("to", 1L << 40);
  Stats st;
  if (mode == "guided") {
    std::ifstream in(a.str("behaviours")); std::string line; long x = -1;
    while (std::getline(in, line)) {
      if (line.empty()) continue;
      ++x; if (x < from || x >= to) continue;
      json b = json::parse(line);
      const Scenario& sc = *byId.at(b["scn"].get<int>());
      std::vector<vrt::StepRec> sched;
      for (auto& s : b["sched"]) sched.push_back({s[0].get<int>(), s[1].get<std::string>()});
      std::string sig = b["sig"].get<std::string>();
      ++st.units;
      runAny(sc, x, 0, st, [&](vrt::Ctl& c) { return vrt::run_guided(c, sched, sameSite); }, &sig);
    }
  } else {
    long cap = a.num("cap", 2000); int bound = (int)a.num("bound", 2); unsigned seed = (unsigned)a.num("seed", 1);
    for (long x = from; x < to && x < (long)scns.size(); ++x) {
      const Scenario& sc = scns[x]; ++st.units;
      if (mode == "dfs") {
        vrt::Dfs d; d.bound = bound; long k = 0;
        do { runAny(sc, x, k, st, [&](vrt::Ctl& c) { return vrt::run_dfs(c, d); }, nullptr); ++k; } while (d.advance() && k < cap);
      } else {
        std::mt19937 rng(seed * 7919u + (unsigned)x);
        for (long k = 0; k < cap; ++k) runAny(sc, x, k, st, [&](vrt::Ctl& c) { return vrt::run_random(c, rng, 40); }, nullptr);
      }
    }
  }
  vrt::log_close();
  json s = {{"mode", mode}, {"units", st.units}, {"execs", st.execs}, {"steps", st.steps}, {"drift", st.drift}, {"unguided", st.unguided},
            {"obs_mismatch", st.obsMismatch}, {"distinct_schedules", (long)st.distinctSched.size()},
            {"first_drift", st.firstDrift}, {"first_mismatch", st.firstMismatch}};
  std::printf("%s\n", s.dump().c_str());
  return 0;
}
