// C16 driver for async_auto_reset_event: one consumer thread executes `next n` ops (start stream().next(), then drain
// its scheduler until that next() completed or every other thread has finished), producers call set()/set_done(), a
// canceller requests stop on a next()'s stop source.  The event's std::mutex is made cooperative (hseam.hpp): schedule
// points exist right after every lock, after every unlock and inside the inner v1 event while the mutex is held, so
// the atomicity of set / set_done / try_reset with respect to state_ and the inner event is observed, not assumed.
// Built with -DNDEBUG (release behaviour: the library's assert()s do not turn a wrong outcome into an abort).
// modes: guided (TLC behaviours of AutoResetEvent), dfs, random.
#include "evh.hpp"
#include "hseam.hpp"

#include <unifex/async_auto_reset_event.hpp>
#include <unifex/inplace_stop_token.hpp>

#include <nlohmann/json.hpp>

#include <fstream>
#include <set>

using json = nlohmann::json;
using evh::emit;

struct Op { char k; int a; };   // 'n' next, 's' set, 'D' setdone, 'x' stop
using Prog = std::vector<Op>;
struct Scenario { int id; int init; Prog prog[4]; int sched[5]; };

static Prog parseProg(const json& j) {
  Prog p;
  for (auto& o : j) {
    std::string k = o[0].get<std::string>();
    int a = o.size() > 1 ? o[1].get<int>() : 0;
    if (k == "next") p.push_back({'n', a});
    else if (k == "set") p.push_back({'s', 0});
    else if (k == "setdone") p.push_back({'D', 0});
    else if (k == "stop") p.push_back({'x', a});
  }
  return p;
}

struct World;
struct NextRec {
  int sched = 0;
  unifex::inplace_stop_source ss;
  void* mem = nullptr;
  void (*dtor)(void*) = nullptr;
  bool begun = false, completed = false;
};
struct World {
  const Scenario* scn;
  unifex::async_auto_reset_event evt;
  evh::SchedQ sq[4];
  NextRec nx[5];
  evh::Graveyard grave;
  int finishedThreads = 0;
  explicit World(const Scenario* s) : scn(s), evt(s->init != 0) {
    for (int i = 0; i < 4; ++i) sq[i].id = i;
    for (int i = 1; i <= 4; ++i) nx[i].sched = s->sched[i];
  }
  void complete(int n, int ch) noexcept {
    NextRec& r = nx[n];
    emit("Done", vrt::self_id(), n, ch, evh::tl_ctx);
    r.completed = true;
    void* m = r.mem; r.mem = nullptr;
    if (m) { r.dtor(m); grave.bury(m); }
  }
};
struct Rcv {
  World* w; int n;
  void set_value() noexcept { World* ww = w; int i = n; ww->complete(i, 1); }
  template <class E> void set_error(E&&) noexcept { World* ww = w; int i = n; ww->complete(i, 3); }
  void set_done() noexcept { World* ww = w; int i = n; ww->complete(i, 2); }
  friend evh::RecSched tag_invoke(unifex::tag_t<unifex::get_scheduler>, const Rcv& r) noexcept {
    return evh::RecSched{&r.w->sq[r.w->nx[r.n].sched]};
  }
  friend unifex::inplace_stop_token tag_invoke(unifex::tag_t<unifex::get_stop_token>, const Rcv& r) noexcept {
    return r.w->nx[r.n].ss.get_token();
  }
};
using NextOpT = decltype(unifex::connect(std::declval<unifex::async_auto_reset_event&>().stream().next(), std::declval<Rcv>()));

// returns false when the consumer gave up (its next() stays pending): the thread then stops its program
static void runProg(World& w, const Prog& p) {
  int t = vrt::self_id();
  for (auto op : p) {
    UNIFEX_VERIF_YIELD("event.op");
    bool gaveUp = false;
    switch (op.k) {
      case 'n': {
        NextRec& r = w.nx[op.a];
        if (r.begun) break;
        r.begun = true;
        emit("NextB", t, op.a, -1, r.sched);
        void* m = w.grave.alloc(sizeof(NextOpT));
        NextOpT* o = ::new (m) NextOpT(unifex::connect(w.evt.stream().next(), Rcv{&w, op.a}));
        r.mem = m; r.dtor = [](void* q) { static_cast<NextOpT*>(q)->~NextOpT(); };
        unifex::start(*o);
        emit("NextE", t, op.a, -1, 0);
        while (true) {
          evh::drain(w.sq, 0);
          if (r.completed) break;
          if (w.finishedThreads >= 2) { gaveUp = true; break; }
          UNIFEX_VERIF_SPIN("event.auto.await");
        }
        break;
      }
      case 's': emit("SetB", t, 0, -1, 0); w.evt.set(); emit("SetE", t, 0, -1, 0); break;
      case 'D': emit("SdB", t, 0, -1, 0); w.evt.set_done(); emit("SdE", t, 0, -1, 0); break;
      case 'x': emit("Stop", t, op.a, -1, 0); w.nx[op.a].ss.request_stop(); break;
    }
    if (gaveUp) break;
  }
  ++w.finishedThreads;
}

static bool finish(World& w) {
  bool clean = true;
  evh::drain(w.sq, 0);
  emit("Quiesce", 0, 0, -1, 0);
  for (int i = 1; i <= 4; ++i) {
    NextRec& r = w.nx[i];
    if (r.begun && !r.completed && r.mem) {
      emit("Stop", 0, i, -1, 0);
      r.ss.request_stop();
      evh::drain(w.sq, 0);
      if (r.mem) clean = false;
    }
  }
  return clean;
}

static bool sameSite(const std::string& want, const std::string& got) {
  if (want == "auto.dereg_wait") return got == "spin_wait";
  if (want == "ev_xchg") return got == "scope.ev_xchg";      // entry of the inner v1 event's set() (site of the scope engine)
  return got == "event." + want;
}

struct Stats {
  long execs = 0, steps = 0, drift = 0, unguided = 0, obsMismatch = 0, units = 0;
  std::string firstDrift, firstMismatch;
  std::set<std::string> distinctSched;
};

static void runAny(const Scenario& sc, long x, long k, Stats& st, const std::function<vrt::RunResult(vrt::Ctl&)>& drive,
                   const std::string* expectSig) {
  vrt::ev("{\"e\":\"Reset\",\"x\":%ld,\"k\":%ld,\"scn\":%d,\"init\":%d}", x, k, sc.id, sc.init);
  evh::g_sig.clear();
  auto w = std::make_unique<World>(&sc);
  vrt::RunResult rr;
  {
    vrt::Ctl c; c.accept = {"event.op", "event.auto.", "event.v1.", "event.h.", "scope.ev_xchg", "spin_wait"};
    for (int t = 1; t <= 3; ++t) c.spawn(t, [&, t] { runProg(*w, w->scn->prog[t]); });
    c.start_all();
    rr = drive(c);
    if (rr.deadlock) {
      std::string s = vrt::sched_json(rr);
      vrt::ev("{\"e\":\"Deadlock\",\"sched\":%s}", s.c_str());
      vrt::log_flush();
      std::fprintf(stderr, "deadlock in scenario %d schedule %s\n", sc.id, s.c_str());
      _exit(75);
    }
    c.join();
  }
  if (!finish(*w)) (void)w.release();
  ++st.execs; st.steps += (long)rr.steps.size(); st.drift += rr.drift ? 1 : 0; st.unguided += rr.unguided;
  if (rr.drift && st.firstDrift.empty()) st.firstDrift = "unit " + std::to_string(x) + ": " + rr.firstDrift;
  st.distinctSched.insert(std::to_string(sc.id) + ":" + vrt::sched_json(rr));
  if (expectSig) {
    const std::string& got = evh::g_sig;
    if (got != *expectSig) {
      ++st.obsMismatch; if (st.firstMismatch.empty()) st.firstMismatch = "unit " + std::to_string(x) + " got " + got + " want " + *expectSig;
    }
  }
}

int main(int argc, char** argv) {
  vrt::Args a(argc, argv);
  vrt::install_handlers();
  std::string mode = a.str("mode", "guided");
  std::vector<Scenario> scns;
  { std::ifstream f(a.str("scenarios")); json j; f >> j;
    for (auto& s : j) { Scenario sc; sc.id = s["id"].get<int>(); sc.init = s["init"].get<int>();
      for (int t = 1; t <= 3; ++t) sc.prog[t] = parseProg(s["prog"][t - 1]);
      for (int i = 1; i <= 4; ++i) sc.sched[i] = i <= (int)s["sched"].size() ? s["sched"][i - 1].get<int>() : 1;
      scns.push_back(sc); } }
  std::map<int, const Scenario*> byId; for (auto& s : scns) byId[s.id] = &s;
  if (a.has("log")) vrt::log_open(a.str("log").c_str());
  long from = a.num("from", 0), to = a.num("to", 1L << 40);
  Stats st;
  if (mode == "guided") {
    std::ifstream in(a.str("behaviours")); std::string line; long x = -1;
    while (std::getline(in, line)) {
      if (line.empty()) continue;
      ++x; if (x < from || x >= to) continue;
      json b = json::parse(line);
      const Scenario& sc = *byId.at(b["scn"].get<int>());
      std::vector<vrt::StepRec> sched;
      for (auto& s : b["sched"]) sched.push_back({s[0].get<int>(), s[1].get<std::string>()});
      std::string sig = b["sig"].get<std::string>();
      ++st.units;
      runAny(sc, x, 0, st, [&](vrt::Ctl& c) { return vrt::run_guided(c, sched, sameSite); }, &sig);
    }
  } else {
    long cap = a.num("cap", 2000); int bound = (int)a.num("bound", 2); unsigned seed = (unsigned)a.num("seed", 1);
    for (long x = from; x < to && x < (long)scns.size(); ++x) {
      const Scenario& sc = scns[x]; ++st.units;
      if (mode == "dfs") {
        vrt::Dfs d; d.bound = bound; long k = 0;
        do { runAny(sc, x, k, st, [&](vrt::Ctl& c) { return vrt::run_dfs(c, d); }, nullptr); ++k; } while (d.advance() && k < cap);
      } else {
        std::mt19937 rng(seed * 7919u + (unsigned)x);
        for (long k = 0; k < cap; ++k) runAny(sc, x, k, st, [&](vrt::Ctl& c) { return vrt::run_random(c, rng, 40); }, nullptr);
      }
    }
  }
  vrt::log_close();
  json s = {{"mode", mode}, {"units", st.units}, {"execs", st.execs}, {"steps", st.steps}, {"drift", st.drift}, {"unguided", st.unguided},
            {"obs_mismatch", st.obsMismatch}, {"distinct_schedules", (long)st.distinctSched.size()},
            {"first_drift", st.firstDrift}, {"first_mismatch", st.firstMismatch}};
  std::printf("%s\n", s.dump().c_str());
  return 0;
}
