// C03 driver: executes stop-token scenarios on the real inplace_stop_source with controlled threads.
// modes: guided (TLC behaviours), dfs (bounded-preemption enumeration), random (seeded).
#include "vrt.hpp"

#include <unifex/inplace_stop_token.hpp>
#include <unifex/fused_stop_source.hpp>

#include <nlohmann/json.hpp>

#include <fstream>
#include <set>
#include <sstream>

using namespace unifex;
using json = nlohmann::json;

struct Op { char k; int c; };                 // 'r' reg, 'd' dereg, 'q' request_stop, 'u' request_stop on upstream c
using Prog = std::vector<Op>;
struct Scenario { int id; std::string kind; Prog prog[4]; Prog body[4]; };

static Prog parseProg(const json& j) {
  Prog p;
  for (auto& o : j) {
    std::string k = o[0].get<std::string>();
    if (k == "reg") p.push_back({'r', o[1].get<int>()});
    else if (k == "dereg") p.push_back({'d', o[1].get<int>()});
    else if (k == "up") p.push_back({'u', o[1].get<int>()});
    else if (k == "unsub") p.push_back({'x', 0});
    else p.push_back({'q', 0});
  }
  return p;
}

// a stop token type that is not inplace_stop_token, so that inplace_stop_token_adapter really adapts
struct CustomTok {
  unifex::inplace_stop_token t;
  template <class F> struct callback_type {
    unifex::inplace_stop_callback<F> cb;
    template <class F2> callback_type(CustomTok tok, F2&& f) : cb(tok.t, (F2&&)f) {}
  };
  bool stop_requested() const noexcept { return t.stop_requested(); }
  bool stop_possible() const noexcept { return t.stop_possible(); }
};
using Fused = unifex::fused_stop_source<unifex::inplace_stop_token, unifex::inplace_stop_token>;

struct World;
struct Body { World* w; int c; void operator()() noexcept; };
struct World {
  const Scenario* scn;
  inplace_stop_source src;                       // kind "plain": the monitored source itself
  inplace_stop_source up[3]; bool upCalled[3] = {};                     // upstream sources of the fused source / the adapted token
  std::unique_ptr<Fused> fused;                  // kind "fused"
  std::unique_ptr<unifex::inplace_stop_token_adapter<CustomTok>> adapter;   // kind "adapter"
  inplace_stop_token adapted; bool adapterGone = false;
  void setup() {
    if (scn->kind == "fused") { fused = std::make_unique<Fused>(); fused->register_callbacks(up[1].get_token(), up[2].get_token()); }
    else if (scn->kind == "adapter") { adapter = std::make_unique<unifex::inplace_stop_token_adapter<CustomTok>>(); adapted = adapter->subscribe(CustomTok{up[1].get_token()}); }
  }
  void teardown() {
    if (fused) fused->deregister_callbacks();
    if (adapter) adapter->unsubscribe();
    adapter.reset();
  }
  inplace_stop_token token() { return fused ? fused->get_token() : (adapter ? adapted : src.get_token()); }
  bool stopRequested() { return token().stop_requested(); }
  inplace_stop_callback<Body>* cb[4] = {};
  bool constructing[4] = {};
  int exec[4] = {};
  int retFalse = 0, retTrue = 0;
  void query() { if (adapterGone) return; vrt::ev("{\"e\":\"Query\",\"c\":0,\"t\":%d,\"r\":%d}", vrt::self_id(), stopRequested() ? 1 : 0); }
  void run(const Prog& p) {
    for (auto op : p) {
      if (op.k == 'r') {
        UNIFEX_VERIF_YIELD("r0");
        if (adapterGone) continue;
        vrt::ev("{\"e\":\"RegBegin\",\"c\":%d,\"t\":%d,\"r\":-1}", op.c, vrt::self_id());
        constructing[op.c] = true;
        auto* p2 = new inplace_stop_callback<Body>(token(), Body{this, op.c});
        cb[op.c] = p2; constructing[op.c] = false;
        vrt::ev("{\"e\":\"RegEnd\",\"c\":%d,\"t\":%d,\"r\":-1}", op.c, vrt::self_id());
      } else if (op.k == 'd') {
        if (constructing[op.c]) continue;   // destroying a registration inside its own constructor: not a legal use
        UNIFEX_VERIF_YIELD("d0");
        if (cb[op.c] == nullptr) continue;
        vrt::ev("{\"e\":\"DeregBegin\",\"c\":%d,\"t\":%d,\"r\":-1}", op.c, vrt::self_id());
        auto* p2 = cb[op.c]; cb[op.c] = nullptr;
        delete p2;
        vrt::ev("{\"e\":\"DeregEnd\",\"c\":%d,\"t\":%d,\"r\":-1}", op.c, vrt::self_id());
      } else if (op.k == 'x') {
        // the owner of the adapter unsubscribes and releases it (as any_sender_of's operation state does on completion)
        UNIFEX_VERIF_YIELD("d0");
        if (!adapter) continue;
        vrt::ev("{\"e\":\"UnsubBegin\",\"c\":0,\"t\":%d,\"r\":-1}", vrt::self_id());
        adapter->unsubscribe();
        vrt::ev("{\"e\":\"UnsubEnd\",\"c\":0,\"t\":%d,\"r\":-1}", vrt::self_id());
        adapted = inplace_stop_token{};
        adapter.reset();                  // frees the adapter's source and callback storage: a forwarding still in flight is a touch after free
        adapterGone = true;
      } else if (op.k == 'u') {
        UNIFEX_VERIF_YIELD("q0");
        // only the first request_stop() on an upstream source runs its forwarding callback; a later call returns at
        // once - possibly before the first caller has forwarded the request - and says nothing about this source
        bool first = !upCalled[op.c]; upCalled[op.c] = true;
        if (first) vrt::ev("{\"e\":\"ReqBegin\",\"c\":0,\"t\":%d,\"r\":-1}", vrt::self_id());
        (void)up[op.c].request_stop();          // forwarded to the monitored source by the library's callback
        if (first) vrt::ev("{\"e\":\"ReqEnd\",\"c\":0,\"t\":%d,\"r\":-1}", vrt::self_id());
        query();
      } else {
        UNIFEX_VERIF_YIELD("q0");
        vrt::ev("{\"e\":\"ReqBegin\",\"c\":0,\"t\":%d,\"r\":-1}", vrt::self_id());
        bool r = fused ? fused->request_stop() : src.request_stop();
        vrt::ev("{\"e\":\"ReqEnd\",\"c\":0,\"t\":%d,\"r\":%d}", vrt::self_id(), r ? 1 : 0);
        (r ? retTrue : retFalse)++;
        query();
      }
    }
  }
};
void Body::operator()() noexcept {
  World* ww = w; int cc = c;   // the callback object may be destroyed by its own body
  vrt::ev("{\"e\":\"ExecBegin\",\"c\":%d,\"t\":%d,\"r\":-1}", cc, vrt::self_id());
  ww->exec[cc]++;
  ww->run(ww->scn->body[cc]);
  vrt::ev("{\"e\":\"ExecEnd\",\"c\":%d,\"t\":%d,\"r\":-1}", cc, vrt::self_id());
}

static bool sameSite(const std::string& want, const std::string& got) {
  if (want == "d1" || want == "d2") return got == "stop.d12";
  if (want == "r0" || want == "q0" || want == "d0") return got == want;
  return got == "stop." + want;
}

int main(int argc, char** argv) {
  vrt::Args a(argc, argv);
  vrt::install_handlers();
  std::string mode = a.str("mode", "guided");
  std::vector<Scenario> scns;
  { std::ifstream f(a.str("scenarios")); json j; f >> j;
    for (auto& s : j) { Scenario sc; sc.id = s["id"].get<int>(); sc.kind = s.value("kind", std::string("plain"));
      for (int t = 1; t <= 3; ++t) { sc.prog[t] = parseProg(s["prog"][t - 1]); sc.body[t] = parseProg(s["body"][t - 1]); }
      scns.push_back(sc); } }
  std::map<int, const Scenario*> byId; for (auto& s : scns) byId[s.id] = &s;
  if (a.has("log")) vrt::log_open(a.str("log").c_str());
  long from = a.num("from", 0), to = a.num("to", 1L << 40);
  long execs = 0, steps = 0, drift = 0, unguided = 0, obsMismatch = 0, deadlocks = 0, units = 0;
  std::string firstDrift, firstMismatch;
  std::set<std::string> distinctSched;

  auto runOne = [&](const Scenario& sc, long x, long k, const std::function<vrt::RunResult(vrt::Ctl&)>& drive,
                    const json* expect) {
    vrt::ev("{\"e\":\"Reset\",\"c\":0,\"t\":0,\"r\":-1,\"x\":%ld,\"k\":%ld,\"scn\":%d,\"fused\":%d}", x, k, sc.id, sc.kind == "plain" ? 0 : 1);
    auto w = std::make_unique<World>(); w->scn = &sc; w->setup();
    vrt::RunResult rr;
    {
      vrt::Ctl c; c.accept = {"stop.", "spin_wait", "r0", "d0", "q0"};
      for (int t = 1; t <= 3; ++t) c.spawn(t, [&, t] { w->run(w->scn->prog[t]); });
      c.start_all();
      rr = drive(c);
      if (rr.deadlock) {
        std::string s = vrt::sched_json(rr);
        vrt::ev("{\"e\":\"Deadlock\",\"c\":0,\"t\":0,\"r\":-1,\"sched\":%s}", s.c_str());
        vrt::log_flush();
        std::fprintf(stderr, "deadlock in scenario %d schedule %s\n", sc.id, s.c_str());
        _exit(75);
      }
      c.join();
    }
    w->query();
    for (int i = 1; i <= 3; ++i) { delete w->cb[i]; w->cb[i] = nullptr; }
    w->teardown();
    ++execs; steps += (long)rr.steps.size(); drift += rr.drift ? 1 : 0; unguided += rr.unguided;
    if (rr.drift && firstDrift.empty()) firstDrift = "unit " + std::to_string(x) + ": " + rr.firstDrift;
    distinctSched.insert(std::to_string(sc.id) + ":" + vrt::sched_json(rr));
    if (expect) {
      bool ok = true;
      for (int i = 1; i <= 3; ++i) if (w->exec[i] != (*expect)["exec"][i - 1].get<int>()) ok = false;
      if (w->retFalse != (*expect)["retFalse"].get<int>()) ok = false;
      if (!ok) { ++obsMismatch; if (firstMismatch.empty()) firstMismatch = "unit " + std::to_string(x); }
    }
  };

  if (mode == "guided") {
    std::ifstream in(a.str("behaviours")); std::string line; long x = -1;
    while (std::getline(in, line)) {
      if (line.empty()) continue;
      ++x; if (x < from || x >= to) continue;
      json b = json::parse(line);
      const Scenario& sc = *byId.at(b["scn"].get<int>());
      std::vector<vrt::StepRec> sched;
      for (auto& s : b["sched"]) sched.push_back({s[0].get<int>(), s[1].get<std::string>()});
      ++units;
      runOne(sc, x, 0, [&](vrt::Ctl& c) { return vrt::run_guided(c, sched, sameSite); }, &b);
    }
  } else {
    long cap = a.num("cap", 2000); int bound = (int)a.num("bound", 2); unsigned seed = (unsigned)a.num("seed", 1);
    for (long x = from; x < to && x < (long)scns.size(); ++x) {
      const Scenario& sc = scns[x]; ++units;
      if (mode == "dfs") {
        vrt::Dfs d; d.bound = bound; long k = 0;
        do { runOne(sc, x, k, [&](vrt::Ctl& c) { return vrt::run_dfs(c, d); }, nullptr); ++k; } while (d.advance() && k < cap);
      } else {
        std::mt19937 rng(seed * 7919u + (unsigned)x);
        for (long k = 0; k < cap; ++k) runOne(sc, x, k, [&](vrt::Ctl& c) { return vrt::run_random(c, rng, 40); }, nullptr);
      }
    }
  }
  vrt::log_close();
  json s = {{"mode", mode}, {"units", units}, {"execs", execs}, {"steps", steps}, {"drift", drift}, {"unguided", unguided},
            {"obs_mismatch", obsMismatch}, {"distinct_schedules", (long)distinctSched.size()},
            {"first_drift", firstDrift}, {"first_mismatch", firstMismatch}};
  std::printf("%s\n", s.dump().c_str());
  return 0;
}
