"""Engine `stop` (C03): spec/stop/StopToken.tla <-> source/inplace_stop_token.cpp.
 1. generate scenarios (programs over reg/dereg/request_stop incl. re-entrant callback bodies)
 2. TLC: invariants + action property on every interleaving; liveness (termination incl. self-deregistration)
 3. export every transition, build edge-covering behaviours, replay them on the real code (guided),
    plus bounded-preemption DFS and seeded random schedules of the real code
 4. validate every recorded execution against the monitor StopTokenMon with TLC."""
import itertools, json, os, sys

sys.path.insert(0, os.path.join(os.path.dirname(__file__), "..", "..", "tools"))
import vlib

R = lambda c: ["reg", c]
D = lambda c: ["dereg", c]
Q = ["req"]


def gen_scenarios(tier):
    out = []

    def add(p1, p2, p3, b1=(), b2=(), b3=()):
        sc = dict(prog=[list(p1), list(p2), list(p3)], body=[list(b1), list(b2), list(b3)])
        # validity: each callback registered <= 1, deregistered <= 1
        ops = [o for p in sc["prog"] + sc["body"] for o in p]
        for c in (1, 2, 3):
            if ops.count(R(c)) > 1 or ops.count(D(c)) > 1:
                return
            if ops.count(D(c)) == 1 and ops.count(R(c)) == 0:
                return
        key = json.dumps(sc)
        if key not in seen:
            seen.add(key)
            sc["id"] = len(out) + 1
            out.append(sc)

    seen = set()
    # the seven hand-written scenarios of the prototype (kept first: they are the quick tier's core)
    add([R(1), D(1)], [Q], [R(2), D(2)])
    add([R(1), D(1)], [Q], [Q])
    add([R(1)], [Q], [R(2), D(2)], b1=[D(1)])                 # self-deregistration inside the callback
    add([R(2), R(1), D(1)], [Q], [], b1=[D(2)])               # callback 1 deregisters still-listed 2
    add([R(1), D(1)], [Q], [R(2), D(2)], b1=[Q])              # re-entrant request_stop
    add([R(1), D(1)], [Q], [], b1=[R(3), D(3)])               # registration during stop -> inline
    add([R(1), D(1)], [Q, R(3), D(3)], [R(2), D(2), Q])
    # generated family
    body1s = [[], [D(1)], [Q], [R(3), D(3)], [D(2)]]
    t2s = [[Q], [Q, Q], [Q, R(3), D(3)], [R(3), Q, D(3)]]
    t3s = [[], [Q], [R(2), D(2)], [R(2), D(2), Q], [Q, R(2), D(2)], [R(2), Q, D(2)]]
    body2s = [[], [D(2)], [Q]]
    for b1, t2, t3, b2 in itertools.product(body1s, t2s, t3s, body2s):
        uses2 = R(2) in t3
        if b1 == [D(2)]:
            if uses2:
                continue
            t1 = [R(2), R(1), D(1)]
        elif b1 == [D(1)]:
            t1 = [R(1)]
        else:
            t1 = [R(1), D(1)]
        t3x = list(t3)
        if b2:
            if not uses2 and b1 != [D(2)]:
                continue
            if b2 == [D(2)]:
                if b1 == [D(2)]:
                    continue
                t3x = [o for o in t3x if o != D(2)]
        add(t1, t2, t3x, b1=b1, b2=b2)
    nplain = len(out)
    # fused_stop_source / inplace_stop_token_adapter: stop requested through upstream sources ("up", i)
    U = lambda i: ["up", i]
    fam = []
    for kind, ups in (("fused", [1, 2]), ("adapter", [1])):
        u1, u2 = U(ups[0]), U(ups[-1])
        fam += [(kind, [R(1), D(1)], [u1], [R(2), D(2)], [], [], []),
                (kind, [R(1), D(1)], [u1], [u2], [], [], []),
                (kind, [R(1)], [u1], [R(2), D(2)], [D(1)], [], []),
                (kind, [R(2), R(1), D(1)], [u2], [], [D(2)], [], []),
                (kind, [R(1), D(1)], [u1], [R(2), D(2), u2], [u2], [], []),
                (kind, [R(1), D(1)], [u1, R(3), D(3)], [u2], [], [], []),
                (kind, [R(1), D(1)], [u1], [u1, R(2), D(2)], [], [], [])]
        if kind == "adapter":
            X = ["unsub"]
            # unsubscribe only after the unsubscribing thread's own registrations are gone and with no other thread
            # registering (destroying the adapter under a registered callback would be a misuse of the API)
            fam += [(kind, [R(1), D(1), X], [u1], [], [], [], []),
                    (kind, [R(1), D(1), X], [u1], [u1], [], [], []),
                    (kind, [X], [u1], [u1], [], [], []),
                    (kind, [R(1), D(1), X], [u1], [], [Q], [], [])]
        if kind == "fused":
            fam += [(kind, [R(1), D(1)], [u1], [Q], [], [], []), (kind, [R(1), D(1)], [Q, u2], [R(2), D(2)], [], [Q], [])]
    fused = []
    for kind, p1, p2, p3, b1, b2, b3 in fam:
        fused.append(dict(kind=kind, prog=[p1, p2, p3], body=[b1, b2, b3]))
    if tier == "quick":
        core = out[:7]
        rest = out[7:]
        step = max(1, len(rest) // 17)
        out = core + rest[::step][:17]
    for s in out:
        s["kind"] = "plain"
    out = out + fused
    for i, s in enumerate(out):
        s["id"] = i + 1
    return out


def run(ctx):
    rep = ctx.rep
    rep.assume("sequentially consistent interleavings at schedule-point granularity (x86-TSO hardware; weak-memory reorderings not explored)")
    rep.assume("<= 3 threads, <= 3 callbacks, <= 3 request_stop() callers per scenario; callback bodies are straight-line programs")
    scns = gen_scenarios(ctx.tier)
    sp = os.path.join(ctx.work, "scenarios.json")
    json.dump(scns, open(sp, "w"))
    edges = os.path.join(ctx.work, "edges.ndjson")
    # ---- 2. model checking (exhaustive) + edge export
    r = vlib.model_check(ctx, "stop", "StopTokenMC", env={"SCENARIOS": sp, "EDGES": edges}, workers=1, timeout=1500)
    rl = vlib.model_check(ctx, "stop", "StopTokenLive", cfg="StopTokenLive.cfg", env={"SCENARIOS": sp}, timeout=1500)
    rep.exhaustive = True
    # ---- 3. behaviours
    adj, inits, nedges = vlib.read_edges(edges)
    walks = vlib.edge_cover(adj, inits)
    if ctx.tier == "thorough":
        walks += vlib.random_walks(adj, inits, 3000, ctx.rng)
    bp = os.path.join(ctx.work, "behaviours.ndjson")
    seen = set()
    nb = 0
    with open(bp, "w") as f:
        for w in walks:
            sched = [[e["th"], e["pc"]] for e in w if e["pc"] != ""]
            fin = w[-1]["obs"]
            b = dict(scn=w[0]["scn"], sched=sched, exec=fin["exec"], retFalse=sum(1 for x in fin["ret"] if x is False))
            k = json.dumps([b["scn"], sched])
            if k in seen:
                continue
            if scns[b["scn"] - 1].get("kind", "plain") != "plain":
                continue      # upstream sources run their own protocol (extra schedule points): DFS/random + monitor only
            seen.add(k)
            f.write(json.dumps(b) + "\n")
            nb += 1
            if nb <= 2:
                rep.sample(dict(kind="tlc-behaviour", scenario=scns[b["scn"] - 1], schedule=sched, expect=dict(exec=b["exec"], first_requesters=b["retFalse"])))
    rep.note("edges exported %d, edge-covering walks %d, distinct visible schedules %d" % (nedges, len(walks), nb))
    gcap = 6000 if ctx.quick else 40000
    if nb > gcap:
        # replay a seeded sample of the distinct schedules (TLC explored all of them): 6000 in quick, 40000 in thorough
        # (replaying all ~117k took more than an hour on a loaded machine)
        lines = open(bp).read().splitlines(True)
        ctx.rng.shuffle(lines)
        lines = lines[:gcap]
        open(bp, "w").writelines(lines)
        nb = len(lines)
        rep.note("guided replay of a seeded sample of %d schedules (seed %d)" % (nb, ctx.seed))
    # ---- 4. real code
    exe = vlib.build(ctx, "stop_driver", ["engines/stop/driver.cpp"], lib=["inplace_stop_token.cpp"])
    runs = [("guided", ["--mode", "guided", "--scenarios", sp, "--behaviours", bp], nb)]
    runs.append(("dfs", ["--mode", "dfs", "--scenarios", sp, "--bound", 2 if ctx.quick else 3, "--cap", 150 if ctx.quick else 1000], len(scns)))
    runs.append(("random", ["--mode", "random", "--scenarios", sp, "--seed", ctx.seed, "--cap", 40 if ctx.quick else 100], len(scns)))
    import time
    for mode, args, total in runs:
        if len(rep.violations) >= 3:
            rep.note("skipping %s: violations already found" % mode)
            continue
        t0 = time.time()
        lp = os.path.join(ctx.work, "log_%s.ndjson" % mode)
        sums, deaths = vlib.run_batches(ctx, exe, args, total, lp, timeout=1500, max_deaths=12)
        execs = sum(s["execs"] for s in sums)
        rep.evaluations += execs
        for s in sums:
            rep.drift += s["drift"]
            rep.unguided += s["unguided"] if mode == "guided" else 0
            if s.get("first_drift"):
                rep.note("%s drift: %s" % (mode, s["first_drift"]))
            if s.get("obs_mismatch"):
                rep.note("%s: %d executions whose final observation differs from the specification's (sent to the monitor)" % (mode, s["obs_mismatch"]))
        for d in deaths:
            unit = d["x"]
            what = "%s in %s execution unit %s: %s %s" % (d["event"], mode, unit, d.get("asan", ""), d.get("frame", ""))
            rep.violation(dict(engine="stop", mode=mode, event=d["event"], unit=unit, asan=d.get("asan"), frame=d.get("frame"),
                               where=d.get("where"), what=what, detail=d.get("stderr_tail", ""),
                               scenario=(scns[unit] if mode != "guided" and unit < len(scns) else None)))
        n, rejected = vlib.validate_batched(ctx, "stop", "StopTokenMon", lp)
        for ex in vlib.split_executions(lp)[:400000]:
            evs = ex[1]
            if len(evs) > 3:
                rep.distinct.add(hash("".join(evs[1:])))
        for rj in rejected:
            rep.violation(dict(engine="stop", mode=mode, event="MonitorReject", unit=rj["x"],
                               what="StopTokenMon rejects an execution recorded in %s mode (matched %s of %s events)" % (mode, rj.get("prefix"), rj.get("total")),
                               events=rj["events"]))
        rep.note("%s: %d executions, %.1fs incl. validation" % (mode, execs, time.time() - t0))
        if mode == "random" and n:
            ex = vlib.split_executions(lp)[0]
            rep.sample(dict(kind="recorded-trace", events=[json.loads(x) for x in ex[1][:40]]))
    rep.rule("executions = guided replays of TLC behaviours + DFS(preemption-bounded) + seeded random schedules of the real "
             "inplace_stop_source; distinct_nontrivial = distinct recorded event sequences with more than 3 events")
