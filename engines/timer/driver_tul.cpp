// C07 driver B: thread_unsafe_event_loop on the virtual clock (single-threaded, no controller).
// A scenario {due[], kind[], init[], on[][]} is executed through the public entry point sync_wait(root):
// root's start() runs the `init` script (arm i = start() of timer op i; stop j = request_stop() on j's source),
// the completion of timer op i runs on[i].  std::this_thread::sleep_until -> nanosleep is interposed (tseam.hpp):
// sleeping advances the virtual clock by exactly the requested amount and is logged as Tick.
// Operation states are heap-allocated individually into poison-filled storage (0xAB) and freed by their receiver
// inside the completion, so ASan/UBSan see uninitialised links and touches after completion.
// Events: Reset ArmBegin ArmEnd StopBegin StopEnd Fire Tick End -> spec/timer/TimerMon.tla
#include "tseam.hpp"

#include <unifex/inplace_stop_token.hpp>
#include <unifex/receiver_concepts.hpp>
#include <unifex/scheduler_concepts.hpp>
#include <unifex/sender_concepts.hpp>
#include <unifex/thread_unsafe_event_loop.hpp>
#include <unifex/delay.hpp>
#include <unifex/for_each.hpp>
#include <unifex/range_stream.hpp>

#include <nlohmann/json.hpp>

#include <fstream>

using namespace unifex;
using json = nlohmann::json;
using sclock = std::chrono::steady_clock;

static const long long BASE = 1000;
static long long rel_now() { return tseam::vnow_ns.load() - BASE; }

struct Act { char k; int op; };   // 'a' arm, 's' stop
struct Scenario { int id; bool hasExpect = false; std::vector<std::pair<int, char>> expect; std::vector<int> due; std::vector<std::string> kind; std::vector<Act> init; std::vector<std::vector<Act>> on; };

struct World;
struct Rcv {
  World* w; int i;
  void set_value() && noexcept;
  void set_done() && noexcept;
  void set_error(std::exception_ptr) && noexcept;
  friend inplace_stop_token tag_invoke(tag_t<get_stop_token>, const Rcv& r) noexcept;
};
struct OpBase {
  virtual ~OpBase() {}
  virtual void start() noexcept = 0;
  static void* operator new(std::size_t n) { void* p = ::operator new(n); std::memset(p, 0xAB, n); return p; }
  static void operator delete(void* p) { ::operator delete(p); }
};
template <class S>
struct OpHolder final : OpBase {
  connect_result_t<S, Rcv> op;
  OpHolder(S&& s, Rcv r) : op(connect((S &&) s, std::move(r))) {}
  void start() noexcept override { unifex::start(op); }
};
template <class S> static OpBase* make_op(S&& s, Rcv r) { return new OpHolder<S>((S &&) s, std::move(r)); }

struct World {
  const Scenario* scn = nullptr;
  thread_unsafe_event_loop loop;
  std::unique_ptr<inplace_stop_source> src[7];
  OpBase* op[7] = {};
  int fired[7] = {}; bool armed[7] = {};
  std::vector<std::pair<int, char>> fireSeq;
  int n() const { return (int)scn->due.size(); }
  int pending() const { int p = 0; for (int i = 1; i <= n(); ++i) if (armed[i] && fired[i] == 0) ++p; return p; }
  void run(const std::vector<Act>& prog) {
    for (auto a : prog) {
      int i = a.op;
      if (a.k == 'a') {
        auto sched = loop.get_scheduler();
        long long dueRel;
        if (scn->kind[i - 1] == "after") {
          dueRel = rel_now() + scn->due[i - 1];
          op[i] = make_op(schedule_after(sched, std::chrono::nanoseconds(scn->due[i - 1])), Rcv{this, i});
        } else {
          dueRel = scn->due[i - 1];
          op[i] = make_op(schedule_at(sched, sclock::time_point(std::chrono::nanoseconds(BASE + scn->due[i - 1]))), Rcv{this, i});
        }
        armed[i] = true;
        vrt::ev("{\"e\":\"ArmBegin\",\"sync\":1,\"op\":%d,\"due\":%lld,\"now\":%lld}", i, dueRel, rel_now());
        vrt::log_flush();
        op[i]->start();
        vrt::ev("{\"e\":\"ArmEnd\",\"op\":%d,\"now\":%lld}", i, rel_now());
      } else {
        vrt::ev("{\"e\":\"StopBegin\",\"op\":%d}", i);
        src[i]->request_stop();
        vrt::ev("{\"e\":\"StopEnd\",\"op\":%d,\"now\":%lld}", i, rel_now());
      }
    }
  }
  void fire(int i, const char* ch) {
    long long nowS = std::chrono::duration_cast<std::chrono::nanoseconds>(sclock::now().time_since_epoch()).count() - BASE;
    vrt::ev("{\"e\":\"Fire\",\"op\":%d,\"ch\":\"%s\",\"now\":%lld}", i, ch, nowS);
    ++fired[i]; fireSeq.push_back({i, ch[0]});
    OpBase* p = op[i]; op[i] = nullptr;
    delete p;
    if (fired[i] == 1) run(scn->on[i - 1]);
  }
};
void Rcv::set_value() && noexcept { World* ww = w; int ii = i; ww->fire(ii, "value"); }
void Rcv::set_done() && noexcept { World* ww = w; int ii = i; ww->fire(ii, "done"); }
void Rcv::set_error(std::exception_ptr) && noexcept { World* ww = w; int ii = i; ww->fire(ii, "error"); }
inplace_stop_token tag_invoke(tag_t<get_stop_token>, const Rcv& r) noexcept { return r.w->src[r.i]->get_token(); }

// the root sender handed to sync_wait: start() runs the init script and completes with set_value()
struct Root {
  World* w;
  template <template <typename...> class Variant, template <typename...> class Tuple> using value_types = Variant<Tuple<>>;
  template <template <typename...> class Variant> using error_types = Variant<std::exception_ptr>;
  static constexpr bool sends_done = true;
  template <class R>
  struct Op {
    World* w; R r;
    void start() noexcept { w->run(w->scn->init); unifex::set_value(std::move(r)); }
  };
  template <class R> Op<remove_cvref_t<R>> connect(R&& r) const { return Op<remove_cvref_t<R>>{w, (R &&) r}; }
};

static int g_oversleep = 0;
static void on_sleep(long long ns) {
  tseam::tick(ns + g_oversleep);
  vrt::ev("{\"e\":\"Tick\",\"now\":%lld}", rel_now());
}

// delay(stream, scheduler, d): element k of range_stream{0,n} must not be delivered before d after element k-1 was
// (finally(next, schedule_after(scheduler, d))): reported to TimerMon as one timer per element, armed when the previous
// element was delivered (the range's next() completes inline, the clock only moves inside sleep_until)
static void run_delay(long x, int n, int d) {
  tseam::vnow_ns.store(BASE);
  vrt::ev("{\"e\":\"Reset\",\"x\":%ld,\"k\":0,\"scn\":%d,\"now\":0,\"rt\":0,\"slack\":0,\"delay\":[%d,%d]}", x, 0, n, d);
  thread_unsafe_event_loop loop;
  int delivered = 0;
  auto armNext = [&](int k) {
    if (k > n) return;
    vrt::ev("{\"e\":\"ArmBegin\",\"sync\":1,\"op\":%d,\"due\":%lld,\"now\":%lld}", k, rel_now() + d, rel_now());
    vrt::ev("{\"e\":\"ArmEnd\",\"op\":%d,\"now\":%lld}", k, rel_now());
  };
  armNext(1);
  loop.sync_wait(for_each(delay(range_stream{0, n}, loop.get_scheduler(), std::chrono::nanoseconds(d)), [&](int v) {
    long long nowS = std::chrono::duration_cast<std::chrono::nanoseconds>(sclock::now().time_since_epoch()).count() - BASE;
    vrt::ev("{\"e\":\"Fire\",\"op\":%d,\"ch\":\"value\",\"now\":%lld,\"v\":%d}", v + 1, nowS, v);
    ++delivered;
    armNext(v + 2);
  }));
  vrt::ev("{\"e\":\"End\",\"pending\":%d}", n - delivered);
}

static std::vector<Act> parseProg(const json& j) {
  std::vector<Act> p;
  for (auto& a : j) p.push_back({a[0].get<std::string>() == "arm" ? 'a' : 's', a[1].get<int>()});
  return p;
}

int main(int argc, char** argv) {
  vrt::Args a(argc, argv);
  vrt::install_handlers();
  tseam::on_sleep = on_sleep;
  g_oversleep = (int)a.num("oversleep", 0);
  std::vector<Scenario> scns;
  { std::ifstream f(a.str("scenarios")); json j; f >> j;
    for (auto& s : j) { Scenario sc; sc.id = s["id"].get<int>(); sc.due = s["due"].get<std::vector<int>>();
      sc.kind = s["kind"].get<std::vector<std::string>>(); sc.init = parseProg(s["init"]);
      for (auto& o : s["on"]) sc.on.push_back(parseProg(o));
      if (s.contains("expect")) { sc.hasExpect = true; for (auto& o : s["expect"]) sc.expect.push_back({o[0].get<int>(), o[1].get<std::string>()[0]}); }
      scns.push_back(sc); } }
  if (a.has("log")) vrt::log_open(a.str("log").c_str());
  long from = a.num("from", 0), to = a.num("to", 1L << 40);
  long execs = 0, obsMismatch = 0; std::string firstMismatch;
  if (a.has("delay")) {                       // units = (n, d) pairs
    const int cases[][2] = {{1, 1}, {3, 2}, {4, 0}, {2, 5}, {6, 1}, {0, 3}};
    for (long x = from; x < to && x < 6; ++x) { run_delay(x, cases[x][0], cases[x][1]); ++execs; }
    vrt::log_close();
    json s = {{"mode", "delay"}, {"units", execs}, {"execs", execs}, {"drift", 0}, {"unguided", 0}, {"obs_mismatch", 0}, {"first_mismatch", ""}};
    std::printf("%s\n", s.dump().c_str());
    return 0;
  }
  for (long x = from; x < to && x < (long)scns.size(); ++x) {
    const Scenario& sc = scns[x];
    tseam::vnow_ns.store(BASE);
    vrt::ev("{\"e\":\"Reset\",\"x\":%ld,\"k\":0,\"scn\":%d,\"now\":0,\"rt\":0,\"slack\":0}", x, sc.id);
    vrt::log_flush();
    auto w = std::make_unique<World>(); w->scn = &sc;
    for (int i = 1; i <= w->n(); ++i) w->src[i] = std::make_unique<inplace_stop_source>();
    w->loop.sync_wait(Root{w.get()});
    vrt::ev("{\"e\":\"End\",\"pending\":%d}", w->pending());
    ++execs;
    // expected completion sequence (terminal observation of the TLC behaviour), carried by the scenario file
    if (sc.hasExpect && sc.expect != w->fireSeq) { ++obsMismatch; if (firstMismatch.empty()) firstMismatch = "scenario " + std::to_string(sc.id); }
  }
  vrt::log_close();
  json s = {{"mode", "scripted"}, {"units", execs}, {"execs", execs}, {"drift", 0}, {"unguided", 0}, {"obs_mismatch", obsMismatch}, {"first_mismatch", firstMismatch}};
  std::printf("%s\n", s.dump().c_str());
  return 0;
}
