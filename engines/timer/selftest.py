#!/usr/bin/env python3
"""Self-test of the `timer` engine's binding: for each mutation of selftest.json: reset the scratch worktree to
HEAD + hooks.patch, apply the mutation, run ./check C07 --engine timer on it, expect exit 1 (violation) / 0 (clean), reset.
usage: selftest.py [--full] [name ...]
default: only the sub-engine(s) the mutant concerns (TIMER_ONLY) with the reduced scenario sets (TIMER_MINI);
--full: the whole quick tier.  TIMER_WT = scratch worktree of /repo (default /tmp/wt_timer2)."""
import json, os, subprocess, sys, time
WT = os.environ.get("TIMER_WT", "/tmp/wt_timer2")
HERE = os.path.dirname(os.path.abspath(__file__))
VERIF = os.path.dirname(os.path.dirname(HERE))
muts = json.load(open(os.path.join(HERE, "selftest.json")))
hooks = open(os.path.join(HERE, "hooks.patch")).read()
args = [a for a in sys.argv[1:] if not a.startswith("--")]
full = "--full" in sys.argv


def reset():
    subprocess.run(["git", "checkout", "-q", "."], cwd=WT, check=True)
    if hooks.strip() and subprocess.run(["git", "apply", "--check", "-"], cwd=WT, input=hooks, text=True,
                                        stderr=subprocess.DEVNULL).returncode == 0:
        subprocess.run(["git", "apply", "-"], cwd=WT, input=hooks, text=True, check=True)   # not yet part of HEAD


res = []
for m in muts:
    if args and m["name"] not in args:
        continue
    reset()
    p = subprocess.run(["git", "apply", "-"], cwd=WT, input=m["patch"], text=True)
    assert p.returncode == 0, m["name"]
    env = dict(os.environ, VERIF_REPO=WT, VERIF_JOBS=os.environ.get("VERIF_JOBS", "4"))
    if os.path.exists(os.path.join(HERE, "proposed_findings.json")):
        env["VERIF_KNOWN_EXTRA"] = os.path.join(HERE, "proposed_findings.json")
    parts = [x for x in (m.get("part") or "").split(",") if x]
    runs = [None] if (full or not parts) else parts
    t0, rcs, first = time.time(), [], []
    try:
        for part in runs:
            e = dict(env)
            if not full:
                e["TIMER_MINI"] = "1"
            if part:
                e["TIMER_ONLY"] = part
            r = subprocess.run(["timeout", "2400", "./check", "C07", "--tier", "quick", "--engine", "timer"], cwd=VERIF, env=e,
                               stdout=subprocess.PIPE, stderr=subprocess.STDOUT, text=True)
            rcs.append(r.returncode)
            first += [l for l in r.stdout.splitlines() if l.startswith("VIOLATION") or l.startswith("  ") or l.startswith("BROKEN")][:2]
    finally:
        reset()
    want = 1 if m["expect"] == "violation" else 0
    ok = all(rc == want for rc in rcs)
    res.append(dict(name=m["name"], expect=m["expect"], exit=rcs, ok=ok, secs=round(time.time() - t0), first=first[:2]))
    print(json.dumps(res[-1]), flush=True)
print("SELFTEST", "OK" if all(x["ok"] for x in res) else "FAILED")
