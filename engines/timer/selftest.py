#!/usr/bin/env python3
"""Self-test of the `timer` engine's binding: applies each mutation of selftest.json to the scratch worktree,
runs ./check C07 --engine timer on it, expects exit 1 (violation) / exit 0 (clean), reverts.
usage: selftest.py [--full] [name ...]   (default: only the sub-engine the mutant concerns, via TIMER_ONLY)"""
import json, os, subprocess, sys, time
WT = os.environ.get("TIMER_WT", "/tmp/wt_timer")
HERE = os.path.dirname(os.path.abspath(__file__))
VERIF = os.path.dirname(os.path.dirname(HERE))
muts = json.load(open(os.path.join(HERE, "selftest.json")))
args = [a for a in sys.argv[1:] if not a.startswith("--")]
full = "--full" in sys.argv
res = []
for m in muts:
    if args and m["name"] not in args:
        continue
    subprocess.run(["git", "checkout", "-q", "."], cwd=WT, check=True)
    p = subprocess.run(["git", "apply", "-"], cwd=WT, input=m["patch"], text=True)
    assert p.returncode == 0, m["name"]
    env = dict(os.environ, VERIF_REPO=WT, VERIF_JOBS=os.environ.get("VERIF_JOBS", "4"),
               VERIF_KNOWN_EXTRA=os.path.join(HERE, "proposed_findings.json"))
    if not full and m.get("part"):
        env["TIMER_ONLY"] = m["part"]
        env["TIMER_MINI"] = "1"
    elif not full:
        env["TIMER_MINI"] = "1"
    t0 = time.time()
    try:
        r = subprocess.run(["timeout", "1500", "./check", "C07", "--tier", "quick", "--engine", "timer"], cwd=VERIF, env=env,
                           stdout=subprocess.PIPE, stderr=subprocess.STDOUT, text=True)
    finally:
        subprocess.run(["git", "checkout", "-q", "."], cwd=WT, check=True)
    want = 1 if m["expect"] == "violation" else 0
    first = [l for l in r.stdout.splitlines() if l.startswith("VIOLATION") or l.startswith("  ")][:2]
    ok = r.returncode == want
    res.append(dict(name=m["name"], expect=m["expect"], exit=r.returncode, ok=ok, secs=round(time.time() - t0), first=first))
    print(json.dumps(res[-1]), flush=True)
print("SELFTEST", "OK" if all(x["ok"] for x in res) else "FAILED")
