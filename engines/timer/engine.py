"""Engine `timer` (C07): time schedulers never fire early, fire in due-time order, cancel promptly, exactly once.

 A. spec/timer/TimedSingleThread.tla  <-> timed_single_thread_context (virtual clock; the library's timer thread is
    adopted into the controller through libc seams, see tseam.hpp): TLC invariants on every interleaving, edge export,
    guided replay + bounded-preemption DFS + seeded random schedules of the real code, every trace -> TimerMon.
 B. spec/timer/ThreadUnsafeLoop.tla   <-> thread_unsafe_event_loop (single-threaded; sleeping == time passing):
    exhaustive scripted scenarios through sync_wait on the real loop, every trace -> TimerMon.
 C. spec/timer/MonotonicClock.tla     <-> linuxos::monotonic_clock::time_point: TLC proves the transcription of
    normalize/+=/-=/-/< exact against integer semantics at a small base, enumerates boundary operands at base 10^9;
    each (operands, expected) edge is one call of the real operator; results -> ClockMon.
 D. spec/timer/IntrusiveHeap.tla      <-> detail/intrusive_heap.hpp (the io contexts' timer heap): TLC-enumerated insert/remove/pop
    histories replayed on the real template; observed order/links -> HeapMon.
 E. spec/timer/IoTimers.tla           <-> schedule_at on io_epoll_context / io_uring_context (real timerfd / IORING_OP_TIMEOUT, real
    time): TLC invariants incl. the elapsed-vs-cancelled fetch_add election; scenario scripts run on the real contexts (remote and
    local starts, stop before start / pending / racing expiry with the election order forced at timer.* schedule points / local
    stop), events carry the context's own now(), every trace -> TimerMon (rt = 1).
ASan/UBSan/crash events are violations for C07 (the statement is about "no reference afterwards")."""
import itertools, json, os, sys, threading, time

sys.path.insert(0, os.path.join(os.path.dirname(__file__), "..", "..", "tools"))
import vlib

ENG = "timer"
MINI = os.environ.get("TIMER_MINI", "") == "1"     # development aid (self-test): core scenarios, few schedules


# ----------------------------------------------------------------------------- A. timed_single_thread_context
def tst_scenarios(ctx):
    vals = [-1, 0, 0, 1, 1, 2, 4]          # past, now, now, +1, +1, +2, far
    seqs = set()
    for n in (1, 2, 3, 4):
        for idx in itertools.permutations(range(len(vals)), n):
            seqs.add(tuple(vals[i] for i in idx))
    seqs = sorted(seqs)
    base, variants = [], []
    for s in seqs:
        n = len(s)
        for stop in range(0, n + 1):
            for stop_at in ([0] if stop == 0 else [0, 1]):
                base.append(dict(at=[0] * n, due=list(s), kind=["at"] * n, stop=stop, stopAt=stop_at))
            # variants: schedule_after for non-negative delays, late arrival of the last op, later stop
            kinds = ["after" if (d >= 0 and i % 2 == 0) else "at" for i, d in enumerate(s)]
            variants.append(dict(at=[0] * (n - 1) + [1], due=list(s), kind=["at"] * n, stop=stop, stopAt=(2 if stop else 0)))
            variants.append(dict(at=[0] * n, due=list(s), kind=kinds, stop=stop, stopAt=(1 if stop else 0)))
            variants.append(dict(at=[0] + [1] * (n - 1), due=list(s), kind=kinds, stop=stop, stopAt=0))
    core = [
        dict(at=[0, 0, 0], due=[-1, 0, 0], kind=["at"] * 3, stop=2, stopAt=0),     # ties behind an overdue head
        dict(at=[0, 0, 0, 0], due=[1, 1, 1, 2], kind=["at"] * 4, stop=0, stopAt=0),  # three equal due times
        dict(at=[0, 0], due=[4, 2], kind=["at"] * 2, stop=1, stopAt=1),             # cancel the sleeping far timer
        dict(at=[0], due=[4], kind=["at"], stop=1, stopAt=0),                       # stop races start (incl. before)
        dict(at=[0, 0, 1], due=[4, 1, 2], kind=["at", "after", "at"], stop=1, stopAt=1),
        dict(at=[0, 0], due=[0, 0], kind=["after", "after"], stop=2, stopAt=0),      # cancel vs expiry of a due item
        dict(at=[0, 0, 0], due=[2, 1, 1], kind=["at"] * 3, stop=3, stopAt=1),
        dict(at=[0, 0, 0, 0], due=[0, 0, -1, 4], kind=["at"] * 4, stop=4, stopAt=0),
    ]
    if MINI:
        out = core
    elif ctx.quick:
        out = core + ctx.rng.sample(base, 30) + ctx.rng.sample(variants, 12)
    else:
        out = core + ctx.rng.sample(base, 1500) + ctx.rng.sample(variants, 300)
    # two arming clients (threads 1 and 3): overlapping start() calls; ties constrain only non-overlapping submissions
    multi_core = [
        dict(at=[0, 0, 0, 0], due=[1, 1, 1, 2], kind=["at"] * 4, owner=[1, 3, 1, 3], stop=0, stopAt=0),
        dict(at=[0, 0, 0], due=[-1, 0, 0], kind=["at"] * 3, owner=[1, 3, 3], stop=2, stopAt=0),
        dict(at=[0, 0, 0], due=[2, 1, 1], kind=["at", "after", "at"], owner=[3, 1, 3], stop=1, stopAt=1),
        dict(at=[0, 0], due=[4, 2], kind=["at"] * 2, owner=[3, 1], stop=1, stopAt=1),
    ]
    multi = []
    for sc in base[::7] + variants[::11]:
        n = len(sc["due"])
        if n < 2:
            continue
        for pat in ([1, 3, 1, 3], [3, 1, 1, 3], [1, 1, 3, 3]):
            multi.append(dict(sc, owner=pat[:n]))
    if MINI:
        out = out + multi_core
    elif ctx.quick:
        out = out + multi_core + ctx.rng.sample(multi, 8)
    else:
        out = out + multi_core + ctx.rng.sample(multi, min(len(multi), 400))
    seen, res = set(), []
    for s in out:
        s = dict(s)
        s.setdefault("owner", [1] * len(s["due"]))
        k = json.dumps(s, sort_keys=True)
        if k in seen:
            continue
        seen.add(k)
        s["id"] = len(res) + 1
        res.append(s)
    return res


def _death_violation(rep, sub, mode, d, scn, extra=None):
    ev = d["event"]
    what = "%s in %s/%s unit %s: %s %s" % (ev, sub, mode, d["x"], d.get("asan", ""), d.get("frame", ""))
    if ev == "Deadlock":
        what = "lost completion (%s/%s unit %s): an operation never completed although the clock passed every due time: %s" % (
            sub, mode, d["x"], d.get("stderr_tail", "").strip().splitlines()[-1:] or "")
    rec = dict(engine=ENG, sub=sub, mode=mode, event=ev, unit=d["x"], asan=d.get("asan"), frame=d.get("frame"),
               where=d.get("where"), what=what, detail=d.get("stderr_tail", ""), scenario=scn)
    if extra:
        rec.update(extra)
    rep.violation(rec)


def _parallel_jobs(ctx, exe, jobs, tag, timeout=1500):
    """jobs: list of (args, total, payload).  Runs them as concurrent driver processes, each with its own log.
    Returns [(log_path, payload, summaries, deaths)]."""
    results = [None] * len(jobs)
    sem = threading.Semaphore(max(1, min(vlib.NCPU, 8)))

    def work(i):
        args, total, payload = jobs[i]
        lp = os.path.join(ctx.work, "%s_log_%d.ndjson" % (tag, i))
        with sem:
            try:
                results[i] = (lp, payload) + tuple(vlib.run_batches(ctx, exe, args, total, lp, timeout=timeout))
            except Exception as ex:  # noqa
                results[i] = ex
    ths = [threading.Thread(target=work, args=(i,)) for i in range(len(jobs))]
    [t.start() for t in ths]
    [t.join() for t in ths]
    for r in results:
        if isinstance(r, Exception):
            raise vlib.Broken("driver batch failed: %r" % (r,))
    return results


def _parallel_batches(ctx, exe, mk_args, scns, tag, timeout=1500):
    """Split the scenario list over VERIF_JOBS driver processes (each with its own scenario file and log)."""
    nproc = max(1, min(vlib.NCPU, 8, len(scns)))
    jobs = []
    for i in range(nproc):
        chunk = scns[i::nproc]
        sp = os.path.join(ctx.work, "%s_scn_%d.json" % (tag, i))
        json.dump(chunk, open(sp, "w"))
        jobs.append((mk_args(sp), len(chunk), chunk))
    return _parallel_jobs(ctx, exe, jobs, tag, timeout)


def _merge_logs(ctx, res, name):
    merged = os.path.join(ctx.work, name)
    with open(merged, "w") as f:
        for r in res:
            f.write(open(r[0]).read())
            os.remove(r[0])
    return merged


def _validate(ctx, rep, sub, mode, lp, mon="TimerMon", area="timer", scn_by_id=None):
    n, rejected = vlib.validate_batched(ctx, area, mon, lp, max_reports=2)
    for ex in vlib.split_executions(lp)[:200000]:
        if len(ex[1]) > 3:
            rep.distinct.add(hash("".join(ex[1][1:])))
    for rj in rejected:
        evs = rj["events"]
        scn = (scn_by_id or {}).get(evs[0].get("scn")) if evs else None
        sched = next((e.get("sched") for e in evs if e.get("e") in ("End", "Lost") and "sched" in e), None)
        rep.violation(dict(engine=ENG, sub=sub, mode=mode, event="MonitorReject", unit=rj["x"], scenario=scn, sched=sched,
                           what="%s rejects an execution of %s recorded in %s mode (matched %s of %s events; first unmatched: %s)" % (
                               mon, sub, mode, rj.get("prefix"), rj.get("total"),
                               json.dumps(rj["events"][rj["prefix"]]) if rj.get("prefix") is not None and rj["prefix"] < len(rj["events"]) else "end-of-log obligations"),
                           events=rj["events"][:80]))
    return n


def run_tst(ctx):
    rep = ctx.rep
    sub = "TimedSingleThread"
    v0 = len(rep.violations)
    scns = tst_scenarios(ctx)
    sp = os.path.join(ctx.work, "tst_scenarios.json")
    json.dump(scns, open(sp, "w"))
    edges = os.path.join(ctx.work, "tst_edges.ndjson")
    # ---- TLC: all invariants; time passes only at quiescence (+ edge export), then with 1 / 2 free ticks
    nedge = len(scns) if ctx.quick else 400
    spe = os.path.join(ctx.work, "tst_scenarios_edges.json")
    json.dump(scns[:nedge], open(spe, "w"))
    vlib.model_check(ctx, "timer", "TimedSingleThreadMC", env={"SCENARIOS": spe, "EDGES": edges, "FREETICK": "0", "MUT": "none"},
                     workers=1, timeout=1500)
    if not ctx.quick:
        vlib.model_check(ctx, "timer", "TimedSingleThreadMC", env={"SCENARIOS": sp, "EDGES": "", "FREETICK": "0", "MUT": "none"}, timeout=2400)
    multi = [x for x in scns if 3 in x["owner"]]
    single = [x for x in scns if 3 not in x["owner"]]
    ftsel = single[:8] + multi[:4] + single[8:] + multi[4:]       # free-tick runs: core scenarios of both kinds first
    sp1 = os.path.join(ctx.work, "tst_scenarios_ft1.json")
    json.dump(ftsel[:(16 if ctx.quick else 500)], open(sp1, "w"))
    vlib.model_check(ctx, "timer", "TimedSingleThreadMC", env={"SCENARIOS": sp1, "EDGES": "", "FREETICK": "1", "MUT": "none"}, timeout=2400)
    sp2 = os.path.join(ctx.work, "tst_scenarios_ft2.json")
    json.dump((single[:4] + multi[:2] if ctx.quick else ftsel[:60]), open(sp2, "w"))
    vlib.model_check(ctx, "timer", "TimedSingleThreadMC", env={"SCENARIOS": sp2, "EDGES": "", "FREETICK": "2", "MUT": "none"}, timeout=2400)
    rep.exhaustive = True
    # ---- behaviours from the exported graph
    adj, inits, nedges = vlib.read_edges(edges)
    walks = vlib.edge_cover(adj, inits)
    if not ctx.quick:
        walks += vlib.random_walks(adj, inits, 2000, ctx.rng)
    behs, seen = [], set()
    for w in walks:
        sched = [[e["th"], e["site"]] for e in w]
        b = dict(scn=w[0]["scn"], sched=sched, obs=w[-1]["obs"])
        k = json.dumps([b["scn"], sched])
        if k not in seen:
            seen.add(k)
            behs.append(b)
    nall = len(behs)
    cap = 150 if MINI else (600 if ctx.quick else 6000)
    if len(behs) > cap:
        behs = ctx.rng.sample(behs, cap)
    for b in behs[:2]:
        rep.sample(dict(kind="tlc-behaviour", sub=sub, scenario=scns[b["scn"] - 1], schedule=b["sched"], expect_completions=b["obs"]))
    rep.note("%s: %d scenarios; edges exported %d, edge-covering walks %d, distinct behaviours %d, replayed %d" % (
        sub, len(scns), nedges, len(walks), nall, len(behs)))
    # ---- real code
    exe = vlib.build(ctx, "timer_tst", ["engines/timer/driver_tst.cpp"],
                     lib=["timed_single_thread_context.cpp", "inplace_stop_token.cpp", "async_stack.cpp", "exception.cpp"])
    t0 = time.time()
    nproc = max(1, min(vlib.NCPU, 8))
    jobs = []
    for i in range(nproc):
        chunk = behs[i::nproc]
        if not chunk:
            continue
        bp = os.path.join(ctx.work, "tst_behaviours_%d.ndjson" % i)
        with open(bp, "w") as f:
            for b in chunk:
                f.write(json.dumps(b) + "\n")
        jobs.append((["--mode", "guided", "--scenarios", sp, "--behaviours", bp], len(chunk), chunk))
    res = _parallel_jobs(ctx, exe, jobs, "tst_guided")
    for lpx, chunk, sums, deaths in res:
        _account(ctx, rep, sub, "guided", sums, deaths, lambda x, chunk=chunk: (scns[chunk[x]["scn"] - 1] if x < len(chunk) else None))
    merged = _merge_logs(ctx, res, "tst_log_guided.ndjson")
    _validate(ctx, rep, sub, "guided", merged, scn_by_id={x["id"]: x for x in scns})
    os.remove(merged)
    rep.note("%s guided: %d executions, %.1fs incl. validation" % (sub, sum(s["execs"] for r in res for s in r[2]), time.time() - t0))
    if len(rep.violations) > v0:
        rep.note("%s: violations found in guided mode; DFS/random stages skipped" % sub)
        return
    for mode, mk in (("dfs", lambda spx: ["--mode", "dfs", "--scenarios", spx, "--bound", 2 if ctx.quick else 3, "--cap", (8 if MINI else 20) if ctx.quick else 60]),
                     ("random", lambda spx: ["--mode", "random", "--scenarios", spx, "--seed", ctx.seed, "--cap", (5 if MINI else 15) if ctx.quick else 10])):
        t0 = time.time()
        res = _parallel_batches(ctx, exe, mk, scns if (ctx.quick or mode == "random") else scns[:600], "tst_" + mode)
        nex = 0
        for lpx, chunk, sums, deaths in res:
            _account(ctx, rep, sub, mode, sums, deaths, lambda x, chunk=chunk: chunk[x] if x < len(chunk) else None)
            nex += sum(s["execs"] for s in sums)
        merged = _merge_logs(ctx, res, "tst_log_%s.ndjson" % mode)
        n = _validate(ctx, rep, sub, mode, merged, scn_by_id={x["id"]: x for x in scns})
        rep.note("%s %s: %d executions, %.1fs incl. validation" % (sub, mode, nex, time.time() - t0))
        if len(rep.violations) > v0:
            os.remove(merged)
            rep.note("%s: violations found in %s mode; remaining stages skipped" % (sub, mode))
            return
        if mode == "random" and n:
            ex = vlib.split_executions(merged)[0]
            rep.sample(dict(kind="recorded-trace", sub=sub, events=[json.loads(x) for x in ex[1][:40]]))
        os.remove(merged)


# ----------------------------------------------------------------------------- B. thread_unsafe_event_loop
def _due_seqs():
    vals = [-1, 0, 0, 1, 1, 2, 4]
    seqs = set()
    for n in (1, 2, 3, 4):
        for idx in itertools.permutations(range(len(vals)), n):
            seqs.add(tuple(vals[i] for i in idx))
    return sorted(seqs)


def tul_scenarios(ctx):
    base, variants = [], []
    for s in _due_seqs():
        n = len(s)
        arms = [["arm", i] for i in range(1, n + 1)]
        none = [[] for _ in range(n)]
        base.append(dict(due=list(s), kind=["at"] * n, init=arms, on=none))
        for j in range(1, n + 1):
            st = ["stop", j]
            k = arms.index(["arm", j])
            base.append(dict(due=list(s), kind=["at"] * n, init=arms[:k] + [st] + arms[k:], on=none, tag="sbs"))   # stop before start
            base.append(dict(due=list(s), kind=["at"] * n, init=arms[:k + 1] + [st] + arms[k + 1:], on=none))        # right after start
            if k + 1 < n:
                base.append(dict(due=list(s), kind=["at"] * n, init=arms + [st], on=none))                           # after all starts
            for i in range(1, n + 1):                                                                                # inside i's completion
                on = [[] for _ in range(n)]
                on[i - 1] = [st]
                base.append(dict(due=list(s), kind=["at"] * n, init=arms, on=on))
            # variants: schedule_after, late arrival (last op started from inside the first op's completion)
            kinds = ["after" if (d >= 0 and i % 2 == 1) else "at" for i, d in enumerate(s)]
            variants.append(dict(due=list(s), kind=kinds, init=arms[:k + 1] + [st] + arms[k + 1:], on=none))
            if n >= 2:
                for i in range(1, n):
                    on = [[] for _ in range(n)]
                    on[i - 1] = [["arm", n]] + ([st] if j != i else [])
                    variants.append(dict(due=list(s), kind=kinds, init=arms[:-1], on=on))
                    on2 = [[] for _ in range(n)]
                    on2[i - 1] = ([st] if j != n else []) + [["arm", n]]
                    variants.append(dict(due=list(s), kind=["at"] * n, init=arms[:-1] + ([st] if j == n else []), on=on2))
    if ctx.quick or MINI:
        core = [b for b in base if b["due"] in ([-1, 0, 0], [1, 1, 1, 2], [1, 2, 4], [2], [0], [4, 2])]
        out = core + ctx.rng.sample(base, 60 if MINI else 300) + ctx.rng.sample(variants, 30 if MINI else 150)
    else:
        out = base + ctx.rng.sample(variants, min(len(variants), 3000))
    seen, res = set(), []
    for s in out:
        k = json.dumps(s, sort_keys=True)
        if k in seen:
            continue
        seen.add(k)
        s = dict(s)
        s["id"] = len(res) + 1
        res.append(s)
    return res


def _links_initialised(ctx):
    """Spec parameter, not an oracle: does operation_base initialise next_/prevPtr_ in the tree under test?"""
    import re
    try:
        txt = open(os.path.join(ctx.repo, "include", "unifex", "thread_unsafe_event_loop.hpp")).read()
    except OSError:
        return False
    m = re.search(r"class operation_base \{.*?\n\};", txt, re.S)
    body = m.group(0) if m else txt
    a = re.search(r"operation_base\*\s*next_\s*(=|\{)", body) or re.search(r"next_\(\s*(nullptr|NULL|0)?\s*\)", body)
    b = re.search(r"operation_base\*\*\s*prevPtr_\s*(=|\{)", body) or re.search(r"prevPtr_\(\s*(nullptr|NULL|0)?\s*\)", body)
    return bool(a and b)


def run_tul(ctx):
    rep = ctx.rep
    sub = "ThreadUnsafeLoop"
    scns = tul_scenarios(ctx)
    sp = os.path.join(ctx.work, "tul_scenarios.json")
    json.dump(scns, open(sp, "w"))
    links = "null" if _links_initialised(ctx) else "indet"
    edges = os.path.join(ctx.work, "tul_edges.ndjson")
    vlib.model_check(ctx, "timer", "ThreadUnsafeLoopMC", env={"SCENARIOS": sp, "EDGES": edges, "INITLINKS": links, "MUT": "none"},
                     workers=1, timeout=1500)
    # terminal observation of each scenario's (deterministic) behaviour
    adj, inits, nedges = vlib.read_edges(edges)
    pred_crash = set()
    for i in inits:
        u, last = i, None
        while adj.get(u):
            u, last = adj[u][0]
        if last is None:
            continue
        sc = scns[last["scn"] - 1]
        sc["expect"] = last["obs"]
        if last.get("crash"):
            pred_crash.add(sc["id"])
    if pred_crash:
        rep.note("%s: the transcription (operation_base::next_/prevPtr_ %s) violates NoIndeterminateRead in %d scenarios: the cancel callback "
                 "run inside callback_.construct (stop requested before start, due time in the future) reads prevPtr_ before anything wrote "
                 "it; decided on the real code below" % (sub, "uninitialised" if links == "indet" else links, len(pred_crash)))
    if not ctx.quick:
        r = vlib.model_check(ctx, "timer", "ThreadUnsafeLoopMC", cfg="ThreadUnsafeLoopInit.cfg", must_hold=False,
                             env={"SCENARIOS": sp, "EDGES": "", "INITLINKS": links, "MUT": "none"}, timeout=1500)
        if r["kind"] not in ("ok", "invariant"):
            raise vlib.Broken("TLC %s on ThreadUnsafeLoopInit:\n%s" % (r["kind"], r["out"][-2000:]))
    main = [s for s in scns if s["id"] not in pred_crash]
    crashy = [s for s in scns if s["id"] in pred_crash]
    crashy = crashy[:: max(1, len(crashy) // (4 if ctx.quick else 12))][:(4 if ctx.quick else 12)]
    rep.note("%s: %d scenarios (links %s in the specification); %d predicted to read an indeterminate link, %d of those executed" % (
        sub, len(scns), links, len(pred_crash), len(crashy)))
    exe = vlib.build(ctx, "timer_tul", ["engines/timer/driver_tul.cpp"],
                     lib=["thread_unsafe_event_loop.cpp", "inplace_stop_token.cpp", "async_stack.cpp", "exception.cpp"])
    t0 = time.time()
    for tag, group, over in (("main", main, 0), ("oversleep", main[::(3 if ctx.quick else 1)], 2), ("uninit", crashy, 0)):
        if not group:
            continue
        gp = os.path.join(ctx.work, "tul_%s.json" % tag)
        json.dump(group, open(gp, "w"))
        lp = os.path.join(ctx.work, "tul_log_%s.ndjson" % tag)
        sums, deaths = vlib.run_batches(ctx, exe, ["--scenarios", gp, "--oversleep", over], len(group), lp, timeout=900)
        rep.evaluations += sum(s.get("execs", 0) for s in sums)
        for s in sums:
            if s.get("obs_mismatch") and over == 0:
                rep.drift += s["obs_mismatch"]
                rep.note("%s %s: %d executions whose completion sequence differs from the specification's, first %s (sent to the monitor)" % (
                    sub, tag, s["obs_mismatch"], s.get("first_mismatch")))
        for d in deaths:
            sc = group[d["x"]] if d["x"] < len(group) else None
            fil = os.path.basename((d.get("where") or "").split(":")[0])
            _death_violation(rep, sub, tag, d, sc, dict(file=fil, spec_predicts=("indet-read" if sc and sc["id"] in pred_crash else "none")))
        _validate(ctx, rep, sub, tag, lp, scn_by_id={x["id"]: x for x in scns})
        if tag == "main":
            ex = vlib.split_executions(lp)
            if ex:
                rep.sample(dict(kind="recorded-trace", sub=sub, scenario=main[0], events=[json.loads(x) for x in ex[0][1][:40]]))
    # delay(stream, scheduler, d) on the same loop: one timer per element (delay.hpp = finally(next, schedule_after))
    ep = os.path.join(ctx.work, "tul_empty.json")
    json.dump([], open(ep, "w"))
    lp = os.path.join(ctx.work, "tul_log_delay.ndjson")
    sums, deaths = vlib.run_batches(ctx, exe, ["--scenarios", ep, "--delay", 1], 6, lp, timeout=300)
    rep.evaluations += sum(s.get("execs", 0) for s in sums)
    for d in deaths:
        _death_violation(rep, sub, "delay", d, None, dict(file=os.path.basename((d.get("where") or "").split(":")[0]), spec_predicts="none"))
    _validate(ctx, rep, sub, "delay", lp)
    rep.note("%s: %.1fs driver + validation (incl. %d delay() streams)" % (sub, time.time() - t0, sum(s.get("execs", 0) for s in sums)))


# ----------------------------------------------------------------------------- C. monotonic_clock::time_point
def run_clock(ctx):
    rep = ctx.rep
    sub = "MonotonicClock"
    vlib.model_check(ctx, "timer", "MonotonicClockMC", env={"NORMOFF": "0"}, timeout=900)
    edges = os.path.join(ctx.work, "clk_edges.ndjson")
    vlib.model_check(ctx, "timer", "MonotonicClockEdges", env={"EDGES": edges, "CLKSIZE": "small" if ctx.quick else "full"},
                     workers=1, timeout=1500)
    cases = sorted(set(l for l in open(edges) if l.strip()))
    ctx.rng.shuffle(cases)
    cp = os.path.join(ctx.work, "clk_cases.ndjson")
    open(cp, "w").writelines(cases)
    rep.sample(dict(kind="tlc-case", sub=sub, case=json.loads(cases[0])))
    exe = vlib.build(ctx, "timer_clock", ["engines/timer/driver_clock.cpp"], lib=["linux/monotonic_clock.cpp"])
    lp = os.path.join(ctx.work, "clk_log.ndjson")
    t0 = time.time()
    sums, deaths = vlib.run_batches(ctx, exe, ["--cases", cp, "--seed", ctx.seed, "--extra", 500 if ctx.quick else 6000], 2, lp, timeout=600)
    rep.evaluations += sum(s.get("execs", 0) for s in sums)
    for s in sums:
        if s.get("drift"):
            rep.drift += s["drift"]
            rep.note("%s: %d real results differ from the transcription's (first: %s); sent to the monitor" % (sub, s["drift"], s.get("first_mismatch")))
    for d in deaths:
        _death_violation(rep, sub, "clock", d, None)
    # the monitor judges every call separately: split the log so that a rejected call is reported precisely
    n, rejected = vlib.validate_batched(ctx, "timer", "ClockMon", lp, max_reports=2)
    for rj in rejected:
        bad = rj["events"][rj["prefix"]] if rj.get("prefix") is not None and rj["prefix"] < len(rj["events"]) else None
        rep.violation(dict(engine=ENG, sub=sub, mode="clock", event="MonitorReject", unit=rj["x"], call=bad,
                           what="ClockMon rejects a time_point operator result: %s" % json.dumps(bad)))
    rep.distinct.update(hash(l) for l in cases)
    rep.note("%s: %d TLC cases at base 10^9 + seeded extra cases, %d operator calls, %.1fs incl. validation" % (
        sub, len(cases), sum(s.get("execs", 0) for s in sums), time.time() - t0))


# ----------------------------------------------------------------------------- D. intrusive_heap
def _bounded_cover(adj, inits, max_len, rng, extra_random=0):
    """Walks of length <= max_len covering every edge of a (cyclic) graph: BFS path to an uncovered edge, then a greedy
    extension over uncovered edges."""
    covered, out = set(), []
    for i in inits:
        parent, order, q = {i: None}, [i], [i]
        while q:
            nq = []
            for u in q:
                for k, (v, e) in enumerate(adj.get(u, ())):
                    if v not in parent:
                        parent[v] = (u, k)
                        order.append(v)
                        nq.append(v)
            q = nq
        for u0 in order:
            for k0 in range(len(adj.get(u0, ()))):
                if (u0, k0) in covered:
                    continue
                pre, u = [], u0
                while parent[u] is not None:
                    pre.append(parent[u])
                    u = parent[u][0]
                pre.reverse()
                walk = pre + [(u0, k0)]
                covered.add((u0, k0))
                u = adj[u0][k0][0]
                while adj.get(u) and len(walk) < max(max_len, len(pre) + 1):
                    nxt = [k for k in range(len(adj[u])) if (u, k) not in covered]
                    if not nxt:
                        break
                    k = nxt[0]
                    covered.add((u, k))
                    walk.append((u, k))
                    u = adj[u][k][0]
                out.append([adj[a][k][1] for (a, k) in walk])
        for _ in range(extra_random):
            u, walk = i, []
            while adj.get(u) and len(walk) < max_len:
                v, e = rng.choice(adj[u])
                walk.append(e)
                u = v
            out.append(walk)
    return out


def run_heap(ctx):
    rep = ctx.rep
    sub = "IntrusiveHeap"
    edges = os.path.join(ctx.work, "heap_edges.ndjson")
    vlib.model_check(ctx, "timer", "IntrusiveHeapMC", env={"EDGES": edges, "MUT": "none"}, workers=1, timeout=1500)
    adj, _, nedges = vlib.read_edges(edges)
    # the graph is cyclic (removing everything leads back to the empty heap): start from the empty states
    inits = sorted({u for u, outs in adj.items() for (_, e) in outs if e.get("empty")})
    walks = _bounded_cover(adj, inits, 14, ctx.rng, extra_random=(50 if ctx.quick else 2000))
    if not walks:
        raise vlib.Broken("no histories generated from IntrusiveHeapMC's edge export")
    if ctx.quick and len(walks) > 1500:
        walks = ctx.rng.sample(walks, 1500)
    hp = os.path.join(ctx.work, "heap_histories.ndjson")
    with open(hp, "w") as f:
        for w in walks:
            f.write(json.dumps(dict(kv=w[0]["kv"], steps=[[e["op"], e["item"], e["res"], e["order"]] for e in w])) + "\n")
    rep.sample(dict(kind="tlc-behaviour", sub=sub, keys=walks[0][0]["kv"], steps=[[e["op"], e["item"]] for e in walks[0]]))
    exe = vlib.build(ctx, "timer_heap", ["engines/timer/driver_heap.cpp"], lib=[])
    lp = os.path.join(ctx.work, "heap_log.ndjson")
    t0 = time.time()
    sums, deaths = vlib.run_batches(ctx, exe, ["--histories", hp], len(walks), lp, timeout=900)
    rep.evaluations += sum(s.get("execs", 0) for s in sums)
    for s in sums:
        if s.get("drift"):
            rep.drift += s["drift"]
            rep.note("%s: %d steps whose observed list differs from the specification's (first %s); sent to the monitor" % (sub, s["drift"], s.get("first_mismatch")))
    for d in deaths:
        _death_violation(rep, sub, "heap", d, None)
    _validate(ctx, rep, sub, "heap", lp, mon="HeapMon")
    rep.note("%s: %d edges exported, %d histories (<= 14 steps) replayed on the real template, %.1fs incl. validation" % (
        sub, nedges, len(walks), time.time() - t0))


# ----------------------------------------------------------------------------- E. io_epoll_context / io_uring_context timers
NONE = -100


def iot_scenarios(ctx):
    """Scenarios shared by spec/timer/IoTimers and driver_iot.cpp (ctx / bmode / race / fine are driver-only fields)."""
    out = []

    def add(due, arm=None, on=None, stop=0, stop_at=NONE, bmode="after", race="free", fine=None, rel=None, tag=""):
        n = len(due)
        out.append(dict(due=list(due), arm=list(arm or [0] * n), on=[list(x) for x in (on or [[] for _ in range(n)])],
                        stop=stop, stopAt=stop_at, bmode=bmode, race=race, fine=list(fine or [0] * n), rel=list(rel or [0] * n), tag=tag))
    on_ = lambda n, k, acts: [acts if i == k else [] for i in range(1, n + 1)]
    # --- core
    add([-1, 0, 0], tag="ties-overdue")
    add([2, 2, 2, 1], tag="ties-future")
    add([1, 2, 2, 3], fine=[0, 0, 400, 0], tag="close-pair")
    add([2, 1, 3, 1], tag="unordered")
    # timers that are almost due when submitted (due = clock at start + 1.5 ms): the submission itself makes the
    # context look at its timers, nothing may complete them before the 1.5 ms have passed
    add([1, 1], arm=[0, 1], on=on_(2, 1, [["arm", 2]]), rel=[0, 1], fine=[0, 1500], tag="near-due-local-start")
    add([1, 1, 1], arm=[0, 1, 1], on=on_(3, 1, [["arm", 2], ["arm", 3]]), rel=[0, 1, 1], fine=[0, 1500, 900], tag="near-due-local-starts")
    add([0], rel=[1], fine=[1500], tag="near-due-remote-start")
    for bm in ("before", "with", "after"):
        add([9], stop=1, stop_at=0, bmode=bm, tag="stop-%s-far" % bm)
        add([2, 1], stop=1, stop_at=0, bmode=bm, tag="stop-%s" % bm)
        add([0, 0, -1], stop=2, stop_at=0, bmode=bm, tag="stop-%s-overdue" % bm)
    add([1, 9, 2], stop=2, stop_at=1, tag="stop-pending-far")
    add([9, 1], stop=1, stop_at=2, tag="stop-pending-far-head")
    for rc in ("free", "io_first", "stop_first"):
        add([2], stop=1, stop_at=2, race=rc, tag="race-%s" % rc)
        add([1, 2, 3], stop=2, stop_at=2, race=rc, tag="race-mid-%s" % rc)
        add([2, 2, 3], stop=1, stop_at=2, race=rc, tag="race-tie-%s" % rc)
    add([1, 9, 2], on=on_(3, 1, [["stop", 2]]), tag="local-stop-far")
    add([1, 2, 3], on=on_(3, 1, [["stop", 3]]), tag="local-stop")
    add([1, 2], on=on_(2, 1, [["stop", 1]]), tag="local-stop-self")
    add([1, 2, 2], on=on_(3, 2, [["stop", 3]]), tag="local-stop-elapsed-sibling")      # 3 is already reaped with 2
    add([1, 9, 2], arm=[0, 0, 1], on=on_(3, 1, [["arm", 3]]), stop=2, stop_at=1, tag="local-arm")
    add([1, 0, 3, 2], arm=[0, 1, 0, 1], on=on_(4, 1, [["arm", 2], ["arm", 4]]), tag="local-arm-overdue")
    add([1, 9], arm=[0, 1], on=on_(2, 1, [["stop", 2], ["arm", 2]]), tag="local-stop-before-start")
    add([1, 2, 9], arm=[0, 1, 0], on=on_(3, 1, [["arm", 2], ["stop", 3]]), tag="local-arm-and-stop")
    core = list(out)
    # --- generated family
    del out[:]
    vals = [-1, 0, 0, 1, 2, 2, 3, 9]
    seqs = set()
    for n in (1, 2, 3, 4):
        for idx in itertools.permutations(range(len(vals)), n):
            seqs.add(tuple(vals[i] for i in idx))
    for sq in sorted(seqs):
        n = len(sq)
        add(sq, tag="plain")
        for j in range(1, n + 1):
            for bm in ("before", "with", "after"):
                add(sq, stop=j, stop_at=0, bmode=bm, tag="stop0")
            if 1 <= sq[j - 1] < 9:
                for rc in ("free", "io_first", "stop_first"):
                    add(sq, stop=j, stop_at=sq[j - 1], race=rc, tag="race")
            if sq[j - 1] >= 2:
                add(sq, stop=j, stop_at=1, tag="pending")
            for k in range(1, n + 1):
                if k != j and 1 <= sq[k - 1] < 9:
                    add(sq, on=on_(n, k, [["stop", j]]), tag="lstop")
                    if sq[j - 1] != sq[k - 1] or j > k:
                        arm = [0] * n
                        arm[j - 1] = k
                        add(sq, arm=arm, on=on_(n, k, [["arm", j]]), tag="larm")
    fam = list(out)
    if MINI:
        pick = core
    elif ctx.quick:
        pick = core + ctx.rng.sample(fam, 14)
    else:
        pick = core + ctx.rng.sample(fam, 500)
    res = []
    for c in ("ep", "ur"):
        for sdef in pick:
            s2 = dict(sdef, ctx=c, id=len(res) + 1)
            res.append(s2)
    return res


def run_iot(ctx):
    rep = ctx.rep
    sub = "IoTimers"
    scns = iot_scenarios(ctx)
    # the specification does not distinguish the two contexts nor the driver-only timing fields
    spec_scns, seen = [], set()
    for s in scns:
        k = json.dumps([s["due"], s["arm"], s["on"], s["stop"], s["stopAt"]])
        if k not in seen:
            seen.add(k)
            spec_scns.append(dict(id=len(spec_scns) + 1, due=s["due"], arm=s["arm"], on=s["on"], stop=s["stop"], stopAt=s["stopAt"]))
    sp = os.path.join(ctx.work, "iot_spec_scenarios.json")
    json.dump(spec_scns, open(sp, "w"))
    obsf = os.path.join(ctx.work, "iot_spec_obs.ndjson")
    vlib.model_check(ctx, "timer", "IoTimersMC", cfg="IoTimersObs.cfg", env={"SCENARIOS": sp, "FREETICK": "0", "MUT": "none", "OBS": obsf}, workers=1, timeout=2400)
    # completion channels the specification admits at the end of each scenario (per op: value | done | none)
    spec_obs = {}
    for l in open(obsf):
        if l.strip():
            o = json.loads(l)
            spec_obs.setdefault(o["scn"], set()).add(tuple(o["ch"]))
    spec_id = {}
    for s in scns:
        k = json.dumps([s["due"], s["arm"], s["on"], s["stop"], s["stopAt"]])
        spec_id[s["id"]] = [i + 1 for i, q in enumerate(spec_scns) if json.dumps([q["due"], q["arm"], q["on"], q["stop"], q["stopAt"]]) == k][0]
    spf = os.path.join(ctx.work, "iot_spec_scenarios_free.json")
    json.dump(spec_scns[:(10 if ctx.quick else 120)], open(spf, "w"))
    vlib.model_check(ctx, "timer", "IoTimersMC", cfg="IoTimersFree.cfg", env={"SCENARIOS": spf, "FREETICK": "2", "MUT": "none", "OBS": ""}, timeout=2400)
    exe = vlib.build(ctx, "timer_iot", ["engines/timer/driver_iot.cpp"],
                     lib=["inplace_stop_token.cpp", "async_stack.cpp", "exception.cpp"] + vlib.LIB_LINUX)
    t0 = time.time()
    res = _parallel_batches(ctx, exe, lambda spx: ["--scenarios", spx, "--seed", ctx.seed], scns, "iot", timeout=1500)
    nex = ndisc = hits = thits = 0
    for lpx, chunk, sums, deaths in res:
        for s in sums:
            nex += s.get("execs", 0)
            ndisc += s.get("discards", 0)
            hits += s.get("hook_hits", 0)
            thits += s.get("timer_hook_hits", 0)
        for d in deaths:
            sc = chunk[d["x"]] if d["x"] < len(chunk) else None
            _death_violation(rep, sub, "realtime", d, sc, dict(context=(sc or {}).get("ctx"), tag=(sc or {}).get("tag")))
    rep.evaluations += nex
    merged = os.path.join(ctx.work, "iot_log.ndjson")
    kept = nodrift = 0
    byid = {x["id"]: x for x in scns}
    with open(merged, "w") as f:
        for r in res:
            for x, lines in vlib.split_executions(r[0]):
                if any('"e":"Discard"' in l for l in lines) or len(lines) < 2:
                    continue
                f.writelines(lines)
                kept += 1
                # observation: the channels of the operations whose fate the scenario decides (not the far timers the
                # driver cancels during clean-up) must be one of the outcomes the specification admits
                evs = [json.loads(l) for l in lines]
                sc = byid.get(evs[0].get("scn"))
                if sc is None:
                    continue
                got = {e["op"]: e["ch"] for e in evs if e.get("e") == "Fire"}
                stopped = {sc["stop"]} | {a[1] for prog in sc["on"] for a in prog if a[0] == "stop"}
                decided = [i for i in range(1, len(sc["due"]) + 1) if sc["due"][i - 1] < 9 or i in stopped]
                admits = spec_obs.get(spec_id[sc["id"]], set())
                if any(all(o[i - 1] == got.get(i, "none") for i in decided) for o in admits):
                    nodrift += 1
                else:
                    rep.drift += 1
                    if rep.drift <= 3:
                        rep.note("%s: scenario %s (%s): completion channels %s are not among the specification's outcomes %s (sent to the monitor)" % (
                            sub, sc.get("tag"), sc["ctx"], got, sorted(admits)[:4]))
            os.remove(r[0])
    n = _validate(ctx, rep, sub, "realtime", merged, scn_by_id={x["id"]: x for x in scns})
    rep.note("%s: %d scenarios x {io_epoll_context, io_uring_context}: %d executions, %d discarded for timing (fence later than 5 ms before T0) and "
             "retried, %d validated; %d schedule-point hits (%d at timer.* sites%s), %.1fs incl. validation" % (
                 sub, len(scns) // 2, nex, ndisc, kept, hits, thits, "" if thits else ": hooks.patch not applied to this tree, race forcing inactive",
                 time.time() - t0))
    if n:
        ex = vlib.split_executions(merged)[0]
        rep.sample(dict(kind="recorded-trace", sub=sub, events=[json.loads(x) for x in ex[1][:40]]))
    os.remove(merged)


def _account(ctx, rep, sub, mode, sums, deaths, scn_of):
    rep.evaluations += sum(s.get("execs", 0) for s in sums)
    for s in sums:
        rep.drift += s.get("drift", 0)
        if mode == "guided":
            rep.unguided += s.get("unguided", 0)
        if s.get("first_drift"):
            rep.note("%s %s drift: %s" % (sub, mode, s["first_drift"]))
        if s.get("obs_mismatch"):
            rep.note("%s %s: %d executions whose completion sequence differs from the specification's (sent to the monitor)" % (sub, mode, s["obs_mismatch"]))
    for d in deaths:
        _death_violation(rep, sub, mode, d, scn_of(d["x"]))


def run_replay(ctx):
    """./check C07 --replay FILE : re-execute the recorded scenario (+ schedule) and validate it again."""
    rep, rr = ctx.rep, ctx.replay
    sub, scn = rr.get("sub"), rr.get("scenario")
    if sub == "IoTimers" and scn:
        # free-running real-time scenario: re-run it (8 times; schedules are not reproducible exactly) and validate again
        sp = os.path.join(ctx.work, "replay_scn.json")
        json.dump([dict(scn, id=i + 1) for i in range(8)], open(sp, "w"))
        lp = os.path.join(ctx.work, "replay_log.ndjson")
        exe = vlib.build(ctx, "timer_iot", ["engines/timer/driver_iot.cpp"],
                         lib=["inplace_stop_token.cpp", "async_stack.cpp", "exception.cpp"] + vlib.LIB_LINUX)
        sums, deaths = vlib.run_batches(ctx, exe, ["--scenarios", sp, "--seed", ctx.seed], 8, lp, timeout=600)
        rep.evaluations += sum(s.get("execs", 0) for s in sums)
        for d in deaths:
            _death_violation(rep, sub, "realtime", d, scn, dict(context=scn.get("ctx"), tag=scn.get("tag")))
        flt = os.path.join(ctx.work, "replay_log_f.ndjson")
        with open(flt, "w") as f:
            for x, lines in vlib.split_executions(lp):
                if not any('"e":"Discard"' in l for l in lines) and len(lines) > 1:
                    f.writelines(lines)
        _validate(ctx, rep, sub, "realtime", flt, scn_by_id={i + 1: scn for i in range(8)})
        return
    if not scn or sub not in ("TimedSingleThread", "ThreadUnsafeLoop"):
        raise vlib.Broken("replay file carries no scenario for a replayable sub-engine")
    scn = dict(scn, id=1)
    sp = os.path.join(ctx.work, "replay_scn.json")
    json.dump([scn], open(sp, "w"))
    lp = os.path.join(ctx.work, "replay_log.ndjson")
    if sub == "TimedSingleThread":
        exe = vlib.build(ctx, "timer_tst", ["engines/timer/driver_tst.cpp"],
                         lib=["timed_single_thread_context.cpp", "inplace_stop_token.cpp", "async_stack.cpp", "exception.cpp"])
        bp = os.path.join(ctx.work, "replay_beh.ndjson")
        open(bp, "w").write(json.dumps(dict(scn=1, sched=[[t, ""] for t in (rr.get("sched") or [])], obs=[])) + "\n")
        args = ["--mode", "guided", "--scenarios", sp, "--behaviours", bp, "--fine", 0 if rr.get("mode") == "guided" else 1]
    else:
        exe = vlib.build(ctx, "timer_tul", ["engines/timer/driver_tul.cpp"],
                         lib=["thread_unsafe_event_loop.cpp", "inplace_stop_token.cpp", "async_stack.cpp", "exception.cpp"])
        args = ["--scenarios", sp, "--oversleep", 2 if rr.get("mode") == "oversleep" else 0]
    sums, deaths = vlib.run_batches(ctx, exe, args, 1, lp, timeout=300)
    rep.evaluations += sum(s.get("execs", 0) for s in sums)
    for d in deaths:
        fil = os.path.basename((d.get("where") or "").split(":")[0])
        _death_violation(rep, sub, rr.get("mode", "replay"), d, scn, dict(file=fil, spec_predicts=rr.get("spec_predicts", "none")))
    _validate(ctx, rep, sub, rr.get("mode", "replay"), lp, scn_by_id={1: scn})


def run(ctx):
    rep = ctx.rep
    if ctx.replay:
        return run_replay(ctx)
    rep.assume("sequentially consistent interleavings at mutex-block granularity (pthread_mutex_lock/unlock and condition-variable seams; "
               "plus the stop source's own schedule points in DFS/random mode)")
    rep.assume("virtual steady_clock: 1 tick = 1 ns, advanced only when no thread can move (real runs) / additionally at <= 2 arbitrary points (TLC)")
    rep.assume("<= 4 operations per context, one remote request_stop per scenario; one or two arming threads")
    rep.assume("io contexts: real time (30 ms per tick, patience 3 s before time is declared to have passed); executions are recorded only if "
               "every remote start was inserted (fence) >= 5 ms before the first future due time, otherwise retried with a longer lead; "
               "the kernel timer is modelled as one re-armable absolute timer (io_uring's activeTimerCount_ bookkeeping is not modelled)")
    if os.environ.get("TIMER_ONLY", "") in ("", "tst"):
        run_tst(ctx)
    if os.environ.get("TIMER_ONLY", "") in ("", "tul"):
        run_tul(ctx)
    if os.environ.get("TIMER_ONLY", "") in ("", "clock"):
        run_clock(ctx)
    if os.environ.get("TIMER_ONLY", "") in ("", "heap"):
        run_heap(ctx)
    if os.environ.get("TIMER_ONLY", "") in ("", "iot"):
        run_iot(ctx)
    rep.rule("executions = guided replays of TLC behaviours + DFS(preemption-bounded) + seeded random schedules of the real contexts "
             "+ scripted single-threaded loop scenarios + clock operator calls; distinct_nontrivial = distinct recorded event sequences with more than 3 events")
