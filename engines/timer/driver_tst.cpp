// C07 driver A: timed_single_thread_context on the virtual clock, every thread (the context's own timer thread
// included) under the token-passing controller.  Seams: see tseam.hpp.
// modes: guided (TLC behaviours of TimedSingleThreadMC), dfs (bounded-preemption enumeration), random (seeded).
// One execution = one scenario {at[], due[], kind[], stop, stopAt} on a fresh context:
//   thread 0  the library's timer thread (adopted at its first cv_.wait)
//   thread 1, 3  arming clients (owner[i]): for each of their ops i: wait until now >= at[i]; start(op i)   (ops are heap-allocated individually
//             and freed by their receiver inside the completion => ASan sees any later touch)
//   thread 2  remote stopper B: wait until now >= stopAt; request_stop() on op `stop`'s source
//   Tick      performed by the controller only when no thread is enabled (time passes only at quiescence)
// Events (ndjson): Reset ArmBegin ArmEnd StopBegin StopEnd Fire Tick End  -> validated by spec/timer/TimerMon.tla
#include "tseam.hpp"

#include <unifex/inplace_stop_token.hpp>
#include <unifex/receiver_concepts.hpp>
#include <unifex/scheduler_concepts.hpp>
#include <unifex/sender_concepts.hpp>
#include <unifex/timed_single_thread_context.hpp>

#include <nlohmann/json.hpp>

#include <fstream>
#include <set>

using namespace unifex;
using json = nlohmann::json;
using sclock = std::chrono::steady_clock;

static const long long BASE = 1000;   // virtual ns at the start of every execution ("past" due times stay positive)
static long long rel_now() { return tseam::vnow_ns.load() - BASE; }

struct Scenario { int id; std::vector<int> at, due, owner; std::vector<std::string> kind; int stop, stopAt; };

struct World;
struct Rcv {
  World* w; int i;
  void set_value() && noexcept;
  void set_done() && noexcept;
  void set_error(std::exception_ptr) && noexcept;
  friend inplace_stop_token tag_invoke(tag_t<get_stop_token>, const Rcv& r) noexcept;
};
struct OpBase { virtual ~OpBase() {} virtual void start() noexcept = 0; };
template <class S>
struct OpHolder final : OpBase {
  connect_result_t<S, Rcv> op;
  OpHolder(S&& s, Rcv r) : op(connect((S &&) s, std::move(r))) {}
  void start() noexcept override { unifex::start(op); }
};
template <class S> static OpBase* make_op(S&& s, Rcv r) { return new OpHolder<S>((S &&) s, std::move(r)); }

struct World {
  const Scenario* scn = nullptr;
  timed_single_thread_context* ctx = nullptr;
  std::unique_ptr<inplace_stop_source> src[7];
  OpBase* op[7] = {};
  int fired[7] = {};
  bool logging = true;
  std::vector<std::pair<int, char>> fireSeq;
  int n() const { return (int)scn->due.size(); }
  int pending() const { int p = 0; for (int i = 1; i <= n(); ++i) if (op[i] != nullptr || fired[i] == 0) ++p; return p; }
  bool allFired() const { for (int i = 1; i <= n(); ++i) if (fired[i] == 0) return false; return true; }
  void fire(int i, const char* ch) {
    long long nowS = std::chrono::duration_cast<std::chrono::nanoseconds>(sclock::now().time_since_epoch()).count() - BASE;
    if (logging) vrt::ev("{\"e\":\"Fire\",\"op\":%d,\"ch\":\"%s\",\"now\":%lld,\"t\":%d}", i, ch, nowS, vrt::self_id());
    ++fired[i]; fireSeq.push_back({i, ch[0]});
    OpBase* p = op[i]; op[i] = nullptr;
    delete p;                       // the operation state dies inside its completion
  }
};
void Rcv::set_value() && noexcept { World* ww = w; int ii = i; ww->fire(ii, "value"); }
void Rcv::set_done() && noexcept { World* ww = w; int ii = i; ww->fire(ii, "done"); }
void Rcv::set_error(std::exception_ptr) && noexcept { World* ww = w; int ii = i; ww->fire(ii, "error"); }
inplace_stop_token tag_invoke(tag_t<get_stop_token>, const Rcv& r) noexcept { return r.w->src[r.i]->get_token(); }

// block the calling controlled thread until the virtual clock reaches `abs_ns` (also a schedule point)
static void sleep_until_v(long long abs_ns) {
  int id = vrt::self_id();
  tseam::in_rt = true;
  tseam::Wait& w = tseam::waits[id];
  w.cv = nullptr; w.signalled = false; w.timed = true; w.deadline = abs_ns; w.released = false;
  tseam::in_rt = false;
  tseam::park("timer.sleep", 2);
}

static void clientA(World* w, int me) {
  const Scenario& s = *w->scn;
  for (int i = 1; i <= w->n(); ++i) {
    if (s.owner[i - 1] != me) continue;
    sleep_until_v(BASE + s.at[i - 1]);
    auto sched = w->ctx->get_scheduler();
    long long dueRel;
    if (s.kind[i - 1] == "after") {
      dueRel = rel_now() + s.due[i - 1];
      w->op[i] = make_op(schedule_after(sched, std::chrono::nanoseconds(s.due[i - 1])), Rcv{w, i});
    } else {
      dueRel = s.due[i - 1];
      w->op[i] = make_op(schedule_at(sched, sclock::time_point(std::chrono::nanoseconds(BASE + s.due[i - 1]))), Rcv{w, i});
    }
    vrt::ev("{\"e\":\"ArmBegin\",\"sync\":1,\"op\":%d,\"due\":%lld,\"now\":%lld,\"t\":%d}", i, dueRel, rel_now(), me);
    OpBase* p = w->op[i];
    p->start();                     // may complete (and free the op) before returning
    vrt::ev("{\"e\":\"ArmEnd\",\"op\":%d,\"now\":%lld,\"t\":%d}", i, rel_now(), me);
  }
}
static void stopperB(World* w) {
  const Scenario& s = *w->scn;
  sleep_until_v(BASE + s.stopAt);
  vrt::ev("{\"e\":\"StopBegin\",\"op\":%d,\"t\":2}", s.stop);
  w->src[s.stop]->request_stop();
  vrt::ev("{\"e\":\"StopEnd\",\"op\":%d,\"t\":2,\"now\":%lld}", s.stop, rel_now());
}

struct Step { int t; std::string site; };
struct Result { std::vector<Step> steps; long drift = 0, unguided = 0; std::string firstDrift; bool lost = false; };

static const int MAXTICKS = 9;

// chooser(enabled, last) -> thread id.  Ticks are not a choice: they happen iff nothing is enabled.
template <class Choose>
static void drive(vrt::Ctl& c, World& w, Result& r, Choose&& choose, int& ticks) {
  int last = -1;
  while (r.steps.size() < 100000) {
    auto en = tseam::enabled_set(c);
    if (en.empty()) {
      bool clientsDone = true;
      for (int t : {1, 2, 3}) if (c.thr.count(t) && !c.finished(t)) clientsDone = false;
      if (clientsDone && w.allFired()) return;
      if (ticks >= MAXTICKS) { r.lost = true; return; }
      ++ticks; tseam::tick();
      vrt::ev("{\"e\":\"Tick\",\"now\":%lld}", rel_now());
      r.steps.push_back({-1, "tick"});
      continue;
    }
    int t = choose(en, last);
    r.steps.push_back({t, c.site(t)});
    c.step(t); last = t;
  }
  r.lost = true;
}

static std::string sched_json(const Result& r) {
  std::string s = "[";
  for (size_t i = 0; i < r.steps.size(); ++i) { if (i) s += ","; s += std::to_string(r.steps[i].t); }
  return s + "]";
}

int main(int argc, char** argv) {
  vrt::Args a(argc, argv);
  vrt::install_handlers();
  tseam::small_thread_stacks();
  std::string mode = a.str("mode", "random");
  std::vector<Scenario> scns;
  { std::ifstream f(a.str("scenarios")); json j; f >> j;
    for (auto& s : j) { Scenario sc; sc.id = s["id"].get<int>(); sc.at = s["at"].get<std::vector<int>>(); sc.due = s["due"].get<std::vector<int>>();
      sc.kind = s["kind"].get<std::vector<std::string>>();
      if (s.contains("owner")) sc.owner = s["owner"].get<std::vector<int>>(); else sc.owner.assign(sc.due.size(), 1); sc.stop = s["stop"].get<int>(); sc.stopAt = s["stopAt"].get<int>(); scns.push_back(sc); } }
  std::map<int, const Scenario*> byId; for (auto& s : scns) byId[s.id] = &s;
  if (a.has("log")) vrt::log_open(a.str("log").c_str());
  long from = a.num("from", 0), to = a.num("to", 1L << 40);
  long execs = 0, steps = 0, drift = 0, unguided = 0, obsMismatch = 0, units = 0;
  std::string firstDrift, firstMismatch;
  std::set<std::string> distinctSched;
  bool fineStop = mode != "guided" || a.num("fine", 0) != 0;     // dfs/random also interleave at the stop source's own schedule points

  auto runOne = [&](const Scenario& sc, long x, long k, const std::function<void(vrt::Ctl&, World&, Result&, int&)>& drv, const json* expect) {
    tseam::vnow_ns.store(BASE);
    tseam::waits.clear();
    vrt::ev("{\"e\":\"Reset\",\"x\":%ld,\"k\":%ld,\"scn\":%d,\"now\":0,\"rt\":0,\"slack\":0}", x, k, sc.id);
    auto w = std::make_unique<World>(); w->scn = &sc;
    for (int i = 1; i <= w->n(); ++i) w->src[i] = std::make_unique<inplace_stop_source>();
    Result r; int ticks = 0;
    {
      vrt::Ctl c; c.accept = {"timer.", "spin_wait"};
      if (fineStop) c.accept.push_back("stop.");
      tseam::prepare_adopt(c, 0);
      w->ctx = new timed_single_thread_context();
      tseam::await_adopt(c);                    // the timer thread is now parked in cv_.wait (queue empty)
      World* wp = w.get();
      bool has3 = false; for (int o : sc.owner) if (o == 3) has3 = true;
      bool has1 = false; for (int o : sc.owner) if (o == 1) has1 = true;
      if (has1) c.spawn(1, [wp] { clientA(wp, 1); });
      if (sc.stop != 0) c.spawn(2, [wp] { stopperB(wp); });
      if (has3) c.spawn(3, [wp] { clientA(wp, 3); });                 // second arming client: start() calls may overlap
      for (int t : {1, 2, 3}) if (c.thr.count(t)) c.step(t);          // past "begin": all park in their first sleep_until_v
      drv(c, *w, r, ticks);
      if (!r.lost) {
        // let the clock pass every due time so that "exactly once" is decided, then close the execution
        std::string sj = sched_json(r);
        vrt::ev("{\"e\":\"End\",\"pending\":%d,\"mode\":\"%s\",\"sched\":%s}", w->pending(), mode.c_str(), sj.c_str());
      } else {
        std::string s = sched_json(r);
        vrt::ev("{\"e\":\"Lost\",\"pending\":%d,\"sched\":%s}", w->pending(), s.c_str());
        vrt::log_flush();
        std::fprintf(stderr, "lost completion: scenario %d pending %d after %d ticks at quiescence; schedule %s\n", sc.id, w->pending(), ticks, s.c_str());
        _exit(75);
      }
      tseam::release(c, 0);
      delete w->ctx; w->ctx = nullptr;          // joins the (now uncontrolled) timer thread
      c.join();
    }
    ++execs; steps += (long)r.steps.size(); drift += r.drift ? 1 : 0; unguided += r.unguided;
    if (r.drift && firstDrift.empty()) firstDrift = "unit " + std::to_string(x) + ": " + r.firstDrift;
    distinctSched.insert(std::to_string(sc.id) + ":" + sched_json(r));
    if (expect) {
      bool ok = (*expect)["obs"].size() == w->fireSeq.size();
      for (size_t i = 0; ok && i < w->fireSeq.size(); ++i) {
        auto& o = (*expect)["obs"][i];
        if (o[0].get<int>() != w->fireSeq[i].first || o[1].get<std::string>()[0] != w->fireSeq[i].second) ok = false;
      }
      if (!ok) { ++obsMismatch; if (firstMismatch.empty()) firstMismatch = "unit " + std::to_string(x); }
    }
  };

  if (mode == "guided") {
    std::ifstream in(a.str("behaviours")); std::string line; long x = -1;
    while (std::getline(in, line)) {
      if (line.empty()) continue;
      ++x; if (x < from || x >= to) continue;
      json b = json::parse(line);
      const Scenario& sc = *byId.at(b["scn"].get<int>());
      std::vector<Step> sched;
      for (auto& s : b["sched"]) sched.push_back({s[0].get<int>(), s[1].get<std::string>()});
      ++units;
      runOne(sc, x, 0, [&](vrt::Ctl& c, World& w, Result& r, int& ticks) {
        for (auto& s : sched) {
          if (s.t == -1) {
            if (!tseam::enabled_set(c).empty() || ticks >= MAXTICKS) { if (!r.drift) r.firstDrift = "tick demanded while a thread is enabled"; ++r.drift; continue; }
            ++ticks; tseam::tick();
            vrt::ev("{\"e\":\"Tick\",\"now\":%lld}", rel_now());
            r.steps.push_back({-1, "tick"});
            continue;
          }
          if (!c.thr.count(s.t)) { ++r.unguided; continue; }
          std::string got = c.site(s.t);
          if (!s.site.empty() && got != s.site) { if (!r.drift) r.firstDrift = "thread " + std::to_string(s.t) + " at '" + got + "' expected '" + s.site + "'"; ++r.drift; }
          if (!tseam::enabled(c, s.t)) { ++r.unguided; continue; }
          r.steps.push_back({s.t, got});
          c.step(s.t);
        }
        size_t before = r.steps.size();
        drive(c, w, r, [&](const std::vector<int>& en, int) { return en[0]; }, ticks);
        r.unguided += (long)(r.steps.size() - before);
      }, &b);
    }
  } else {
    long cap = a.num("cap", 200); int bound = (int)a.num("bound", 2); unsigned seed = (unsigned)a.num("seed", 1);
    for (long x = from; x < to && x < (long)scns.size(); ++x) {
      const Scenario& sc = scns[x]; ++units;
      if (mode == "dfs") {
        vrt::Dfs d; d.bound = bound; long k = 0;
        do {
          runOne(sc, x, k, [&](vrt::Ctl& c, World& w, Result& r, int& ticks) {
            d.begin();
            drive(c, w, r, [&](const std::vector<int>& en, int last) { bool le = false; for (int t : en) if (t == last) le = true; return d.pick(en, le); }, ticks);
          }, nullptr);
          ++k;
        } while (d.advance() && k < cap);
      } else {
        std::mt19937 rng(seed * 7919u + (unsigned)x);
        for (long k = 0; k < cap; ++k)
          runOne(sc, x, k, [&](vrt::Ctl& c, World& w, Result& r, int& ticks) {
            drive(c, w, r, [&](const std::vector<int>& en, int last) {
              if (last >= 0 && (int)(rng() % 100) < 40) for (int t : en) if (t == last) return t;
              return en[rng() % en.size()];
            }, ticks);
          }, nullptr);
      }
    }
  }
  vrt::log_close();
  json s = {{"mode", mode}, {"units", units}, {"execs", execs}, {"steps", steps}, {"drift", drift}, {"unguided", unguided},
            {"obs_mismatch", obsMismatch}, {"distinct_schedules", (long)distinctSched.size()},
            {"first_drift", firstDrift}, {"first_mismatch", firstMismatch}};
  std::printf("%s\n", s.dump().c_str());
  return 0;
}
