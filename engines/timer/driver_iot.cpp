// C07 driver E: schedule_at on the real io_epoll_context / io_uring_context (real timerfd / IORING_OP_TIMEOUT, real
// time, free-running I/O thread).  One execution = one scenario of spec/timer/IoTimers (shared JSON):
//   due[i]   tick of op i:  <= 0 -> t_start + tick*UNIT (already due when started), 1..6 -> T0 + (tick-1)*UNIT with
//            T0 = t_start + lead, >= 9 -> t_start + 60 s ("far": only ever completes by cancellation); + fine[i] us
//            rel[i] = 1: due = (clock at the moment of the start) + fine[i] us
//   arm[i]   0 = started remotely by the client thread (in index order), k > 0 = started on the I/O thread inside the
//            completion of op k;   on[k] = script run inside k's completion: ["arm",i] / ["stop",i] (local request_stop)
//   stop/stopAt/bmode/race: one remote request_stop on op `stop`: stopAt 0 with bmode before|with|after the client's
//            starts, or at tick stopAt (race = free|io_first|stop_first forces the order of the two fetch_adds of the
//            elapsed-vs-cancelled election through the timer.* schedule points when stopAt == due[stop])
// Every event carries the context's own clock (scheduler.now(), us since t_start), Fire samples it inside the completion.
// Time passes for the monitor only through Tick events, which the client logs after it has waited (up to PATIENCE) for
// every completion that does not need more time.  Executions whose timing assumptions failed (fence: all remote starts
// inserted >= 5 ms before T0; race rendezvous timed out is fine) end with a Discard event and are retried with a larger
// lead.  Operation states live in poison-filled individual heap blocks and are freed inside their completion.
// Events: Reset ArmBegin ArmEnd StopBegin StopEnd Fire Tick End (Discard) -> spec/timer/TimerMon.tla (rt = 1)
#include "vrt.hpp"

#include <unifex/inplace_stop_token.hpp>
#include <unifex/linux/io_epoll_context.hpp>
#include <unifex/linux/io_uring_context.hpp>
#include <unifex/receiver_concepts.hpp>
#include <unifex/scheduler_concepts.hpp>
#include <unifex/sender_concepts.hpp>

#include <nlohmann/json.hpp>

#include <sched.h>

#include <fstream>

using namespace unifex;
using json = nlohmann::json;
using mclock = linuxos::monotonic_clock;
using tp_t = mclock::time_point;

static const long long UNIT_US = 30000, FAR_US = 60000000, PATIENCE_US = 3000000, SLACK_US = 5000;

// ------------------------------------------------------------------ schedule-point runtime (perturbation + rendezvous)
namespace rtx {
static std::atomic<int> race{0};                 // 0 free, 1 io_first, 2 stop_first
static std::atomic<bool> b_ready{false}, io_at_fa{false}, io_past_fa{false}, b_past_fa{false};
static std::atomic<long long> race_due_ns{0};      // CLOCK_MONOTONIC time of the raced operation's due time (0 = no race)
static std::atomic<unsigned long long> seed{1};
static std::atomic<long> hits{0}, timerHits{0};
static thread_local unsigned long long tls = 0;
static unsigned long long rnd() {
  if (tls == 0) tls = seed.load() * 0x9E3779B97F4A7C15ull + (unsigned long long)(uintptr_t)&tls;
  tls ^= tls << 13; tls ^= tls >> 7; tls ^= tls << 17; return tls;
}
static long long mono_ns() { timespec t; clock_gettime(CLOCK_MONOTONIC, &t); return t.tv_sec * 1000000000LL + t.tv_nsec; }
static void spin_ns(long long ns) { long long a = mono_ns(); while (mono_ns() - a < ns) {} }
template <class P> static bool wait_for(P&& p, long long timeout_us) {
  long long a = mono_ns();
  while (!p()) { if (mono_ns() - a > timeout_us * 1000) return false; sched_yield(); }
  return true;
}
static void hook(const char* site, int, const void*) noexcept {
  bool tm = std::strncmp(site, "timer.", 6) == 0;
  if (!tm && std::strncmp(site, "io.", 3) != 0) return;
  hits.fetch_add(1, std::memory_order_relaxed);
  if (tm) {
    timerHits.fetch_add(1, std::memory_order_relaxed);
    const char* s = site + 9;                   // past "timer.ep." / "timer.ur."
    int mode = race.load();
    long long rd = race_due_ns.load();
    if (std::strcmp(s, "elapse_fa") == 0 && mode != 0 && rd != 0 && !b_ready.load() && mono_ns() >= rd - 1000000)
      wait_for([] { return b_ready.load(); }, 50000);        // the stopper is late: hold the reaping of the raced timer
    if (std::strcmp(s, "elapse_fa") == 0 && b_ready.load()) {
      io_at_fa.store(true);
      if (mode == 2) wait_for([] { return b_past_fa.load(); }, 200000);
    } else if (std::strcmp(s, "elapsed") == 0) {
      if (b_ready.load()) io_past_fa.store(true);
    } else if (std::strcmp(s, "stop_fa") == 0) {
      if (mode == 1 && b_ready.load()) wait_for([] { return io_past_fa.load(); }, 200000);
    } else if (std::strcmp(s, "stop_won") == 0) {
      b_past_fa.store(true);
    }
  }
  unsigned long long r = rnd();
  switch (r % 16) {
    case 0: sched_yield(); break;
    case 1: spin_ns(1000 + (long long)((r >> 8) % 30000)); break;
    case 2: if (tm) spin_ns(20000 + (long long)((r >> 8) % 150000)); break;
    default: break;
  }
}
}  // namespace rtx

struct Act { char k; int op; };
struct Scenario {
  int id; std::string ctx; std::vector<int> due, arm, fine, rel; std::vector<std::vector<Act>> on;
  int stop, stopAt; std::string bmode, race;
};

template <class Ctx> struct World;
template <class Ctx>
struct Rcv {
  World<Ctx>* w; int i;
  void set_value() && noexcept { World<Ctx>* ww = w; int ii = i; ww->fire(ii, "value"); }
  void set_done() && noexcept { World<Ctx>* ww = w; int ii = i; ww->fire(ii, "done"); }
  void set_error(std::exception_ptr) && noexcept { World<Ctx>* ww = w; int ii = i; ww->fire(ii, "error"); }
  friend inplace_stop_token tag_invoke(tag_t<get_stop_token>, const Rcv& r) noexcept { return r.w->src[r.i]->get_token(); }
};
struct OpBase {
  virtual ~OpBase() {}
  virtual void start() noexcept = 0;
  static void* operator new(std::size_t n) { void* p = ::operator new(n); std::memset(p, 0xAB, n); return p; }
  static void operator delete(void* p) { ::operator delete(p); }
};
template <class S, class R>
struct OpHolder final : OpBase {
  connect_result_t<S, R> op;
  OpHolder(S&& s, R r) : op(unifex::connect((S &&) s, std::move(r))) {}
  void start() noexcept override { unifex::start(op); }
};
// completion of the fence (plain schedule())
struct FenceRcv {
  std::atomic<bool>* flag;
  void set_value() && noexcept { flag->store(true); }
  void set_done() && noexcept { flag->store(true); }
  void set_error(std::exception_ptr) && noexcept { flag->store(true); }
};

template <class Ctx>
struct World {
  using Sched = decltype(std::declval<Ctx&>().get_scheduler());
  const Scenario* scn = nullptr;
  Ctx ctx;
  inplace_stop_source runStop;
  std::unique_ptr<inplace_stop_source> src[7];
  OpBase* op[7] = {};
  std::atomic<int> fired[7], fireCnt[7];
  std::atomic<bool> armed[7];
  tp_t t_start; long long dueUs[7] = {};
  std::atomic<bool> timingBad{false};       // a timed harness action happened too late for the scenario to mean what it says
  World() { for (auto& f : fired) f.store(0); for (auto& f : fireCnt) f.store(0); for (auto& a : armed) a.store(false); }
  int n() const { return (int)scn->due.size(); }
  long long rel_us(const tp_t& t) const {
    auto d = t - t_start;                       // 100 ns ticks
    long long c = d.count();
    return c >= 0 ? c / 10 : -((-c + 9) / 10);
  }
  long long now_us() { return rel_us(ctx.get_scheduler().now()); }
  tp_t due_tp(int i) const { return t_start + std::chrono::microseconds(dueUs[i]); }
  void arm(int i, int sync) {
    // rel[i]: the due time is `fine[i]` us after the moment of the start (a timer that is almost due when submitted)
    if (i - 1 < (int)scn->rel.size() && scn->rel[i - 1]) dueUs[i] = now_us() + scn->fine[i - 1];
    auto s = ctx.get_scheduler().schedule_at(due_tp(i));
    using S = decltype(s);
    OpBase* p = new OpHolder<S, Rcv<Ctx>>(std::move(s), Rcv<Ctx>{this, i});
    op[i] = p;
    vrt::ev("{\"e\":\"ArmBegin\",\"op\":%d,\"due\":%lld,\"now\":%lld,\"sync\":%d}", i, dueUs[i], now_us(), sync);
    armed[i].store(true);
    p->start();
    vrt::ev("{\"e\":\"ArmEnd\",\"op\":%d,\"now\":%lld}", i, now_us());
  }
  void stop(int i) {
    vrt::ev("{\"e\":\"StopBegin\",\"op\":%d}", i);
    src[i]->request_stop();
    vrt::ev("{\"e\":\"StopEnd\",\"op\":%d,\"now\":%lld}", i, now_us());
  }
  void fire(int i, const char* ch) {
    vrt::ev("{\"e\":\"Fire\",\"op\":%d,\"ch\":\"%s\",\"now\":%lld}", i, ch, now_us());
    OpBase* p = op[i]; op[i] = nullptr;
    delete p;                                   // the operation state dies inside its completion
    int k = fireCnt[i].fetch_add(1);
    if (k == 0) for (auto a : scn->on[i - 1]) { if (a.k == 'a') arm(a.op, 1); else stop(a.op); }
    fired[i].fetch_add(1);                      // visible to the client only after the completion's script ran
  }
  bool wait_fired(const std::vector<int>& ops, long long deadline_rel_us) {
    while (true) {
      bool all = true;
      for (int i : ops) if (fired[i].load() == 0) all = false;
      if (all) return true;
      if (now_us() > deadline_rel_us) return false;
      timespec ts{0, 200000}; nanosleep(&ts, nullptr);
    }
  }
};

static void sleep_until_rel(long long (*nowf)(void*), void* w, long long rel_us) {
  while (true) {
    long long d = rel_us - nowf(w);
    if (d <= 0) return;
    if (d > 300) { timespec ts{0, (long)((d - 200) * 1000)}; if (ts.tv_nsec > 50000000) ts.tv_nsec = 50000000; nanosleep(&ts, nullptr); }
  }
}

template <class Ctx>
static bool run_attempt(const Scenario& sc, long x, int attempt, unsigned seed, long& discards) {
  long long lead = 40000LL << attempt;
  rtx::race.store(sc.race == "io_first" ? 1 : sc.race == "stop_first" ? 2 : 0);
  rtx::race_due_ns.store(0);
  rtx::b_ready.store(false); rtx::io_at_fa.store(false); rtx::io_past_fa.store(false); rtx::b_past_fa.store(false);
  rtx::seed.store(seed * 2654435761u + (unsigned)x * 97u + (unsigned)attempt + 1u);
  auto w = std::make_unique<World<Ctx>>(); w->scn = &sc;
  World<Ctx>* wp = w.get();
  for (int i = 1; i <= w->n(); ++i) w->src[i] = std::make_unique<inplace_stop_source>();
  std::thread io([wp] { wp->ctx.run(wp->runStop.get_token()); });
  {  // warm-up: the I/O thread is running its loop before the execution's clock starts
    std::atomic<bool> flag{false};
    auto fop = unifex::connect(unifex::schedule(w->ctx.get_scheduler()), FenceRcv{&flag});
    unifex::start(fop);
    if (!rtx::wait_for([&] { return flag.load(); }, 20000000)) vrt::die("Hang", 76);
  }
  w->t_start = w->ctx.get_scheduler().now();
  bool anyFuture = false; int maxTick = 0;
  for (int i = 1; i <= w->n(); ++i) {
    int t = sc.due[i - 1];
    long long off = t <= 0 ? (long long)t * UNIT_US : t >= 9 ? FAR_US : lead + (long long)(t - 1) * UNIT_US;
    if (t >= 1 && t < 9) { anyFuture = true; if (t > maxTick) maxTick = t; }
    w->dueUs[i] = off + (i - 1 < (int)sc.fine.size() ? sc.fine[i - 1] : 0);
  }
  vrt::ev("{\"e\":\"Reset\",\"x\":%ld,\"k\":%d,\"scn\":%d,\"ctx\":\"%s\",\"now\":0,\"rt\":1,\"slack\":%lld}", x, attempt, sc.id, sc.ctx.c_str(), SLACK_US);
  vrt::log_flush();
  auto nowf = +[](void* p) { return static_cast<World<Ctx>*>(p)->now_us(); };
  std::thread bth;
  const int S = sc.stop;
  if (S != 0 && sc.stopAt == 0 && sc.bmode == "before") w->stop(S);
  if (S != 0 && sc.stopAt == 0 && sc.bmode == "with")
    bth = std::thread([wp, S, anyFuture, lead] {
      wp->stop(S);
      if (anyFuture && wp->now_us() + 5000 > lead) wp->timingBad.store(true);   // meant to race the starts, not the due times
    });
  for (int i = 1; i <= w->n(); ++i) if (sc.arm[i - 1] == 0) w->arm(i, 0);
  // fence: a plain schedule() behind the remote starts; when it has run every start is inserted
  bool valid = true;
  {
    std::atomic<bool> flag{false};
    auto fs = unifex::schedule(w->ctx.get_scheduler());
    auto fop = unifex::connect(std::move(fs), FenceRcv{&flag});
    unifex::start(fop);
    if (!rtx::wait_for([&] { return flag.load(); }, 20000000)) vrt::die("Hang", 76);
    if (anyFuture && w->now_us() + 5000 > lead) valid = false;
  }
  if (S != 0 && sc.stopAt == 0 && sc.bmode == "after") {
    w->stop(S);
    if (anyFuture && w->now_us() + 5000 > lead) valid = false;      // meant to happen before the first future due time
  }
  if (S != 0 && sc.stopAt >= 1) {
    long long target = lead + (long long)(sc.stopAt - 1) * UNIT_US;
    bool racing = sc.stopAt == sc.due[S - 1];
    if (racing) rtx::race_due_ns.store((long long)w->t_start.seconds_part() * 1000000000LL + w->t_start.nanoseconds_part() + w->dueUs[S] * 1000);
    bth = std::thread([wp, S, target, racing, nowf] {
      sleep_until_rel(nowf, wp, target - (racing ? 300 : 0));
      if (racing) {
        rtx::b_ready.store(true);
        if (rtx::race.load() != 0) rtx::wait_for([] { return rtx::io_at_fa.load(); }, 100000);
      }
      if (!racing && wp->now_us() > target + UNIT_US / 2) wp->timingBad.store(true);   // the stopper overslept its tick
      wp->stop(S);
      rtx::b_past_fa.store(true);
    });
  }
  // everything that needs no more time than the last near due time
  std::vector<int> expected, rest;
  for (int i = 1; i <= w->n(); ++i) {
    bool cancelled = (i == S);
    for (auto& prog : sc.on) for (auto a : prog) if (a.k == 's' && a.op == i) cancelled = true;
    if (sc.due[i - 1] < 9 || cancelled) expected.push_back(i); else rest.push_back(i);
  }
  long long horizon = (anyFuture ? lead + (long long)maxTick * UNIT_US : 0);
  if (S != 0 && sc.stopAt >= 1) horizon = std::max(horizon, lead + (long long)sc.stopAt * UNIT_US);
  w->wait_fired(expected, horizon + PATIENCE_US);
  if (bth.joinable()) bth.join();
  vrt::ev("{\"e\":\"Tick\",\"now\":%lld}", w->now_us());
  for (int i : rest) {
    if (!w->armed[i].load()) continue;          // its trigger never fired (reported through End)
    w->stop(i);
    w->wait_fired({i}, w->now_us() + PATIENCE_US);
    vrt::ev("{\"e\":\"Tick\",\"now\":%lld}", w->now_us());
  }
  int pending = 0;
  for (int i = 1; i <= w->n(); ++i) if (w->fired[i].load() != 1) ++pending;
  if (w->timingBad.load()) valid = false;
  if (valid) vrt::ev("{\"e\":\"End\",\"pending\":%d}", pending);
  else { vrt::ev("{\"e\":\"Discard\",\"why\":\"a timed harness action (fence / stop) came too late, lead %lld\"}", lead); ++discards; }
  vrt::log_flush();
  w->runStop.request_stop();
  io.join();
  return valid;
}

template <class Ctx>
static void run_one(const Scenario& sc, long x, unsigned seed, long& execs, long& discards) {
  for (int attempt = 0; attempt < 4; ++attempt) {
    ++execs;
    if (run_attempt<Ctx>(sc, x, attempt, seed, discards)) return;
  }
}

static std::vector<Act> parseProg(const json& j) {
  std::vector<Act> p;
  for (auto& a : j) p.push_back({a[0].get<std::string>() == "arm" ? 'a' : 's', a[1].get<int>()});
  return p;
}

int main(int argc, char** argv) {
  vrt::Args a(argc, argv);
  vrt::install_handlers();
  ::unifex_verif::hook.store(&rtx::hook, std::memory_order_release);
  std::vector<Scenario> scns;
  { std::ifstream f(a.str("scenarios")); json j; f >> j;
    for (auto& s : j) { Scenario sc; sc.id = s["id"].get<int>(); sc.ctx = s.value("ctx", std::string("ep"));
      sc.due = s["due"].get<std::vector<int>>(); sc.arm = s["arm"].get<std::vector<int>>();
      if (s.contains("fine")) sc.fine = s["fine"].get<std::vector<int>>();
      if (s.contains("rel")) sc.rel = s["rel"].get<std::vector<int>>();
      for (auto& o : s["on"]) sc.on.push_back(parseProg(o));
      sc.stop = s["stop"].get<int>(); sc.stopAt = s["stopAt"].get<int>();
      sc.bmode = s.value("bmode", std::string("after")); sc.race = s.value("race", std::string("free"));
      scns.push_back(sc); } }
  if (a.has("log")) vrt::log_open(a.str("log").c_str());
  long from = a.num("from", 0), to = a.num("to", 1L << 40);
  unsigned seed = (unsigned)a.num("seed", 1);
  long execs = 0, discards = 0, units = 0;
  for (long x = from; x < to && x < (long)scns.size(); ++x) {
    const Scenario& sc = scns[x]; ++units;
    if (sc.ctx == "ur") run_one<linuxos::io_uring_context>(sc, x, seed, execs, discards);
    else run_one<linuxos::io_epoll_context>(sc, x, seed, execs, discards);
  }
  vrt::log_close();
  json s = {{"mode", "iot"}, {"units", units}, {"execs", execs}, {"discards", discards}, {"drift", 0}, {"unguided", 0},
            {"hook_hits", rtx::hits.load()}, {"timer_hook_hits", rtx::timerHits.load()}};
  std::printf("%s\n", s.dump().c_str());
  return 0;
}
