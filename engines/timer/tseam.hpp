// Engine-local runtime for the `timer` engine (C07): virtual clock + libc seams + adoption of the
// library-created timer thread into the vrt controller.
//
//  * std::chrono::steady_clock::now() is defined here (the executable's definition wins over libstdc++'s):
//    it returns the harness tick counter `vnow_ns` (1 tick = 1 ns), advanced only by tseam::tick().
//  * pthread_mutex_lock / pthread_mutex_unlock / pthread_cond_wait / pthread_cond_clockwait /
//    pthread_cond_signal / pthread_cond_broadcast / nanosleep are interposed.  For threads that are not
//    controlled (vrt::tl_self == nullptr) and while `in_rt` is set they pass straight through to libc.
//    For controlled threads:
//      mutex_lock   : schedule point "timer.lock", then trylock (spin point "timer.lockspin" if contended)
//      mutex_unlock : real unlock, then schedule point "timer.unlock"
//      cond_wait    : register as waiter, unlock, park *blocked* ("timer.cvwait", kind 2) until a controlled
//                     thread signals the condvar; cond_clockwait additionally becomes enabled when
//                     vnow_ns >= deadline.  Re-acquires the mutex with trylock.
//      cond_signal  : marks the first virtual waiter signalled (+ real signal for uncontrolled waiters)
//      nanosleep    : (thread_unsafe_event_loop's sleep_until) advances the virtual clock by the requested
//                     amount and logs Tick events through the callback `on_sleep`.
//  * adoption: the harness sets `adopt_target` before it constructs a timed_single_thread_context; the
//    library's own thread becomes a controlled thread at its first cond_wait (queue empty).
//    release(): at the end of an execution the parked thread is let go (spurious wake-up semantics) and
//    runs uncontrolled again, so the context's destructor can join it.
// Seams are scheduling machinery only; no oracle depends on them.
#pragma once
#include "vrt.hpp"

#include <dlfcn.h>
#include <errno.h>
#include <pthread.h>

#include <chrono>
#include <deque>

namespace tseam {

inline std::atomic<long long> vnow_ns{0};
inline thread_local bool in_rt = false;
inline std::atomic<vrt::Thr*> adopt_target{nullptr};
inline void (*on_sleep)(long long ns) = nullptr;     // thread_unsafe_event_loop: sleeping == time passing

struct Wait {
  pthread_cond_t* cv = nullptr;
  bool signalled = false, timed = false, released = false;
  long long deadline = 0;
};
// touched only by the thread holding the controller token (or by main while every thread is parked)
inline std::map<int, Wait> waits;

template <class F> inline F real(const char* n) { return (F)dlsym(RTLD_NEXT, n); }
using mfn = int (*)(pthread_mutex_t*);
using cfn = int (*)(pthread_cond_t*);
using cwfn = int (*)(pthread_cond_t*, pthread_mutex_t*);
using ccwfn = int (*)(pthread_cond_t*, pthread_mutex_t*, clockid_t, const timespec*);
inline mfn r_lock() { static mfn f = real<mfn>("pthread_mutex_lock"); return f; }
inline mfn r_trylock() { static mfn f = real<mfn>("pthread_mutex_trylock"); return f; }
inline mfn r_unlock() { static mfn f = real<mfn>("pthread_mutex_unlock"); return f; }
inline cfn r_signal() { static cfn f = real<cfn>("pthread_cond_signal"); return f; }
inline cfn r_broadcast() { static cfn f = real<cfn>("pthread_cond_broadcast"); return f; }
inline cwfn r_wait() { static cwfn f = real<cwfn>("pthread_cond_wait"); return f; }
inline ccwfn r_clockwait() { static ccwfn f = real<ccwfn>("pthread_cond_clockwait"); return f; }

inline bool controlled() { return vrt::tl_self != nullptr && vrt::g_ctl != nullptr && !in_rt; }

inline void park(const char* site, int kind) noexcept { vrt::Ctl::hook(site, kind, nullptr); }

// thread creation/exit under ASan costs time proportional to the stack size; executions create 3 threads each
inline void small_thread_stacks() {
  pthread_attr_t at; pthread_attr_init(&at); pthread_attr_setstacksize(&at, 512 * 1024);
  pthread_setattr_default_np(&at); pthread_attr_destroy(&at);
}

inline void tick(long long ns = 1) { vnow_ns.fetch_add(ns, std::memory_order_relaxed); }

// ---- enabledness including blocked condvar waits
inline bool enabled(vrt::Ctl& c, int t) {
  vrt::Thr* p = c.thr[t].get();
  if (p->st.load(std::memory_order_acquire) != 1) return false;
  if (p->kind == 2) {
    Wait& w = waits[t];
    return w.signalled || (w.timed && vnow_ns.load() >= w.deadline);
  }
  return c.enabled(t);
}
inline std::vector<int> enabled_set(vrt::Ctl& c) {
  std::vector<int> v;
  for (auto& [id, u] : c.thr) if (enabled(c, id)) v.push_back(id);
  return v;
}
inline bool blocked(vrt::Ctl& c, int t) {   // parked in a condvar wait that nothing has woken
  vrt::Thr* p = c.thr[t].get();
  return p->st.load() == 1 && p->kind == 2 && !enabled(c, t);
}

// ---- adoption of a library-created thread (id fixed by the harness)
inline vrt::Thr* prepare_adopt(vrt::Ctl& c, int id) {
  auto u = std::make_unique<vrt::Thr>();
  vrt::Thr* p = u.get(); p->id = id; sem_init(&p->go, 0, 0);
  c.thr[id] = std::move(u);
  waits[id] = Wait{};
  adopt_target.store(p, std::memory_order_release);
  return p;
}
inline void await_adopt(vrt::Ctl& c) { c.wait_back(); }
// let the adopted thread go: its wait returns (spurious wake-up) and it is uncontrolled from then on
inline void release(vrt::Ctl& c, int id) {
  vrt::Thr* p = c.thr[id].get();
  if (p->st.load() != 1) return;
  waits[id].released = true;
  p->st.store(0, std::memory_order_release);
  sem_post(&p->go);
}

inline int do_wait(pthread_cond_t* cv, pthread_mutex_t* m, bool timed, long long deadline) {
  int id = vrt::tl_self->id;
  in_rt = true;
  Wait& w = waits[id];
  w.cv = cv; w.signalled = false; w.timed = timed; w.deadline = deadline;
  in_rt = false;
  r_unlock()(m);
  park("timer.cvwait", 2);
  in_rt = true;
  bool rel = w.released, sig = w.signalled;
  w.cv = nullptr;
  in_rt = false;
  if (rel) {
    vrt::tl_self = nullptr;     // uncontrolled from now on
    r_lock()(m);
    return 0;
  }
  while (r_trylock()(m) != 0) park("timer.lockspin", 1);
  return (timed && !sig) ? ETIMEDOUT : 0;
}
inline void mark(pthread_cond_t* cv, bool all) {
  in_rt = true;
  for (auto& [id, w] : waits) {
    if (w.cv == cv && !w.signalled) { w.signalled = true; if (!all) break; }
  }
  in_rt = false;
}
}  // namespace tseam

// ------------------------------------------------------------------ the virtual clock
namespace std { namespace chrono { inline namespace _V2 {
steady_clock::time_point steady_clock::now() noexcept {
  return time_point(duration(tseam::vnow_ns.load(std::memory_order_relaxed)));
}
}}}

// ------------------------------------------------------------------ libc seams
extern "C" {
int pthread_mutex_lock(pthread_mutex_t* m) {
  if (!tseam::controlled()) return tseam::r_lock()(m);
  tseam::park("timer.lock", 0);
  while (tseam::r_trylock()(m) != 0) tseam::park("timer.lockspin", 1);
  return 0;
}
int pthread_mutex_unlock(pthread_mutex_t* m) {
  int r = tseam::r_unlock()(m);
  if (tseam::controlled()) tseam::park("timer.unlock", 0);
  return r;
}
int pthread_cond_wait(pthread_cond_t* cv, pthread_mutex_t* m) {
  if (!tseam::in_rt && vrt::tl_self == nullptr) {
    if (vrt::Thr* p = tseam::adopt_target.exchange(nullptr, std::memory_order_acq_rel)) vrt::tl_self = p;
  }
  if (!tseam::controlled()) return tseam::r_wait()(cv, m);
  return tseam::do_wait(cv, m, false, 0);
}
int pthread_cond_clockwait(pthread_cond_t* cv, pthread_mutex_t* m, clockid_t clk, const timespec* ts) {
  if (!tseam::controlled()) {
    // uncontrolled thread on the virtual clock (only after release()): never sleep on the real clock
    if (clk == CLOCK_MONOTONIC) { tseam::r_unlock()(m); sched_yield(); tseam::r_lock()(m); return ETIMEDOUT; }
    return tseam::r_clockwait()(cv, m, clk, ts);
  }
  long long dl = (long long)ts->tv_sec * 1000000000LL + ts->tv_nsec;
  return tseam::do_wait(cv, m, true, dl);
}
int pthread_cond_signal(pthread_cond_t* cv) {
  if (tseam::controlled()) tseam::mark(cv, false);
  return tseam::r_signal()(cv);
}
int pthread_cond_broadcast(pthread_cond_t* cv) {
  if (tseam::controlled()) tseam::mark(cv, true);
  return tseam::r_broadcast()(cv);
}
int nanosleep(const timespec* req, timespec* rem) {
  if (tseam::on_sleep) {
    tseam::on_sleep((long long)req->tv_sec * 1000000000LL + req->tv_nsec);
    if (rem) { rem->tv_sec = 0; rem->tv_nsec = 0; }
    return 0;
  }
  using fn = int (*)(const timespec*, timespec*);
  static fn f = tseam::real<fn>("nanosleep");
  return f(req, rem);
}
}
