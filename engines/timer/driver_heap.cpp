// C07 driver D: unifex::intrusive_heap (the timer heap of io_epoll_context / io_uring_context) driven directly.
// Each line of --histories is one TLC behaviour of spec/timer/IntrusiveHeapMC: {kv:[keys], steps:[[op,item,res,[order]]...]};
// every step is one call of the real member function; afterwards the list is observed through top() and the items'
// own Next/Prev members and logged (HeapOp) -> spec/timer/HeapMon.tla.  Items live in poison-filled heap storage.
#include "vrt.hpp"

#include <unifex/config.hpp>
#include <unifex/detail/intrusive_heap.hpp>

#include <nlohmann/json.hpp>

#include <fstream>

using json = nlohmann::json;
struct Item { Item* next; Item* prev; int key; int id; };
using Heap = unifex::intrusive_heap<Item, &Item::next, &Item::prev, int, &Item::key>;

int main(int argc, char** argv) {
  vrt::Args a(argc, argv);
  vrt::install_handlers();
  if (a.has("log")) vrt::log_open(a.str("log").c_str());
  long from = a.num("from", 0), to = a.num("to", 1L << 40);
  long execs = 0, steps = 0, mism = 0; std::string firstMism;
  std::ifstream in(a.str("histories")); std::string line; long x = -1;
  while (std::getline(in, line)) {
    if (line.empty()) continue;
    ++x; if (x < from || x >= to) continue;
    json h = json::parse(line);
    vrt::ev("{\"e\":\"Reset\",\"x\":%ld,\"k\":0}", x);
    int n = (int)h["kv"].size();
    std::vector<Item*> it(n + 1, nullptr);
    for (int i = 1; i <= n; ++i) {
      void* p = ::operator new(sizeof(Item)); std::memset(p, 0xAB, sizeof(Item));
      it[i] = static_cast<Item*>(p); it[i]->key = h["kv"][i - 1].get<int>(); it[i]->id = i;
    }
    {
      Heap* hp = new Heap;                    // leaked if the structure turns out corrupt (its destructor walks the list)
      Heap& heap = *hp;
      bool corrupt = false;
      for (auto& st : h["steps"]) {
        std::string op = st[0].get<std::string>(); int item = st[1].get<int>(); int res = 0;
        if (op == "insert") heap.insert(it[item]);
        else if (op == "remove") heap.remove(it[item]);
        else res = heap.pop()->id;
        // observe
        std::string order = "["; int links = 1, cnt = 0;
        if (!heap.empty()) {
          Item* p = heap.top(); Item* prev = nullptr;
          while (p != nullptr && cnt < 10) {
            if (p->prev != prev) links = 0;
            if (cnt) order += ","; order += std::to_string(p->id);
            prev = p; p = p->next; ++cnt;
          }
        }
        order += "]";
        vrt::ev("{\"e\":\"HeapOp\",\"op\":\"%s\",\"item\":%d,\"key\":%d,\"res\":%d,\"order\":%s,\"links\":%d}", op.c_str(), item,
                item ? it[item]->key : 0, res, order.c_str(), links);
        json got = json::parse(order);
        if (got != st[3] || (op == "pop" && res != st[2].get<int>())) { ++mism; if (firstMism.empty()) firstMism = "history " + std::to_string(x); }
        ++steps;
        // a list that is not what the model says (the monitor judges the event just logged) cannot be driven further
        if (links == 0 || cnt >= 10 || got != st[3]) { corrupt = true; break; }
      }
      if (!corrupt) { while (!heap.empty()) heap.pop(); delete hp; }     // ~intrusive_heap asserts emptiness
    }
    for (int i = 1; i <= n; ++i) ::operator delete(it[i]);
    ++execs;
  }
  vrt::log_close();
  json s = {{"mode", "heap"}, {"units", execs}, {"execs", execs}, {"steps", steps}, {"drift", mism}, {"unguided", 0}, {"obs_mismatch", mism}, {"first_mismatch", firstMism}};
  std::printf("%s\n", s.dump().c_str());
  return 0;
}
