// C07 driver C: linuxos::monotonic_clock::time_point operators.  Each line of --cases is one case exported by TLC
// (spec/timer/MonotonicClockEdges: operands + the transcription's expected result) = one call of the real operator;
// additional seeded cases (multi-carry from_seconds_and_nanoseconds, random operands, nanosecond durations, now())
// have no expectation.  Every call is logged as a ClockOp event and validated by spec/timer/ClockMon.tla.
#include "vrt.hpp"

#include <unifex/linux/monotonic_clock.hpp>

#include <nlohmann/json.hpp>

#include <fstream>

using json = nlohmann::json;
using mc = unifex::linuxos::monotonic_clock;
using tp_t = mc::time_point;
static const long long NPS = 1000000000LL;

static long long clampv(long long v) { return v > 2000000000LL ? 2000000000LL : (v < -2000000000LL ? -2000000000LL : v); }
static tp_t mk(long long s, long long ns) { return tp_t::from_seconds_and_nanoseconds(s, ns); }

static long mism = 0; static std::string firstMism;
static void expect_tp(const json* ex, const tp_t& r, const std::string& what) {
  if (!ex) return;
  if ((*ex)[0].get<long long>() != r.seconds_part() || (*ex)[1].get<long long>() != r.nanoseconds_part()) { ++mism; if (firstMism.empty()) firstMism = what; }
}
static void do_from(long long s, long long q, long long r, const json* ex) {
  tp_t t = mk(s, q * NPS + r);
  vrt::ev("{\"e\":\"ClockOp\",\"op\":\"from\",\"s\":%lld,\"q\":%lld,\"r\":%lld,\"rs\":%lld,\"rns\":%lld}", s, q, r, clampv(t.seconds_part()), clampv(t.nanoseconds_part()));
  expect_tp(ex, t, "from");
}
static void do_add(bool add, long long as, long long ans, long long d, const json* ex, bool viaBinary) {
  tp_t a = mk(as, ans), t = a;
  if (viaBinary) t = add ? (a + mc::duration(d)) : (a - mc::duration(d));
  else { if (add) t += mc::duration(d); else t -= mc::duration(d); }
  vrt::ev("{\"e\":\"ClockOp\",\"op\":\"%s\",\"as\":%lld,\"ans\":%lld,\"d\":%lld,\"rs\":%lld,\"rns\":%lld}", add ? "add" : "sub",
          (long long)a.seconds_part(), (long long)a.nanoseconds_part(), d, clampv(t.seconds_part()), clampv(t.nanoseconds_part()));
  expect_tp(ex, t, add ? "add" : "sub");
}
static void do_addns(bool add, long long as, long long ans, long long nq, long long nr) {
  tp_t a = mk(as, ans), t = a;
  std::chrono::nanoseconds n(nq * NPS + nr);
  if (add) t += n; else t -= n;
  vrt::ev("{\"e\":\"ClockOp\",\"op\":\"%s\",\"as\":%lld,\"ans\":%lld,\"nq\":%lld,\"nr\":%lld,\"rs\":%lld,\"rns\":%lld}", add ? "addns" : "subns",
          (long long)a.seconds_part(), (long long)a.nanoseconds_part(), nq, nr, clampv(t.seconds_part()), clampv(t.nanoseconds_part()));
}
static void do_cmp(long long as, long long ans, long long bs, long long bns, const json* ex) {
  tp_t a = mk(as, ans), b = mk(bs, bns);
  long long diff = (a - b).count();
  int lt = a < b, gt = a > b, le = a <= b, ge = a >= b, eq = a == b, ne = a != b;
  vrt::ev("{\"e\":\"ClockOp\",\"op\":\"cmp\",\"as\":%lld,\"ans\":%lld,\"bs\":%lld,\"bns\":%lld,\"diff\":%lld,\"lt\":%d,\"gt\":%d,\"le\":%d,\"ge\":%d,\"eq\":%d,\"ne\":%d}",
          (long long)a.seconds_part(), (long long)a.nanoseconds_part(), (long long)b.seconds_part(), (long long)b.nanoseconds_part(), clampv(diff), lt, gt, le, ge, eq, ne);
  if (ex && ((*ex)[0].get<long long>() != diff || (*ex)[1].get<int>() != lt || (*ex)[2].get<int>() != eq)) { ++mism; if (firstMism.empty()) firstMism = "cmp"; }
}

int main(int argc, char** argv) {
  vrt::Args a(argc, argv);
  vrt::install_handlers();
  if (a.has("log")) vrt::log_open(a.str("log").c_str());
  long from = a.num("from", 0), to = a.num("to", 1L << 40);
  long execs = 0;
  // unit 0 = all TLC cases, unit 1 = seeded extra cases (units exist so that run_batches can resume after a death)
  if (from <= 0 && to > 0) {
    vrt::ev("{\"e\":\"Reset\",\"x\":0,\"k\":0}");
    std::ifstream in(a.str("cases")); std::string line;
    while (std::getline(in, line)) {
      if (line.empty()) continue;
      json j = json::parse(line); const json& c = j["case"]; const json* ex = &j["expect"];
      std::string op = c["op"].get<std::string>();
      if (op == "from") do_from(c["s"].get<long long>(), c["q"].get<long long>(), c["r"].get<long long>(), ex);
      else if (op == "add" || op == "sub") { do_add(op == "add", c["a"][0].get<long long>(), c["a"][1].get<long long>(), c["d"].get<long long>(), ex, false);
                                             do_add(op == "add", c["a"][0].get<long long>(), c["a"][1].get<long long>(), c["d"].get<long long>(), ex, true); ++execs; }
      else do_cmp(c["a"][0].get<long long>(), c["a"][1].get<long long>(), c["b"][0].get<long long>(), c["b"][1].get<long long>(), ex);
      ++execs;
    }
  }
  if (from <= 1 && to > 1) {
    vrt::ev("{\"e\":\"Reset\",\"x\":1,\"k\":0}");
    std::mt19937_64 rng((unsigned)a.num("seed", 1));
    auto rnd = [&](long long lo, long long hi) { return lo + (long long)(rng() % (unsigned long long)(hi - lo + 1)); };
    const long long bnd[] = {0, 1, 99, 100, 999999900, 999999999};
    long n = a.num("extra", 2000);
    for (long i = 0; i < n; ++i) {
      long long s = rnd(-2, 2), q = rnd(-3, 3), r = (i % 3 == 0) ? bnd[rng() % 6] * (rng() % 2 ? 1 : -1) : rnd(-999999999, 999999999);
      do_from(s, q, r, nullptr);
      long long as = rnd(-2, 2), ans = (i % 2) ? rnd(-999999999, 999999999) : bnd[rng() % 6] * (rng() % 2 ? 1 : -1);
      long long d = (i % 2) ? rnd(-30000000, 30000000) : (rnd(-3, 3) * 10000000 + rnd(-1, 1));
      do_add(rng() % 2, as, ans, d, nullptr, rng() % 2);
      do_addns(rng() % 2, as, ans, rnd(-2, 2), (i % 2) ? rnd(-999999999, 999999999) : bnd[rng() % 6] * (rng() % 2 ? 1 : -1));
      do_cmp(as, ans, rnd(-2, 2), (i % 4 == 0) ? ans : rnd(-999999999, 999999999), nullptr);
      execs += 4;
    }
    // now(): canonical, non-negative, monotone
    tp_t p = mc::now();
    for (int i = 0; i < 50; ++i) {
      tp_t q2 = mc::now();
      do_cmp(q2.seconds_part() - p.seconds_part(), q2.nanoseconds_part(), 0, p.nanoseconds_part(), nullptr);   // relative to p's second to stay small
      if (q2 < p || q2.nanoseconds_part() < 0 || q2.nanoseconds_part() >= NPS) { ++mism; if (firstMism.empty()) firstMism = "now"; }
      p = q2; ++execs;
    }
  }
  vrt::log_close();
  json s = {{"mode", "clock"}, {"units", 2}, {"execs", execs}, {"drift", mism}, {"unguided", 0}, {"obs_mismatch", mism}, {"first_mismatch", firstMism}};
  std::printf("%s\n", s.dump().c_str());
  return 0;
}
