// C06 driver: executes scheduler scenarios on the real execution contexts of libunifex with every thread (harness
// threads AND the threads created by the library) under the token-passing controller; schedule points are the
// interposed pthread functions of seam.hpp (no source hooks) plus the sched.aq.* hooks of atomic_intrusive_queue.
// wrappers (scenario field "wrap"): any = any_scheduler, ref = any_scheduler_ref, sub = schedule_with_subscheduler
// contexts: mel (manual_event_loop), stc (single_thread_context), pool (static_thread_pool), ntc (new_thread_context),
//           tramp (trampoline_scheduler), inline (inline_scheduler), aq / aq2 (atomic_intrusive_queue used directly)
// modes: guided (TLC behaviours), dfs (bounded-preemption enumeration), random (seeded), seq (single schedule),
//        replay (one scenario, one recorded schedule)
#include "seam.hpp"

#include <unifex/any_scheduler.hpp>
#include <unifex/detail/atomic_intrusive_queue.hpp>
#include <unifex/inline_scheduler.hpp>
#include <unifex/inplace_stop_token.hpp>
#include <unifex/manual_event_loop.hpp>
#include <unifex/new_thread_context.hpp>
#include <unifex/receiver_concepts.hpp>
#include <unifex/schedule_with_subscheduler.hpp>
#include <unifex/scheduler_concepts.hpp>
#include <unifex/sender_concepts.hpp>
#include <unifex/single_thread_context.hpp>
#include <unifex/static_thread_pool.hpp>
#include <unifex/trampoline_scheduler.hpp>

#include <nlohmann/json.hpp>

#include <algorithm>
#include <fstream>
#include <set>
#include <sstream>

using namespace unifex;
using json = nlohmann::json;

struct Op { std::string k; int a; };
using Prog = std::vector<Op>;
struct Scenario {
  int id = 0; std::string ctx; std::string wrap; int items = 0; int maxd = 0; int workers = 0; bool fifo = true;
  std::vector<Prog> prog;   // prog[0] = thread 1
  std::vector<Prog> body;   // body[0] = item 1
};
static Prog parseProg(const json& j) { Prog p; for (auto& o : j) p.push_back({o[0].get<std::string>(), o[1].get<int>()}); return p; }
static Scenario parseScn(const json& s) {
  Scenario sc; sc.id = s["id"].get<int>(); sc.ctx = s["ctx"].get<std::string>(); sc.items = s["items"].get<int>();
  sc.maxd = s.value("maxd", 0); sc.workers = s.value("workers", 0); sc.wrap = s.value("wrap", std::string());
  for (auto& p : s["prog"]) sc.prog.push_back(parseProg(p));
  for (auto& p : s["body"]) sc.body.push_back(parseProg(p));
  while ((int)sc.body.size() < sc.items) sc.body.push_back({});
  for (auto& p : sc.prog) for (auto& o : p) if (o.k == "consume3") sc.fifo = false;   // dequeue_all_reversed: LIFO batches
  return sc;
}

struct World;
struct OpHolder { virtual ~OpHolder() {} virtual void start() noexcept = 0; };
template <class O>
struct OpImpl final : OpHolder {
  O op;
  template <class F> explicit OpImpl(F&& f) : op(f()) {}
  void start() noexcept override { unifex::start(op); }
};
struct Recv {
  World* w; int item;
  void set_value() && noexcept;
  void set_done() && noexcept;
  void set_error(std::exception_ptr) && noexcept;
  friend inplace_stop_token tag_invoke(tag_t<get_stop_token>, const Recv& r) noexcept;
};
template <class S>
static OpHolder* makeOp(S& sched, World* w, int item) {
  using O = connect_result_t<decltype(schedule(sched)), Recv>;
  return new OpImpl<O>([&]() -> O { return connect(schedule(sched), Recv{w, item}); });
}
// schedule_with_subscheduler: the value channel carries the scheduler itself
void completeSub(World* w, int item, int ch, int sub) noexcept;
inplace_stop_token tokenOf(World* w, int item) noexcept;
template <class S>
struct RecvSub {
  World* w; int item; S sched;
  template <class X>
  void set_value(X&& x) && noexcept { World* ww = w; int i = item; int eq = (x == sched) ? 1 : 0; completeSub(ww, i, 1, eq); }
  void set_done() && noexcept { World* ww = w; int i = item; completeSub(ww, i, 0, -1); }
  void set_error(std::exception_ptr) && noexcept { World* ww = w; int i = item; completeSub(ww, i, 2, -1); }
  friend inplace_stop_token tag_invoke(tag_t<get_stop_token>, const RecvSub& r) noexcept { return tokenOf(r.w, r.item); }
};
template <class S>
static OpHolder* makeSub(S& sched, World* w, int item) {
  using O = connect_result_t<decltype(schedule_with_subscheduler(sched)), RecvSub<S>>;
  return new OpImpl<O>([&]() -> O { return connect(schedule_with_subscheduler(sched), RecvSub<S>{w, item, sched}); });
}
static void evEq(int k, bool want, bool got) {
  vrt::ev("{\"e\":\"SchedEq\",\"i\":0,\"t\":0,\"k\":%d,\"want\":%d,\"got\":%d}", k, want ? 1 : 0, got ? 1 : 0);
}
// a scheduler of the context plus its type-erased wrappers
struct SchedBox { virtual ~SchedBox() {} virtual OpHolder* make(World*, int item) = 0; virtual void equality() = 0; };
template <class S>
struct Box final : SchedBox {
  S s, s2; std::string wrap; any_scheduler a; any_scheduler_ref r;
  std::function<void(Box&)> extraEq;
  Box(S sch, std::string w) : s(sch), s2(sch), wrap(std::move(w)), a(s), r(s) {}
  OpHolder* make(World* w, int item) override {
    if (wrap == "any") return makeOp(a, w, item);
    if (wrap == "ref") return makeOp(r, w, item);
    if (wrap == "sub") return makeSub(s, w, item);
    return makeOp(s, w, item);
  }
  void equality() override {
    constexpr bool isInline = std::is_same_v<S, inline_scheduler>;
    if (wrap == "any") {
      any_scheduler copy = a; any_scheduler again{s}; any_scheduler other{inline_scheduler{}};
      evEq(1, true, a == copy); evEq(2, true, a == again); evEq(3, false, a != copy);
      evEq(4, isInline, a == other); evEq(5, !isInline, a != other);
      evEq(6, true, a.type() == type_id<S>()); evEq(7, isInline, a.type() == other.type());
      any_scheduler assigned{inline_scheduler{}}; assigned = a; evEq(8, true, assigned == a);
      any_scheduler moved{std::move(copy)}; evEq(9, true, moved == a);
    } else if (wrap == "ref") {
      any_scheduler_ref same{s}; any_scheduler_ref twin{s2}; inline_scheduler is; any_scheduler_ref other{is};
      evEq(11, true, r == same); evEq(12, false, r != same);
      evEq(13, false, r == twin);                    // shallow: another object
      evEq(14, true, r.equal_to(twin));              // deep: equal schedulers
      evEq(15, isInline, r.equal_to(other)); evEq(16, false, r == other);
      evEq(17, true, r.type() == type_id<S>());
    }
    if (extraEq) extraEq(*this);
  }
};
template <class S>
static SchedBox* makeBox(S s, const std::string& wrap) { return new Box<S>(s, wrap); }

struct QItem { QItem* next = nullptr; int id = 0; };
using AQ = atomic_intrusive_queue<QItem, &QItem::next>;

static thread_local int tl_depth = 0;
static thread_local int tl_startingItem = 0;    // item whose start() is running on this thread (ntc: thread <-> item)
struct World;
static World* g_world = nullptr;

extern "C" void sched_assert_fail(const char* expr, const char* file, int line) noexcept {
  const char* b = std::strrchr(file, '/');
  vrt::ev("{\"e\":\"AssertFail\",\"i\":0,\"t\":%d,\"line\":%d,\"file\":\"%s\"}", vrt::self_id(), line, b ? b + 1 : file);
  (void)expr;
}

struct World {
  const Scenario* scn = nullptr;
  std::string kind;
  // contexts (exactly one is used)
  manual_event_loop* mel = nullptr;
  single_thread_context* stc = nullptr;
  static_thread_pool* pool = nullptr;
  new_thread_context* ntc = nullptr;
  trampoline_scheduler tramp;
  manual_event_loop* otherLoop = nullptr;   // a second context of the same type (equality tests)
  SchedBox* box = nullptr;
  std::map<int, int> itemThread;            // ntc: item -> logical id of the thread created by its start()
  AQ* aq = nullptr;
  bool wake = false;              // aq: the eventfd of the real users
  std::vector<QItem> qitems;
  // items
  std::vector<inplace_stop_source> src;
  std::vector<OpHolder*> ops;
  std::vector<int> ranBy;
  int ranCount = 0;
  int accEndCount = 0;
  std::vector<std::pair<int, int>> ranSeq;   // (item, ch)

  explicit World(const Scenario& s) : scn(&s), kind(s.ctx), tramp((std::size_t)(s.maxd > 0 ? s.maxd : 16)), qitems(s.items + 1),
                                      src(s.items + 1), ops(s.items + 1, nullptr), ranBy(s.items + 1, 0) {
    for (int i = 0; i <= s.items; ++i) qitems[i].id = i;
  }
  void construct() {                               // on the controller thread, library threads are adopted
    if (kind == "mel") mel = new manual_event_loop();
    else if (kind == "stc") stc = new single_thread_context();
    else if (kind == "pool") pool = new static_thread_pool((std::uint32_t)scn->workers);
    else if (kind == "ntc") ntc = new new_thread_context();
    else if (kind == "aq") aq = new AQ(true);
    else if (kind == "aq2") aq = new AQ(false);
    const std::string& wr = scn->wrap;
    if (kind == "mel") {
      auto* b = new Box<decltype(mel->get_scheduler())>(mel->get_scheduler(), wr);
      if (wr == "any" || wr == "ref") {
        otherLoop = new manual_event_loop();
        auto os = otherLoop->get_scheduler();
        b->extraEq = [os](auto& bx) mutable {        // same scheduler type, different context: never equal
          if (bx.wrap == "any") { any_scheduler o{os}; evEq(21, false, bx.a == o); evEq(22, true, bx.a != o); evEq(23, true, bx.a.type() == o.type()); }
          else { any_scheduler_ref o{os}; evEq(24, false, bx.r.equal_to(o)); evEq(25, false, bx.r == o); }
        };
      }
      box = b;
    }
    else if (kind == "stc") box = makeBox(stc->get_scheduler(), wr);
    else if (kind == "pool") box = makeBox(pool->get_scheduler(), wr);
    else if (kind == "ntc") box = makeBox(ntc->get_scheduler(), wr);
    else if (kind == "tramp") box = makeBox(tramp, wr);
    else if (kind == "inline") box = makeBox(inline_scheduler{}, wr);
    if (box) {
      box->equality();
      for (int i = 1; i <= scn->items; ++i) ops[i] = box->make(this, i);
    }
  }
  void teardown() {                                // after all threads finished (controller thread)
    for (auto*& o : ops) { delete o; o = nullptr; }
    delete box; box = nullptr;
    delete otherLoop; otherLoop = nullptr;
    delete mel; mel = nullptr;
    if (stc || pool || ntc) { /* scenario forgot "destroy": do it uncontrolled */ delete stc; delete pool; delete ntc; stc = nullptr; pool = nullptr; ntc = nullptr; }
    delete aq; aq = nullptr;
  }
  int own() {
    if (stc) return stc->get_thread_id() == std::this_thread::get_id() ? 1 : 0;
    return -1;
  }
  void complete(int item, int ch, int sub = -1) noexcept {
    int d = ++tl_depth;
    vrt::ev("{\"e\":\"Ran\",\"i\":%d,\"t\":%d,\"ch\":%d,\"own\":%d,\"d\":%d,\"sub\":%d}", item, vrt::self_id(), ch, own(), d, sub);
    ++ranCount; ranBy[item] = vrt::self_id(); ranSeq.push_back({item, ch});
    if (ops[item]) { OpHolder* h = ops[item]; ops[item] = nullptr; delete h; }   // the operation state dies in its completion
    run(scn->body[item - 1]);
    --tl_depth;
  }
  void consumeBatch(intrusive_queue<QItem, &QItem::next>& b) {
    while (!b.empty()) { QItem* q = b.pop_front(); complete(q->id, 1); }
  }
  void run(const Prog& p) {
    for (auto& op : p) {
      UNIFEX_VERIF_YIELD("sched.h.op");
      int t = vrt::self_id();
      if (op.k == "start") {
        int i = op.a;
        vrt::ev("{\"e\":\"AcceptBegin\",\"i\":%d,\"t\":%d}", i, t);
        if (kind == "aq") {
          if (aq->enqueue(&qitems[i])) { vrt::ev("{\"e\":\"Told\",\"i\":%d,\"t\":%d}", i, t); wake = true; }
        } else if (kind == "aq2") {
          if (!aq->enqueue_or_mark_active(&qitems[i])) {
            // queue was inactive: this thread is now the consumer and processes the item directly
            vrt::ev("{\"e\":\"RunBegin\",\"i\":0,\"t\":%d}", t);
            complete(i, 1);
            while (true) {
              auto b = aq->try_mark_inactive_or_dequeue_all();
              if (b.empty()) break;
              consumeBatch(b);
            }
            vrt::ev("{\"e\":\"RunReturn\",\"i\":0,\"t\":%d}", t);
          }
        } else {
          tl_startingItem = i;
          ops[i]->start();
          tl_startingItem = 0;
        }
        vrt::ev("{\"e\":\"AcceptEnd\",\"i\":%d,\"t\":%d}", i, t);
        ++accEndCount;
      } else if (op.k == "stopitem") {
        vrt::ev("{\"e\":\"StopItemBegin\",\"i\":%d,\"t\":%d}", op.a, t);
        src[op.a].request_stop();
        vrt::ev("{\"e\":\"StopItemEnd\",\"i\":%d,\"t\":%d}", op.a, t);
      } else if (op.k == "stopctx") {
        vrt::ev("{\"e\":\"StopCtxBegin\",\"i\":0,\"t\":%d}", t);
        if (mel) mel->stop();
        else if (pool) pool->request_stop();
        vrt::ev("{\"e\":\"StopCtxEnd\",\"i\":0,\"t\":%d}", t);
      } else if (op.k == "run") {
        vrt::ev("{\"e\":\"RunBegin\",\"i\":0,\"t\":%d}", t);
        mel->run();
        vrt::ev("{\"e\":\"RunReturn\",\"i\":0,\"t\":%d}", t);
      } else if (op.k == "consume") {               // aq: the single consumer of the queue
        vrt::ev("{\"e\":\"RunBegin\",\"i\":0,\"t\":%d}", t);
        while (true) {
          auto b = aq->try_mark_inactive_or_dequeue_all();
          if (!b.empty()) { consumeBatch(b); continue; }
          vrt::ev("{\"e\":\"MarkInactive\",\"i\":0,\"t\":%d}", t);
          if (ranCount >= scn->items) break;
          while (!wake) UNIFEX_VERIF_SPIN("sched.h.sleep");
          wake = false;
        }
        vrt::ev("{\"e\":\"RunReturn\",\"i\":0,\"t\":%d}", t);
      } else if (op.k == "trylock") {               // aq2: v1 async_mutex::try_lock() = try_mark_active()
        if (aq->try_mark_active()) {
          vrt::ev("{\"e\":\"RunBegin\",\"i\":0,\"t\":%d}", t);
          while (true) {
            auto b = aq->try_mark_inactive_or_dequeue_all();
            if (b.empty()) break;
            consumeBatch(b);
          }
          vrt::ev("{\"e\":\"RunReturn\",\"i\":0,\"t\":%d}", t);
        }
      } else if (op.k == "consume3") {              // aq: dequeue_all_reversed() + try_mark_inactive(); try_mark_active() on exit
        vrt::ev("{\"e\":\"RunBegin\",\"i\":0,\"t\":%d}", t);
        while (true) {
          auto b = aq->dequeue_all_reversed();
          if (!b.empty()) { while (!b.empty()) { QItem* q = b.pop_front(); complete(q->id, 1); } continue; }
          if (!aq->try_mark_inactive()) continue;
          vrt::ev("{\"e\":\"MarkInactive\",\"i\":0,\"t\":%d}", t);
          if (ranCount >= scn->items) {
            bool r = aq->try_mark_active();
            vrt::ev("{\"e\":\"MarkActive\",\"i\":0,\"t\":%d,\"r\":%d}", t, r ? 1 : 0);
            break;
          }
          while (!wake) UNIFEX_VERIF_SPIN("sched.h.sleep");
          wake = false;
        }
        vrt::ev("{\"e\":\"RunReturn\",\"i\":0,\"t\":%d}", t);
      } else if (op.k == "consume2") {              // aq: dequeue_all() + try_mark_inactive() flavour
        vrt::ev("{\"e\":\"RunBegin\",\"i\":0,\"t\":%d}", t);
        while (true) {
          auto b = aq->dequeue_all();
          if (!b.empty()) { consumeBatch(b); continue; }
          if (!aq->try_mark_inactive()) continue;
          vrt::ev("{\"e\":\"MarkInactive\",\"i\":0,\"t\":%d}", t);
          if (ranCount >= scn->items) break;
          while (!wake) UNIFEX_VERIF_SPIN("sched.h.sleep");
          wake = false;
        }
        vrt::ev("{\"e\":\"RunReturn\",\"i\":0,\"t\":%d}", t);
      } else if (op.k == "await") {
        while (ranCount < scn->items) UNIFEX_VERIF_SPIN("sched.h.await");
      } else if (op.k == "awaitn") {                // wait until at least a items have run
        while (ranCount < op.a) UNIFEX_VERIF_SPIN("sched.h.await");
      } else if (op.k == "awaitacc") {              // wait until a start() calls have returned
        while (accEndCount < op.a) UNIFEX_VERIF_SPIN("sched.h.await");
      } else if (op.k == "destroy") {
        if (stc || pool) vrt::ev("{\"e\":\"StopCtxBegin\",\"i\":0,\"t\":%d}", t);   // their destructors request stop
        if (stc) { auto* p = stc; stc = nullptr; delete p; }
        if (pool) { auto* p = pool; pool = nullptr; delete p; }
        if (ntc) { auto* p = ntc; ntc = nullptr; delete p; }
        vrt::ev("{\"e\":\"CtxDestroyed\",\"i\":0,\"t\":%d}", t);
      }
    }
  }
};
void Recv::set_value() && noexcept { World* ww = w; int i = item; ww->complete(i, 1); }
void Recv::set_done() && noexcept { World* ww = w; int i = item; ww->complete(i, 0); }
void Recv::set_error(std::exception_ptr) && noexcept { World* ww = w; int i = item; ww->complete(i, 2); }
inplace_stop_token tokenOf(World* w, int item) noexcept {
  vrt::ev("{\"e\":\"Tok\",\"i\":%d,\"t\":%d}", item, vrt::self_id());
  return w->src[item].get_token();
}
inplace_stop_token tag_invoke(tag_t<get_stop_token>, const Recv& r) noexcept { return tokenOf(r.w, r.item); }
void completeSub(World* w, int item, int ch, int sub) noexcept { w->complete(item, ch, sub); }

// pc of the specification's step -> schedule point at which the real thread must be parked
static bool sameSite(const std::string& want, const std::string& got) {
  static const std::map<std::string, std::string> m = {
      {"op", "sched.h.op"}, {"sleep", "sched.h.sleep"}, {"begin", "begin"},
      // ManualEventLoop
      {"enq", "sched.mutex_lock"}, {"stop", "sched.mutex_lock"}, {"run", "sched.mutex_lock"}, {"woken", "sched.cond_wait"},
      // StaticThreadPool
      {"e_try", "sched.mutex_trylock"}, {"w_try", "sched.mutex_trylock"}, {"e_lock", "sched.mutex_lock"},
      {"s_lock", "sched.mutex_lock"}, {"w_lock", "sched.mutex_lock"}, {"e_unl", "sched.mutex_unlock"},
      {"s_unl", "sched.mutex_unlock"}, {"w_tunl", "sched.mutex_unlock"}, {"w_punl", "sched.mutex_unlock"},
      {"w_wait", "sched.cond_wait"}, {"join", "sched.join"},
      // NewThread
      {"start", "sched.mutex_lock"}, {"retire", "sched.mutex_lock"}, {"d_lock", "sched.mutex_lock"},
      {"joinprev", "sched.join"}, {"d_join", "sched.join"}, {"d_wait", "sched.cond_wait"}};
  auto it = m.find(want);
  if (it != m.end()) return got == it->second;
  return got == "sched.aq." + want || got == want;
}

int main(int argc, char** argv) {
  vrt::Args a(argc, argv);
  vrt::install_handlers();
  seam::G.mainThread = pthread_self();
  seam::R();
  std::string mode = a.str("mode", "random");
  std::vector<Scenario> scns;
  { std::ifstream f(a.str("scenarios")); json j; f >> j; for (auto& s : j) scns.push_back(parseScn(s)); }
  std::map<int, const Scenario*> byId; for (auto& s : scns) byId[s.id] = &s;
  if (a.has("log")) vrt::log_open(a.str("log").c_str());
  long from = a.num("from", 0), to = a.num("to", 1L << 40);
  int spuriousBudget = (int)a.num("spurious", mode == "random" ? 2 : (mode == "dfs" ? 1 : 0));
  long execs = 0, steps = 0, drift = 0, unguided = 0, obsMismatch = 0, units = 0, maxThreads = 0;
  std::string firstDrift, firstMismatch;
  std::set<std::string> distinctSched;
  std::map<std::string, long> siteCount;

  seam::G.onCreate = [](int child, int) {
    vrt::ev("{\"e\":\"ThreadCreated\",\"i\":0,\"t\":%d}", child);
    if (g_world && tl_startingItem) g_world->itemThread[tl_startingItem] = child;
  };
  seam::G.onJoin = [](int child, int) { vrt::ev("{\"e\":\"ThreadJoined\",\"i\":0,\"t\":%d}", child); };

  auto runOne = [&](const Scenario& sc, long x, long k, const std::function<vrt::RunResult(vrt::Ctl&)>& drive,
                    const json* expect) {
    bool fifo = (sc.ctx == "mel" || sc.ctx == "stc" || sc.ctx == "aq") && sc.fifo;
    bool inl = sc.ctx == "tramp" || sc.ctx == "inline";
    vrt::ev("{\"e\":\"Reset\",\"i\":0,\"t\":0,\"x\":%ld,\"k\":%ld,\"scn\":%d,\"ctx\":\"%s\",\"wrap\":\"%s\",\"mode\":\"%s\",\"fifo\":%d,\"maxd\":%d,\"inl\":%d,\"imm\":%d,\"excl\":%d}",
            x, k, sc.id, sc.ctx.c_str(), sc.wrap.c_str(), mode.c_str(), fifo ? 1 : 0, sc.ctx == "tramp" ? sc.maxd : 0, inl ? 1 : 0, sc.ctx == "inline" ? 1 : 0,
            sc.ctx == "aq2" ? 1 : 0);
    seam::G.reset();
    seam::G.yieldOnUnlock = sc.ctx == "pool" || a.has("unlock-yield");
    tl_depth = 0;
    auto w = std::make_unique<World>(sc);
    g_world = w.get();
    vrt::RunResult rr;
    {
      vrt::Ctl c; c.accept = {"sched."};
      c.hang_secs = 120;                           // robust on a heavily loaded machine (a real hang is still found)
      seam::G.adoptFromMain = true;
      w->construct();
      seam::G.adoptFromMain = false;
      for (size_t t = 0; t < sc.prog.size(); ++t)
        if (!sc.prog[t].empty()) c.spawn((int)t + 1, [&, t] { w->run(w->scn->prog[t]); });
      c.start_all();
      seam::G.spuriousLeft = spuriousBudget;
      rr = drive(c);
      std::string s = vrt::sched_json(rr);
      if (rr.deadlock) {
        // no thread is runnable although some are unfinished (exact deadlock), or the step limit was reached: threads
        // only poll each other / the execution does not terminate (no progress).  Correct code finishes these scenarios
        // within a few hundred steps.
        bool limit = !seam::enabled_set(c).empty();
        std::string where;
        for (auto& [id, u] : c.thr) if (!c.finished(id)) where += " " + std::to_string(id) + "@" + c.site(id);
        if (limit) {                                   // keep the message short: first 300 thread choices
          vrt::RunResult head; head.steps.assign(rr.steps.begin(), rr.steps.begin() + std::min<size_t>(300, rr.steps.size()));
          s = vrt::sched_json(head);
          where += " (no progress: step limit reached)";
        }
        vrt::ev("{\"e\":\"Deadlock\",\"i\":0,\"t\":0,\"sched\":%s,\"where\":\"%s\"}", s.c_str(), where.c_str());
        vrt::log_flush();
        std::fprintf(stderr, "deadlock in scenario %d schedule %s threads:%s\n", sc.id, s.c_str(), where.c_str());
        _exit(75);
      }
      if ((long)c.thr.size() > maxThreads) maxThreads = (long)c.thr.size();
      c.join();
      vrt::ev("{\"e\":\"End\",\"i\":0,\"t\":0,\"sched\":%s}", s.c_str());
    }
    w->teardown();
    g_world = nullptr;
    ++execs; steps += (long)rr.steps.size(); drift += rr.drift ? 1 : 0; unguided += rr.unguided;
    for (auto& st : rr.steps) siteCount[st.site]++;
    if (rr.drift && firstDrift.empty()) firstDrift = "unit " + std::to_string(x) + ": " + rr.firstDrift;
    distinctSched.insert(std::to_string(sc.id) + ":" + vrt::sched_json(rr));
    if (expect) {
      bool ok = expect->size() == w->ranSeq.size();
      for (size_t i = 0; ok && i < w->ranSeq.size(); ++i)
        if ((*expect)[i][0].get<int>() != w->ranSeq[i].first || (*expect)[i][1].get<int>() != w->ranSeq[i].second) ok = false;
      if (!ok) { ++obsMismatch; if (firstMismatch.empty()) firstMismatch = "unit " + std::to_string(x) + " scenario " + std::to_string(sc.id); }
    }
  };

  if (mode == "guided" || mode == "seq") {
    // one line per behaviour: {scn, sched:[[thread,pc]...] (guided only), ran:[[item,ch]...]}
    std::ifstream in(a.str("behaviours")); std::string line; long x = -1;
    while (std::getline(in, line)) {
      if (line.empty()) continue;
      ++x; if (x < from || x >= to) continue;
      json b = json::parse(line);
      const Scenario& sc = *byId.at(b["scn"].get<int>());
      std::vector<vrt::StepRec> sched;
      if (b.contains("sched")) for (auto& s : b["sched"]) sched.push_back({s[0].get<int>(), s[1].get<std::string>()});
      ++units;
      json ran = b["ran"];
      auto mapId = [&](int t) {                       // 200 + i = the thread created by start() of item i (ntc)
        if (t >= 200 && g_world) { auto it = g_world->itemThread.find(t - 200); return it == g_world->itemThread.end() ? -1 : it->second; }
        return t;
      };
      runOne(sc, x, 0, [&](vrt::Ctl& c) { return seam::run_guided(c, sched, sameSite, mapId); }, &ran);
    }
  } else if (mode == "replay") {
    const Scenario& sc = *byId.at((int)a.num("scn", 1));
    std::vector<int> sched; { json j = json::parse(a.str("sched", "[]")); for (auto& v : j) sched.push_back(v.get<int>()); }
    ++units;
    runOne(sc, 0, 0, [&](vrt::Ctl& c) { return seam::run_schedule(c, sched); }, nullptr);
  } else {
    long cap = a.num("cap", 2000); int bound = (int)a.num("bound", 2); unsigned seed = (unsigned)a.num("seed", 1);
    int stick = (int)a.num("stick", 40);
    for (long x = from; x < to && x < (long)scns.size(); ++x) {
      const Scenario& sc = scns[x]; ++units;
      if (mode == "dfs") {
        vrt::Dfs d; d.bound = bound; long k = 0;
        do { runOne(sc, x, k, [&](vrt::Ctl& c) { return seam::run_dfs(c, d); }, nullptr); ++k; } while (d.advance() && k < cap);
      } else {
        std::mt19937 rng(seed * 7919u + (unsigned)x);
        seam::G.pickWaiter = [&rng](size_t n) { return (size_t)(rng() % n); };
        for (long k = 0; k < cap; ++k) runOne(sc, x, k, [&](vrt::Ctl& c) { return seam::run_random(c, rng, stick); }, nullptr);
        seam::G.pickWaiter = nullptr;
      }
    }
  }
  vrt::log_close();
  json sites = json::object(); for (auto& [s, n] : siteCount) sites[s] = n;
  json s = {{"mode", mode}, {"units", units}, {"execs", execs}, {"steps", steps}, {"drift", drift}, {"unguided", unguided},
            {"obs_mismatch", obsMismatch}, {"distinct_schedules", (long)distinctSched.size()},
            {"spurious_wakeups", seam::G.spuriousTaken}, {"first_drift", firstDrift}, {"first_mismatch", firstMismatch}, {"sites", sites}, {"max_threads", maxThreads}};
  std::printf("%s\n", s.dump().c_str());
  return 0;
}
