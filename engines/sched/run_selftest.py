#!/usr/bin/env python3
"""Applies each mutation of selftest.json on top of the scratch worktree (VERIF_REPO, default /tmp/wt_sched), runs
./check C06 --engine sched (restricted to the entry's `parts` unless --full) and reverts.  Prints a result table and
writes selftest_result.json next to this file."""
import json, os, subprocess, sys, time
HERE = os.path.dirname(os.path.abspath(__file__))
WT = os.environ.get("VERIF_REPO", "/tmp/wt_sched")
full = "--full" in sys.argv
names = [a for a in sys.argv[1:] if not a.startswith("--")]
out = next((a.split("=", 1)[1] for a in sys.argv[1:] if a.startswith("--out=")), os.path.join(HERE, "selftest_result.json"))
res = []
for m in json.load(open(os.path.join(HERE, "selftest.json"))):
    if names and m["name"] not in names:
        continue
    p = subprocess.run(["git", "-C", WT, "apply", "-"], input=m["patch"], text=True, capture_output=True)
    if p.returncode != 0:
        res.append(dict(name=m["name"], result="patch-failed", detail=p.stderr)); print(res[-1]); continue
    env = dict(os.environ, VERIF_REPO=WT, VERIF_JOBS=os.environ.get("VERIF_JOBS", "4"))
    if not full and m.get("parts"):
        env["SCHED_PARTS"] = m["parts"]
    t0 = time.time()
    try:
        r = subprocess.run(["timeout", "1800", os.path.join(HERE, "..", "..", "check"), "C06", "--tier", "quick", "--engine", "sched"],
                           cwd=os.path.join(HERE, "..", ".."), env=env, capture_output=True, text=True)
    finally:
        subprocess.run(["git", "-C", WT, "apply", "-R", "-"], input=m["patch"], text=True)
    got = {0: "clean", 1: "violation", 3: "broken"}.get(r.returncode, "rc%d" % r.returncode)
    first = next((l.strip() for l in r.stdout.splitlines() if l.startswith("  ")), "")
    ok = got == m["expect"]
    res.append(dict(name=m["name"], expect=m["expect"], got=got, ok=ok, secs=round(time.time() - t0), first=first[:260]))
    print(json.dumps(res[-1]), flush=True)
    if got == "broken":
        print(r.stderr[-1500:])
json.dump(res, open(out, "w"), indent=1)
print("ALL OK" if all(r.get("ok") for r in res) else "SOME FAILED")
