// Engine-local extension of vrt.hpp for the `sched` engine (C06): libc seams.
//
// The executable that includes this header DEFINES pthread_mutex_lock/trylock/unlock, pthread_cond_wait/signal/
// broadcast and pthread_create/join, so that the mutex + condition-variable code of libunifex (manual_event_loop,
// static_thread_pool, new_thread_context, single_thread_context) is scheduled by the token-passing controller of
// vrt.hpp WITHOUT any source hook:
//   * pthread_mutex_lock     = schedule point "sched.mutex_lock"; the thread is not runnable while another controlled
//                              thread owns the mutex (exact blocking, no polling)
//   * pthread_mutex_unlock   = optional schedule point "sched.mutex_unlock" (G.yieldOnUnlock) in front of the release
//   * pthread_mutex_trylock  = schedule point "sched.mutex_trylock" (std::try_to_lock); fails iff held
//   * pthread_cond_wait      = atomically {enter the waiting set, release the mutex}; schedule point "sched.cond_wait";
//                              runnable again once signalled (and the mutex is free); never really sleeps in the kernel
//     a scheduler may also resume an UNSIGNALLED waiter whose mutex is free: a spurious wake-up (legal for condition
//     variables); drive_all offers that choice while G.spuriousLeft > 0, run_guided for steps marked with '!'
//   * pthread_cond_signal    = wakes the longest waiting controlled waiter (or a chosen one, see `pickWaiter`);
//     pthread_cond_broadcast = wakes all
//   * pthread_create         = the new thread is ADOPTED by the controller (logical ids 100, 101, ... in creation order)
//                              and parks at "begin" before running its start routine
//   * pthread_join           = schedule point "sched.join"; runnable once the target has finished
// All interposers pass straight through to libc when no controller is installed, when the calling thread is not a
// controlled thread, or while the seam itself is running (thread-local guard).  vrt.hpp's controller uses only sem_t
// and atomics, so it never re-enters these functions.
//
// Only the token holder runs, therefore the bookkeeping below needs no lock.
#pragma once
#include "vrt.hpp"

#include <dlfcn.h>
#include <pthread.h>

#include <deque>
#include <set>

namespace seam {

struct TS {                       // seam state of one controlled thread
  pthread_cond_t* waitingOn = nullptr;
  bool signalled = false;
  pthread_mutex_t* wantMutex = nullptr;
  int joinTarget = -1;
};

struct Global {
  std::map<int, TS> ts;                                    // by logical thread id
  std::map<pthread_mutex_t*, int> owner;                   // mutex -> logical id of the controlled owner
  std::map<pthread_cond_t*, std::deque<int>> waiters;      // cond -> waiting logical ids (FIFO)
  std::map<pthread_t, int> byPthread;                      // adopted threads
  int nextId = 100;
  bool adoptFromMain = false;                              // set by the driver around context construction on main
  bool yieldOnUnlock = false;                              // also schedule in front of pthread_mutex_unlock, so that other
                                                           // threads run while a mutex is held (try_lock can fail)
  pthread_t mainThread{};
  std::function<void(int child, int parent)> onCreate;     // observation callbacks (API-level events)
  std::function<void(int child, int by)> onJoin;
  std::function<size_t(size_t n)> pickWaiter;              // which of n waiters cond_signal wakes (default: 0)
  long created = 0, joined = 0;
  int spuriousLeft = 0;                                    // controller choice: how many more times a thread blocked in
  long spuriousTaken = 0;                                  // cond_wait WITHOUT a signal may be resumed (spurious wake-up)
  int spuriousPermille = 60;                               // random mode: chance per step to consider such a resume
  sem_t adoptSem;                                          // handshake parent <- adopted child (NOT Ctl::back: the
                                                           // controller is waiting on that one while the parent runs)
  Global() { sem_init(&adoptSem, 0, 0); }
  void reset() {
    ts.clear(); owner.clear(); waiters.clear(); byPthread.clear(); nextId = 100; created = joined = 0;
    spuriousLeft = 0;
    adoptFromMain = false;
  }
};
inline Global G;
inline thread_local bool tl_in = false;     // inside the seam (or passthrough forced)

template <class F>
inline F real(const char* name) {
  bool was = tl_in; tl_in = true;
  F f = reinterpret_cast<F>(dlsym(RTLD_NEXT, name));
  tl_in = was;
  if (!f) { std::fprintf(stderr, "seam: dlsym(%s) failed\n", name); _exit(3); }
  return f;
}
using mtx_fn = int (*)(pthread_mutex_t*);
using cnd_fn = int (*)(pthread_cond_t*);
using cw_fn = int (*)(pthread_cond_t*, pthread_mutex_t*);
using create_fn = int (*)(pthread_t*, const pthread_attr_t*, void* (*)(void*), void*);
using join_fn = int (*)(pthread_t, void**);
struct Real {
  mtx_fn lock, trylock, unlock; cnd_fn signal, broadcast; cw_fn wait; create_fn create; join_fn join;
};
inline Real& R() {
  static Real r = [] {
    Real x;
    x.lock = real<mtx_fn>("pthread_mutex_lock"); x.trylock = real<mtx_fn>("pthread_mutex_trylock");
    x.unlock = real<mtx_fn>("pthread_mutex_unlock"); x.signal = real<cnd_fn>("pthread_cond_signal");
    x.broadcast = real<cnd_fn>("pthread_cond_broadcast"); x.wait = real<cw_fn>("pthread_cond_wait");
    x.create = real<create_fn>("pthread_create"); x.join = real<join_fn>("pthread_join");
    return x;
  }();
  return r;
}

inline bool controlled() { return vrt::g_ctl != nullptr && vrt::tl_self != nullptr && !tl_in; }
inline TS& my() { return G.ts[vrt::tl_self->id]; }
struct In { bool was; In() : was(tl_in) { tl_in = true; } ~In() { tl_in = was; } };

// is logical thread `id` blocked at a seam (not runnable although parked)?
inline bool blocked(vrt::Ctl& c, int id) {
  auto it = G.ts.find(id);
  if (it == G.ts.end()) return false;
  const TS& s = it->second;
  if (s.waitingOn && !s.signalled) return true;
  if (s.wantMutex) { auto o = G.owner.find(s.wantMutex); if (o != G.owner.end() && o->second != id) return true; }
  if (s.joinTarget >= 0 && !c.finished(s.joinTarget)) return true;
  return false;
}
inline std::vector<int> enabled_set(vrt::Ctl& c) {
  std::vector<int> v;
  for (auto& [id, u] : c.thr) if (c.enabled(id) && !blocked(c, id)) v.push_back(id);
  return v;
}

// threads that could be woken spuriously: parked in cond_wait, not signalled, their mutex free
inline bool spurious_candidate(vrt::Ctl& c, int id) {
  auto it = G.ts.find(id);
  if (it == G.ts.end() || !c.enabled(id)) return false;
  const TS& s = it->second;
  if (!s.waitingOn || s.signalled) return false;
  if (s.wantMutex) { auto o = G.owner.find(s.wantMutex); if (o != G.owner.end() && o->second != id) return false; }
  return true;
}
inline std::vector<int> spurious_set(vrt::Ctl& c) {
  std::vector<int> v;
  if (G.spuriousLeft <= 0) return v;
  for (auto& [id, u] : c.thr) if (spurious_candidate(c, id)) v.push_back(id);
  return v;
}
inline void note_step(vrt::Ctl& c, int t) {          // call before c.step(t)
  if (blocked(c, t) && spurious_candidate(c, t)) { --G.spuriousLeft; ++G.spuriousTaken; }
}

// ---- schedule drivers that honour the seam's blocking predicate (same shape as vrt::run_*)
// Deadlock = no thread is really runnable; a possible spurious wake-up never counts as progress.
template <class Choose>
vrt::RunResult drive_all(vrt::Ctl& c, Choose&& choose, long maxSteps = 20000) {
  vrt::RunResult r; int last = -1;
  while ((long)r.steps.size() < maxSteps) {
    auto en = enabled_set(c);
    if (en.empty()) break;
    size_t nreal = en.size();
    for (int x : spurious_set(c)) en.push_back(x);
    int t = choose(en, last, nreal);
    r.steps.push_back({t, c.site(t)});
    note_step(c, t);
    c.step(t); last = t;
  }
  r.deadlock = !c.all_finished();
  return r;
}
inline vrt::RunResult run_random(vrt::Ctl& c, std::mt19937& rng, int stickiness = 50) {
  return drive_all(c, [&](const std::vector<int>& en0, int last, size_t nreal) {
    std::vector<int> en(en0.begin(), en0.begin() + (long)nreal);
    if (en0.size() > nreal && (int)(rng() % 1000) < G.spuriousPermille) return en0[nreal + rng() % (en0.size() - nreal)];
    if (last >= 0 && (int)(rng() % 100) < stickiness)
      for (int t : en) if (t == last) return t;
    return en[rng() % en.size()];
  });
}
inline vrt::RunResult run_dfs(vrt::Ctl& c, vrt::Dfs& d) {
  d.begin();
  return drive_all(c, [&](const std::vector<int>& en, int last, size_t) {
    bool le = false; for (int t : en) if (t == last) le = true;
    return d.pick(en, le);
  });
}
// mapId translates the specification's thread identities into controller ids (e.g. "thread of item i");
// a step whose expected site ends in '!' is a spurious wake-up: the thread is resumed although it is not signalled.
inline vrt::RunResult run_guided(vrt::Ctl& c, const std::vector<vrt::StepRec>& sched,
                                 const std::function<bool(const std::string&, const std::string&)>& same,
                                 const std::function<int(int)>& mapId = nullptr) {
  vrt::RunResult r;
  for (auto& s0 : sched) {
    vrt::StepRec s = s0;
    if (mapId) s.t = mapId(s.t);
    bool spur = !s.site.empty() && s.site.back() == '!';
    if (spur) s.site.pop_back();
    if (!c.thr.count(s.t)) {
      if (!r.drift) r.firstDrift = "thread " + std::to_string(s0.t) + " does not exist (expected at '" + s.site + "')";
      ++r.drift; ++r.unguided; continue;
    }
    std::string got = c.site(s.t);
    if (!same(s.site, got)) {
      if (!r.drift) r.firstDrift = "thread " + std::to_string(s.t) + " at '" + got + "' expected '" + s.site + "'";
      ++r.drift;
    }
    r.steps.push_back({s.t, got});
    bool blk = blocked(c, s.t) && !(spur && spurious_candidate(c, s.t));
    if (!c.enabled(s.t) || blk) {
      if (!r.drift) r.firstDrift = "thread " + std::to_string(s.t) + " not runnable at '" + got + "' (expected step '" + s.site + "')";
      ++r.drift; ++r.unguided; continue;
    }
    if (spur) ++G.spuriousTaken;
    if (!c.step(s.t)) ++r.unguided;
  }
  auto rest = drive_all(c, [&](const std::vector<int>& en, int, size_t) { return en[0]; });
  r.unguided += (long)rest.steps.size();
  for (auto& s : rest.steps) r.steps.push_back(s);
  r.deadlock = rest.deadlock;
  return r;
}
// replay of a recorded schedule (list of thread ids)
inline vrt::RunResult run_schedule(vrt::Ctl& c, const std::vector<int>& sched) {
  size_t k = 0;
  int save = G.spuriousLeft; G.spuriousLeft = 1 << 20;   // a recorded schedule may contain spurious wake-ups
  auto r = drive_all(c, [&](const std::vector<int>& en, int, size_t) {
    if (k < sched.size()) { int t = sched[k++]; for (int e : en) if (e == t) return t; }
    return en[0];
  });
  G.spuriousLeft = save;
  return r;
}

inline void acquire_after_park(pthread_mutex_t* m) {
  // the controller resumes us only when no controlled thread owns m; an uncontrolled owner makes us poll
  while (R().trylock(m) != 0) vrt::Ctl::hook("sched.mutex_spin", 1, nullptr);
  In in; my().wantMutex = nullptr; G.owner[m] = vrt::tl_self->id;
}

struct StartArg { void* (*fn)(void*); void* arg; vrt::Thr* thr; };
inline void* thread_main(void* p) {
  StartArg a = *static_cast<StartArg*>(p);
  { In in; delete static_cast<StartArg*>(p); }
  vrt::tl_self = a.thr;
  {  // park at "begin" like Ctl::spawn does, but report to the creating thread, not to the controller
    vrt::Ctl* c0 = vrt::g_ctl;
    a.thr->site = "begin"; a.thr->kind = 0; a.thr->parkedAt = c0 ? c0->stepNo : 0;
    a.thr->st.store(1, std::memory_order_release);
    sem_post(&G.adoptSem);
    vrt::Ctl::wait_sem(&a.thr->go);
  }
  void* r = a.fn(a.arg);
  vrt::Ctl* c = vrt::g_ctl;
  a.thr->site = "finished";
  vrt::tl_self = nullptr;
  a.thr->st.store(2, std::memory_order_release);
  if (c) sem_post(&c->back);
  return r;
}

}  // namespace seam

extern "C" {

int pthread_mutex_lock(pthread_mutex_t* m) {
  if (!seam::controlled()) return seam::R().lock(m);
  { seam::In in; seam::my().wantMutex = m; }
  vrt::Ctl::hook("sched.mutex_lock", 0, nullptr);
  seam::acquire_after_park(m);
  return 0;
}

int pthread_mutex_trylock(pthread_mutex_t* m) {
  if (!seam::controlled()) return seam::R().trylock(m);
  vrt::Ctl::hook("sched.mutex_trylock", 0, nullptr);
  int rc = seam::R().trylock(m);
  if (rc == 0) { seam::In in; seam::G.owner[m] = vrt::tl_self->id; }
  return rc;
}

int pthread_mutex_unlock(pthread_mutex_t* m) {
  if (!seam::controlled()) return seam::R().unlock(m);
  if (seam::G.yieldOnUnlock) vrt::Ctl::hook("sched.mutex_unlock", 0, nullptr);
  { seam::In in; seam::G.owner.erase(m); }
  return seam::R().unlock(m);
}

int pthread_cond_wait(pthread_cond_t* c, pthread_mutex_t* m) {
  if (!seam::controlled()) return seam::R().wait(c, m);
  int id = vrt::tl_self->id;
  {
    seam::In in;
    auto& s = seam::my();
    s.waitingOn = c; s.signalled = false; s.wantMutex = m;
    seam::G.waiters[c].push_back(id);
    seam::G.owner.erase(m);
  }
  seam::R().unlock(m);
  vrt::Ctl::hook("sched.cond_wait", 0, nullptr);
  {
    seam::In in;
    auto& s = seam::my();
    s.waitingOn = nullptr; s.signalled = false;
    auto& q = seam::G.waiters[c];                 // spurious resume (a scheduler ignoring `blocked`): leave the set
    for (auto it = q.begin(); it != q.end(); ++it) if (*it == id) { q.erase(it); break; }
  }
  seam::acquire_after_park(m);
  return 0;
}

static int seam_wake(pthread_cond_t* c, bool all) {
  seam::In in;
  auto& q = seam::G.waiters[c];
  while (!q.empty()) {
    size_t k = (!all && seam::G.pickWaiter) ? seam::G.pickWaiter(q.size()) % q.size() : 0;
    int id = q[k]; q.erase(q.begin() + (long)k);
    seam::G.ts[id].signalled = true;
    if (!all) break;
  }
  return 0;
}
int pthread_cond_signal(pthread_cond_t* c) {
  if (seam::controlled()) seam_wake(c, false);
  return seam::R().signal(c);
}
int pthread_cond_broadcast(pthread_cond_t* c) {
  if (seam::controlled()) seam_wake(c, true);
  return seam::R().broadcast(c);
}

int pthread_create(pthread_t* th, const pthread_attr_t* attr, void* (*fn)(void*), void* arg) {
  vrt::Ctl* c = vrt::g_ctl;
  bool fromMain = c && !vrt::tl_self && seam::G.adoptFromMain && pthread_equal(pthread_self(), seam::G.mainThread);
  if (seam::tl_in || !c || !(vrt::tl_self || fromMain)) return seam::R().create(th, attr, fn, arg);
  seam::In in;
  int id = seam::G.nextId++;
  auto u = std::make_unique<vrt::Thr>();
  vrt::Thr* p = u.get(); p->id = id; sem_init(&p->go, 0, 0);
  c->thr[id] = std::move(u);
  auto* sa = new seam::StartArg{fn, arg, p};
  int rc = seam::R().create(th, attr, seam::thread_main, sa);
  if (rc != 0) { delete sa; c->thr.erase(id); return rc; }
  seam::G.byPthread[*th] = id;
  ++seam::G.created;
  vrt::Ctl::wait_sem(&seam::G.adoptSem);           // the child has parked at "begin"
  if (seam::G.onCreate) seam::G.onCreate(id, vrt::self_id());
  return 0;
}

int pthread_join(pthread_t th, void** ret) {
  vrt::Ctl* c = vrt::g_ctl;
  if (seam::tl_in || !c) return seam::R().join(th, ret);
  int id = -1;
  { seam::In in; auto it = seam::G.byPthread.find(th); if (it != seam::G.byPthread.end()) id = it->second; }
  if (id < 0) return seam::R().join(th, ret);
  if (vrt::tl_self) {
    { seam::In in; seam::my().joinTarget = id; }
    vrt::Ctl::hook("sched.join", 0, nullptr);
    { seam::In in; seam::my().joinTarget = -1; }
    while (!c->finished(id)) vrt::Ctl::hook("sched.join_spin", 1, nullptr);
  }
  int rc = seam::R().join(th, ret);
  seam::In in;
  seam::G.byPthread.erase(th);
  ++seam::G.joined;
  if (seam::G.onJoin) seam::G.onJoin(id, vrt::self_id());
  return rc;
}

}  // extern "C"
