// Force-included (-include) into every translation unit of the sched driver build: a failing UNIFEX_ASSERT is
// recorded as an `AssertFail` event and execution continues, so that the property-relevant consequences (e.g. a
// context destroyed with items still queued) reach the monitor instead of being cut off by abort().
#pragma once
extern "C" void sched_assert_fail(const char* expr, const char* file, int line) noexcept;
#define UNIFEX_ASSERT(x) ((x) ? (void)0 : sched_assert_fail(#x, __FILE__, __LINE__))
