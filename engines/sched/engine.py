"""Engine `sched` (C06): execution contexts run every scheduled item once, on their own context, losing none.

 spec/sched/ManualEventLoop.tla   <-> manual_event_loop.{hpp,cpp} (+ single_thread_context.hpp)
 spec/sched/Trampoline.tla        <-> trampoline_scheduler.{hpp,cpp} (+ inline_scheduler.hpp)
 spec/prim/AtomicIntrusiveQueue.tla <-> detail/atomic_intrusive_queue.hpp
 spec/sched/StaticThreadPool.tla  <-> static_thread_pool.{hpp,cpp}
 spec/sched/NewThread.tla         <-> new_thread_context.hpp
 spec/sched/SchedMon.tla          the monitor (only source of MonitorReject alarms)

 1. generate scenarios (programs over start/stopitem/stopctx/run/await/destroy; completion bodies)
 2. TLC: invariants on every interleaving + liveness (accepted ~> ran, termination) per module
 3. export every transition (ManualEventLoop) / every input with its predicted completion order (Trampoline),
    replay on the real code (guided), plus bounded-preemption DFS and seeded random schedules of the real contexts
    with ALL threads (also the library-created ones) under the controller via interposed pthread functions
 4. validate every recorded execution against SchedMon with TLC; a controller-proven deadlock is a lost item."""
import itertools, json, os, sys, time

sys.path.insert(0, os.path.join(os.path.dirname(__file__), "..", "..", "tools"))
import vlib

S = lambda i: ["start", i]
X = lambda i: ["stopitem", i]
STOP = ["stopctx", 0]
RUN = ["run", 0]
AW = ["await", 0]
AWN = lambda n: ["awaitn", n]
DESTROY = ["destroy", 0]
LIB = ["inplace_stop_token.cpp", "async_stack.cpp", "exception.cpp", "manual_event_loop.cpp", "static_thread_pool.cpp", "trampoline_scheduler.cpp"]


class Gen:
    def __init__(self, ctx):
        self.ctx, self.out, self.seen = ctx, [], set()

    def add(self, prog, body=None, items=None, **kw):
        ops = [o for p in prog for o in p] + [o for b in (body or {}).values() for o in b]
        n = items or max([o[1] for o in ops if o[0] in ("start", "stopitem")] or [0])
        b = [list((body or {}).get(i, [])) for i in range(1, n + 1)]
        sc = dict(ctx=self.ctx, items=n, prog=[list(p) for p in prog], body=b, **kw)
        key = json.dumps(sc, sort_keys=True)
        if key in self.seen:
            return
        self.seen.add(key)
        sc["id"] = len(self.out) + 1
        self.out.append(sc)


def gen_mel(tier):
    """manual_event_loop: thread 1 is the consumer (run()), threads 2..4 produce / stop."""
    g = Gen("mel")
    # A: stop only after everything ran (lost wake-up => deadlock; FIFO)
    g.add([[RUN], [S(1), S(2)], [AW, STOP]])
    g.add([[RUN], [S(1)], [S(2)], [AW, STOP]])
    g.add([[RUN], [S(1), S(2)], [S(3)], [AW, STOP]])
    g.add([[RUN], [S(1), S(2)], [S(3), S(4)], [AW, STOP]])
    g.add([[RUN], [S(1)], [S(2)], [S(3), AW, STOP]])
    g.add([[S(1), RUN], [S(2)], [AW, STOP]])
    # B: stop racing with accepts
    g.add([[RUN], [S(1), STOP]])
    g.add([[RUN], [S(1), S(2), STOP], [S(3)]])
    g.add([[RUN], [S(1), STOP, S(2)]])
    g.add([[RUN], [S(1)], [STOP]])
    g.add([[RUN], [S(1), S(2)], [S(3), STOP]])
    g.add([[RUN], [S(1), S(2)], [S(3)], [STOP]])
    # C: per-item stop requests
    g.add([[RUN], [X(1), S(1), S(2), AW, STOP]])
    g.add([[RUN], [S(1)], [X(1)], [AW, STOP]])
    g.add([[RUN], [S(1), X(1), S(2), AW, STOP]])
    g.add([[RUN], [S(1), S(2)], [X(2), S(3)], [AW, STOP]])
    # D: work started / loop stopped from inside a completion
    g.add([[RUN], [S(1)], [AW, STOP]], body={1: [S(2)]})
    g.add([[RUN], [S(1)]], body={1: [STOP]})
    g.add([[RUN], [S(1), S(2)], [AW, STOP]], body={1: [S(3)]})
    g.add([[RUN], [S(1), S(2)]], body={1: [STOP]})
    g.add([[RUN], [S(1)], [S(4)], [AW, STOP]], body={1: [S(2), S(3)]})
    g.add([[RUN], [S(1)], [S(3)]], body={1: [S(2)], 2: [STOP]})
    if tier == "thorough":
        # every split of 2..4 items over 1..3 producers, stop after all ran / stop by the last producer
        for n in (2, 3, 4):
            for k in (1, 2, 3):
                for assign in itertools.product(range(k), repeat=n):
                    if sorted(set(assign)) != list(range(k)) or list(assign) != sorted(assign):
                        continue
                    progs = [[S(i + 1) for i in range(n) if assign[i] == p] for p in range(k)]
                    if k < 3:
                        g.add([[RUN]] + progs + [[AW, STOP]])
                    g.add([[RUN]] + progs[:-1] + [progs[-1] + [STOP]])
                    g.add([[RUN]] + progs[:-1] + [progs[-1] + [AW, STOP]])
    return g.out


def run_real(ctx, exe, name, scns, runs, stats):
    """runs: list of (mode, args, total).  Queues the driver runs; they are executed in parallel by flush_runs()."""
    for mode, args, total in runs:
        stats.setdefault("queue", []).append((name, scns, mode, args, total, exe))


def parse_deadlock(d):
    import re
    m = re.search(r"deadlock in scenario (\d+) schedule (\[[^\]]*\]) threads:(.*)", d.get("stderr_tail", "") or "")
    return (int(m.group(1)), json.loads(m.group(2)), m.group(3).strip()) if m else (None, None, None)


def exec_one(ctx, job, stats):
    name, scns, mode, args, total, exe = job
    rep = ctx.rep
    t0 = time.time()
    lp = os.path.join(ctx.work, "log_%s_%s.ndjson" % (name, mode))
    sums, deaths = vlib.run_batches(ctx, exe, args, total, lp, timeout=1500, max_deaths=6)
    execs = sum(s["execs"] for s in sums)
    rep.evaluations += execs
    for s in sums:
        rep.drift += s["drift"]
        rep.unguided += s["unguided"] if mode == "guided" else 0
        if s.get("first_drift"):
            rep.note("%s/%s drift: %s" % (name, mode, s["first_drift"]))
        if s.get("obs_mismatch"):
            rep.note("%s/%s: %d executions whose completion order differs from the specification's prediction "
                     "(sent to the monitor) first: %s" % (name, mode, s["obs_mismatch"], s.get("first_mismatch")))
        for k, v in (s.get("sites") or {}).items():
            stats.setdefault("sites", {}).setdefault(k, 0)
            stats["sites"][k] += v
    for d in deaths:
        unit = d["x"]
        sid, sched, where = parse_deadlock(d)
        scn = next((x for x in scns if x["id"] == sid), None)
        what = "%s in %s/%s unit %s: %s %s" % (d["event"], name, mode, unit, d.get("asan") or "", d.get("frame") or "")
        rec = dict(engine="sched", ctx=name, mode=mode, event=d["event"], unit=unit, asan=d.get("asan"), scn=sid,
                   frame=d.get("frame"), where=d.get("where"), what=what, detail=d.get("stderr_tail", ""),
                   scenario=scn, schedule=sched, blocked_at=where)
        if d["event"] == "Hang":
            # a thread did not reach a schedule point for 20 s: harness/tool problem (never an alarm)
            stats.setdefault("hangs", []).append(what)
        elif d["event"] == "Deadlock":
            # progress failure: the controller proved that no thread can move while an item / thread is unfinished
            rec["what"] = "lost item / lost wake-up (%s): scenario %s threads blocked at %s" % (what, json.dumps(scn and scn["prog"]), where)
            rep.violation(rec)
        else:
            rep.oos.append(rec)       # C06 is not a lifetime property: memory events are out-of-scope observations
            rep.note("out-of-scope memory/crash event: " + what + " " + (d.get("stderr_tail", "") or "")[-300:])
    rep.note("%s/%s: %d executions in %.1fs" % (name, mode, execs, time.time() - t0))
    return lp


def flush_runs(ctx, stats):
    """Execute the queued driver runs (VERIF_JOBS in parallel: each driver process runs one thread at a time),
    then validate ALL recorded executions against SchedMon in one TLC run."""
    from concurrent.futures import ThreadPoolExecutor
    rep = ctx.rep
    jobs = stats.pop("queue", [])
    with ThreadPoolExecutor(max_workers=max(1, min(vlib.NCPU, 8))) as ex:
        logs = list(ex.map(lambda j: exec_one(ctx, j, stats), jobs))
    if stats.get("hangs"):
        raise vlib.Broken("driver hang (no schedule point reached for 20 s): " + "; ".join(stats["hangs"][:3]))
    allp = os.path.join(ctx.work, "log_all.ndjson")
    byscn = {}
    with open(allp, "w") as out:
        for job, lp in zip(jobs, logs):
            name, scns = job[0], job[1]
            for s in scns:
                byscn[(s["ctx"], s["id"], name)] = s
            for ln in open(lp):
                out.write(ln)
                if '"e":"AssertFail"' in ln:
                    stats["asserts"] = stats.get("asserts", 0) + 1
                    if stats["asserts"] <= 3:
                        rep.oos.append(dict(engine="sched", ctx=name, mode=job[2], event="AssertFail", detail=ln.strip()))
            os.remove(lp)
    t0 = time.time()
    n, rejected = vlib.validate_batched(ctx, "sched", "SchedMon", allp)
    sampled = set()
    for ex in vlib.split_executions(allp):
        evs = ex[1]
        if len(evs) > 4:
            rep.distinct.add(hash("".join(evs[1:-1])))
        hdr = json.loads(evs[0])
        if hdr.get("mode") == "random" and hdr.get("ctx") not in sampled and len(sampled) < 3 and len(evs) > 8:
            sampled.add(hdr.get("ctx"))
            rep.sample(dict(kind="recorded-trace", ctx=hdr.get("ctx"), events=[json.loads(x) for x in evs[:40]]), cap=3)
    for rj in rejected:
        evs = rj["events"]
        hdr = evs[0] if evs else {}
        sched = [e.get("sched") for e in evs if e.get("e") == "End"]
        bad = evs[rj["prefix"]] if rj.get("prefix") is not None and rj["prefix"] < len(evs) else None
        sid, kind, mode = hdr.get("scn"), hdr.get("ctx"), hdr.get("mode")
        scn = next((v for (c, i, nm), v in byscn.items() if c == kind and i == sid), None)
        rep.violation(dict(engine="sched", ctx=kind, mode=mode, event="MonitorReject", unit=hdr.get("x"), k=hdr.get("k"), scn=sid,
                           what="SchedMon rejects an execution of %s (scenario %s) recorded in %s mode at event %s (matched %s of %s events)"
                                % (kind, json.dumps(scn and scn["prog"]), mode, json.dumps(bad), rj.get("prefix"), rj.get("total")),
                           scenario=scn, schedule=sched[0] if sched else None, rejected_event=bad, events=evs))
    if stats.get("asserts"):
        rep.note("out-of-scope: %d UNIFEX_ASSERT failures recorded (execution continued, judged by the monitor)" % stats["asserts"])
    rep.note("validation of %d executions against SchedMon: %.1fs" % (n, time.time() - t0))
    os.remove(allp)


def part_mel(ctx, exe, stats):
    rep = ctx.rep
    scns = gen_mel(ctx.tier)
    sp = os.path.join(ctx.work, "mel_scenarios.json")
    json.dump(scns, open(sp, "w"))
    edges = os.path.join(ctx.work, "mel_edges.ndjson")
    vlib.model_check(ctx, "sched", "ManualEventLoopMC", env={"SCENARIOS": sp, "EDGES": edges}, workers=1, timeout=1500)
    vlib.model_check(ctx, "sched", "ManualEventLoopLive", cfg="ManualEventLoopLive.cfg", env={"SCENARIOS": sp}, timeout=1500)
    adj, inits, nedges = vlib.read_edges(edges)
    walks = vlib.edge_cover(adj, inits)
    ncover = len(walks)
    if ctx.quick and len(walks) > 400:
        walks = ctx.rng.sample(walks, 400)     # the full edge cover is replayed in the thorough tier
    if ctx.tier == "thorough":
        walks += vlib.random_walks(adj, inits, 1000, ctx.rng)
    bp = os.path.join(ctx.work, "mel_behaviours.ndjson")
    seen, nb = set(), 0
    with open(bp, "w") as f:
        for w in walks:
            if not w or not w[-1]["done"]:
                continue
            sched = [[e["th"], e["pc"]] for e in w]
            b = dict(scn=w[0]["scn"], sched=sched, ran=w[-1]["obs"]["ran"])
            k = json.dumps([b["scn"], sched])
            if k in seen:
                continue
            seen.add(k)
            f.write(json.dumps(b) + "\n")
            nb += 1
            if nb <= 1:
                rep.sample(dict(kind="tlc-behaviour", ctx="mel", scenario=scns[b["scn"] - 1], schedule=sched, expect_ran=b["ran"]), cap=1)
    os.remove(edges)
    rep.note("mel: %d scenarios, edges exported %d, edge-covering walks %d, distinct behaviours %d" % (len(scns), nedges, len(walks), nb))
    q = ctx.quick
    runs = [("guided", ["--mode", "guided", "--scenarios", sp, "--behaviours", bp], nb),
            ("dfs", ["--mode", "dfs", "--scenarios", sp, "--bound", 2 if q else 3, "--cap", 40 if q else 400], len(scns)),
            ("random", ["--mode", "random", "--scenarios", sp, "--seed", ctx.seed, "--cap", 20 if q else 100], len(scns))]
    run_real(ctx, exe, "mel", scns, runs, stats)


def part_tramp(ctx, exe, stats):
    """trampoline_scheduler / inline_scheduler: TLC enumerates the inputs and predicts the completion sequence."""
    rep = ctx.rep
    out = os.path.join(ctx.work, "tramp_inputs.ndjson")
    env = {"OUT": out, "MAXNODES": 4 if ctx.quick else 5, "MAXCHAIN": 12}
    vlib.model_check(ctx, "sched", "TrampolineMC", env=env, workers=1, timeout=1500)
    scns, behs = [], []
    for ln in open(out):
        r = json.loads(ln)
        sc = r["scn"]
        if any(x > sc["items"] for x in sc["stopped"]):
            continue
        prog = [X(x) for x in sc["stopped"]] + [S(x) for x in sc["roots"]]
        d = dict(id=len(scns) + 1, ctx="tramp" if sc["maxd"] > 0 else "inline", items=sc["items"], maxd=sc["maxd"],
                 prog=[prog], body=[[S(c) for c in b] for b in sc["body"]])
        scns.append(d)
        behs.append(dict(scn=d["id"], ran=[[x[0], x[1]] for x in r["ran"]]))
    sp = os.path.join(ctx.work, "tramp_scenarios.json")
    bp = os.path.join(ctx.work, "tramp_behaviours.ndjson")
    json.dump(scns, open(sp, "w"))
    with open(bp, "w") as f:
        for b in behs:
            f.write(json.dumps(b) + "\n")
    rep.note("tramp/inline: %d inputs enumerated by TLC (chains 0..12, forests <= %d nodes, depth limits 0(inline)..4, "
             "optionally one pre-stopped item)" % (len(scns), env["MAXNODES"]))
    rep.sample(dict(kind="tlc-input", ctx="tramp", scenario=scns[len(scns) // 2], expect_ran=behs[len(scns) // 2]["ran"]), cap=1)
    run_real(ctx, exe, "tramp", scns, [("seq", ["--mode", "seq", "--scenarios", sp, "--behaviours", bp], len(behs))], stats)


def gen_aq():
    g = Gen("aq")
    for c in ("consume", "consume2"):
        g.add([[[c, 0]], [S(1), S(2)], [S(3)]])
        g.add([[[c, 0]], [S(1)], [S(2)], [S(3)]])
        g.add([[[c, 0]], [S(1), S(2)], [S(3), S(4)]])
    g2 = Gen("aq2")
    g2.add([[S(1), S(2)], [S(3)]])
    g2.add([[S(1)], [S(2)], [S(3)]])
    g2.add([[S(1), S(2)], [S(3), S(4)]])
    g2.add([[S(1)], [S(2)], [S(3)], [S(4)]])
    out = g.out + g2.out
    for i, s in enumerate(out):
        s["id"] = i + 1
    return out


def part_aq(ctx, exe, stats):
    rep = ctx.rep
    scns = gen_aq()
    sp = os.path.join(ctx.work, "aq_scenarios.json")
    json.dump(scns, open(sp, "w"))
    edges = os.path.join(ctx.work, "aq_edges.ndjson")
    mc = [s for s in scns if s["items"] <= 3] if ctx.quick else scns
    spm = os.path.join(ctx.work, "aq_scenarios_mc.json")
    json.dump(mc, open(spm, "w"))
    vlib.model_check(ctx, "sched", "AtomicQueueMC", env={"SCENARIOS": spm, "EDGES": edges}, workers=1, timeout=1500)
    vlib.model_check(ctx, "sched", "AtomicQueueLive", cfg="AtomicQueueLive.cfg", env={"SCENARIOS": spm}, timeout=1500)
    adj, inits, nedges = vlib.read_edges(edges)
    os.remove(edges)
    walks = vlib.random_walks(adj, inits, 300 if ctx.quick else 2000, ctx.rng)
    bp = os.path.join(ctx.work, "aq_behaviours.ndjson")
    seen, nb = set(), 0
    with open(bp, "w") as f:
        for w in walks:
            if not w or not w[-1]["done"]:
                continue
            sched = [[e["th"], e["pc"]] for e in w]
            k = json.dumps([w[0]["scn"], sched])
            if k in seen:
                continue
            seen.add(k)
            f.write(json.dumps(dict(scn=w[0]["scn"], sched=sched, ran=w[-1]["obs"]["ran"])) + "\n")
            nb += 1
    rep.note("aq: %d scenarios (%d model-checked), edges exported %d, %d distinct random behaviours for guided replay" % (len(scns), len(mc), nedges, nb))
    q = ctx.quick
    runs = [("guided", ["--mode", "guided", "--scenarios", sp, "--behaviours", bp], nb),
            ("dfs", ["--mode", "dfs", "--scenarios", sp, "--bound", 2 if q else 3, "--cap", 100 if q else 1000], len(scns)),
            ("random", ["--mode", "random", "--scenarios", sp, "--seed", ctx.seed, "--cap", 40 if q else 200], len(scns))]
    run_real(ctx, exe, "aq", scns, runs, stats)


AWACC = lambda n: ["awaitacc", n]


def gen_ctx(kind, tier):
    """single_thread_context / static_thread_pool / new_thread_context: the context's own threads are adopted."""
    g = Gen(kind)
    kw = dict(workers=2) if kind == "pool" else {}
    g.add([[S(1), S(2), AWACC(3), DESTROY], [S(3)]], **kw)
    g.add([[AWACC(2), DESTROY], [S(1)], [S(2)]], **kw)
    g.add([[S(1), AWACC(2), AW, DESTROY]], body={1: [S(2)]}, **kw)
    g.add([[X(1), S(1), S(2), AWACC(2), DESTROY]], **kw)
    g.add([[S(1), AWACC(2), DESTROY], [S(2), X(2)]], **kw)
    if kind == "pool":
        g.add([[S(1), S(2), AWACC(3), STOP, DESTROY], [S(3)]], **kw)
        g.add([[S(1), S(2), S(3), AWACC(3), DESTROY]], **kw)
        g.add([[AWACC(4), DESTROY], [S(1), S(2)], [S(3), S(4)]], **kw)
    if tier == "thorough":
        g.add([[AWACC(3), DESTROY], [S(1)], [S(2)], [S(3)]], **kw)
        g.add([[S(1), S(2), AWACC(4), DESTROY], [S(3), S(4)]], **kw)
        if kind == "pool":
            g.add([[AWACC(3), DESTROY], [S(1), S(2)], [S(3)]], workers=3)
    return g.out


def part_specs(ctx):
    """Model checking of the contexts that are bound by monitor-validated executions only (no guided replay)."""
    def nobody(kind, tier):
        out = [dict(s) for s in gen_ctx(kind, tier) if not any(s["body"])]
        for i, s in enumerate(out):
            s["id"] = i + 1
        return out
    pool = nobody("pool", ctx.tier)
    if ctx.quick:      # 2 workers, <= 2 items (3 items: 1e6 states, 4 items: 5e6 states -> thorough tier)
        pool = [s for s in pool if s["items"] <= 2]
    else:
        pool = [s for s in pool if s.get("workers", 2) == 2]
    pp = os.path.join(ctx.work, "pool_mc.json")
    json.dump(pool, open(pp, "w"))
    vlib.model_check(ctx, "sched", "StaticThreadPoolMC", env={"SCENARIOS": pp}, timeout=2400)
    pl = os.path.join(ctx.work, "pool_live.json")
    json.dump(pool[:2] if ctx.quick else [s for s in pool if s["items"] <= 2], open(pl, "w"))
    vlib.model_check(ctx, "sched", "StaticThreadPoolMC", cfg="StaticThreadPoolLive.cfg", env={"SCENARIOS": pl}, timeout=2400)
    ntc = nobody("ntc", "thorough")
    np_ = os.path.join(ctx.work, "ntc_mc.json")
    json.dump(ntc, open(np_, "w"))
    vlib.model_check(ctx, "sched", "NewThreadMC", env={"SCENARIOS": np_}, timeout=1500)
    ctx.rep.note("model-checked without replay: static_thread_pool %d scenarios (2 workers), new_thread_context %d scenarios" % (len(pool), len(ntc)))


def part_ctx(ctx, exe, stats, kind):
    scns = gen_ctx(kind, ctx.tier)
    sp = os.path.join(ctx.work, "%s_scenarios.json" % kind)
    json.dump(scns, open(sp, "w"))
    q = ctx.quick
    cap_dfs = {"stc": 60, "ntc": 60, "pool": 100}[kind] if q else {"stc": 800, "ntc": 800, "pool": 1500}[kind]
    cap_rnd = {"stc": 25, "ntc": 25, "pool": 60}[kind] if q else {"stc": 150, "ntc": 150, "pool": 400}[kind]
    runs = [("dfs", ["--mode", "dfs", "--scenarios", sp, "--bound", 2 if q else 3, "--cap", cap_dfs], len(scns)),
            ("random", ["--mode", "random", "--scenarios", sp, "--seed", ctx.seed, "--cap", cap_rnd], len(scns))]
    run_real(ctx, exe, kind, scns, runs, stats)


def build_driver(ctx):
    import hashlib
    # seam.hpp is included by the driver, not listed as a source: make the build cache see its content
    here = os.path.dirname(os.path.abspath(__file__))
    h = hashlib.sha1(open(os.path.join(here, "seam.hpp"), "rb").read() + open(os.path.join(here, "assert_hook.hpp"), "rb").read()).hexdigest()[:12]
    hook = os.path.join(os.path.dirname(os.path.abspath(__file__)), "assert_hook.hpp")
    return vlib.build(ctx, "sched_driver", ["engines/sched/driver.cpp"], lib=LIB, extra=["-rdynamic", "-include", hook],
                      libs=("-lpthread", "-ldl"), defs=["SCHED_SEAM_HASH=0x" + h])


def replay(ctx, exe, stats):
    """./check C06 --replay <violation file>: re-execute exactly the recorded scenario + schedule."""
    rr = ctx.replay
    scn = rr.get("scenario")
    if not scn:
        raise vlib.Broken("replay file has no scenario")
    sp = os.path.join(ctx.work, "replay_scn.json")
    json.dump([scn], open(sp, "w"))
    args = ["--mode", "replay", "--scenarios", sp, "--scn", scn["id"], "--sched", json.dumps(rr.get("schedule") or [])]
    run_real(ctx, exe, scn["ctx"], [scn], [("replay", args, 1)], stats)
    flush_runs(ctx, stats)


def run(ctx):
    from concurrent.futures import ThreadPoolExecutor
    rep = ctx.rep
    rep.assume("sequentially consistent interleavings at schedule-point granularity (mutex acquisition / release, try_lock, "
               "cond_wait, thread creation/join, load/CAS/exchange on the atomic queue); weak-memory reorderings not explored")
    rep.assume("condition variables: no spurious wake-ups explored; notify_one wakes any one waiter; "
               "std::try_to_lock fails iff the mutex is held")
    stats = {}
    exe = build_driver(ctx)
    if ctx.replay:
        return replay(ctx, exe, stats)
    parts = [lambda: part_mel(ctx, exe, stats), lambda: part_tramp(ctx, exe, stats), lambda: part_aq(ctx, exe, stats),
             lambda: part_specs(ctx)]
    only = set(filter(None, os.environ.get("SCHED_PARTS", "").split(",")))      # development aid: restrict the parts
    names = ["mel", "tramp", "aq", "specs"]
    parts = [p for p, nm in zip(parts, names) if not only or nm in only]
    with ThreadPoolExecutor(max_workers=max(1, min(vlib.NCPU, 4))) as ex:      # TLC runs of the parts in parallel
        for f in [ex.submit(p) for p in parts]:
            f.result()
    for kind in ("stc", "pool", "ntc"):
        if not only or kind in only:
            part_ctx(ctx, exe, stats, kind)
    if only:
        rep.note("restricted to parts: " + ",".join(sorted(only)))
    flush_runs(ctx, stats)
    rep.exhaustive = True
    if stats.get("sites"):
        rep.note("schedule points exercised: " + json.dumps(stats["sites"], sort_keys=True))
    rep.rule("executions = guided replays of TLC behaviours + DFS(preemption-bounded) + seeded random schedules of the real "
             "contexts with all threads controlled; distinct_nontrivial = distinct recorded event sequences")
