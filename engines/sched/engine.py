"""Engine `sched` (C06): execution contexts run every scheduled item once, on their own context, losing none.

 spec/sched/ManualEventLoop.tla   <-> manual_event_loop.{hpp,cpp} (+ single_thread_context.hpp)
 spec/sched/Trampoline.tla        <-> trampoline_scheduler.{hpp,cpp}, inline_scheduler.hpp
 spec/sched/AtomicQueue.tla       <-> detail/atomic_intrusive_queue.hpp
 spec/sched/StaticThreadPool.tla  <-> static_thread_pool.{hpp,cpp}
 spec/sched/NewThread.tla         <-> new_thread_context.hpp
 spec/sched/SchedMon.tla          the monitor (only source of MonitorReject alarms)
 wrappers executed on the same scenarios: any_scheduler, any_scheduler_ref (any_scheduler.hpp),
 schedule_with_subscheduler (schedule_with_subscheduler.hpp)

 1. generate scenarios (programs over start/stopitem/stopctx/run/await/destroy; completion bodies)
 2. TLC: invariants on every interleaving + liveness (accepted ~> ran, termination) per module
 3. export every transition (ManualEventLoop, AtomicQueue, StaticThreadPool, NewThread) / every input with its predicted
    completion order (Trampoline), replay edge-covering / random walks on the real code (guided), plus
    bounded-preemption DFS and seeded random schedules of the real contexts with ALL threads (also the library-created
    ones) under the controller via interposed pthread functions; spurious condition-variable wake-ups are a
    controller choice
 4. validate every recorded execution against SchedMon with TLC; a controller-proven deadlock is a lost item."""
import hashlib, itertools, json, os, re, sys, threading, time
from concurrent.futures import ThreadPoolExecutor

sys.path.insert(0, os.path.join(os.path.dirname(__file__), "..", "..", "tools"))
import vlib

S = lambda i: ["start", i]
X = lambda i: ["stopitem", i]
STOP = ["stopctx", 0]
RUN = ["run", 0]
AW = ["await", 0]
AWACC = lambda n: ["awaitacc", n]
DESTROY = ["destroy", 0]
LIB = ["inplace_stop_token.cpp", "async_stack.cpp", "exception.cpp", "manual_event_loop.cpp", "static_thread_pool.cpp", "trampoline_scheduler.cpp"]
HERE = os.path.dirname(os.path.abspath(__file__))
BASE = dict(mel=0, tramp=1000, aq=3000, stc=4000, pool=5000, ntc=6000)      # scenario ids are unique across groups


class Gen:
    def __init__(self, ctx, base=0):
        self.ctx, self.out, self.seen, self.base = ctx, [], set(), base

    def add(self, prog, body=None, items=None, ctx=None, **kw):
        ops = [o for p in prog for o in p] + [o for b in (body or {}).values() for o in b]
        n = items or max([o[1] for o in ops if o[0] in ("start", "stopitem")] or [0])
        b = [list((body or {}).get(i, [])) for i in range(1, n + 1)]
        sc = dict(ctx=ctx or self.ctx, items=n, prog=[list(p) for p in prog], body=b, **kw)
        key = json.dumps(sc, sort_keys=True)
        if key in self.seen:
            return
        self.seen.add(key)
        sc["id"] = self.base + len(self.out) + 1
        self.out.append(sc)


def gen_mel(tier):
    """manual_event_loop: thread 1 is the consumer (run()), threads 2..4 produce / stop."""
    g = Gen("mel", BASE["mel"])
    # A: stop only after everything ran (lost wake-up => deadlock; FIFO)
    g.add([[RUN], [S(1), S(2)], [AW, STOP]])
    g.add([[RUN], [S(1)], [S(2)], [AW, STOP]])
    g.add([[RUN], [S(1), S(2)], [S(3)], [AW, STOP]])
    g.add([[RUN], [S(1), S(2)], [S(3), S(4)], [AW, STOP]])
    g.add([[RUN], [S(1)], [S(2)], [S(3), AW, STOP]])
    g.add([[S(1), RUN], [S(2)], [AW, STOP]])
    # B: stop racing with accepts
    g.add([[RUN], [S(1), STOP]])
    g.add([[RUN], [S(1), S(2), STOP], [S(3)]])
    g.add([[RUN], [S(1), STOP, S(2)]])
    g.add([[RUN], [S(1)], [STOP]])
    g.add([[RUN], [S(1), S(2)], [S(3), STOP]])
    g.add([[RUN], [S(1), S(2)], [S(3)], [STOP]])
    # C: per-item stop requests
    g.add([[RUN], [X(1), S(1), S(2), AW, STOP]])
    g.add([[RUN], [S(1)], [X(1)], [AW, STOP]])
    g.add([[RUN], [S(1), X(1), S(2), AW, STOP]])
    g.add([[RUN], [S(1), S(2)], [X(2), S(3)], [AW, STOP]])
    # D: work started / loop stopped from inside a completion
    g.add([[RUN], [S(1)], [AW, STOP]], body={1: [S(2)]})
    g.add([[RUN], [S(1)]], body={1: [STOP]})
    g.add([[RUN], [S(1), S(2)], [AW, STOP]], body={1: [S(3)]})
    g.add([[RUN], [S(1), S(2)]], body={1: [STOP]})
    g.add([[RUN], [S(1)], [S(4)], [AW, STOP]], body={1: [S(2), S(3)]})
    g.add([[RUN], [S(1)], [S(3)]], body={1: [S(2)], 2: [STOP]})
    if tier == "thorough":
        # every split of 2..4 items over 1..3 producers, stop after all ran / stop by the last producer
        for n in (2, 3, 4):
            for k in (1, 2, 3):
                for assign in itertools.product(range(k), repeat=n):
                    if sorted(set(assign)) != list(range(k)) or list(assign) != sorted(assign):
                        continue
                    progs = [[S(i + 1) for i in range(n) if assign[i] == p] for p in range(k)]
                    if k < 3:
                        g.add([[RUN]] + progs + [[AW, STOP]])
                    g.add([[RUN]] + progs[:-1] + [progs[-1] + [STOP]])
                    g.add([[RUN]] + progs[:-1] + [progs[-1] + [AW, STOP]])
    return g.out


def gen_aq(tier):
    g = Gen("aq", BASE["aq"])
    for c in ("consume", "consume2", "consume3"):
        g.add([[[c, 0]], [S(1), S(2)], [S(3)]])
        g.add([[[c, 0]], [S(1)], [S(2)], [S(3)]])
        g.add([[[c, 0]], [S(1), S(2)], [S(3), S(4)]])
    g.add([[S(1), S(2)], [S(3)]], ctx="aq2")
    g.add([[S(1)], [S(2)], [S(3)]], ctx="aq2")
    g.add([[S(1), ["trylock", 0]], [["trylock", 0], S(2)], [S(3)]], ctx="aq2")
    g.add([[S(1), S(2)], [S(3), S(4)]], ctx="aq2")
    g.add([[S(1)], [S(2)], [S(3)], [S(4)]], ctx="aq2")
    g.add([[S(1), ["trylock", 0]], [S(2)], [["trylock", 0]], [S(3)]], ctx="aq2")
    return g.out


def gen_ctx(kind, tier):
    """single_thread_context / static_thread_pool / new_thread_context: the context's own threads are adopted."""
    g = Gen(kind, BASE[kind])
    kw = dict(workers=2) if kind == "pool" else {}
    g.add([[S(1), S(2), AWACC(3), DESTROY], [S(3)]], **kw)
    g.add([[AWACC(2), DESTROY], [S(1)], [S(2)]], **kw)
    g.add([[S(1), AWACC(2), AW, DESTROY]], body={1: [S(2)]}, **kw)
    g.add([[X(1), S(1), S(2), AWACC(2), DESTROY]], **kw)
    g.add([[S(1), AWACC(2), DESTROY], [S(2), X(2)]], **kw)
    g.add([[S(1), AWACC(1), DESTROY]], **kw)
    if kind == "pool":
        g.add([[S(1), S(2), AWACC(3), STOP, DESTROY], [S(3)]], **kw)
        g.add([[S(1), S(2), S(3), AWACC(3), DESTROY]], **kw)
        g.add([[AWACC(4), DESTROY], [S(1), S(2)], [S(3), S(4)]], **kw)
    if tier == "thorough":
        g.add([[AWACC(3), DESTROY], [S(1)], [S(2)], [S(3)]], **kw)
        g.add([[S(1), S(2), AWACC(4), DESTROY], [S(3), S(4)]], **kw)
        if kind == "pool":
            g.add([[AWACC(3), DESTROY], [S(1), S(2)], [S(3)]], workers=3)
    return g.out


def wrapped(scns, wrap, keep=None):
    out = [dict(s, wrap=wrap) for s in scns if keep is None or keep(s)]
    return out


# ----------------------------------------------------------------------------- execution machinery
class Runner:
    """Driver runs are executed as soon as they are submitted (a few processes in parallel: each driver process runs
    one thread at a time); TLC runs of the parts proceed concurrently."""

    def __init__(self, ctx, exe):
        self.ctx, self.exe = ctx, exe
        self.stats = {}
        self.lock = threading.Lock()
        self.tlc_sem = threading.Semaphore(max(2, min(6, vlib.NCPU // 2)))
        self.pool = ThreadPoolExecutor(max_workers=max(2, min(8, vlib.NCPU // 2)))
        self.futs = []
        self.byscn = {}

    def mc(self, module, cfg=None, env=None, workers=2, timeout=2400):
        with self.tlc_sem:
            return vlib.model_check(self.ctx, "sched", module, cfg=cfg, env=env, workers=workers, timeout=timeout)

    def submit(self, name, scns, mode, args, total):
        for s in scns:
            self.byscn[(s["id"], s.get("wrap", ""))] = s
        if total <= 0:
            return
        job = (name, scns, mode, list(args), total)
        self.futs.append((job, self.pool.submit(exec_one, self, job)))


def parse_deadlock(d):
    m = re.search(r"deadlock in scenario (\d+) schedule (\[[^\]]*\]) threads:(.*)", d.get("stderr_tail", "") or "")
    return (int(m.group(1)), json.loads(m.group(2)), m.group(3).strip()) if m else (None, None, None)


def run_batches_keep(ctx, exe, args, total, log_path, timeout=None, max_deaths=6):
    """vlib.run_batches, but the events of an execution that died are kept (death["tail"]) instead of being dropped:
    whatever the monitor rejects in that prefix is a violation even though the process crashed afterwards."""
    k, sums, deaths, retried = 0, [], [], set()
    timeout = timeout or (1800 if ctx.quick else 6 * 3600)
    open(log_path, "w").close()
    while k < total:
        rc, so, se = vlib.run_exe(exe, list(args) + ["--from", k, "--to", total, "--log", log_path], timeout=timeout)
        if rc == -9:
            # the batch ran out of time (loaded machine): not a death of the driver.  Resume at the unit that was in
            # progress; give up (broken check, never an alarm) if the same unit times out twice.
            x = vlib.last_exec_id(log_path)
            x = k if x is None or x < k else x
            vlib.truncate_after_last_reset(log_path)
            if x in retried:
                deaths.append(dict(event="Hang", x=x, stderr_tail="batch timeout (%d s) twice in unit %d" % (timeout, x)))
                break
            retried.add(x)
            # drop the executions of unit x recorded so far: the unit is redone from its beginning
            lines = open(log_path, errors="replace").read().splitlines(True)
            cut = next((i for i, l in enumerate(lines) if '"e":"Reset"' in l and '"x":%d,' % x in l), None)
            if cut is not None:
                open(log_path, "w").writelines(lines[:cut])
            k = x
            continue
        summ = None
        for ln in so.splitlines():
            if ln.startswith("{"):
                try:
                    summ = json.loads(ln)
                except Exception:
                    pass
        if summ:
            sums.append(summ)
        d = vlib.classify_death(rc, se)
        if d is None:
            break
        x = vlib.last_exec_id(log_path)
        if x is None or x < k:
            x = k
        d["x"] = x
        lines = open(log_path, errors="replace").read().splitlines(True)
        idx = max((i for i, l in enumerate(lines) if '"e":"Reset"' in l), default=None)
        d["tail"] = lines[idx:] if idx is not None else []
        vlib.truncate_after_last_reset(log_path)
        deaths.append(d)
        if len(deaths) >= max_deaths:
            ctx.rep.note("stopped after %d deaths" % len(deaths))
            break
        k = x + 1
    return sums, deaths


DEATH_EVENTS = ('"e":"Deadlock"', '"e":"Crash"', '"e":"Terminate"', '"e":"Hang"', '"e":"AsanReport"')


def judge_tail(rn, name, mode, d):
    """Validate the recorded prefix of an execution that ended in a crash / sanitizer report against the monitor."""
    tail = [l for l in d.get("tail") or [] if l.strip().startswith("{") and not any(k in l for k in DEATH_EVENTS)]
    good = []
    for l in tail:                       # drop a torn last line
        try:
            json.loads(l)
            good.append(l)
        except Exception:
            break
    if len(good) < 2:
        return None
    p = os.path.join(rn.ctx.work, "tail_%s_%s_%s.ndjson" % (name.replace("+", "_"), mode, d["x"]))
    open(p, "w").writelines(good)
    import types
    cx = types.SimpleNamespace(work=rn.ctx.work, rep=vlib.Report(rn.ctx.prop, rn.ctx.tier, rn.ctx.seed))
    with rn.tlc_sem:
        r = vlib.validate_trace(cx, "sched", "SchedMon", p)
    os.remove(p)
    if r["prefix"] < r["total"]:         # an EVENT was rejected (not merely the end-of-execution obligations)
        return dict(prefix=r["prefix"], total=r["total"], events=[json.loads(l) for l in good])
    return None


def exec_one(rn, job):
    name, scns, mode, args, total = job
    ctx, rep, stats = rn.ctx, rn.ctx.rep, rn.stats
    t0 = time.time()
    lp = os.path.join(ctx.work, "log_%s_%s.ndjson" % (name.replace("+", "_"), mode))
    sums, deaths = run_batches_keep(ctx, rn.exe, args, total, lp)
    execs = sum(s["execs"] for s in sums)
    tails = [(d, judge_tail(rn, name, mode, d)) for d in deaths if d["event"] not in ("Deadlock", "Hang")]
    with rn.lock:
        rep.evaluations += execs
        for s in sums:
            rep.drift += s["drift"]
            rep.unguided += s["unguided"] if mode == "guided" else 0
            stats["spurious"] = stats.get("spurious", 0) + s.get("spurious_wakeups", 0)
            if s.get("first_drift"):
                rep.note("%s/%s drift: %s" % (name, mode, s["first_drift"]))
            if s.get("obs_mismatch"):
                rep.note("%s/%s: %d executions whose completion order differs from the specification's prediction "
                         "(sent to the monitor) first: %s" % (name, mode, s["obs_mismatch"], s.get("first_mismatch")))
                stats["obs_mismatch"] = stats.get("obs_mismatch", 0) + s["obs_mismatch"]
            for k, v in (s.get("sites") or {}).items():
                stats.setdefault("sites", {}).setdefault(k, 0)
                stats["sites"][k] += v
        for d in deaths:
            unit = d["x"]
            sid, sched, where = parse_deadlock(d)
            scn = next((x for x in scns if x["id"] == sid), None)
            what = "%s in %s/%s unit %s: %s %s" % (d["event"], name, mode, unit, d.get("asan") or "", d.get("frame") or "")
            rec = dict(engine="sched", ctx=name, mode=mode, event=d["event"], unit=unit, asan=d.get("asan"), scn=sid,
                       frame=d.get("frame"), where=d.get("where"), what=what, detail=d.get("stderr_tail", ""),
                       scenario=scn, schedule=sched, blocked_at=where)
            if d["event"] == "Hang":
                # a thread did not reach a schedule point for 20 s: harness/tool problem (never an alarm)
                stats.setdefault("hangs", []).append(what)
            elif d["event"] == "Deadlock":
                # progress failure: the controller proved that no thread can move while an item / thread is unfinished
                rec["what"] = "lost item / lost wake-up (%s): scenario %s threads blocked at %s" % (what, json.dumps(scn and scn["prog"]), where)
                rep.violation(rec)
            else:
                rep.oos.append(rec)       # C06 is not a lifetime property: memory events are out-of-scope observations
                rep.note("out-of-scope memory/crash event: " + what + " " + (d.get("stderr_tail", "") or "")[-300:])
                rj = next((t for dd, t in tails if dd is d), None)
                if rj:                    # ... but what the monitor rejects BEFORE the crash is a violation
                    evs = rj["events"]
                    hdr, bad = evs[0], evs[rj["prefix"]]
                    scn2 = rn.byscn.get((hdr.get("scn"), hdr.get("wrap", "")))
                    rep.violation(dict(engine="sched", ctx=name, mode=mode, event="MonitorReject", unit=unit, scn=hdr.get("scn"),
                                       what="SchedMon rejects event %s of an execution of %s (scenario %s, %s mode) that afterwards ended in %s"
                                            % (json.dumps(bad), name, json.dumps(scn2 and scn2["prog"]), mode, d["event"]),
                                       scenario=scn2, rejected_event=bad, events=evs, died=d["event"]))
        rep.note("%s/%s: %d executions in %.1fs" % (name, mode, execs, time.time() - t0))
    return lp


def finish(rn):
    """Wait for the driver runs, then validate ALL recorded executions against SchedMon (a few TLC runs in parallel)."""
    ctx, rep, stats = rn.ctx, rn.ctx.rep, rn.stats
    logs = [(job, f.result()) for job, f in rn.futs]
    rn.pool.shutdown()
    if stats.get("hangs"):
        raise vlib.Broken("driver hang (no schedule point reached for 20 s): " + "; ".join(stats["hangs"][:3]))
    # distribute the logs over k validation files of similar size
    k = max(1, min(4, vlib.NCPU // 3))
    sizes = sorted(((os.path.getsize(lp), job, lp) for job, lp in logs), key=lambda x: -x[0])
    bins = [[0, []] for _ in range(k)]
    for sz, job, lp in sizes:
        b = min(bins, key=lambda x: x[0])
        b[0] += sz
        b[1].append((job, lp))
    paths = []
    sampled = set()
    for bi, (_, items) in enumerate(bins):
        if not items:
            continue
        allp = os.path.join(ctx.work, "log_all_%d.ndjson" % bi)
        with open(allp, "w") as out:
            for job, lp in items:
                for ln in open(lp):
                    out.write(ln)
                    if '"e":"AssertFail"' in ln:
                        stats["asserts"] = stats.get("asserts", 0) + 1
                        if stats["asserts"] <= 3:
                            rep.oos.append(dict(engine="sched", ctx=job[0], mode=job[2], event="AssertFail", detail=ln.strip()))
                os.remove(lp)
        paths.append(allp)
    t0 = time.time()

    def validate(allp):
        import types                                     # private report: validate_batched is not thread-safe on one
        cx = types.SimpleNamespace(work=ctx.work, rep=vlib.Report(ctx.prop, ctx.tier, ctx.seed))
        n, rejected = vlib.validate_batched(cx, "sched", "SchedMon", allp)
        return n, rejected, cx.rep.traces, cx.rep.events

    with ThreadPoolExecutor(max_workers=len(paths) or 1) as ex:
        results = list(ex.map(validate, paths))
    nall = 0
    for allp, (n, rejected, traces, events) in zip(paths, results):
        nall += n
        rep.traces += traces
        rep.events += events
        for ex_ in vlib.split_executions(allp):
            evs = ex_[1]
            if len(evs) > 4:
                rep.distinct.add(hash("".join(evs[1:-1])))
            if len(sampled) < 3 and len(evs) > 8 and '"mode":"random"' in evs[0]:
                hdr = json.loads(evs[0])
                if hdr.get("ctx") not in sampled:
                    sampled.add(hdr.get("ctx"))
                    rep.sample(dict(kind="recorded-trace", ctx=hdr.get("ctx"), events=[json.loads(x) for x in evs[:40]]), cap=3)
        for rj in rejected:
            evs = rj["events"]
            hdr = evs[0] if evs else {}
            sched = [e.get("sched") for e in evs if e.get("e") == "End"]
            bad = evs[rj["prefix"]] if rj.get("prefix") is not None and rj["prefix"] < len(evs) else None
            sid, kind, mode, wrap = hdr.get("scn"), hdr.get("ctx"), hdr.get("mode"), hdr.get("wrap", "")
            scn = rn.byscn.get((sid, wrap))
            rep.violation(dict(engine="sched", ctx=kind, wrap=wrap, mode=mode, event="MonitorReject", unit=hdr.get("x"), k=hdr.get("k"), scn=sid,
                               what="SchedMon rejects an execution of %s%s (scenario %s) recorded in %s mode at event %s (matched %s of %s events)"
                                    % (kind, ("+" + wrap) if wrap else "", json.dumps(scn and scn["prog"]), mode, json.dumps(bad), rj.get("prefix"), rj.get("total")),
                               scenario=scn, schedule=sched[0] if sched else None, rejected_event=bad, events=evs))
        os.remove(allp)
    if stats.get("asserts"):
        rep.note("out-of-scope: %d UNIFEX_ASSERT failures recorded (execution continued, judged by the monitor)" % stats["asserts"])
    rep.note("validation of %d executions against SchedMon (%d TLC runs in parallel): %.1fs" % (nall, len(paths), time.time() - t0))


def behaviours_from_edges(ctx, edges, n_cover, n_random, idmap=None, drop_scn=()):
    """edge log -> distinct complete behaviours: a sample of the edge-covering walks + seeded random walks.
    A spurious wake-up of the specification ("spur") has no step of its own in the real code: the thread's following
    step is marked '!' (resume although not signalled)."""
    adj, inits, nedges = vlib.read_edges(edges)
    os.remove(edges)
    walks = vlib.edge_cover(adj, inits)
    ncover = len(walks)
    if n_cover is not None and len(walks) > n_cover:
        walks = ctx.rng.sample(walks, n_cover)
    if n_random:
        walks += vlib.random_walks(adj, inits, n_random, ctx.rng)
    out, seen = [], set()
    for w in walks:
        if not w or not w[-1]["done"] or w[0]["scn"] in drop_scn:
            continue
        sched, spur = [], set()
        for e in w:
            th = idmap(e["th"]) if idmap else e["th"]
            if e["pc"] == "spur":
                spur.add(th)
                continue
            pc = e["pc"]
            if th in spur:
                spur.discard(th)
                pc += "!"
            sched.append([th, pc])
        k = json.dumps([w[0]["scn"], sched])
        if k in seen:
            continue
        seen.add(k)
        out.append(dict(scn=w[0]["scn"], sched=sched, ran=w[-1]["obs"]["ran"]))
    return out, nedges, ncover


def write_lines(path, recs):
    with open(path, "w") as f:
        for r in recs:
            f.write(json.dumps(r) + "\n")


def dump(ctx, name, obj):
    p = os.path.join(ctx.work, name)
    json.dump(obj, open(p, "w"))
    return p


# ----------------------------------------------------------------------------- parts
def part_mel(rn):
    ctx, rep, q = rn.ctx, rn.ctx.rep, rn.ctx.quick
    scns = gen_mel(ctx.tier)
    sp = dump(ctx, "mel_scenarios.json", scns)
    rn.submit("mel", scns, "dfs", ["--mode", "dfs", "--scenarios", sp, "--bound", 2 if q else 3, "--cap", 30 if q else 300], len(scns))
    rn.submit("mel", scns, "random", ["--mode", "random", "--scenarios", sp, "--seed", ctx.seed, "--cap", 15 if q else 100], len(scns))
    # the same programs through the type-erased / sub-scheduler wrappers
    sub = scns[:22]
    for wrap, dcap, rcap in (("any", 15, 8), ("ref", 8, 5), ("sub", 8, 5)):
        ws = wrapped(sub, wrap)
        wp = dump(ctx, "mel_%s_scenarios.json" % wrap, ws)
        rn.submit("mel+" + wrap, ws, "dfs", ["--mode", "dfs", "--scenarios", wp, "--bound", 2, "--cap", dcap if q else dcap * 10], len(ws))
        rn.submit("mel+" + wrap, ws, "random", ["--mode", "random", "--scenarios", wp, "--seed", ctx.seed + 1, "--cap", rcap if q else rcap * 8], len(ws))
    edges = os.path.join(ctx.work, "mel_edges.ndjson")
    rn.mc("ManualEventLoopMC", env={"SCENARIOS": sp, "EDGES": edges}, workers=1)
    behs, nedges, ncover = behaviours_from_edges(ctx, edges, 400 if q else 6000, 0 if q else 1000)
    bp = os.path.join(ctx.work, "mel_behaviours.ndjson")
    write_lines(bp, behs)
    nspur = sum(1 for b in behs for s in b["sched"] if s[1].endswith("!"))
    rep.sample(dict(kind="tlc-behaviour", ctx="mel", scenario=rn.byscn.get((behs[0]["scn"], "")), schedule=behs[0]["sched"], expect_ran=behs[0]["ran"]), cap=1)
    rep.note("mel: %d scenarios, edges exported %d, edge-covering walks %d, behaviours replayed %d (with %d spurious wake-ups)"
             % (len(scns), nedges, ncover, len(behs), nspur))
    rn.submit("mel", scns, "guided", ["--mode", "guided", "--scenarios", sp, "--behaviours", bp], len(behs))
    # the TLC behaviours replayed through any_scheduler: type erasure adds no schedule point, drift must stay 0
    ws = wrapped(scns, "any")
    wp = dump(ctx, "mel_any_all_scenarios.json", ws)
    ab = behs[::4] if q else behs[::2]
    abp = os.path.join(ctx.work, "mel_any_behaviours.ndjson")
    write_lines(abp, ab)
    rn.submit("mel+any", ws, "guided", ["--mode", "guided", "--scenarios", wp, "--behaviours", abp], len(ab))
    rn.mc("ManualEventLoopLive", cfg="ManualEventLoopLiveQ.cfg" if q else "ManualEventLoopLive.cfg", env={"SCENARIOS": sp})


def part_tramp(rn):
    """trampoline_scheduler / inline_scheduler: TLC enumerates the inputs and predicts the completion sequence."""
    ctx, rep = rn.ctx, rn.ctx.rep
    out = os.path.join(ctx.work, "tramp_inputs.ndjson")
    env = {"OUT": out, "MAXNODES": 4 if ctx.quick else 5, "MAXCHAIN": 12}
    rn.mc("TrampolineMC", env=env, workers=1)
    scns, behs = [], []
    for ln in open(out):
        r = json.loads(ln)
        sc = r["scn"]
        if any(x > sc["items"] for x in sc["stopped"]):
            continue
        prog = [X(x) for x in sc["stopped"]] + [S(x) for x in sc["roots"]]
        d = dict(id=BASE["tramp"] + len(scns) + 1, ctx="tramp" if sc["maxd"] > 0 else "inline", items=sc["items"], maxd=sc["maxd"],
                 prog=[prog], body=[[S(c) for c in b] for b in sc["body"]])
        scns.append(d)
        behs.append(dict(scn=d["id"], ran=[[x[0], x[1]] for x in r["ran"]]))
    os.remove(out)
    sp = dump(ctx, "tramp_scenarios.json", scns)
    bp = os.path.join(ctx.work, "tramp_behaviours.ndjson")
    write_lines(bp, behs)
    ninl = sum(1 for s in scns if s["ctx"] == "inline")
    rep.note("tramp/inline: %d inputs enumerated by TLC (%d for inline_scheduler; chains 0..12, forests <= %d nodes, depth limits "
             "0(inline)..4, optionally item 1 or 2 already stopped)" % (len(scns), ninl, env["MAXNODES"]))
    rep.sample(dict(kind="tlc-input", ctx="tramp", scenario=scns[len(scns) // 2], expect_ran=behs[len(scns) // 2]["ran"]), cap=1)
    rn.submit("tramp", scns, "seq", ["--mode", "seq", "--scenarios", sp, "--behaviours", bp], len(behs))
    # the same inputs through any_scheduler and schedule_with_subscheduler (every 3rd input)
    for wrap in ("any", "sub"):
        ws = wrapped(scns, wrap)
        wp = dump(ctx, "tramp_%s_scenarios.json" % wrap, ws)
        wb = behs[(1 if wrap == "any" else 2)::3]
        wbp = os.path.join(ctx.work, "tramp_%s_behaviours.ndjson" % wrap)
        write_lines(wbp, wb)
        rn.submit("tramp+" + wrap, ws, "seq", ["--mode", "seq", "--scenarios", wp, "--behaviours", wbp], len(wb))


def part_aq(rn):
    ctx, rep, q = rn.ctx, rn.ctx.rep, rn.ctx.quick
    scns = gen_aq(ctx.tier)
    sp = dump(ctx, "aq_scenarios.json", scns)
    rn.submit("aq", scns, "dfs", ["--mode", "dfs", "--scenarios", sp, "--bound", 2 if q else 3, "--cap", 50 if q else 700], len(scns))
    rn.submit("aq", scns, "random", ["--mode", "random", "--scenarios", sp, "--seed", ctx.seed, "--cap", 25 if q else 200], len(scns))
    has_rev_hooks = "sched.aq.r_load" in open(os.path.join(ctx.repo, "include/unifex/detail/atomic_intrusive_queue.hpp")).read()
    mc = [s for s in scns if s["items"] <= 3] if q else scns
    spm = dump(ctx, "aq_scenarios_mc.json", mc)
    # export: 2 producers (3 items) per consumer flavour + the try_lock scenario; everything in the thorough tier
    ex = [s for s in mc if len(s["prog"]) <= 3] if q else [s for s in mc if s["items"] <= 3]
    if not has_rev_hooks:
        ex = [s for s in ex if not any(o[0] == "consume3" for p in s["prog"] for o in p)]
        rep.note("aq: the tree has no sched.aq.r_* hooks in dequeue_all_reversed (hooks.patch not applied): consume3 scenarios "
                 "run without guided replay and with fewer interleavings")
    spe = dump(ctx, "aq_scenarios_ex.json", ex)
    edges = os.path.join(ctx.work, "aq_edges.ndjson")
    rn.mc("AtomicQueueMC", cfg="AtomicQueueExport.cfg", env={"SCENARIOS": spe, "EDGES": edges}, workers=1)
    behs, nedges, ncover = behaviours_from_edges(ctx, edges, 150 if q else 3000, 150 if q else 2000)
    bp = os.path.join(ctx.work, "aq_behaviours.ndjson")
    write_lines(bp, behs)
    rep.note("aq: %d scenarios (%d model-checked, %d exported), edges exported %d, edge-covering walks %d, behaviours replayed %d"
             % (len(scns), len(mc), len(ex), nedges, ncover, len(behs)))
    rn.submit("aq", scns, "guided", ["--mode", "guided", "--scenarios", sp, "--behaviours", bp], len(behs))
    rn.mc("AtomicQueueMC", env={"SCENARIOS": spm})
    rn.mc("AtomicQueueLive", cfg="AtomicQueueLive.cfg", env={"SCENARIOS": spe if q else spm})


def nobody(scns):
    return [s for s in scns if not any(s["body"])]


def part_pool(rn):
    ctx, rep, q = rn.ctx, rn.ctx.rep, rn.ctx.quick
    scns = gen_ctx("pool", ctx.tier)
    sp = dump(ctx, "pool_scenarios.json", scns)
    rn.submit("pool", scns, "dfs", ["--mode", "dfs", "--scenarios", sp, "--bound", 2 if q else 3, "--cap", 60 if q else 1000], len(scns))
    rn.submit("pool", scns, "random", ["--mode", "random", "--scenarios", sp, "--seed", ctx.seed, "--cap", 40 if q else 400], len(scns))
    for wrap, dcap, rcap in (("any", 20, 12), ("ref", 10, 8), ("sub", 10, 8)):
        ws = wrapped(scns[:6], wrap)
        wp = dump(ctx, "pool_%s_scenarios.json" % wrap, ws)
        rn.submit("pool+" + wrap, ws, "dfs", ["--mode", "dfs", "--scenarios", wp, "--bound", 2, "--cap", dcap if q else dcap * 10], len(ws))
        rn.submit("pool+" + wrap, ws, "random", ["--mode", "random", "--scenarios", wp, "--seed", ctx.seed + 2, "--cap", rcap if q else rcap * 8], len(ws))
    two = [s for s in nobody(scns) if s.get("workers", 2) == 2]
    # export for guided replay: 1 harness thread (quick) / also 2-3 harness threads with 2 items (thorough)
    ex = [s for s in two if len(s["prog"]) == 1 and s["items"] <= 2] if q else \
         [s for s in two if len(s["prog"]) == 1 or (s["items"] == 2 and s["prog"][0][0][0] == "awaitacc")]
    spe = dump(ctx, "pool_ex.json", ex)
    edges = os.path.join(ctx.work, "pool_edges.ndjson")
    rn.mc("StaticThreadPoolMC", cfg="StaticThreadPoolExport.cfg", env={"SCENARIOS": spe, "EDGES": edges}, workers=1)
    behs, nedges, ncover = behaviours_from_edges(ctx, edges, 250 if q else 3000, 100 if q else 1500, idmap=lambda t: t + 89 if t > 10 else t)
    bp = os.path.join(ctx.work, "pool_behaviours.ndjson")
    write_lines(bp, behs)
    rep.note("pool: %d scenarios, %d exported, edges %d, edge-covering walks %d, behaviours replayed %d" % (len(scns), len(ex), nedges, ncover, len(behs)))
    rn.submit("pool", scns, "guided", ["--mode", "guided", "--scenarios", sp, "--behaviours", bp], len(behs))
    mc = [s for s in two if s["items"] <= 2] if q else two      # 3 items: 1e6 states, 4 items: 5e6 states -> thorough tier
    rn.mc("StaticThreadPoolMC", env={"SCENARIOS": dump(ctx, "pool_mc.json", mc)}, workers=max(2, vlib.NCPU // 2) if not q else 2)
    live = [s for s in mc if s["items"] <= 2][:2] if q else [s for s in mc if s["items"] <= 2]
    rn.mc("StaticThreadPoolLive", cfg="StaticThreadPoolLive.cfg", env={"SCENARIOS": dump(ctx, "pool_live.json", live)})
    rep.note("pool: model-checked %d scenarios (2 workers), liveness on %d" % (len(mc), len(live)))


def part_ntc(rn):
    ctx, rep, q = rn.ctx, rn.ctx.rep, rn.ctx.quick
    scns = gen_ctx("ntc", ctx.tier)
    sp = dump(ctx, "ntc_scenarios.json", scns)
    rn.submit("ntc", scns, "dfs", ["--mode", "dfs", "--scenarios", sp, "--bound", 2 if q else 3, "--cap", 50 if q else 800], len(scns))
    rn.submit("ntc", scns, "random", ["--mode", "random", "--scenarios", sp, "--seed", ctx.seed, "--cap", 20 if q else 150], len(scns))
    ws = wrapped(scns[:5], "any")
    wp = dump(ctx, "ntc_any_scenarios.json", ws)
    rn.submit("ntc+any", ws, "dfs", ["--mode", "dfs", "--scenarios", wp, "--bound", 2, "--cap", 10 if q else 100], len(ws))
    mc = nobody(gen_ctx("ntc", "thorough"))
    ex = [s for s in mc if s["items"] <= 2] if q else mc
    spe = dump(ctx, "ntc_ex.json", ex)
    edges = os.path.join(ctx.work, "ntc_edges.ndjson")
    rn.mc("NewThreadMC", cfg="NewThreadExport.cfg", env={"SCENARIOS": spe, "EDGES": edges}, workers=1)
    behs, nedges, ncover = behaviours_from_edges(ctx, edges, 200 if q else 3000, 100 if q else 1500)
    bp = os.path.join(ctx.work, "ntc_behaviours.ndjson")
    write_lines(bp, behs)
    allp = dump(ctx, "ntc_all_scenarios.json", mc)
    rep.note("ntc: %d scenarios, %d exported, edges %d, edge-covering walks %d, behaviours replayed %d" % (len(scns), len(ex), nedges, ncover, len(behs)))
    rn.submit("ntc", mc, "guided", ["--mode", "guided", "--scenarios", allp, "--behaviours", bp], len(behs))
    spm = dump(ctx, "ntc_mc.json", mc)
    rn.mc("NewThreadMC", env={"SCENARIOS": spm})
    rn.mc("NewThreadLive", cfg="NewThreadLive.cfg", env={"SCENARIOS": spe if q else spm})


def part_stc(rn):
    ctx, q = rn.ctx, rn.ctx.quick
    scns = gen_ctx("stc", ctx.tier)
    sp = dump(ctx, "stc_scenarios.json", scns)
    rn.submit("stc", scns, "dfs", ["--mode", "dfs", "--scenarios", sp, "--bound", 2 if q else 3, "--cap", 50 if q else 800], len(scns))
    rn.submit("stc", scns, "random", ["--mode", "random", "--scenarios", sp, "--seed", ctx.seed, "--cap", 20 if q else 150], len(scns))
    for wrap in ("any", "sub"):
        ws = wrapped(scns[:5], wrap)
        wp = dump(ctx, "stc_%s_scenarios.json" % wrap, ws)
        rn.submit("stc+" + wrap, ws, "dfs", ["--mode", "dfs", "--scenarios", wp, "--bound", 2, "--cap", 10 if q else 100], len(ws))


def build_driver(ctx):
    # seam.hpp / assert_hook.hpp are included by the driver, not listed as sources: make the build cache see their content
    h = hashlib.sha1(open(os.path.join(HERE, "seam.hpp"), "rb").read() + open(os.path.join(HERE, "assert_hook.hpp"), "rb").read()).hexdigest()[:12]
    hook = os.path.join(HERE, "assert_hook.hpp")
    return vlib.build(ctx, "sched_driver", ["engines/sched/driver.cpp"], lib=LIB, extra=["-rdynamic", "-include", hook],
                      libs=("-lpthread", "-ldl"), defs=["SCHED_SEAM_HASH=0x" + h])


def replay(rn):
    """./check C06 --replay <violation file>: re-execute exactly the recorded scenario + schedule."""
    rr = rn.ctx.replay
    scn = rr.get("scenario")
    if not scn:
        raise vlib.Broken("replay file has no scenario")
    sp = dump(rn.ctx, "replay_scn.json", [scn])
    args = ["--mode", "replay", "--scenarios", sp, "--scn", scn["id"], "--sched", json.dumps(rr.get("schedule") or [])]
    rn.submit(scn["ctx"], [scn], "replay", args, 1)
    finish(rn)


def run(ctx):
    rep = ctx.rep
    rep.assume("sequentially consistent interleavings at schedule-point granularity (mutex acquisition / release, try_lock, "
               "cond_wait, thread creation/join, load/CAS/exchange on the atomic queue); weak-memory reorderings not explored")
    rep.assume("condition variables: notify_one wakes any one waiter; spurious wake-ups are explored (nondeterministic action in "
               "ManualEventLoop.tla, controller choice at every cond_wait in DFS/random schedules: <=1 resp. <=2 per execution); "
               "std::try_to_lock fails iff the mutex is held")
    exe = build_driver(ctx)
    rn = Runner(ctx, exe)
    if ctx.replay:
        return replay(rn)
    parts = dict(mel=part_mel, tramp=part_tramp, aq=part_aq, pool=part_pool, ntc=part_ntc, stc=part_stc)
    only = set(filter(None, os.environ.get("SCHED_PARTS", "").split(",")))      # development aid: restrict the parts
    if only:
        parts = {k: v for k, v in parts.items() if k in only}
        rep.note("restricted to parts: " + ",".join(sorted(only)))
    with ThreadPoolExecutor(max_workers=len(parts)) as ex:
        futs = [ex.submit(p, rn) for p in parts.values()]
        errs = []
        for f in futs:
            try:
                f.result()
            except Exception as e:      # let the other parts finish, then report
                errs.append(e)
    if errs:
        rn.pool.shutdown(wait=True)
        raise errs[0]
    finish(rn)
    rep.exhaustive = True
    stats = rn.stats
    if stats.get("sites"):
        rep.note("schedule points exercised: " + json.dumps(stats["sites"], sort_keys=True))
    rep.note("spurious wake-ups injected by the controller: %d" % stats.get("spurious", 0))
    rep.rule("executions = guided replays of TLC behaviours + DFS(preemption-bounded) + seeded random schedules of the real "
             "contexts with all threads controlled; distinct_nontrivial = distinct recorded event sequences")
