// Stream race driver (C13, "all timings of stop/trigger relative to in-flight next() operations"): the lock-free
// hand-offs of stop_immediately (state_), take_until (cleanupReady_ / cleanupCompleted_) and type_erase (refCount_)
// with the source's next()/cleanup() completed from one controlled thread, the trigger's from another, the stop request
// issued by a third and the consumer (reduce_stream, or a manual driver that calls next() and then cleanup()) on its own
// thread.  Every interleaving at schedule-point granularity (stream.* sites in the three headers, stop.* sites in
// inplace_stop_source, spin_wait) is explored by bounded-preemption DFS / seeded random schedules; the event log of
// every execution is validated by TLC against StreamMon; reduce's receiver destroys the operation inside its completion
// signal; ASan/UBSan.
#include "stream_rt.hpp"

#include <nlohmann/json.hpp>

#include <fstream>
#include <sched.h>

using namespace st;
using json = nlohmann::json;

// ---- the pipelines (node ids as in the pipe records written by engine.py)
static auto mk_si(World& w) { return unifex::stop_immediately<int>(Src{&w, 2}); }
static auto mk_tu(World& w) { return unifex::take_until(Src{&w, 2}, Src{&w, 3}); }
static auto mk_te(World& w) { return unifex::type_erase<int>(Src{&w, 2}); }
static auto mk_si_tu(World& w) { return unifex::stop_immediately<int>(unifex::take_until(Src{&w, 3}, Src{&w, 4})); }
static auto mk_tu_si(World& w) { return unifex::take_until(unifex::stop_immediately<int>(Src{&w, 3}), Src{&w, 4}); }
static auto mk_te_tu(World& w) { return unifex::type_erase<int>(unifex::take_until(Src{&w, 3}, Src{&w, 4})); }

template <class F> static Handle* mkh(F f, int cons, World& w) {
  if (cons == 0) return new ReduceH<F>(f, w);
  if (cons == 1) return new ForEachH<F>(f, w);
  return new ManualH<F>(f, w);
}
static Handle* make(const std::string& kind, int cons, World& w) {
  if (kind == "si") return mkh(&mk_si, cons, w);
  if (kind == "tu") return mkh(&mk_tu, cons, w);
  if (kind == "te") return mkh(&mk_te, cons, w);
  if (kind == "si_tu") return mkh(&mk_si_tu, cons, w);
  if (kind == "tu_si") return mkh(&mk_tu_si, cons, w);
  if (kind == "te_tu") return mkh(&mk_te_tu, cons, w);
  return nullptr;
}

static void configure(World& w, const json& sc) {
  for (auto it = sc["src"].begin(); it != sc["src"].end(); ++it) {
    const json& m = it.value();
    SrcCtl c; c.id = std::stoi(it.key());
    c.len = m["len"].get<int>(); c.end = m["end"].get<std::string>()[0];
    for (auto& b : m["inl"]) c.inl.push_back(b.get<int>());
    c.onStopDone = m["onStop"].get<std::string>() == "done";
    std::string cl = m["cl"].get<std::string>();
    c.cl = cl == "id" ? 0 : cl == "dd" ? 1 : cl == "ie" ? 2 : 3;
    w.src[c.id] = c;
  }
}
static int pending(World& w) {
  int p = 0;
  for (auto& [id, c] : w.src) p += (c.nextPending ? 1 : 0) + (c.cleanupPending ? 1 : 0);
  return p;
}
static size_t count_res(World& w, char kind) { size_t n = 0; for (auto& r : w.res) if (r.kind == kind) ++n; return n; }

int main(int argc, char** argv) {
  vrt::Args a(argc, argv);
  vrt::install_handlers();
  json scns;
  { std::ifstream f(a.str("scenarios")); f >> scns; }
  if (a.has("log")) vrt::log_open(a.str("log").c_str());
  std::string mode = a.str("mode", "dfs");
  long from = a.num("from", 0), to = a.num("to", 1L << 40), cap = a.num("cap", 100); int bound = (int)a.num("bound", 2);
  unsigned seed = (unsigned)a.num("seed", 1);
  long stopSites = a.num("stopsites", 1);     // 0: around callback execution / deregistration only, 1: all, 2: none (guided replay)
  bool allStopSites = stopSites == 1;
  long kbase = a.num("kbase", 0);
  {   // only one controlled thread runs at a time: keep the whole process on one CPU (a hand-off within a core is much cheaper)
    long ncpu = sysconf(_SC_NPROCESSORS_ONLN); cpu_set_t cs; CPU_ZERO(&cs);
    if (ncpu > 0 && sched_getaffinity(0, sizeof cs, &cs) == 0) {
      std::vector<int> allowed; for (int i = 0; i < CPU_SETSIZE; ++i) if (CPU_ISSET(i, &cs)) allowed.push_back(i);
      if (!allowed.empty()) { cpu_set_t one; CPU_ZERO(&one); CPU_SET(allowed[(size_t)getpid() % allowed.size()], &one); sched_setaffinity(0, sizeof one, &one); }
    }
  }
  long execs = 0, steps = 0, lost = 0;
  std::set<std::string> distinct;

  auto runOne = [&](const json& sc, long x, long k, const std::function<vrt::RunResult(vrt::Ctl&)>& drive) {
    long unit = x * 100000 + kbase + k;    // execution id: scenario * 100000 + (50000 for random schedules) + schedule number
    vrt::ev("{\"e\":\"Reset\",\"x\":%ld,\"scn\":%ld,\"k\":%ld,\"pipe\":%s}", unit, x, k, sc["pipe"].dump().c_str());
    vrt::log_flush();
    std::fprintf(stderr, "@@X %ld\n", unit);
    Track::reset();
    int cons = sc["pipe"]["cons"].get<int>();
    bool finalSeen = false; int pend = 0;
    vrt::RunResult rr;
    {
      World w; g_w = &w;
      configure(w, sc);
      Handle* h = make(sc["kind"].get<std::string>(), cons, w);
      if (cons != 2) w.destroyOp = [&h] { Handle* p = h; h = nullptr; vrt::ev("{\"e\":\"OpDestroy\"}"); delete p; };
      auto finished = [&] { return count_res(w, cons == 2 ? 'c' : 'r') > 0; };
      int drvNexts = sc.value("drvNexts", 1);
      {
        vrt::Ctl c;
        c.hang_secs = 180;      // a sanitizer report symbolised on a loaded machine must not be cut short by the hang detector
        // quick tier: of inplace_stop_source's own schedule points only those around the execution / deregistration of a callback
        // (its internal interleavings are the subject of C03); thorough: all of them
        if (allStopSites) c.accept = {"stream.", "stop.", "spin_wait"};
        else if (stopSites == 2) c.accept = {"stream.", "spin_wait"};
        else c.accept = {"stream.", "stop.q2", "stop.q3", "stop.d12", "spin_wait"};
        // thread 1: the consumer
        c.spawn(1, [&] {
          UNIFEX_VERIF_YIELD("stream.h.op");
          if (cons != 2) { vrt::ev("{\"e\":\"Start\"}"); h->start(); return; }
          size_t issued = 0; char last = 'v';
          for (int i = 0; i < drvNexts && last == 'v'; ++i) {
            ++issued; h->drvNext();
            UNIFEX_VERIF_YIELD("stream.h.op");      // (a step that leaves a library spin must not end in a harness spin: the controller would not count it as progress)
            while (count_res(w, 'n') < issued) ::unifex_verif::call_hook("stream.h.wait", 1);
            for (auto& r : w.res) if (r.kind == 'n') last = r.ch;
            UNIFEX_VERIF_YIELD("stream.h.op");
          }
          h->drvCleanup();
          UNIFEX_VERIF_YIELD("stream.h.op");
          while (!finished()) ::unifex_verif::call_hook("stream.h.wait", 1);
        });
        // threads 2..: one completer per harness source (its next() and, if deferred, its cleanup())
        int tid = 2;
        for (auto& [sid, ctl] : w.src) {
          SrcCtl* sc2 = &ctl;
          c.spawn(tid++, [&, sc2] {
            while (true) {
              while (!sc2->completeNext && !sc2->completeCleanup && !finished()) ::unifex_verif::call_hook("stream.h.wait", 1);
              if (!sc2->completeNext && !sc2->completeCleanup) break;
              UNIFEX_VERIF_YIELD("stream.h.op");
              if (sc2->completeNext) { auto f = sc2->completeNext; f(); }
              else if (sc2->completeCleanup) { auto f = sc2->completeCleanup; f(); }
              UNIFEX_VERIF_YIELD("stream.h.op");
            }
          });
        }
        if (sc.value("stopper", false))
          c.spawn(tid++, [&] { UNIFEX_VERIF_YIELD("stream.h.op"); vrt::ev("{\"e\":\"Stop\"}"); w.stop.request_stop(); });
        c.start_all();
        rr = drive(c);
        if (rr.deadlock) {
          std::string s = vrt::sched_json(rr);
          vrt::ev("{\"e\":\"Deadlock\",\"sched\":%s}", s.c_str());
          vrt::log_flush();
          std::fprintf(stderr, "deadlock (lost completion) in scenario %ld schedule %s\n", x, s.c_str());
          _exit(75);
        }
        c.join();
      }
      // drain on the main thread (no controller): whatever a source still has outstanding
      vrt::ev("{\"e\":\"Drain\"}");
      for (int round = 0; round < 16; ++round) {
        bool any = false;
        for (auto& [id, cc] : w.src) {
          if (cc.completeNext) { any = true; auto f = cc.completeNext; f(); }
          if (cc.completeCleanup) { any = true; auto f = cc.completeCleanup; f(); }
        }
        if (!any) break;
      }
      pend = pending(w);
      vrt::ev("{\"e\":\"Quiescent\",\"pending\":%d}", pend);
      finalSeen = finished();
      if (h) { w.destroyOp = nullptr; vrt::ev("{\"e\":\"OpDestroy\"}"); delete h; h = nullptr; }
      g_w = nullptr;
    }
    vrt::ev("{\"e\":\"End\",\"live\":%zu,\"bad\":%zu,\"pending\":%d}", Track::live.size(), Track::bad.size(), pend);
    if (!finalSeen) ++lost;
    ++execs; steps += (long)rr.steps.size();
    distinct.insert(std::to_string(x) + vrt::sched_json(rr));
  };

  // guided replay of a behaviour of a race model: entries [thread, site(, "arrive" | "maybe")].  The thread is first advanced through
  // harness-only sites (stream.h.*) until it is parked at `site`, then stepped once ("arrive": not stepped; "maybe": skipped if not there).
  // A thread that is not where the model says is drift (counted, never an oracle); the rest of the execution is driven to completion.
  FILE* gout = a.has("gout") ? std::fopen(a.str("gout").c_str(), "a") : nullptr;
  auto guided = [&](const json& sc, long unit) {
    return [&, unit](vrt::Ctl& c) {
      vrt::RunResult r; long entries = 0;
      for (auto& e : sc["sched"]) {
        ++entries;
        int t = e[0].get<int>(); std::string site = e[1].get<std::string>(); std::string how = e.size() > 2 ? e[2].get<std::string>() : "";
        for (int guard = 0; guard < 8 && std::string(c.site(t)) != site; ++guard) {
          std::string cur = c.site(t);
          if (cur.rfind("stream.h.", 0) == 0 && c.enabled(t)) { r.steps.push_back({t, cur}); c.step(t); } else break;
        }
        if (std::string(c.site(t)) != site) {
          if (how != "maybe") { if (!r.drift) r.firstDrift = "entry " + std::to_string(entries) + ": thread " + std::to_string(t) + " at '" + c.site(t) + "' expected '" + site + "'"; ++r.drift; }
          continue;
        }
        if (how == "arrive") continue;
        if (!c.enabled(t)) { if (!r.drift) r.firstDrift = "entry " + std::to_string(entries) + ": thread " + std::to_string(t) + " not enabled at '" + site + "'"; ++r.drift; continue; }
        r.steps.push_back({t, site}); c.step(t);
      }
      auto rest = vrt::run_all(c, [&](const std::vector<int>& en, int) { return en[0]; });
      for (auto& st : rest.steps) r.steps.push_back(st);
      r.unguided = (long)rest.steps.size(); r.deadlock = rest.deadlock;
      if (gout) { json g = {{"x", unit}, {"drift", r.drift}, {"first", r.firstDrift}, {"entries", entries}, {"rest", r.unguided}}; std::fprintf(gout, "%s\n", g.dump().c_str()); std::fflush(gout); }
      return r;
    };
  };
  for (long x = from; x < to && x < (long)scns.size(); ++x) {
    const json& sc = scns[x];
    if (mode == "guided") {
      runOne(sc, x, 0, guided(sc, x * 100000 + kbase));
    } else if (mode == "dfs") {
      vrt::Dfs d; d.bound = bound; long k = 0;
      long capx = cap * sc.value("capx", 1);
      do { runOne(sc, x, k, [&](vrt::Ctl& c) { return vrt::run_dfs(c, d); }); ++k; } while (d.advance() && k < capx);
    } else {
      std::mt19937 rng(seed * 7919u + (unsigned)x);
      long capx = cap * sc.value("capx", 1);
      for (long k = 0; k < capx; ++k) runOne(sc, x, k, [&](vrt::Ctl& c) { return vrt::run_random(c, rng, 35); });
    }
  }
  vrt::log_close();
  json s = {{"mode", mode}, {"execs", execs}, {"steps", steps}, {"lost", lost}, {"distinct_schedules", (long)distinct.size()}};
  std::printf("%s\n", s.dump().c_str());
  return 0;
}
