// take_until: a stop request whose callbacks complete the whole pipeline inline destroys the stream (and its
// stopSource_) while stopSource_.request_stop() is still iterating its callback list.
#include <unifex/take_until.hpp>
#include <unifex/never.hpp>
#include <unifex/reduce_stream.hpp>
#include <unifex/inplace_stop_token.hpp>
#include <cstdio>
#include <functional>
using namespace unifex;
static inplace_stop_source g_stop;
static std::function<void()> g_destroy;
struct Recv {
  void set_value(int v) && noexcept { std::printf("result %d; destroying the operation inside the completion signal\n", v); g_destroy(); }
  template <class E> void set_error(E&&) && noexcept { g_destroy(); }
  void set_done() && noexcept { g_destroy(); }
  friend inplace_stop_token tag_invoke(tag_t<get_stop_token>, const Recv&) noexcept { return g_stop.get_token(); }
};
int main() {
  auto snd = reduce_stream(take_until(never_stream{}, never_stream{}), 0, [](int s) { return s; });
  using Op = decltype(connect(std::move(snd), Recv{}));
  struct Box { Op op; Box(decltype(snd)&& s) : op(connect(std::move(s), Recv{})) {} };
  auto* b = new Box(std::move(snd));
  g_destroy = [b] { delete b; };
  start(b->op);
  g_stop.request_stop();
  std::printf("returned from request_stop\n");
}
