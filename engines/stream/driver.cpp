// Stream driver (C13): replays TLC behaviours of spec/stream/Streams.tla on the real stream adaptors (generated
// pipeline factories, one per catalogue shape) and writes what it observed after every external step.
#include "stream_rt.hpp"

#include <nlohmann/json.hpp>

#include <fstream>

using namespace st;
using json = nlohmann::json;

static json obs_json(World& w) {
  json elems = json::array();
  for (auto& e : w.elems) elems.push_back({{"x", e.x}, {"ctx", {std::string(1, e.ctxk), e.ctxn}}});
  json sev = json::array();
  for (auto& e : w.srcev) sev.push_back({e.s, e.ev, e.a});
  json fn = json::array();
  for (auto& f : w.fn) fn.push_back({f.q, f.x});
  json res = json::array();
  for (auto& r : w.res) res.push_back({std::string(1, r.kind), std::string(1, r.ch), r.v});
  return {{"elems", elems}, {"sev", sev}, {"fn", fn}, {"res", res}};
}

static void configure(World& w, const json& beh) {
  g_w = &w;
  const json& cfg = beh["cfg"];
  for (auto it = cfg["src"].begin(); it != cfg["src"].end(); ++it) {
    const json& m = it.value();
    SrcCtl c; c.id = std::stoi(it.key());
    c.len = m["len"].get<int>(); c.end = m["end"].get<std::string>()[0];
    for (auto& b : m["inl"]) c.inl.push_back(b.get<int>());
    c.onStopDone = m["onStop"].get<std::string>() == "done";
    std::string cl = m["cl"].get<std::string>();
    c.cl = cl == "id" ? 0 : cl == "dd" ? 1 : cl == "ie" ? 2 : 3;
    w.src[c.id] = c;
  }
  if (cfg.contains("pred"))
    for (auto it = cfg["pred"].begin(); it != cfg["pred"].end(); ++it)
      for (auto& b : it.value()) w.pred[std::stoi(it.key())].push_back(b.get<int>());
}

static int pending(World& w) {
  int p = 0;
  for (auto& [id, c] : w.src) p += (c.nextPending ? 1 : 0) + (c.cleanupPending ? 1 : 0);
  for (auto& [c, q] : w.ctxq) p += (int)q.size();
  return p;
}

static json run_behaviour(Factory make, const json& beh, World& w, int cons) {
  configure(w, beh);
  json out = json::array();
  Handle* h = make(w);
  w.destroyOp = nullptr;
  bool destroyed = false;
  if (cons != 2) w.destroyOp = [&h, &destroyed] { Handle* p = h; h = nullptr; destroyed = true; vrt::ev("{\"e\":\"OpDestroy\"}"); delete p; };
  bool drvNextOutstanding = false;
  for (auto& st : beh["steps"]) {
    std::string k = st["k"].get<std::string>(); int n = st["n"].get<int>();
    w.curk = k[0]; w.curn = n;
    if (k == "S") { vrt::ev("{\"e\":\"Start\"}"); if (h) h->start(); }
    else if (k == "X") { vrt::ev("{\"e\":\"Stop\"}"); w.stop.request_stop(); }
    else if (k == "N") {
      auto& c = w.src[n];
      if (!c.completeNext) { out.push_back({{"error", "source next not pending"}, {"s", n}}); break; }
      auto f = c.completeNext; f();
    } else if (k == "K") {
      auto& c = w.src[n];
      if (!c.completeCleanup) { out.push_back({{"error", "source cleanup not pending"}, {"s", n}}); break; }
      auto f = c.completeCleanup; f();
    } else if (k == "C") {
      auto& q = w.ctxq[n];
      if (q.empty()) { out.push_back({{"error", "context queue empty"}, {"ctx", n}}); break; }
      auto it = std::move(q.front()); q.pop_front(); it();
    } else if (k == "A") {          // manual driver: next()
      if (!h || !h->drvNext()) { out.push_back({{"error", "no manual driver"}}); break; }
    } else if (k == "Z") {          // manual driver: cleanup()
      if (!h || !h->drvCleanup()) { out.push_back({{"error", "no manual driver"}}); break; }
    }
    vrt::ev("{\"e\":\"Quiescent\",\"pending\":%d}", pending(w));
    out.push_back(obs_json(w));
  }
  (void)drvNextOutstanding;
  // drain: finish whatever is still outstanding so that everything can be destroyed legally
  vrt::ev("{\"e\":\"Drain\"}");
  for (int round = 0; round < 64; ++round) {
    bool any = false;
    for (auto& [id, c] : w.src) {
      if (c.completeNext) { any = true; w.curk = 'N'; w.curn = id; auto f = c.completeNext; f(); }
      if (c.completeCleanup) { any = true; w.curk = 'K'; w.curn = id; auto f = c.completeCleanup; f(); }
    }
    for (auto& [c, q] : w.ctxq) while (!q.empty()) { any = true; w.curk = 'C'; w.curn = c; auto it = std::move(q.front()); q.pop_front(); it(); }
    if (!any) break;
  }
  if (h) { w.destroyOp = nullptr; vrt::ev("{\"e\":\"OpDestroy\"}"); delete h; h = nullptr; }
  g_w = nullptr;
  return out;
}

int main(int argc, char** argv) {
  vrt::Args a(argc, argv);
  vrt::install_handlers();
  if (a.has("log")) vrt::log_open(a.str("log").c_str());
  std::ifstream in(a.str("behaviours"));
  FILE* out = std::fopen(a.str("out").c_str(), "a");
  long from = a.num("from", 0), to = a.num("to", 1L << 40), x = -1, ran = 0, skipped = 0;
  std::string line;
  while (std::getline(in, line)) {
    if (line.empty()) continue;
    ++x; if (x < from || x >= to) continue;
    json beh = json::parse(line);
    int shape = beh["cfg"]["shape"].get<int>();
    auto it = Registry::map().find(shape);
    if (it == Registry::map().end()) { ++skipped; continue; }
    // header of the execution: the pipeline definition (for the monitor's denotational rules)
    vrt::ev("{\"e\":\"Reset\",\"x\":%ld,\"shape\":%d,\"pipe\":%s}", x, shape, beh["pipe"].dump().c_str());
    vrt::log_flush();                      // a sanitizer death must find the Reset of its execution in the file
    std::fprintf(stderr, "@@X %ld\n", x);
    Track::reset();
    {
      World w;
      json obs = run_behaviour(it->second, beh, w, beh["pipe"]["cons"].get<int>());
      size_t live = Track::live.size(); std::vector<std::string> bad = Track::bad;
      vrt::ev("{\"e\":\"End\",\"live\":%zu,\"bad\":%zu,\"pending\":%d}", live, bad.size(), pending(w));
      json rec = {{"x", x}, {"b", beh.value("b", x)}, {"obs", obs}, {"live", live}, {"bad", bad}, {"final", obs_json(w)}};
      std::fprintf(out, "%s\n", rec.dump().c_str());
    }
    ++ran;
    if ((ran & 255) == 0) std::fflush(out);
  }
  std::fclose(out);
  vrt::log_close();
  json s = {{"ran", ran}, {"skipped", skipped}};
  std::printf("%s\n", s.dump().c_str());
  return 0;
}
