#!/usr/bin/env python3
"""Self-test of the stream engine: applies each mutant of selftest.json to a scratch copy of the library tree
(VERIF_SELFTEST_TREE, default /var/tmp/stream_mut = copy of include/ + source/ under git), runs
./check C13 --tier quick --engine stream against it and compares the exit code with the expectation.
The patches are relative to the tree WITH engines/stream/hooks.patch applied (the race mutants need the stream.* schedule points):
if the base tree (VERIF_REPO, default /repo) does not contain them yet, hooks.patch is applied to the private copy first.
Each entry's "env" restricts the run (VERIF_STREAM_PART = seq | race, VERIF_STREAM_ONLY = adaptor kinds) to keep it short."""
import json, os, subprocess, sys, time
HERE = os.path.dirname(os.path.abspath(__file__))
VERIF = os.path.dirname(os.path.dirname(HERE))
TREE = os.environ.get("VERIF_SELFTEST_TREE", "/var/tmp/stream_mut")
if not os.path.isdir(os.path.join(TREE, ".git")):
    # never mutate the tree a running check builds from: work on a private copy of include/ + source/
    base = os.environ.get("VERIF_REPO", "/repo")
    os.makedirs(TREE, exist_ok=True)
    subprocess.run(["cp", "-r", os.path.join(base, "include"), os.path.join(base, "source"), TREE], check=True)
    if "stream.si.hs_load" not in open(os.path.join(TREE, "include", "unifex", "stop_immediately.hpp")).read():
        subprocess.run(["patch", "-p1", "-s", "-i", os.path.join(HERE, "hooks.patch")], cwd=TREE, check=True)
    subprocess.run("git init -q . && git add -A >/dev/null && git -c user.email=selftest@verif -c user.name=selftest commit -qm base >/dev/null", shell=True, cwd=TREE, check=True)
tests = json.load(open(os.path.join(HERE, "selftest.json")))
only = set(sys.argv[1:])
res = []
for t in tests:
    if only and t["name"] not in only:
        continue
    subprocess.run(["git", "-C", TREE, "checkout", "-q", "--", "."], check=True)
    p = subprocess.run(["git", "-C", TREE, "apply", "-"], input=t["patch"], text=True)
    if p.returncode != 0:
        res.append(dict(name=t["name"], result="patch-failed"))
        continue
    env = dict(os.environ, VERIF_REPO=TREE, VERIF_KNOWN_EXTRA=os.path.join(HERE, "proposed_findings.json"), VERIF_JOBS=os.environ.get("VERIF_JOBS", "4"))
    env.update(t.get("env", {}))
    t0 = time.time()
    p = subprocess.run([os.path.join(VERIF, "check"), "C13", "--tier", "quick", "--engine", "stream"], env=env, stdout=subprocess.PIPE, stderr=subprocess.STDOUT, text=True, cwd=VERIF)
    got = {0: "clean", 1: "violation"}.get(p.returncode, "broken(%d)" % p.returncode)
    first = next((l for l in p.stdout.splitlines() if l.startswith("  ")), "")
    oracles = {}
    try:
        import collections
        known = json.load(open(os.path.join(HERE, "proposed_findings.json")))
        sys.path.insert(0, os.path.join(VERIF, "tools"))
        import vlib
        last = json.load(open(os.path.join(VERIF, "_out", "last_C13.json")))
        oracles = dict(collections.Counter(v["event"] for v in last["violations"] if not vlib.known_match(v, known)))
    except Exception as ex:
        oracles = {"?": str(ex)}
    res.append(dict(name=t["name"], expect=t["expect"], got=got, ok=got == t["expect"], secs=round(time.time() - t0), oracles=oracles, first=first.strip()[:260]))
    print(json.dumps(res[-1]), flush=True)
    subprocess.run(["git", "-C", TREE, "checkout", "-q", "--", "."], check=True)
json.dump(res, open(os.environ.get("VERIF_SELFTEST_OUT", os.path.join(HERE, "selftest_result.json")), "w"), indent=1)
sys.exit(0 if all(r.get("ok") for r in res) else 1)
