// take_until cleanup: trigger_receiver::set_done destroys sourceOp_ instead of triggerOp_.
// Prints construction / destruction counts of the two child cleanup operation states.
//   g++ -std=c++17 -I$REPO/include $REPO/source/{inplace_stop_token,async_stack,exception}.cpp repro_take_until_cleanup.cpp -lpthread
#include <unifex/take_until.hpp>
#include <unifex/range_stream.hpp>
#include <unifex/never.hpp>
#include <unifex/for_each.hpp>
#include <unifex/sync_wait.hpp>
#include <unifex/stream_concepts.hpp>
#include <cstdio>
using namespace unifex;
static int g_ctor[2] = {0, 0}, g_dtor[2] = {0, 0};
template <int Tag> struct TrackedCleanup {   // a cleanup sender whose operation state is a tracked object
  template <template <class...> class V, template <class...> class T> using value_types = V<>;
  template <template <class...> class V> using error_types = V<std::exception_ptr>;
  static constexpr bool sends_done = true;
  template <class R> struct Op { R r; Op(R&& r) : r((R&&)r) { ++g_ctor[Tag]; } Op(Op&&) = delete; ~Op() { ++g_dtor[Tag]; }
    void start() noexcept { unifex::set_done(std::move(r)); } };
  template <class R> Op<remove_cvref_t<R>> connect(R&& r) const { return Op<remove_cvref_t<R>>{(R&&)r}; }
};
template <int Tag, class Inner> struct Wrap {   // stream adaptor replacing cleanup() by the tracked one
  Inner inner;
  friend auto tag_invoke(tag_t<next>, Wrap& s) { return next(s.inner); }
  friend auto tag_invoke(tag_t<cleanup>, Wrap&) { return TrackedCleanup<Tag>{}; }
};
int main() {
  auto src = Wrap<0, range_stream>{range_stream{0, 3}};
  auto trig = Wrap<1, never_stream>{never_stream{}};
  int n = 0;
  sync_wait(for_each(take_until(std::move(src), std::move(trig)), [&](int) { ++n; }));
  std::printf("elements=%d  source-cleanup-op ctor=%d dtor=%d   trigger-cleanup-op ctor=%d dtor=%d\n", n, g_ctor[0], g_dtor[0], g_ctor[1], g_dtor[1]);
  return !(g_dtor[0] == 1 && g_dtor[1] == 1);
}
