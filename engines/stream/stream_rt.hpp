// Harness runtime of the stream engine (C13): scripted source streams whose next()/cleanup() operation states are
// address-tracked objects, tracked callables (transform / predicate / reducer / adaptor functions), a manual scheduler
// context (also a time scheduler for delay), the recording consumer receiver, and a manual next()/cleanup() driver.
#pragma once
#include "vrt.hpp"

#include <unifex/adapt_stream.hpp>
#include <unifex/cleanup_adapt_stream.hpp>
#include <unifex/delay.hpp>
#include <unifex/filter_stream.hpp>
#include <unifex/for_each.hpp>
#include <unifex/get_stop_token.hpp>
#include <unifex/inplace_stop_token.hpp>
#include <unifex/just.hpp>
#include <unifex/manual_lifetime.hpp>
#include <unifex/never.hpp>
#include <unifex/next_adapt_stream.hpp>
#include <unifex/on_stream.hpp>
#include <unifex/range_stream.hpp>
#include <unifex/receiver_concepts.hpp>
#include <unifex/reduce_stream.hpp>
#include <unifex/scheduler_concepts.hpp>
#include <unifex/sender_concepts.hpp>
#include <unifex/single.hpp>
#include <unifex/stop_immediately.hpp>
#include <unifex/stream_concepts.hpp>
#include <unifex/take_until.hpp>
#include <unifex/transform_stream.hpp>
#include <unifex/type_erased_stream.hpp>
#include <unifex/typed_via_stream.hpp>
#include <unifex/via_stream.hpp>

#include <chrono>
#include <deque>
#include <set>
#include <unordered_set>

namespace st {
struct Tagged { int code; };      // the only exception type the harness throws
inline int err_code(const std::exception_ptr& e) {
  if (!e) return -997;      // an error completion that carries no exception (e.g. a dangling reference to a destroyed exception_ptr)
  try { std::rethrow_exception(e); } catch (Tagged& t) { return t.code; } catch (...) { return -999; }
}
inline std::exception_ptr mkerr(int code) { return std::make_exception_ptr(Tagged{code}); }

struct World;
inline World* g_w = nullptr;

// ---------------------------------------------------------------- object tracking (operation-state lifetimes)
struct Track {
  static inline std::unordered_set<const void*> live;
  static inline std::vector<std::string> bad;
  static void born(const void* p, const char* what) {
    if (!live.insert(p).second) bad.push_back(std::string("constructed-over-live ") + what);
  }
  static bool died(const void* p, const char* what) {     // false: the object was not alive (destroyed twice)
    if (live.erase(p) == 0) { bad.push_back(std::string("destroyed-twice ") + what); return false; }
    return true;
  }
  static void reset() { live.clear(); bad.clear(); }
};

struct SrcCtl {
  int id = 0, len = 0; char end = 'd'; std::vector<int> inl; bool onStopDone = false;
  int cl = 0;                              // cleanup: 0 inline done, 1 deferred done, 2 inline error, 3 deferred error
  int pos = 0, calls = 0;
  bool nextPending = false, cleanupPending = false;
  std::function<void()> completeNext, completeCleanup;
};
struct ElemRec { int x; char ctxk; int ctxn; };
struct SrcEv { int s; std::string ev; int a; };
struct FnRec { int q; int x; };
struct ResRec { char kind; char ch; int v; };      // kind: 'r' consumer result, 'n' driver next(), 'c' driver cleanup()

struct World {
  std::map<int, SrcCtl> src;
  std::map<int, std::vector<int>> pred;          // filter node -> scripted answers (call order), default keep
  std::map<int, int> predCalls;
  std::vector<ElemRec> elems; std::vector<SrcEv> srcev; std::vector<FnRec> fn; std::vector<ResRec> res;
  std::map<int, std::deque<std::function<void()>>> ctxq;
  char curk = '-'; int curn = 0;
  unifex::inplace_stop_source stop;
  std::function<void()> destroyOp;
  long opSeq = 0;
  void sev(int s, const char* e, int a = 0) { srcev.push_back({s, e, a}); }
};

// ---------------------------------------------------------------- manual scheduler context (stop-oblivious; also a time scheduler)
struct CtxSched {
  World* w; int ctx;
  template <class R> struct Op {
    World* w; int ctx; R r;
    template <class R2> Op(World* w, int ctx, R2&& r) : w(w), ctx(ctx), r((R2&&)r) { Track::born(this, "SchedOp"); }
    Op(Op&&) = delete;
    ~Op() { Track::died(this, "SchedOp"); }
    void start() noexcept {
      vrt::ev("{\"e\":\"SchedStart\",\"ctx\":%d}", ctx);
      w->ctxq[ctx].push_back([this] { unifex::set_value(std::move(r)); });
    }
  };
  struct Sender {
    World* w; int ctx;
    template <template <class...> class V, template <class...> class T> using value_types = V<T<>>;
    template <template <class...> class V> using error_types = V<std::exception_ptr>;
    static constexpr bool sends_done = true;
    static constexpr unifex::blocking_kind blocking = unifex::blocking_kind::never;
    static constexpr bool is_always_scheduler_affine = false;
    template <class R> Op<unifex::remove_cvref_t<R>> connect(R&& r) const { return Op<unifex::remove_cvref_t<R>>{w, ctx, (R&&)r}; }
  };
  Sender schedule() const noexcept { return Sender{w, ctx}; }
  template <class D> Sender schedule_after(D) const noexcept { return Sender{w, ctx}; }
  std::chrono::steady_clock::time_point now() const noexcept { return {}; }
  friend bool operator==(const CtxSched& a, const CtxSched& b) noexcept { return a.ctx == b.ctx; }
  friend bool operator!=(const CtxSched& a, const CtxSched& b) noexcept { return a.ctx != b.ctx; }
};

// ---------------------------------------------------------------- scripted source stream
// element i (1-based) of source s is the integer 100*s+i; the terminal outcome is done or error(9000+s).
template <class R> struct SrcNextOp {
  World* w; SrcCtl* c; R r; int* canary; long seq;
  using ST = unifex::stop_token_type_t<R&>;
  struct Cb { SrcNextOp* op; void operator()() noexcept { op->on_stop(); } };
  unifex::manual_lifetime<typename ST::template callback_type<Cb>> cb;
  bool cbLive = false, constructing = false, pendingStop = false, running = false;
  template <class R2> SrcNextOp(World* w, SrcCtl* c, R2&& r) : w(w), c(c), r((R2&&)r), canary(new int(0)), seq(++w->opSeq) {
    Track::born(this, "SrcNextOp");
    vrt::ev("{\"e\":\"OpCtor\",\"s\":%d,\"k\":\"n\",\"op\":%ld}", c->id, seq);
  }
  SrcNextOp(SrcNextOp&&) = delete;
  ~SrcNextOp() {
    bool was = Track::died(this, "SrcNextOp");
    vrt::ev("{\"e\":\"OpDtor\",\"s\":%d,\"k\":\"n\",\"op\":%ld,\"live\":%d,\"running\":%d}", c->id, seq, was ? 1 : 0, running ? 1 : 0);
    if (was) delete canary;              // a second destruction is reported through the log, not through a double free
  }
  bool touch(const char* what) noexcept {
    if (Track::live.count(this)) { *canary += 1; return true; }
    vrt::ev("{\"e\":\"TouchDead\",\"s\":%d,\"k\":\"n\",\"op\":%ld,\"what\":\"%s\"}", c->id, seq, what);
    return false;
  }
  void start() noexcept {
    touch("start");                      // start() on a destroyed operation state is reported through the log
    bool stopped = false;
    if constexpr (!unifex::is_stop_never_possible_v<ST>) stopped = unifex::get_stop_token(r).stop_requested();
    int call = ++c->calls; running = true; c->nextPending = true;
    w->sev(c->id, "ns", stopped ? 1 : 0);
    vrt::ev("{\"e\":\"NextStart\",\"s\":%d,\"op\":%ld,\"stopped\":%d}", c->id, seq, stopped ? 1 : 0);
    bool inl = call <= (int)c->inl.size() ? c->inl[call - 1] != 0 : true;
    if (inl) { finish(false); return; }
    c->completeNext = [this] { finish(false); };
    if constexpr (!unifex::is_stop_never_possible_v<ST>) {
      SrcCtl* cc = c; int myCall = call;
      constructing = true;
      cb.construct(unifex::get_stop_token(r), Cb{this});
      cbLive = true; constructing = false;
      if (pendingStop) { pendingStop = false; on_stop(); }
      (void)cc; (void)myCall;
    }
  }
  void on_stop() noexcept {
    if (constructing) { pendingStop = true; return; }
    w->sev(c->id, "stop");
    vrt::ev("{\"e\":\"SrcStopSeen\",\"s\":%d}", c->id);
    if (c->onStopDone && running) finish(true);
  }
  void finish(bool fromStop) noexcept {
    bool alive = touch("complete");      // completion of a destroyed operation state is reported, then delivered anyway
    running = false; c->completeNext = nullptr; c->nextPending = false; (void)alive;
    if (cbLive) { cbLive = false; cb.destruct(); }
    char ch; int x = 0;
    if (fromStop) ch = 'd';
    else if (c->pos < c->len) { ch = 'v'; x = 100 * c->id + (++c->pos); }
    else { ch = c->end; if (ch == 'e') x = 9000 + c->id; }
    World* ww = w; int id = c->id;
    ww->sev(id, ch == 'v' ? "nv" : ch == 'e' ? "ne" : "nd", x);
    vrt::ev("{\"e\":\"NextDone\",\"s\":%d,\"op\":%ld,\"ch\":\"%c\",\"x\":%d}", id, seq, ch, x);
    R rr = std::move(r);                 // the receiver may destroy this operation state
    if (ch == 'v') unifex::set_value(std::move(rr), (int)x);
    else if (ch == 'e') unifex::set_error(std::move(rr), mkerr(x));
    else unifex::set_done(std::move(rr));
  }
};
struct SrcNextSender {
  World* w; int id;
  template <template <class...> class V, template <class...> class T> using value_types = V<T<int>>;
  template <template <class...> class V> using error_types = V<std::exception_ptr>;
  static constexpr bool sends_done = true;
  static constexpr unifex::blocking_kind blocking = unifex::blocking_kind::maybe;
  static constexpr bool is_always_scheduler_affine = false;
  template <class R> SrcNextOp<unifex::remove_cvref_t<R>> connect(R&& r) const { return SrcNextOp<unifex::remove_cvref_t<R>>{w, &w->src[id], (R&&)r}; }
};
template <class R> struct SrcCleanupOp {
  World* w; SrcCtl* c; R r; int* canary; long seq; bool running = false;
  template <class R2> SrcCleanupOp(World* w, SrcCtl* c, R2&& r) : w(w), c(c), r((R2&&)r), canary(new int(0)), seq(++w->opSeq) {
    Track::born(this, "SrcCleanupOp");
    vrt::ev("{\"e\":\"OpCtor\",\"s\":%d,\"k\":\"c\",\"op\":%ld}", c->id, seq);
  }
  SrcCleanupOp(SrcCleanupOp&&) = delete;
  ~SrcCleanupOp() {
    bool was = Track::died(this, "SrcCleanupOp");
    vrt::ev("{\"e\":\"OpDtor\",\"s\":%d,\"k\":\"c\",\"op\":%ld,\"live\":%d,\"running\":%d}", c->id, seq, was ? 1 : 0, running ? 1 : 0);
    if (was) delete canary;
  }
  bool touch(const char* what) noexcept {
    if (Track::live.count(this)) { *canary += 1; return true; }
    vrt::ev("{\"e\":\"TouchDead\",\"s\":%d,\"k\":\"c\",\"op\":%ld,\"what\":\"%s\"}", c->id, seq, what);
    return false;
  }
  void start() noexcept {
    touch("start");
    running = true; c->cleanupPending = true;
    w->sev(c->id, "cs");
    vrt::ev("{\"e\":\"CleanupStart\",\"s\":%d,\"op\":%ld}", c->id, seq);
    if (c->cl == 0 || c->cl == 2) { finish(); return; }
    c->completeCleanup = [this] { finish(); };
  }
  void finish() noexcept {
    touch("complete");
    running = false; c->completeCleanup = nullptr; c->cleanupPending = false;
    char ch = c->cl >= 2 ? 'e' : 'd'; int x = ch == 'e' ? 9500 + c->id : 0;
    w->sev(c->id, ch == 'e' ? "ce" : "cd", x);
    vrt::ev("{\"e\":\"CleanupDone\",\"s\":%d,\"op\":%ld,\"ch\":\"%c\"}", c->id, seq, ch);
    R rr = std::move(r);
    if (ch == 'e') unifex::set_error(std::move(rr), mkerr(x)); else unifex::set_done(std::move(rr));
  }
};
struct SrcCleanupSender {
  World* w; int id;
  template <template <class...> class V, template <class...> class T> using value_types = V<>;
  template <template <class...> class V> using error_types = V<std::exception_ptr>;
  static constexpr bool sends_done = true;
  static constexpr unifex::blocking_kind blocking = unifex::blocking_kind::maybe;
  static constexpr bool is_always_scheduler_affine = false;
  template <class R> SrcCleanupOp<unifex::remove_cvref_t<R>> connect(R&& r) const { return SrcCleanupOp<unifex::remove_cvref_t<R>>{w, &w->src[id], (R&&)r}; }
};
struct Src {
  World* w; int id;
  friend SrcNextSender tag_invoke(unifex::tag_t<unifex::next>, Src& s) noexcept { return {s.w, s.id}; }
  friend SrcCleanupSender tag_invoke(unifex::tag_t<unifex::cleanup>, Src& s) noexcept { return {s.w, s.id}; }
};

// ---------------------------------------------------------------- tracked callables
struct TFn {      // transform: x -> x + 1000*q
  World* w; int q;
  int operator()(int x) const { w->fn.push_back({q, x}); vrt::ev("{\"e\":\"Fn\",\"q\":%d,\"x\":%d}", q, x); return x + 1000 * q; }
};
struct Pred {     // filter predicate: the k-th call answers the k-th scripted bit (default keep)
  World* w; int q;
  bool operator()(int x) const {
    int k = w->predCalls[q]++;
    auto& sc = w->pred[q];
    bool keep = k < (int)sc.size() ? sc[k] != 0 : true;
    w->fn.push_back({q, x});
    vrt::ev("{\"e\":\"Pred\",\"q\":%d,\"x\":%d,\"keep\":%d}", q, x, keep ? 1 : 0);
    return keep;
  }
};
struct AFn {      // adaptor function of adapt_stream / next_adapt_stream / cleanup_adapt_stream: logged identity
  World* w; int q;
  template <class S> auto operator()(S&& s) const { w->fn.push_back({q, 0}); vrt::ev("{\"e\":\"Adapt\",\"q\":%d}", q); return (S&&)s; }
};
struct RFn {      // reducer: acc' = 7*acc + x
  World* w;
  int operator()(int acc, int x) const {
    w->elems.push_back({x, w->curk, w->curn});
    vrt::ev("{\"e\":\"Elem\",\"x\":%d}", x);
    return 7 * acc + x;
  }
};
struct EFn {      // for_each body
  World* w;
  void operator()(int x) const { w->elems.push_back({x, w->curk, w->curn}); vrt::ev("{\"e\":\"Elem\",\"x\":%d}", x); }
};

// ---------------------------------------------------------------- consumer receiver
struct Recv {
  World* w;
  void done(char ch, int v) noexcept {
    World* ww = w;
    ww->res.push_back({'r', ch, v});
    vrt::ev("{\"e\":\"Result\",\"ch\":\"%c\",\"v\":%d}", ch, v);
    if (ww->destroyOp) { auto d = std::move(ww->destroyOp); ww->destroyOp = nullptr; d(); }
  }
  void set_value(int v) noexcept { done('v', v); }
  void set_value() noexcept { done('v', 0); }
  template <class E> void set_error(E&& e) noexcept {
    if constexpr (std::is_same_v<unifex::remove_cvref_t<E>, std::exception_ptr>) done('e', err_code(e)); else done('e', -998);
  }
  void set_done() noexcept { done('d', 0); }
  friend unifex::inplace_stop_token tag_invoke(unifex::tag_t<unifex::get_stop_token>, const Recv& r) noexcept { return r.w->stop.get_token(); }
  friend CtxSched tag_invoke(unifex::tag_t<unifex::get_scheduler>, const Recv& r) noexcept { return CtxSched{r.w, 0}; }
};

// ---------------------------------------------------------------- handles
struct Handle {
  virtual void start() noexcept {}
  virtual bool drvNext() noexcept { return false; }
  virtual bool drvCleanup() noexcept { return false; }
  virtual ~Handle() = default;
};
using Factory = Handle* (*)(World&);

template <class Make> struct ReduceH final : Handle {
  using Op = decltype(unifex::connect(unifex::reduce_stream(std::declval<Make>()(std::declval<World&>()), 0, RFn{nullptr}), Recv{nullptr}));
  Op op;
  ReduceH(Make make, World& w) : op(unifex::connect(unifex::reduce_stream(make(w), 0, RFn{&w}), Recv{&w})) {}
  void start() noexcept override { unifex::start(op); }
};
template <class Make> struct ForEachH final : Handle {
  using Op = decltype(unifex::connect(unifex::for_each(std::declval<Make>()(std::declval<World&>()), EFn{nullptr}), Recv{nullptr}));
  Op op;
  ForEachH(Make make, World& w) : op(unifex::connect(unifex::for_each(make(w), EFn{&w}), Recv{&w})) {}
  void start() noexcept override { unifex::start(op); }
};
// manual driver: the behaviour's steps call next()/cleanup() on the pipeline themselves; each operation state is heap-allocated
// and freed inside its completion signal
template <class Make> struct ManualH final : Handle {
  using Stream = decltype(std::declval<Make>()(std::declval<World&>()));
  World& w; Stream stream;
  struct DrvRecv {
    World* w; char kind; std::function<void()>* freeOp;
    void fin(char ch, int v) noexcept {
      World* ww = w; char k = kind; auto* f = freeOp;
      ww->res.push_back({k, ch, v});
      vrt::ev("{\"e\":\"Drv%sDone\",\"ch\":\"%c\",\"v\":%d}", k == 'n' ? "Next" : "Cleanup", ch, v);
      if (k == 'n' && ch == 'v') { ww->elems.push_back({v, ww->curk, ww->curn}); vrt::ev("{\"e\":\"Elem\",\"x\":%d}", v); }
      if (*f) { auto d = std::move(*f); *f = nullptr; d(); }
    }
    void set_value(int v) noexcept { fin('v', v); }
    void set_value() noexcept { fin('v', 0); }
    template <class E> void set_error(E&& e) noexcept {
      if constexpr (std::is_same_v<unifex::remove_cvref_t<E>, std::exception_ptr>) fin('e', err_code(e)); else fin('e', -998);
    }
    void set_done() noexcept { fin('d', 0); }
    friend unifex::inplace_stop_token tag_invoke(unifex::tag_t<unifex::get_stop_token>, const DrvRecv& r) noexcept { return r.w->stop.get_token(); }
    friend CtxSched tag_invoke(unifex::tag_t<unifex::get_scheduler>, const DrvRecv& r) noexcept { return CtxSched{r.w, 0}; }
  };
  using NOp = decltype(unifex::connect(unifex::next(std::declval<Stream&>()), std::declval<DrvRecv>()));
  using COp = decltype(unifex::connect(unifex::cleanup(std::declval<Stream&>()), std::declval<DrvRecv>()));
  struct NBox { NOp op; template <class F> explicit NBox(F&& f) : op(((F&&)f)()) {} };
  struct CBox { COp op; template <class F> explicit CBox(F&& f) : op(((F&&)f)()) {} };
  std::function<void()> freeN, freeC;
  ManualH(Make make, World& w) : w(w), stream(make(w)) {}
  bool drvNext() noexcept override {
    vrt::ev("{\"e\":\"DrvNext\"}");
    auto* b = new NBox([&] { return unifex::connect(unifex::next(stream), DrvRecv{&w, 'n', &freeN}); });
    freeN = [b] { delete b; };
    unifex::start(b->op);
    return true;
  }
  bool drvCleanup() noexcept override {
    vrt::ev("{\"e\":\"DrvCleanup\"}");
    auto* b = new CBox([&] { return unifex::connect(unifex::cleanup(stream), DrvRecv{&w, 'c', &freeC}); });
    freeC = [b] { delete b; };
    unifex::start(b->op);
    return true;
  }
  ~ManualH() { if (freeN) freeN(); if (freeC) freeC(); }
};

struct Registry { static std::map<int, Factory>& map() { static std::map<int, Factory> m; return m; } };
template <int Cons, class Make, Make make> struct Reg {
  static Handle* create(World& w) {
    if constexpr (Cons == 0) return new ReduceH<Make>(make, w);
    else if constexpr (Cons == 1) return new ForEachH<Make>(make, w);
    else return new ManualH<Make>(make, w);
  }
  explicit Reg(int id) { Registry::map()[id] = &create; }
};
}  // namespace st
#define ST_SHAPE(ID, CONS, ...) \
  static auto mk_##ID(st::World& w) { using namespace st; return __VA_ARGS__; } \
  static st::Reg<CONS, decltype(&mk_##ID), &mk_##ID> reg_##ID(ID);
