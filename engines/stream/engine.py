"""Engine `stream`: spec/stream/Streams.tla <-> the stream sources and adaptors of include/unifex (C13).

 Sequential part
 1. pipeline catalogue (engines/stream/catalogue.py) -> JSON for TLC and generated C++ factories
 2. TLC: the invariants of Streams.tla on every behaviour of every shape x source scripts x predicate scripts
    (fine-grained instance StreamsMC on a small script set, macro-step instance StreamsMacro on the full one)
 3. export of all macro-steps (external action + cascade), edge-covering behaviours with the expected observation
 4. replay on the real adaptors under ASan/UBSan; harness sources with address-tracked next()/cleanup() operation states
 5. every recorded execution is validated by TLC against the monitor StreamMon (the arbiter for C13); observation
    differences against Streams.tla in the elements handed to the consumer and in the consumer's result (what the adaptors'
    definitions prescribe, given the scripted reactions of the sources) are reported as well; everything else is drift.
 Race part (all timings of stop / trigger relative to in-flight next() operations)
 6. TLC: StopImmediately.tla (the six-valued state_ protocol) and TakeUntil.tla (cleanupReady_ / cleanupCompleted_) at atomic
    granularity, with spec-level mutations that must violate their properties
 7. controlled threads (engines/stream/driver_race.cpp; schedule points stream.* in stop_immediately.hpp, take_until.hpp,
    type_erased_stream.hpp): one completer thread per harness source, a stopper, the consumer; bounded-preemption DFS +
    seeded random schedules; every execution validated against StreamMon, ASan/UBSan, exact deadlock = lost completion
 8. guided replay: every behaviour (edge cover) of the two race models executed on the real code at the corresponding
    schedule points (site mismatch / outcome other than predicted = drift)."""
import collections, concurrent.futures, hashlib, itertools, json, os, sys, time

sys.path.insert(0, os.path.join(os.path.dirname(__file__), "..", "..", "tools"))
sys.path.insert(0, os.path.dirname(__file__))
import vlib
import catalogue

HERE = os.path.dirname(os.path.abspath(__file__))


def S(n, end, inl, onStop="ignore", cl="id"):
    return dict(len=n, end=end, inl=list(inl), onStop=onStop, cl=cl)


def script_sets(nsrc, tier, small=False, filt=False):
    """Script families (a sum of concerns, not their product): timing of each next() / reaction to stop / cleanup mode.
    Sizes shrink with the number of harness sources of the shape group (the configurations multiply) and in the quick tier."""
    quick = tier == "quick"
    src, seen = [], set()

    def add(s):
        k = json.dumps(s, sort_keys=True)
        if k not in seen:
            seen.add(k)
            src.append(s)
    core = [S(0, "d", [1]), S(2, "d", [1, 1, 1]), S(2, "d", [0, 0, 0], "done"), S(2, "e", [0, 0, 0], "ignore", "dd"), S(0, "e", [0], "done"),
            S(2, "d", [0, 1, 0], "ignore"), S(1, "d", [1, 0], "done", "dd"), S(2, "e", [1, 1, 1]), S(0, "d", [0], "ignore", "dd"),
            S(1, "d", [1, 1], "ignore", "ie"), S(2, "d", [0, 0, 0], "ignore", "dd"), S(1, "e", [0, 0], "ignore", "de"),
            S(0, "e", [1]), S(0, "d", [0], "done"), S(1, "e", [0, 1], "ignore", "dd"), S(2, "e", [0, 0, 0], "done")]
    if small:
        for c in core[:8]:
            add(c)
    elif nsrc >= 3:
        for c in core[:(6 if quick else 12)]:
            add(c)
    elif nsrc == 2:
        for c in core[:(10 if quick else 16)]:
            add(c)
    elif filt and quick:
        for c in core[:14]:
            add(c)
    else:
        L = 2 if quick else 3
        for n in range(0, L + 1):
            for end in "de":
                for inl in itertools.product((1, 0), repeat=n + 1):
                    if quick and end == "e" and 0 < sum(inl) < n + 1:
                        continue
                    add(S(n, end, inl))                                   # timing family
                add(S(n, end, [0] * (n + 1), "done"))                   # stop family
                if not quick or end == "d":
                    add(S(n, end, [0] * (n + 1), "done", "dd"))
                    add(S(n, end, [1] * (n + 1), "ignore", "dd"))       # cleanup family
                add(S(n, end, [0] * (n + 1), "ignore", "dd"))
        for c in core:
            add(c)
    trig = [S(1, "d", [1]), S(1, "d", [0], "ignore"), S(1, "d", [0], "done"), S(0, "d", [1]), S(1, "d", [0], "done", "dd"),
            S(0, "e", [0], "ignore", "dd"), S(1, "d", [1], "ignore", "ie"), S(0, "e", [1]), S(0, "d", [0], "done")]
    if small or nsrc >= 3:
        trig = trig[:4] if (small or quick) else trig[:6]
    elif quick:
        trig = trig[:5] + trig[6:7]
    pred = [[1, 1, 1], [0, 1, 1], [1, 0, 1], [0, 0, 0]] if (quick or small) else \
        [[1, 1, 1], [0, 1, 1], [1, 0, 1], [0, 0, 1], [1, 1, 0], [0, 0, 0]]
    return dict(src=src, trig=trig, pred=pred)


def gen_cpp(cat, outdir, per_tu=4):
    os.makedirs(outdir, exist_ok=True)
    files = []
    for i in range(0, len(cat), per_tu):
        p = os.path.join(outdir, "shapes_%02d.cpp" % (i // per_tu))
        with open(p, "w") as f:
            f.write('#include "stream_rt.hpp"\n')
            for s in cat[i:i + per_tu]:
                f.write("// %s\nST_SHAPE(%d, %d, %s)\n" % (s["spec"]["text"], s["spec"]["id"], s["cons"], s["cpp"]))
        files.append(p)
    return files


def macro_graph(edges_path):
    macro = collections.defaultdict(list)
    targets = set()
    n = 0
    for l in open(edges_path):
        e = json.loads(l)
        s, t = tuple(e["s"]), tuple(e["t"])
        cfg = e["cfg"]
        if cfg.get("shape"):
            cfg = dict(shape=cfg["shape"], src={str(m["s"]): m["m"] for m in cfg["src"]}, pred={str(m["q"]): list(m["m"]) for m in cfg["pred"]})
        macro[s].append((t, dict(ext=e["ext"], cfg=cfg, obs=e["obs"])))
        targets.add(t)
        n += 1
    inits = [s for s in macro if s not in targets]
    return macro, inits, n


def norm_exp(o):
    return dict(elems=[dict(x=e["x"], ctx=list(e["ctx"])) for e in o["elems"]], sev=[list(e) for e in o["sev"]],
                fn=[list(f) for f in o["fn"]], res=[list(r) for r in o["res"]])


HARD_EV = ("nv", "ne", "nd", "cs", "cd", "ce")


def per_src(sev, hard_only=True):
    d = collections.defaultdict(list)
    for s, ev, a in sev:
        if ev in HARD_EV:
            d[s].append((ev, a))
        elif ev == "ns":
            d[s].append(("ns", 0))
    return dict(d)


def compare(exp, got):
    d = {}
    ex, gx = [e["x"] for e in exp["elems"]], [e["x"] for e in got["elems"]]
    if ex != gx:
        d["C13.elems"] = "elements delivered to the consumer: expected %s got %s" % (ex, gx)
    elif [e["ctx"] for e in exp["elems"]] != [e["ctx"] for e in got["elems"]]:
        d["drift.ctx"] = "elements delivered in different external steps"
    if exp["res"] != got["res"]:
        d["C13.result"] = "results: expected %s got %s" % (exp["res"], got["res"])
    if per_src(exp["sev"]) != per_src(got["sev"]):
        # when the sources' operations start / complete is internal timing unless it shows in the elements, the result or the monitor's
        # protocol rules: drift
        d["drift.source_ops"] = "source next()/cleanup() operations: expected %s got %s" % (per_src(exp["sev"]), per_src(got["sev"]))
    elif exp["sev"] != got["sev"]:
        d["drift.sev"] = "source event order / stop observations differ: expected %s got %s" % (exp["sev"], got["sev"])
    if exp["fn"] != got["fn"]:
        if sorted(map(tuple, exp["fn"])) != sorted(map(tuple, got["fn"])):
            d["drift.fn"] = "callable invocations: expected %s got %s" % (exp["fn"], got["fn"])
        else:
            d["drift.fn_order"] = "order of callable invocations differs"
    return d


def run_replay(ctx, exe, args, total, log_path, timeout=3000, unit_div=1, max_fatal=40, start=0):
    """Like vlib.run_batches, for a build in which ASan reports and UBSan vptr reports are recoverable: every report is attributed to
    the unit announced by the driver's `@@X n` stderr marker; a fatal exit is recorded for the last announced unit and the run resumes."""
    import re
    k, sums, deaths, nfatal = start, [], [], 0
    open(log_path, "w").close()
    env = {"ASAN_OPTIONS": vlib.SAN_ENV["ASAN_OPTIONS"] + ":halt_on_error=0:suppress_equal_pcs=0",
           "UBSAN_OPTIONS": "print_stacktrace=1:halt_on_error=0:exitcode=72"}
    while k < total:
        rc, so, se = vlib.run_exe(exe, list(args) + ["--from", k, "--to", total, "--log", log_path], timeout=timeout, env=env)
        units, cur, buf = [], None, []
        for ln in se.splitlines(True):
            m = re.match(r"@@X (\d+)", ln)
            if m:
                if cur is not None:
                    units.append((cur, "".join(buf)))
                cur, buf = int(m.group(1)), []
            else:
                buf.append(ln)
        if cur is not None:
            units.append((cur, "".join(buf)))
        for unit, txt in units:
            fatal = rc != 0 and unit == units[-1][0]
            if "ERROR: AddressSanitizer" in txt:
                d = vlib.classify_death(71, txt)
            elif "runtime error:" in txt:
                d = vlib.classify_death(72, txt)
            elif fatal:
                d = vlib.classify_death(rc, txt)
            else:
                continue
            if d:
                d["x"], d["fatal"] = unit, fatal
                if d.get("event") == "Terminate" and not d.get("frame"):
                    m = re.search(r"(\S+): Assertion `([^']*)' failed", txt)       # a failed UNIFEX_ASSERT: the function and the expression
                    if m:
                        d["frame"] = "%s Assertion `%s'" % (m.group(1), m.group(2))
                d["frame"] = re.sub(r"0x[0-9a-f]+", "0x?", d.get("frame") or "")
                marks = [m for m in ("trigger_receiver::set_done", "source_receiver::set_done", "cancel_callback", "cancel_next_callback", "handle_signal",
                                     "trigger_next_done", "start_trigger_cleanup", "start_cleanup") if m in txt]
                d["marks"] = marks
                deaths.append(d)
        for ln in so.splitlines():
            if ln.startswith("{"):
                try:
                    sums.append(json.loads(ln))
                except Exception:
                    pass
        if rc == 0:
            break
        x = units[-1][0] if units else k * unit_div
        with open(log_path, "a") as f:
            f.write('\n{"e":"Aborted","x":%d}\n' % x)
        x = x // unit_div
        nfatal += 1
        if nfatal >= max_fatal or len(deaths) > 2000:
            ctx.rep.note("replay stopped at behaviour %d of %d after %d fatal exits / %d sanitizer reports" % (x, total, nfatal, len(deaths)))
            break
        k = x + 1
    return sums, deaths


RACE_PIPES = {
    "si": dict(kind=["stop_imm", "src"], kids=[[2], []], root=1, text="stop_imm(src)", srcs=[2], trig=[]),
    "tu": dict(kind=["take_until", "src", "src"], kids=[[2, 3], [], []], root=1, text="take_until(src,src)", srcs=[2], trig=[3]),
    "te": dict(kind=["type_erase", "src"], kids=[[2], []], root=1, text="type_erase(src)", srcs=[2], trig=[]),
    "si_tu": dict(kind=["stop_imm", "take_until", "src", "src"], kids=[[2], [3, 4], [], []], root=1, text="stop_imm(take_until(src,src))", srcs=[3], trig=[4]),
    "tu_si": dict(kind=["take_until", "stop_imm", "src", "src"], kids=[[2, 4], [3], [], []], root=1, text="take_until(stop_imm(src),src)", srcs=[3], trig=[4]),
    "te_tu": dict(kind=["type_erase", "take_until", "src", "src"], kids=[[2], [3, 4], [], []], root=1, text="type_erase(take_until(src,src))", srcs=[3], trig=[4]),
}
CONS_NAME = {0: "reduce", 1: "for_each", 2: "manual"}


def race_scenarios(tier, rng):
    """Scenarios of the controlled-thread driver: every source operation is deferred, so that it is completed by its own thread."""
    quick = tier == "quick"
    out = []

    def srcs(trigger):
        r = []
        for n, end in (((1, "d"), (0, "d"), (0, "e")) if trigger else ((1, "d"), (1, "e"), (0, "d"), (0, "e"), (2, "d"))):
            for onStop in ("ignore", "done"):
                for cl in ("id", "dd"):
                    r.append(S(n, end, [0] * (n + 1), onStop, cl))
        return r
    plan = [("si", (0, 2), (True,), 8 if quick else 48), ("tu", (0, 2), (False, True), 10 if quick else 100), ("te", (0, 2), (True,), 3 if quick else 20),
            ("si_tu", (0, 2), (True, False), 2 if quick else 20), ("tu_si", (0,), (True, False), 2 if quick else 20), ("te_tu", (0,), (True,), 1 if quick else 10)]
    for kind, conss, stoppers, take in plan:
        P = RACE_PIPES[kind]
        combos = []
        for cons in conss:
            for st in stoppers:
                for ms in srcs(False):
                    for ts in (srcs(True) if P["trig"] else [None]):
                        combos.append((cons, st, ms, ts))
        rng.shuffle(combos)
        # always keep the canonical races: a value-yielding source that ignores stop, with inline and with deferred cleanups (the
        # latter lets the two cleanup completions of a take_until meet on different threads), first stopper setting, every consumer
        def canon(c):
            return (c[1] == stoppers[0] and c[2] in (S(1, "d", [0, 0], "ignore", "id"), S(1, "d", [0, 0], "ignore", "dd"))
                    and (c[3] is None or (c[3]["cl"] == c[2]["cl"] and c[3] == S(1, "d", [0, 0], "ignore", c[2]["cl"]))))
        base = [c for c in combos if canon(c)]
        seen, sel = set(), []
        for c in base + combos:
            k = json.dumps(c, sort_keys=True)
            if k not in seen:
                seen.add(k)
                sel.append(c)
        nbase = len(base) if kind in ("si", "tu", "te") else 0
        for idx, (cons, st, ms, ts) in enumerate(sel[:max(take, nbase)]):
            src = {str(P["srcs"][0]): ms}
            if ts is not None:
                src[str(P["trig"][0])] = ts
            out.append(dict(kind=kind, stopper=st, src=src, drvNexts=ms["len"] + 1, capx=2 if idx < nbase else 1,
                            pipe=dict(cons=cons, kind=P["kind"], kids=P["kids"], arg=[0] * len(P["kind"]), root=P["root"]),
                            text="race:%s(%s)" % (CONS_NAME[cons], P["text"])))
    for i, sc in enumerate(out):
        sc["id"] = i
    return out


def trig_nodes(pipe):
    trig = set()
    for q, k in enumerate(pipe["kind"], 1):
        if k == "take_until":
            stack = [pipe["kids"][q - 1][1]]
            while stack:
                m = stack.pop()
                trig.add(m)
                stack += pipe["kids"][m - 1]
    return trig


def race_models(ctx):
    """TLC: the two lock-free hand-offs at atomic granularity (safety + termination under fairness), and their spec-level mutations,
    which must violate the properties (non-vacuity)."""
    for mod in ("StopImmediately", "TakeUntil"):
        vlib.model_check(ctx, "stream", mod, workers=1, timeout=600)
    for mod, cfg in (("StopImmediately", "StopImmediately_mut_hs.cfg"), ("StopImmediately", "StopImmediately_mut_cl.cfg"), ("TakeUntil", "TakeUntil_mut_k3.cfg")):
        r = vlib.model_check(ctx, "stream", mod, cfg=cfg, must_hold=False, workers=1, timeout=600)
        bad = r["kind"] in ("invariant", "assert", "liveness") or "Termination was violated" in r["out"]
        if not bad:
            raise vlib.Broken("the spec-level mutation %s is expected to violate the properties of %s; TLC says %s" % (cfg, mod, r["kind"]))
        ctx.rep.note("%s: mutation violates %s as expected (the properties of the race model are not vacuous)" % (
            cfg, r["violated"] or ("Termination" if "Termination was violated" in r["out"] else r["kind"])))


def run_race(ctx):
    """Controlled threads: source completer(s), stopper, consumer; DFS with preemption bound + seeded random schedules."""
    rep = ctx.rep
    rep.assume("races: sequentially consistent interleavings at schedule-point granularity (stream.* sites at the atomics of stop_immediately / take_until / "
               "type_erase, stop.* sites of inplace_stop_source, spin_wait); one completer thread per harness source, one stopper, one consumer thread")
    scns = race_scenarios(ctx.tier, ctx.rng)
    sp = os.path.join(ctx.work, "race_scenarios.json")
    json.dump(scns, open(sp, "w"))
    exe = vlib.build(ctx, "stream_race_driver", [os.path.join(HERE, "driver_race.cpp")], lib=["inplace_stop_token.cpp", "async_stack.cpp", "exception.cpp"],
                     incs=[HERE], opt="-O0", recover=True, extra=["-fsanitize-recover=vptr"])
    DIV = 100000
    common = ["--scenarios", sp, "--stopsites", 0 if ctx.quick else 1]
    runs = [("dfs", common + ["--mode", "dfs", "--bound", 2, "--cap", 24 if ctx.quick else 40]),
            ("random", common + ["--mode", "random", "--seed", ctx.seed, "--cap", 8 if ctx.quick else 15, "--kbase", 50000])]
    lp = os.path.join(ctx.work, "race.ndjson")
    t0 = time.time()
    # the scenarios are split over several driver processes (a controlled execution is dominated by thread hand-off latency)
    par = max(1, min(8, vlib.NCPU, len(scns)))
    bounds = [round(i * len(scns) / par) for i in range(par + 1)]
    tasks = [(mode, args, i) for i in range(par) for mode, args in runs]

    def part(t):
        mode, args, i = t
        return run_replay(ctx, exe, args, bounds[i + 1], lp + ".%s%d" % (mode, i), timeout=2400, unit_div=DIV, max_fatal=6, start=bounds[i])
    sums, deaths = [], []
    with concurrent.futures.ThreadPoolExecutor(max_workers=par) as ex:
        for sm, dt in ex.map(part, tasks):
            sums += sm
            deaths += dt
    with open(lp, "w") as f:
        for mode, args, i in tasks:
            q = lp + ".%s%d" % (mode, i)
            f.write(open(q).read())
            os.remove(q)
    t1 = time.time()
    mode_of = lambda x: "random" if (x % DIV) >= 50000 else "dfs"
    execs = sum(s.get("execs", 0) for s in sums)
    rep.evaluations += execs
    tainted = set()
    for d in deaths:
        x = d["x"]
        mode = mode_of(x)
        sc = scns[x // DIV] if x // DIV < len(scns) else None
        tainted.add(x)
        kinds = sorted(set(sc["pipe"]["kind"])) if sc else []
        sig = "%s|%s:%s:%s@%s" % ("take_until" if "take_until" in kinds else "-", d["event"], d.get("asan", ""), d.get("frame", ""), ",".join(d.get("marks", [])))
        rep.violation(dict(engine="stream", mode="race-" + mode, event=d["event"], shape=sc["text"] if sc else "?", kinds=kinds, scenario=sc, sig=sig,
                           asan=d.get("asan"), frame=d.get("frame"), where=d.get("where"),
                           what="%s in %s schedule %d of %s [sources %s, stopper %s]: %s %s" % (
                               d["event"], mode, x % DIV % 50000, sc["text"] if sc else "?", json.dumps(sc["src"]) if sc else "", sc["stopper"] if sc else "",
                               d.get("asan", ""), d.get("frame", "")), detail=d.get("stderr_tail")))
    n, rejected = vlib.validate_batched(ctx, "stream", "StreamMon", lp, skip_x=tainted, max_reports=6)
    for ex in vlib.split_executions(lp):
        rep.distinct.add(hash(("race", "".join(ex[1][1:]))))
    rep.note("race: %d scenarios, %d schedules executed (DFS preemption bound 2 + seeded random) in %.0fs, %d validated against StreamMon in %.0fs, "
             "%d sanitizer/crash events" % (len(scns), execs, t1 - t0, n, time.time() - t1, len(deaths)))
    for rj in rejected:
        x = rj["x"]
        mode = mode_of(x) if x is not None else "?"
        sc = scns[x // DIV] if x is not None and x // DIV < len(scns) else None
        nxt = rj["events"][rj["prefix"]] if rj.get("prefix") is not None and rj["prefix"] < len(rj["events"]) else None
        kinds = sorted(set(sc["pipe"]["kind"])) if sc else []
        role = ""
        if nxt and "s" in nxt and sc:
            role = ":role=" + ("trigger" if nxt["s"] in trig_nodes(sc["pipe"]) else "source")
        rep.violation(dict(engine="stream", mode="race-" + mode, event="MonitorReject", monitor="StreamMon", shape=sc["text"] if sc else "?", kinds=kinds,
                           scenario=sc, rejected_event=nxt, sig="%s|%s%s" % ("take_until" if "take_until" in kinds else "-", ev_sig(nxt), role),
                           what="StreamMon rejects %s schedule %s of %s at event %s (%s) [sources %s, stopper %s]" % (
                               mode, (x % DIV % 50000) if x is not None else "?", sc["text"] if sc else "?", rj.get("prefix"), json.dumps(nxt),
                               json.dumps(sc["src"]) if sc else "", sc["stopper"] if sc else ""),
                           events=rj["events"][:200]))
    ex = vlib.split_executions(lp)
    if ex:
        e = ex[len(ex) // 3]
        rep.sample(dict(kind="recorded-race-trace", scenario=scns[e[0] // DIV]["text"] if e[0] is not None else None, events=[json.loads(l) for l in e[1][:40]]))
    run_guided_models(ctx, exe)
    rep.rule("one race evaluation = one schedule (DFS with preemption bound / seeded random) of a scenario (pipeline x source scripts x stopper) on the real code "
             "under the thread controller, event log validated against StreamMon")


# ----------------------------------------------------------------------------- guided replay of the race models
def _walks(edges_path):
    adj = collections.defaultdict(list)
    targets = set()
    for l in open(edges_path):
        e = json.loads(l)
        s, t = tuple(e["s"]), tuple(e["t"])
        adj[s].append((t, e))
        targets.add(t)
    inits = [s for s in adj if s not in targets]
    return vlib.edge_cover(adj, inits)


def si_entry(e):
    """One transition of StopImmediately.tla -> schedule entry on the code (thread 1 consumer, 2 source completer, 3 stopper)."""
    v, w = e["v"], e["w"]
    if v["pcC"] != w["pcC"]:
        l = v["pcC"]
        return {"c0": [2, "stream.si.hs_load"], "c1": [2, "stream.si.hs_cas1"] if v["oldC"] == "active" else None,
                "cdeliver": [2, "stream.si.hs_deliver"], "c2": [2, "stream.si.hs_cas2"] if v["oldC"] == "stopped" else None, "c3": None}[l]
    if v["pcS"] != w["pcS"]:
        l = v["pcS"]
        return {"s0": [3, "stream.si.cb_load"], "s1": [3, "stream.si.cb_cas"] if v["oldS"] == "active" else None, "s2": [3, "stream.si.cb_deliver"]}[l]
    l = v["pcK"]
    return {"k0": [1, "stream.si.cl_load"], "k1": [1, "stream.si.cl_cas"] if v["oldK"] == "stopped" else None, "k2": None}[l]


def tu_entry(e):
    """One transition of TakeUntil.tla -> schedule entry (thread 1 consumer, 2 source completer, 3 trigger completer)."""
    v, w = e["v"], e["w"]
    if v["pcT"] != w["pcT"]:
        return {"t0": [3, "stream.tu.tnd_load"], "t1": [3, "stream.tu.tnd_xchg"]}[v["pcT"]]
    if v["pcK"] != w["pcK"]:
        return {"k0": [1, "stream.tu.cl_load", "arrive"], "k1": [1, "stream.tu.cl_load"], "k2": None, "k3": [1, "stream.tu.cl_xchg"]}[v["pcK"]]
    if v["pcSC"] != w["pcSC"]:
        return {"sc0": [2, "stream.tu.join_load"], "x1": [2, "stream.tu.join_xchg"], "deliver": None}[v["pcSC"]]
    return {"tc0": [3, "stream.tu.join_load"], "x1": [3, "stream.tu.join_xchg"], "deliver": None}[v["pcTC"]]


def run_guided_models(ctx, exe):
    """Every behaviour (edge cover) of StopImmediately.tla / TakeUntil.tla is replayed on the real adaptor at the corresponding schedule
    points; what the model predicts about the outcome is compared (drift), the event log goes to StreamMon."""
    rep = ctx.rep
    scns, preds = [], []
    for mod, kind, entry in (("StopImmediatelyX", "si", si_entry), ("TakeUntilX", "tu", tu_entry)):
        ep = os.path.join(ctx.work, mod + ".edges")
        vlib.model_check(ctx, "stream", mod, env={"EDGES": ep}, workers=1, timeout=600)
        walks = _walks(ep)
        P = RACE_PIPES[kind]
        for wk in walks:
            if kind == "si":
                src = {"2": S(1, "d", [0, 0], "ignore", "id")}
                sched = [[1, "stream.h.op"]]                     # the consumer calls next(): callback registered, next(source_) in flight
            else:
                src = {"2": S(1, "d", [0, 0], "ignore", "dd"), "3": S(1, "d", [0, 0], "ignore", "dd")}
                sched = [[1, "stream.h.op"], [2, "stream.h.op"]]   # next() issued; the source's next() completes with a value
            sched += [x for x in (entry(e) for e in wk) if x]
            last = wk[-1]["w"]
            scns.append(dict(kind=kind, stopper=(kind == "si"), src=src, drvNexts=1, sched=sched, model=mod,
                             pipe=dict(cons=2, kind=P["kind"], kids=P["kids"], arg=[0] * len(P["kind"]), root=P["root"]),
                             text="guided:manual(%s)" % P["text"]))
            preds.append(last)
    for i, sc in enumerate(scns):
        sc["id"] = i
    sp = os.path.join(ctx.work, "guided_scenarios.json")
    json.dump(scns, open(sp, "w"))
    lp = os.path.join(ctx.work, "guided.ndjson")
    gp = os.path.join(ctx.work, "guided_out.ndjson")
    DIV = 100000
    sums, deaths = run_replay(ctx, exe, ["--mode", "guided", "--scenarios", sp, "--stopsites", 2, "--gout", gp], len(scns), lp, unit_div=DIV, max_fatal=6)
    rep.evaluations += len(scns)
    tainted = set()
    for d in deaths:
        x = d["x"]
        sc = scns[x // DIV] if x // DIV < len(scns) else None
        tainted.add(x)
        kinds = sorted(set(sc["pipe"]["kind"])) if sc else []
        rep.violation(dict(engine="stream", mode="race-guided", event=d["event"], shape=sc["text"] if sc else "?", kinds=kinds, scenario=sc,
                           sig="%s|%s:%s:%s@%s" % ("take_until" if "take_until" in kinds else "-", d["event"], d.get("asan", ""), d.get("frame", ""), ",".join(d.get("marks", []))),
                           what="%s in the guided replay of a %s behaviour: %s %s" % (d["event"], sc["model"] if sc else "?", d.get("asan", ""), d.get("frame", "")),
                           detail=d.get("stderr_tail")))
    n, rejected = vlib.validate_batched(ctx, "stream", "StreamMon", lp, skip_x=tainted, max_reports=4)
    for rj in rejected:
        x = rj["x"]
        sc = scns[x // DIV] if x is not None and x // DIV < len(scns) else None
        nxt = rj["events"][rj["prefix"]] if rj.get("prefix") is not None and rj["prefix"] < len(rj["events"]) else None
        kinds = sorted(set(sc["pipe"]["kind"])) if sc else []
        rep.violation(dict(engine="stream", mode="race-guided", event="MonitorReject", monitor="StreamMon", shape=sc["text"] if sc else "?", kinds=kinds, scenario=sc,
                           rejected_event=nxt, sig="%s|%s" % ("take_until" if "take_until" in kinds else "-", ev_sig(nxt)),
                           what="StreamMon rejects the guided replay of a %s behaviour at event %s (%s); schedule %s" % (
                               sc["model"] if sc else "?", rj.get("prefix"), json.dumps(nxt), json.dumps(sc["sched"]) if sc else ""), events=rj["events"][:200]))
    # drift: schedule points not where the model says / outcome differs from the model's prediction
    gout = {}
    if os.path.exists(gp):
        for l in open(gp):
            try:
                g = json.loads(l)
                gout[g["x"] // DIV] = g
            except Exception:
                pass
    execs = {e[0] // DIV: e[1] for e in vlib.split_executions(lp) if e[0] is not None}
    ndrift = nout = 0
    for i, sc in enumerate(scns):
        g = gout.get(i)
        if g is None:
            continue
        bad = None
        if g["drift"]:
            bad = "schedule drift: %s" % g["first"]
            ndrift += 1
        evs = [json.loads(l) for l in execs.get(i, [])]
        if sc["kind"] == "si" and not bad:
            nd = [e for e in evs if e.get("e") == "DrvNextDone"]
            want = "d" if preds[i]["deliveredDone"] else "v"
            if preds[i]["delivered"] == 1 and nd and nd[0]["ch"] != want:
                bad = "model predicts next() completes with %s, the code delivered %s" % (want, nd[0]["ch"])
                nout += 1
        if bad:
            rep.drift += 1
            if ndrift + nout <= 3:
                rep.note("guided %s: %s; schedule %s" % (sc["model"], bad, json.dumps(sc["sched"])))
    if scns and ndrift == len(scns):
        rep.note("guided replay: no behaviour found the stream.* schedule points - this tree lacks engines/stream/hooks.patch (the race part then only "
                 "interleaves at the stop.* / spin_wait points)")
    rep.note("guided replay of the race models: %d behaviours (edge covers of StopImmediately.tla and TakeUntil.tla) executed at the corresponding "
             "schedule points, %d validated against StreamMon, %d with schedule drift, %d with an outcome other than predicted" % (len(scns), n, ndrift, nout))


def ev_sig(e):
    if not e:
        return "end-of-log"
    k = e.get("e", "?")
    if k == "End":
        return "End:live=%s:bad=%s" % (e.get("live"), e.get("bad"))
    if k == "OpDtor":
        return "OpDtor:%s:live=%s:running=%s" % (e.get("k"), e.get("live"), e.get("running"))
    if k in ("NextStart", "CleanupStart", "NextDone", "CleanupDone", "TouchDead"):
        return "%s:%s" % (k, e.get("what", e.get("ch", "")))
    if k in ("Result", "DrvCleanupDone", "DrvNextDone"):
        return "%s:%s%s" % (k, e.get("ch"), ":null" if e.get("v") == -997 else "")
    return k


def run(ctx):
    rep = ctx.rep
    only = set(filter(None, os.environ.get("VERIF_STREAM_ONLY", "").split(",")))
    part = os.environ.get("VERIF_STREAM_PART", "all")       # development / self-test aid: "seq" | "race" | "all"
    if part == "race":
        race_models(ctx)
        run_race(ctx)
        return
    # the race part runs concurrently with the sequential part (its drivers are latency-bound, not CPU-bound) on a report of its own
    race_thread, race_ctx, race_err = None, None, []
    if part != "seq" and not only:
        import copy, random, threading
        race_ctx = copy.copy(ctx)
        race_ctx.rep = vlib.Report(ctx.prop, ctx.tier, ctx.seed)
        race_ctx.rng = random.Random(ctx.seed * 7919 + 13)

        def _race():
            try:
                race_models(race_ctx)
                run_race(race_ctx)
            except BaseException as ex:      # re-raised on the main thread
                race_err.append(ex)
        race_thread = threading.Thread(target=_race, name="stream-race")
        race_thread.start()
    rep.assume("pipelines from the catalogue (consumer reduce_stream / for_each / manual next()-cleanup() driver over <= 3 stream adaptors, <= 3 harness sources); "
               "elements are ints; harness sources of length 0..%d ending in done or error, each next() inline or deferred, deferred next() reacting to stop by done or "
               "ignoring it, cleanup() inline/deferred completing with done or error; filter predicates scripted per call" % (2 if ctx.quick else 3))
    rep.assume("single logical thread: stop requests and trigger completions happen at quiescent points (between library calls), never concurrently with them; "
               "the manual scheduler used for via/on/delay ignores stop requests; one external stop request per behaviour")
    cat = catalogue.catalogue(ctx.tier, only or None)
    by_id = {s["spec"]["id"]: s for s in cat}
    groups = collections.defaultdict(list)
    for s in cat:
        groups[(min(3, sum(1 for k in s["spec"]["kind"] if k == "src")), "filter" in s["spec"]["kind"])].append(s["spec"])
    # ---- TLC: fine-grained model on a small script set (every internal step is a state)
    jobs = []
    gname = lambda g: "%d%s" % (g[0], "f" if g[1] else "")
    for g, shapes in sorted(groups.items()):
        nsrc, filt = g
        g = gname(g)
        sp = os.path.join(ctx.work, "shapes_g%s.json" % g)
        json.dump(shapes, open(sp, "w"))
        fine_shapes = shapes if not ctx.quick else shapes[::2 if nsrc <= 1 else 3]
        fsp = os.path.join(ctx.work, "shapes_fine_g%s.json" % g)
        json.dump(fine_shapes, open(fsp, "w"))
        ssp = os.path.join(ctx.work, "scripts_small_g%s.json" % g)
        json.dump(script_sets(nsrc, ctx.tier, small=ctx.quick or nsrc >= 2, filt=filt), open(ssp, "w"))
        fp = os.path.join(ctx.work, "scripts_g%s.json" % g)
        json.dump(script_sets(nsrc, ctx.tier, filt=filt), open(fp, "w"))
        jobs.append(("fine", g, dict(SHAPES=fsp, SCRIPTS=ssp)))
        jobs.append(("macro", g, dict(SHAPES=sp, SCRIPTS=fp, EDGES=os.path.join(ctx.work, "edges_g%s.ndjson" % g))))

    def tlc_job(j):
        kind, g, env = j
        t0 = time.time()
        if kind == "fine":
            vlib.model_check(ctx, "stream", "StreamsMC", env=env, workers=2, timeout=3000, xmx="6g")
        else:
            vlib.model_check(ctx, "stream", "StreamsMacro", env=env, workers=1, timeout=3000, xmx="6g")
        return kind, g, time.time() - t0
    par = max(1, min(4, vlib.NCPU // 2))
    with concurrent.futures.ThreadPoolExecutor(max_workers=par) as ex:
        for kind, g, secs in ex.map(tlc_job, jobs):
            rep.note("TLC %s model, shape group %s (harness sources, f = with filter): %.0fs" % (kind, g, secs))
    # ---- behaviours
    behaviours = []
    for g in sorted(gname(g) for g in groups):
        edges = os.path.join(ctx.work, "edges_g%s.ndjson" % g)
        if not os.path.exists(edges):
            continue
        macro, inits, nedges = macro_graph(edges)
        walks = vlib.edge_cover({s: list(v) for s, v in macro.items()}, inits)
        for w in walks:
            cfg = w[0]["cfg"]
            behaviours.append(dict(cfg=cfg, steps=[dict(k=m["ext"]["k"], n=m["ext"]["n"], exp=norm_exp(m["obs"])) for m in w]))
        rep.note("group %s: %d macro-steps exported, %d edge-covering behaviours" % (g, nedges, len(walks)))
        os.remove(edges)
    rep.exhaustive = True
    cap = int(os.environ.get("VERIF_STREAM_CAP", "0") or 0) or (4000 if ctx.quick else 10 ** 9)
    nall = len(behaviours)
    if nall > cap:
        by_shape = collections.defaultdict(list)
        for b in behaviours:
            by_shape[b["cfg"]["shape"]].append(b)
        per = max(1, cap // len(by_shape))
        chosen, rest = [], []
        for sid in sorted(by_shape):
            gq = by_shape[sid]
            ctx.rng.shuffle(gq)
            chosen += gq[:per]
            rest += gq[per:]
        ctx.rng.shuffle(rest)
        behaviours = chosen + rest[:max(0, cap - len(chosen))]
        rep.note("replaying a seeded shape-stratified sample of %d of %d edge-covering behaviours (seed %d)" % (len(behaviours), nall, ctx.seed))
    else:
        ctx.rng.shuffle(behaviours)
    bp = os.path.join(ctx.work, "behaviours.ndjson")
    with open(bp, "w") as f:
        for i, b in enumerate(behaviours):
            sh = by_id[b["cfg"]["shape"]]
            pipe = dict(cons=sh["cons"], kind=sh["spec"]["kind"], kids=sh["spec"]["kids"], arg=sh["spec"]["arg"], root=sh["spec"]["root"])
            f.write(json.dumps(dict(b=i, cfg=b["cfg"], pipe=pipe, steps=[dict(k=s["k"], n=s["n"]) for s in b["steps"]])) + "\n")
    # ---- build
    gh = hashlib.sha1(json.dumps([[s["spec"]["id"], s["cons"], s["cpp"]] for s in cat]).encode()).hexdigest()[:16]
    gdir = os.path.join(vlib.VERIF, "_build", "stream_gen_" + gh)
    files = gen_cpp(cat, gdir)
    exe = vlib.build(ctx, "stream_driver", [os.path.join(HERE, "driver.cpp")] + files,
                     lib=["inplace_stop_token.cpp", "async_stack.cpp", "exception.cpp"], incs=[HERE], opt="-O0", recover=True,
                     extra=["-fsanitize-recover=vptr"])
    # ---- replay
    outp = os.path.join(ctx.work, "replay_out.ndjson")
    lp = os.path.join(ctx.work, "stream_log.ndjson")
    t0 = time.time()
    sums, deaths = run_replay(ctx, exe, ["--behaviours", bp, "--out", outp], len(behaviours), lp)
    rep.note("replayed %d behaviours in %.1fs" % (sum(s["ran"] for s in sums), time.time() - t0))
    got = {}
    for l in open(outp):
        try:
            r = json.loads(l)
        except Exception:
            continue
        got[r["x"]] = r
    rep.evaluations += len(got)

    def desc(b):
        sh = by_id[b["cfg"]["shape"]]["spec"]
        return sh, [(s["k"], s["n"]) for s in b["steps"]]
    # memory events are violations of C13 (the statement includes the lifetime of the cleanup operations)
    for d in deaths:
        x = d["x"]
        b = behaviours[x] if x < len(behaviours) else None
        sh, steps = desc(b) if b else ({"text": "?", "kind": []}, None)
        kinds = sorted(set(sh["kind"]))
        sig = "%s|%s:%s:%s@%s" % ("take_until" if "take_until" in kinds else "-", d["event"], d.get("asan", ""), d.get("frame", ""), ",".join(d.get("marks", [])))
        rep.violation(dict(engine="stream", event=d["event"], shape=sh["text"], kinds=kinds, cfg=(b or {}).get("cfg"), steps=steps, sig=sig,
                           asan=d.get("asan"), frame=d.get("frame"), where=d.get("where"),
                           what="%s while replaying %s: %s %s" % (d["event"], sh["text"], d.get("asan", ""), d.get("frame", "")), detail=d.get("stderr_tail")))
    tainted = set(d["x"] for d in deaths)
    rep.note("%d sanitizer / crash events in %d executions" % (len(deaths), len(tainted)))
    nmis = 0
    for x, b in enumerate(behaviours):
        r = got.get(x)
        if r is None or x in tainted:
            continue
        sh, steps = desc(b)
        if len(b["steps"]) > 1:
            rep.distinct.add(hash((sh["id"], json.dumps(b["cfg"], sort_keys=True), tuple(steps))))
        diffs, at = {}, None
        for i, (st, ob) in enumerate(zip(b["steps"], r["obs"])):
            if "error" in ob:
                diffs, at = {"drift.unreplayable": ob["error"]}, i
                break
            dd = compare(st["exp"], ob)
            if dd:
                diffs, at = dd, i
                break
        if not diffs:
            continue
        hard = {k: v for k, v in diffs.items() if k.startswith("C13.")}
        rep.drift += 1
        if rep.drift <= 3:
            rep.note("drift in %s step %s: %s" % (sh["text"], at, list(diffs.items())[:2]))
        if hard:
            nmis += 1
            kinds = sorted(set(sh["kind"]))
            rep.violation(dict(engine="stream", event="ObservationMismatch", shape=sh["text"], shape_id=sh["id"], kinds=kinds, fields=sorted(hard), step=at,
                               sig="%s|ObservationMismatch:%s%s" % ("take_until" if "take_until" in kinds else "-", ",".join(sorted(hard)),
                                                                      ":null-error" if any(rr[2] == -997 for rr in r["obs"][at]["res"]) else ""),
                               cfg=b["cfg"], steps=steps, what="%s: %s [cfg %s, steps %s, at step %s]" % (
                                   sh["text"], "; ".join(hard.values()), json.dumps(b["cfg"], sort_keys=True), steps, at)))
    # ---- code -> spec: every recorded execution validated by TLC against StreamMon
    # executions containing an operation-state event that the monitor is bound to reject (destroyed twice / while running /
    # touched after destruction) are validated one by one, up to a cap; all others in large batches
    t0 = time.time()
    execs = vlib.split_executions(lp)
    susp = [(x, lines) for x, lines in execs if x not in tainted and any(('"TouchDead"' in ln or ('"OpDtor"' in ln and ('"live":0' in ln or '"running":1' in ln))) for ln in lines)]
    susp_x = set(x for x, _ in susp)
    maxrep = int(os.environ.get("VERIF_STREAM_MAXREP", "10"))
    n, rejected = vlib.validate_batched(ctx, "stream", "StreamMon", lp, skip_x=tainted | susp_x, max_reports=maxrep)
    if susp:
        by_shape = collections.OrderedDict()
        for x, lines in susp:
            by_shape.setdefault(behaviours[x]["cfg"]["shape"] if x is not None and x < len(behaviours) else 0, []).append((x, lines))
        pick = [v[0] for v in by_shape.values()][:maxrep]
        sp2 = os.path.join(ctx.work, "suspect_log.ndjson")
        with open(sp2, "w") as f:
            for x, lines in pick:
                f.writelines(lines)
        n2, rej2 = vlib.validate_batched(ctx, "stream", "StreamMon", sp2, max_reports=maxrep, chunk_events=1)
        n += n2
        rejected += rej2
        rep.note("%d executions contain an operation-state lifetime event (destroyed twice / while running / touched after destruction); %d of them "
                 "(one per shape) validated individually against StreamMon: %d rejected" % (len(susp), len(pick), len(rej2)))
    rep.note("%d recorded executions validated against StreamMon in %.0fs" % (n, time.time() - t0))
    for rj in rejected:
        x = rj["x"]
        b = behaviours[x] if x is not None and x < len(behaviours) else None
        sh, steps = desc(b) if b else ({"text": "?", "kind": []}, None)
        nxt = rj["events"][rj["prefix"]] if rj.get("prefix") is not None and rj["prefix"] < len(rj["events"]) else None
        kinds = sorted(set(sh["kind"]))
        role = ""
        if nxt and "s" in nxt and b:
            spec = sh
            trig = set()
            for q, k in enumerate(spec["kind"], 1):
                if k == "take_until":
                    stack = [spec["kids"][q - 1][1]]
                    while stack:
                        m = stack.pop()
                        trig.add(m)
                        stack += spec["kids"][m - 1]
            role = ":role=" + ("trigger" if nxt["s"] in trig else "source")
        sig = "%s|%s%s" % ("take_until" if "take_until" in kinds else "-", ev_sig(nxt), role)
        rep.violation(dict(engine="stream", event="MonitorReject", monitor="StreamMon", shape=sh["text"], kinds=kinds, rejected_event=nxt, sig=sig,
                           cfg=(b or {}).get("cfg"), steps=steps,
                           what="StreamMon rejects the execution of %s at event %s (%s) [cfg %s, steps %s]" % (
                               sh["text"], rj.get("prefix"), json.dumps(nxt), json.dumps((b or {}).get("cfg"), sort_keys=True), steps),
                           events=rj["events"][:200]))
    ex = vlib.split_executions(lp)
    if ex:
        rep.sample(dict(kind="recorded-trace", events=[json.loads(x) for x in ex[len(ex) // 2][1][:40]]))
    for b in behaviours[:2]:
        sh, steps = desc(b)
        rep.sample(dict(kind="tlc-behaviour", shape=sh["text"], cfg=b["cfg"],
                        steps=[dict(k=s["k"], n=s["n"], expect_elems=[e["x"] for e in s["exp"]["elems"]], expect_res=s["exp"]["res"]) for s in b["steps"]]))
    if race_thread is not None:
        race_thread.join()
        if race_err:
            raise race_err[0]
        r2 = race_ctx.rep
        rep.mc += r2.mc
        rep.traces += r2.traces
        rep.events += r2.events
        rep.evaluations += r2.evaluations
        rep.distinct |= r2.distinct
        rep.drift += r2.drift
        rep.violations += r2.violations
        rep.notes += r2.notes
        for a in r2.assumptions:
            rep.assume(a)
        for r in r2.rules:
            rep.rule(r)
        for sm in r2.samples:
            rep.sample(sm)
    rep.rule("one evaluation = one TLC behaviour (pipeline shape x source scripts x predicate scripts x external step sequence: start, completion of a deferred "
             "source next()/cleanup(), stop request, scheduler item, manual next()/cleanup()) replayed on the real adaptors, the observation compared after every "
             "step and the event log validated by TLC against StreamMon; distinct_nontrivial = distinct (shape, scripts, step sequence) with more than one step")
