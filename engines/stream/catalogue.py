"""Pipeline catalogue of the stream engine: the single source of the pipeline shapes used by spec/stream/Streams.tla
(constant Shapes, via JSON) and by the generated C++ factories.

A shape is  (consumer, stream)  where consumer is 'reduce' | 'for_each' | 'manual' and stream is a nested tuple
(kind, child..., {arg}) over the stream alphabet below.  Node ids are assigned in preorder over the stream tree."""
import json, random

CONS = {"reduce": 0, "for_each": 1, "manual": 2}
LEAVES = ("src", "range", "single", "never")
UNARY = ("transform", "filter", "stop_imm", "type_erase", "via", "typed_via", "on", "delay", "adapt", "adapt2", "next_adapt", "cleanup_adapt")
A = lambda v: {"arg": v}


class Node:
    def __init__(self, kind, kids=(), arg=0):
        self.kind, self.kids, self.arg, self.id = kind, list(kids), arg, 0


def parse(t):
    if isinstance(t, str):
        t = (t,)
    arg, kids = 0, []
    for x in t[1:]:
        if isinstance(x, dict):
            arg = x.get("arg", 0)
        else:
            kids.append(parse(x))
    return Node(t[0], kids, arg)


class IllTyped(Exception):
    pass


def check(n, trigger=False, noerase=False):
    """value type of the stream: 'int' or 'none' (never_stream); raises IllTyped for pipelines that do not compile / are out of scope"""
    k = n.kind
    if k in LEAVES:
        if n.kids:
            raise IllTyped(k)
        return "none" if k == "never" else "int"
    if k == "take_until":
        if len(n.kids) != 2:
            raise IllTyped(k)
        v = check(n.kids[0], trigger, noerase)
        check(n.kids[1], True, True)      # trigger_next_receiver answers no get_scheduler query
        return v
    if k in UNARY:
        if len(n.kids) != 1:
            raise IllTyped(k)
        if k == "type_erase" and noerase:
            raise IllTyped("type_erase below stop_immediately / in trigger position does not compile (no get_scheduler on the receivers)")
        v = check(n.kids[0], trigger, noerase or k == "stop_imm")
        if v == "none" and k in ("transform", "filter", "stop_imm", "type_erase"):
            raise IllTyped("%s over never_stream" % k)
        return v
    raise IllTyped("unknown kind " + k)


def assign_ids(root):
    cnt = [0]

    def go(n):
        cnt[0] += 1
        n.id = cnt[0]
        for c in n.kids:
            go(c)
    go(root)
    return cnt[0]


def cpp(n):
    k, i = n.kind, n.id
    c = [cpp(x) for x in n.kids]
    if k == "src":
        return "Src{&w, %d}" % i
    if k == "range":
        return "unifex::range_stream{0, %d}" % n.arg
    if k == "single":
        return "unifex::single(unifex::just(%d))" % (100 * i + 1)
    if k == "never":
        return "unifex::never_stream{}"
    if k == "transform":
        return "unifex::transform_stream(%s, TFn{&w, %d})" % (c[0], i)
    if k == "filter":
        return "unifex::filter_stream(%s, Pred{&w, %d})" % (c[0], i)
    if k == "take_until":
        return "unifex::take_until(%s, %s)" % (c[0], c[1])
    if k == "stop_imm":
        return "unifex::stop_immediately<int>(%s)" % c[0]
    if k == "type_erase":
        return "unifex::type_erase<int>(%s)" % c[0]
    if k == "via":
        return "unifex::via_stream(CtxSched{&w, %d}, %s)" % (n.arg, c[0])
    if k == "typed_via":
        return "unifex::typed_via_stream(CtxSched{&w, %d}, %s)" % (n.arg, c[0])
    if k == "on":
        return "unifex::on_stream(CtxSched{&w, %d}, %s)" % (n.arg, c[0])
    if k == "delay":
        return "unifex::delay(%s, CtxSched{&w, %d}, std::chrono::milliseconds(1))" % (c[0], n.arg)
    if k == "adapt":
        return "unifex::adapt_stream(%s, AFn{&w, %d})" % (c[0], i)
    if k == "adapt2":
        return "unifex::adapt_stream(%s, AFn{&w, %d}, AFn{&w, %d})" % (c[0], i, i)
    if k == "next_adapt":
        return "unifex::next_adapt_stream(%s, AFn{&w, %d})" % (c[0], i)
    if k == "cleanup_adapt":
        return "unifex::cleanup_adapt_stream(%s, AFn{&w, %d})" % (c[0], i)
    raise ValueError(k)


def text(t):
    if isinstance(t, str):
        return t
    parts, a = [], ""
    for x in t[1:]:
        if isinstance(x, dict):
            a = "#%s" % x.get("arg", 0)
        else:
            parts.append(text(x))
    return t[0] + a + ("(" + ",".join(parts) + ")" if parts else "")


def build(sid, cons, t):
    root = parse(t)
    check(root)
    total = assign_ids(root)
    kind, kids, par, arg = [""] * total, [[] for _ in range(total)], [0] * total, [0] * total

    def go(n, p):
        kind[n.id - 1], kids[n.id - 1], par[n.id - 1], arg[n.id - 1] = n.kind, [c.id for c in n.kids], p, n.arg
        for c in n.kids:
            go(c, n.id)
    go(root, 0)
    rec = dict(id=sid, cons=cons, kind=kind, kids=kids, par=par, arg=arg, root=root.id, text="%s(%s)" % (cons, text(t)))
    return rec, cpp(root)


S = "src"


def curated(tier):
    T = []
    add = lambda cons, t: T.append((cons, t))
    R, F, M = "reduce", "for_each", "manual"
    # --- priority 1: sources and the sequential adaptors under both consumers and the manual driver
    for c in (R, F, M):
        add(c, S)
    add(R, ("range", A(0)))
    add(R, ("range", A(2)))
    add(F, ("range", A(3)))
    add(R, "single")
    add(M, "single")
    add(R, "never")
    add(M, "never")
    for c in (R, F, M):
        add(c, ("transform", S))
        add(c, ("filter", S))
    add(R, ("transform", ("range", A(2))))
    add(R, ("filter", ("range", A(3))))
    add(R, ("filter", ("transform", S)))
    add(R, ("transform", ("filter", S)))
    add(F, ("filter", ("filter", S)))
    add(R, ("transform", ("transform", S)))
    add(R, ("filter", "single"))
    # --- priority 2: take_until / stop_immediately
    for c in (R, F, M):
        add(c, ("stop_imm", S))
        add(c, ("take_until", S, S))
    add(R, ("take_until", S, "never"))
    add(R, ("take_until", ("range", A(2)), S))
    add(R, ("take_until", S, "single"))
    add(R, ("take_until", S, ("range", A(1))))
    add(M, ("take_until", S, "never"))
    add(R, ("take_until", "never", S))
    add(R, ("stop_imm", ("range", A(2))))
    add(R, ("stop_imm", ("transform", S)))
    add(R, ("transform", ("stop_imm", S)))
    add(R, ("filter", ("stop_imm", S)))
    add(M, ("stop_imm", ("filter", S)))
    add(R, ("take_until", ("transform", S), S))
    add(R, ("transform", ("take_until", S, S)))
    add(R, ("filter", ("take_until", S, S)))
    add(R, ("stop_imm", ("take_until", S, S)))
    add(M, ("stop_imm", ("take_until", S, S)))
    add(R, ("take_until", ("stop_imm", S), S))
    add(R, ("take_until", S, ("stop_imm", S)))
    add(R, ("take_until", S, ("transform", S)))
    add(R, ("take_until", ("take_until", S, S), S))
    # --- priority 3: type erasure, contexts, adapt streams
    for c in (R, M):
        add(c, ("type_erase", S))
    add(F, ("type_erase", ("range", A(2))))
    add(R, ("type_erase", ("filter", S)))
    add(R, ("filter", ("type_erase", S)))
    add(R, ("type_erase", ("stop_imm", S)))
    add(R, ("stop_imm", ("type_erase", S)))
    add(R, ("type_erase", ("take_until", S, S)))
    add(R, ("take_until", ("type_erase", S), S))
    add(R, ("type_erase", "single"))
    for c in (R, M):
        add(c, ("via", S, A(1)))
        add(c, ("on", S, A(1)))
    add(R, ("typed_via", S, A(1)))
    add(R, ("delay", S, A(1)))
    add(F, ("delay", ("range", A(2)), A(1)))
    add(R, ("transform", ("via", S, A(1))))
    add(R, ("via", ("filter", S), A(1)))
    add(R, ("on", ("transform", S), A(1)))
    add(R, ("via", ("on", S, A(1)), A(2)))
    add(R, ("stop_imm", ("via", S, A(1))))
    add(R, ("take_until", ("via", S, A(1)), S))
    add(R, ("via", ("take_until", S, S), A(1)))
    for c in (R, M):
        add(c, ("adapt", S))
    add(R, ("adapt2", S))
    add(R, ("next_adapt", S))
    add(R, ("cleanup_adapt", S))
    add(M, ("cleanup_adapt", S))
    add(R, ("adapt", ("filter", S)))
    add(R, ("stop_imm", ("adapt", S)))
    add(R, ("cleanup_adapt", ("take_until", S, S)))
    return T


def catalogue(tier, only=None):
    out = []
    for cons, t in curated(tier):
        try:
            rec, code = build(len(out) + 1, cons, t)
        except IllTyped:
            continue
        if only and not any(k in only for k in rec["kind"]):
            continue
        out.append(dict(spec=rec, cpp=code, cons=CONS[cons], dsl=t))
    return out


if __name__ == "__main__":
    import sys
    for s in catalogue(sys.argv[1] if len(sys.argv) > 1 else "quick"):
        print(s["spec"]["id"], s["spec"]["text"], "|", s["cpp"][:140])
