// Shared part of the C18 driver (engine `erase`): address-tracked live set, counting tagged allocator, CPOs, tracked payload
// and scheduler types, wrapper instantiations and the family interface.  Included by driver.cpp and driver_sched.cpp
// (two translation units only to halve the build time).
#pragma once
#include "vrt.hpp"

#include <unifex/any_object.hpp>
#include <unifex/any_ref.hpp>
#include <unifex/any_unique.hpp>
#include <unifex/overload.hpp>
#include <unifex/receiver_concepts.hpp>
#include <unifex/scheduler_concepts.hpp>
#include <unifex/sender_concepts.hpp>
#include <unifex/this.hpp>
#include <unifex/type_index.hpp>

#include <map>
#include <new>
#include <string>

using unifex::this_;

// ------------------------------------------------------------------------------------------------ registry
struct Tagged { int code; };

struct Registry {
  struct Obj { int id; size_t size; };
  struct Blk { int id; size_t bytes; int tag; };
  std::map<uintptr_t, Obj> live;
  std::map<uintptr_t, Blk> blocks;
  struct Foot { uintptr_t a = 0; size_t n = 0; } foot[4];
  int nextId = 1, nextBlk = 1;
  long ctor = 0, move = 0, copy = 0, dtor = 0, alloc = 0, free_ = 0;
  bool armCtor = false, armMove = false, armCopy = false;
  int lastSched = 0, lastCall = 0;
  void reset() { *this = Registry(); }
  const Obj* overlapping(uintptr_t a, size_t n) const {
    for (auto& [b, o] : live) if (a < b + o.size && b < a + n) return &o;
    return nullptr;
  }
  int idAt(const void* p) const { auto it = live.find((uintptr_t)p); return it == live.end() ? 0 : it->second.id; }
  // "w",k : inside the footprint of wrapper k;  "b",n : inside heap block n;  "x",0 : elsewhere
  std::pair<char, int> loc(uintptr_t a) const {
    for (int w = 1; w <= 3; ++w) if (foot[w].n && a >= foot[w].a && a < foot[w].a + foot[w].n) return {'w', w};
    for (auto& [b, k] : blocks) if (a >= b && a < b + k.bytes) return {'b', k.id};
    return {'x', 0};
  }
  int liveIn(int w) const { int c = 0; for (auto& [a, o] : live) if (loc(a) == std::make_pair('w', w)) ++c; return c; }
};
inline Registry G;

inline int reg_new(const char* how, void* p, size_t sz, size_t al, bool nt, const char* kd, int val, const void* from) {
  uintptr_t a = (uintptr_t)p;
  const Registry::Obj* ov = G.overlapping(a, sz);
  int over = ov ? ov->id : 0;
  int fromId = from ? G.idAt(from) : 0;
  int id = G.nextId++;
  auto l = G.loc(a);
  if (over) G.live.erase(a);
  G.live[a] = {id, sz};
  if (how[0] == 'C' && how[1] == 't') ++G.ctor; else if (how[0] == 'M') ++G.move; else ++G.copy;
  vrt::ev("{\"e\":\"%s\",\"id\":%d,\"from\":%d,\"val\":%d,\"lk\":\"%c\",\"ln\":%d,\"sz\":%zu,\"al\":%zu,\"nt\":%d,\"kd\":\"%s\",\"over\":%d}",
          how, id, fromId, val, l.first, l.second, sz, al, nt ? 1 : 0, kd, over);
  return id;
}
inline void reg_dtor(void* p) {
  auto it = G.live.find((uintptr_t)p);
  int id = 0;
  if (it != G.live.end()) { id = it->second.id; G.live.erase(it); }
  ++G.dtor;
  vrt::ev("{\"e\":\"Dtor\",\"id\":%d}", id);   // id 0: destructor run on an address that holds no live tracked object
}
inline void* reg_alloc(size_t bytes, size_t al, int tag) {
  void* p = ::operator new(bytes, std::align_val_t(al < 16 ? 16 : al));
  int id = G.nextBlk++;
  G.blocks[(uintptr_t)p] = {id, bytes, tag};
  ++G.alloc;
  vrt::ev("{\"e\":\"Alloc\",\"blk\":%d,\"tag\":%d,\"bytes\":%zu}", id, tag, bytes);
  return p;
}
inline void reg_free(void* p, size_t bytes, size_t al, int tag) {
  auto it = G.blocks.find((uintptr_t)p);
  int id = 0;
  if (it != G.blocks.end()) { id = it->second.id; G.blocks.erase(it); }
  ++G.free_;
  vrt::ev("{\"e\":\"Free\",\"blk\":%d,\"tag\":%d,\"bytes\":%zu}", id, tag, bytes);
  ::operator delete(p, std::align_val_t(al < 16 ? 16 : al));   // an unknown / already freed block: ASan reports it
}

// counting allocator carrying a tag; rebinding keeps the tag
template <typename T>
struct CA {
  using value_type = T;
  int tag;
  CA() noexcept : tag(0) {}
  explicit CA(int t) noexcept : tag(t) {}
  template <typename U> CA(const CA<U>& o) noexcept : tag(o.tag) {}
  T* allocate(size_t n) { return static_cast<T*>(reg_alloc(n * sizeof(T), alignof(T), tag)); }
  void deallocate(T* p, size_t n) noexcept { reg_free(p, n * sizeof(T), alignof(T), tag); }
  template <typename U> bool operator==(const CA<U>& o) const noexcept { return tag == o.tag; }
  template <typename U> bool operator!=(const CA<U>& o) const noexcept { return tag != o.tag; }
};

// ------------------------------------------------------------------------------------------------ CPOs
inline constexpr struct get_code_t {
  using type_erased_signature_t = int(const this_&) noexcept;
  template <typename T>
  auto operator()(T&& t) const noexcept(unifex::is_nothrow_tag_invocable_v<get_code_t, T>) -> unifex::tag_invoke_result_t<get_code_t, T> {
    return unifex::tag_invoke(*this, (T&&)t);
  }
} get_code{};
inline constexpr struct add_t {
  using type_erased_signature_t = int(this_&, int);
  template <typename T>
  auto operator()(T& t, int n) const -> unifex::tag_invoke_result_t<add_t, T&, int> { return unifex::tag_invoke(*this, t, n); }
} add{};
inline constexpr struct snd_t {   // the type-erased object is the *second* argument
  using type_erased_signature_t = int(int, const this_&);
  template <typename T>
  auto operator()(int x, T&& t) const -> unifex::tag_invoke_result_t<snd_t, int, T> { return unifex::tag_invoke(*this, x, (T&&)t); }
} snd{};
inline constexpr struct scale_t {  // no default signature: used through unifex::overload
  template <typename T>
  auto operator()(T&& t, int f) const -> unifex::tag_invoke_result_t<scale_t, T, int> { return unifex::tag_invoke(*this, (T&&)t, f); }
} scale{};
inline constexpr struct thr_t {
  using type_erased_signature_t = void(this_&);
  template <typename T>
  auto operator()(T& t) const -> unifex::tag_invoke_result_t<thr_t, T&> { return unifex::tag_invoke(*this, t); }
} thr{};

// ------------------------------------------------------------------------------------------------ payloads
enum Kind { SN, EX, ST, LG, OA };
inline const char* kname(int k) { static const char* n[] = {"SN", "EX", "ST", "LG", "OA"}; return n[k]; }
template <int K> struct Pad { char pad[K == EX ? 8 : K == LG ? 12 : 1]; };

template <int K>
struct alignas(K == OA ? 16 : 4) P {
  int val, acc;
  bool moved;
  Pad<K> pad;
  static constexpr bool nt = (K != ST);
  explicit P(int v) : val(v), acc(0), moved(false) {
    if (G.armCtor) { G.armCtor = false; vrt::ev("{\"e\":\"Throw\",\"code\":%d}", 1000 + v); throw Tagged{1000 + v}; }
    reg_new("Ctor", this, sizeof(P), alignof(P), nt, kname(K), v, nullptr);
  }
  P(P&& o) noexcept(K != ST) : val(o.val), acc(o.acc), moved(o.moved) {
    if constexpr (K == ST) {
      if (G.armMove) { G.armMove = false; vrt::ev("{\"e\":\"Throw\",\"code\":%d}", 1000 + o.val); throw Tagged{1000 + o.val}; }
    }
    reg_new("Move", this, sizeof(P), alignof(P), nt, kname(K), val, &o);
    o.moved = true;
  }
  P(const P& o) : val(o.val), acc(o.acc), moved(o.moved) {   // not noexcept; throws when the fault is armed
    if (G.armCopy) { G.armCopy = false; vrt::ev("{\"e\":\"Throw\",\"code\":%d}", 1000 + o.val); throw Tagged{1000 + o.val}; }
    reg_new("Copy", this, sizeof(P), alignof(P), nt, kname(K), val, &o);
  }
  P& operator=(const P&) = delete;
  ~P() { reg_dtor(this); }
  // the type's number is part of every result: a CPO dispatched through the vtable of another type is visible
  int code() const noexcept { return (K + 1) * 1000 + val * 10 + acc + (moved ? 500 : 0); }
  void called(const char* cpo) const noexcept { vrt::ev("{\"e\":\"Call\",\"id\":%d,\"cpo\":\"%s\"}", G.idAt(this), cpo); }
  friend int tag_invoke(get_code_t, const P& p) noexcept { p.called("get"); return p.code(); }
  friend int tag_invoke(add_t, P& p, int n) { p.called("add"); p.acc = n; return p.code(); }
  friend int tag_invoke(snd_t, int x, const P& p) { p.called("snd"); return p.code() + 10000 * x; }
  friend int tag_invoke(scale_t, const P& p, int f) { p.called("ovl"); return p.code() + 100000 * f; }
  friend void tag_invoke(thr_t, P& p) { p.called("thr"); vrt::ev("{\"e\":\"Throw\",\"code\":%d}", 20000 + p.code()); throw Tagged{20000 + p.code()}; }
  // any_unique's allocator-less constructors use plain new / delete: count them as allocator tag 9
  static void* operator new(size_t n) { return reg_alloc(n, alignof(P), 9); }
  static void* operator new(size_t, void* p) noexcept { return p; }
  static void operator delete(void* p, size_t n) { reg_free(p, n, alignof(P), 9); }
  static void operator delete(void*, void*) noexcept {}
};
static_assert(sizeof(P<SN>) == 12 && sizeof(P<EX>) == 20 && sizeof(P<ST>) == 12 && sizeof(P<LG>) == 24 && sizeof(P<OA>) == 16);
static_assert(std::is_nothrow_move_constructible_v<P<SN>> && !std::is_nothrow_move_constructible_v<P<ST>>);

// tracked schedulers: two types, compared by key; schedule() completes inline and logs who was reached
template <int I>
struct TSender {
  int code;
  template <template <class...> class V, template <class...> class T> using value_types = V<T<>>;
  template <template <class...> class V> using error_types = V<std::exception_ptr>;
  static constexpr bool sends_done = false;
  template <typename R>
  struct Op {
    int code; R r;
    void start() noexcept {
      G.lastSched = code;
      vrt::ev("{\"e\":\"Sched\",\"ty\":%d,\"code\":%d}", I, code);
      unifex::set_value(std::move(r));
    }
  };
  template <typename R>
  Op<unifex::remove_cvref_t<R>> connect(R&& r) const { return Op<unifex::remove_cvref_t<R>>{code, (R&&)r}; }
};
template <int I>
struct TS {
  int val, acc; bool moved;
  static const char* kd() { return I == 1 ? "S1" : "S2"; }
  explicit TS(int key) : val(key), acc(0), moved(false) { reg_new("Ctor", this, sizeof(TS), alignof(TS), true, kd(), key, nullptr); }
  TS(TS&& o) noexcept : val(o.val), acc(o.acc), moved(o.moved) { reg_new("Move", this, sizeof(TS), alignof(TS), true, kd(), val, &o); o.moved = true; }
  TS(const TS& o) noexcept : val(o.val), acc(o.acc), moved(o.moved) { reg_new("Copy", this, sizeof(TS), alignof(TS), true, kd(), val, &o); }
  TS& operator=(const TS&) = delete;
  ~TS() { reg_dtor(this); }
  int code() const noexcept { return (5 + I) * 1000 + val * 10 + acc + (moved ? 500 : 0); }
  TSender<I> schedule() const noexcept { return TSender<I>{code()}; }
  friend bool operator==(const TS& a, const TS& b) noexcept { return a.val == b.val; }
  friend bool operator!=(const TS& a, const TS& b) noexcept { return a.val != b.val; }
  static void* operator new(size_t n) { return reg_alloc(n, alignof(TS), 9); }
  static void* operator new(size_t, void* p) noexcept { return p; }
  static void operator delete(void* p, size_t n) { reg_free(p, n, alignof(TS), 9); }
  static void operator delete(void*, void*) noexcept {}
};
struct Rcv {
  int* got;
  void set_value() && noexcept { *got = 1; }
  void set_error(std::exception_ptr) && noexcept { *got = -1; }
  void set_done() && noexcept { *got = -2; }
};

// ------------------------------------------------------------------------------------------------ wrapper types
constexpr size_t BufSize = 20, BufAlign = 8;
template <bool R>
using AO = unifex::basic_any_object_t<BufSize, BufAlign, R, CA<std::byte>, get_code, add, snd, unifex::overload<int(const this_&, int)>(scale), thr>;
// any_unique's allocator-aware constructor cannot be instantiated for CPO signatures taking `const this_&`
// (_any_unique::_concrete_impl::base only has the non-const get_wrapped_object): use non-const signatures there.
using AU = unifex::any_unique_t<unifex::overload<int(this_&) noexcept>(get_code), add, unifex::overload<int(int, this_&)>(snd),
                                unifex::overload<int(this_&, int)>(scale), thr>;                  // indirect vtable
using AU2 = unifex::any_unique_t<unifex::overload<int(this_&) noexcept>(get_code), add>;          // inline vtable (<= 2 CPOs)
using AR = unifex::any_ref_t<get_code, add, snd, unifex::overload<int(const this_&, int)>(scale), thr>;   // indirect vtable
using AR2 = unifex::any_ref_t<get_code, add>;                                                            // inline vtable (<= 3 CPOs)
// CPOs that all take `const this_&`: only then is `wrapper = const_lvalue` the value-assignment operator=(T&&) with
// T = const X& (with a non-const CPO in the list that overload is not viable and the assignment goes through a temporary wrapper)
template <bool R>
using AOc = unifex::basic_any_object_t<BufSize, BufAlign, R, CA<std::byte>, get_code, snd, unifex::overload<int(const this_&, int)>(scale)>;
template <typename W> inline constexpr bool is_const_only = std::is_same_v<W, AOc<true>> || std::is_same_v<W, AOc<false>>;

struct Op {
  std::string k, kind, via, fault, cpo;
  int w = 0, s = 0, tag = 0, val = 0;
};
struct Out { int exc = 0, res = 0; };

struct Fam {
  virtual ~Fam() {}
  virtual void setup() {}
  virtual Out step(const Op&) = 0;
  virtual bool exists(int w) = 0;
  virtual int probe(int w) = 0;      // get_code through the wrapper, -1 if the family has no such CPO
  virtual void destroyAll() = 0;
  virtual void teardown() {}
  virtual int extId(int) { return 0; }
};

template <typename F>
inline Out guarded(F&& f) {
  Out o;
  try { o.res = f(); } catch (const Tagged& t) { o.exc = t.code; } catch (...) { o.exc = -1; }
  G.armCtor = G.armMove = G.armCopy = false;
  return o;
}

template <typename W>
struct Slots {
  W* p[4] = {};
  void* mem[4] = {};
  void* raw(int w) {
    mem[w] = ::operator new(sizeof(W), std::align_val_t(alignof(W)));
    G.foot[w] = {(uintptr_t)mem[w], sizeof(W)};
    return mem[w];
  }
  void unraw(int w) {
    ::operator delete(mem[w], std::align_val_t(alignof(W)));
    mem[w] = nullptr; p[w] = nullptr; G.foot[w] = {};
  }
  template <typename Mk>
  int make(int w, Mk&& mk) {   // placement-constructs; on exception the raw memory is released and the exception propagates
    void* m = raw(w);
    try { p[w] = mk(m); } catch (...) { unraw(w); throw; }
    return 0;
  }
  void destroy(int w) { p[w]->~W(); unraw(w); }
  void destroyAll() { for (int w = 1; w <= 3; ++w) if (p[w]) destroy(w); }
};

template <typename T>
struct Ext {
  T* p = nullptr;
  void make(int v) { void* m = ::operator new(sizeof(T), std::align_val_t(alignof(T))); p = ::new (m) T(v); }
  void kill() { if (p) { p->~T(); ::operator delete((void*)p, std::align_val_t(alignof(T))); p = nullptr; } }
};


std::unique_ptr<Fam> makeSchedFam(const std::string& fam);   // driver_sched.cpp
