"""Engine `erase` (C18): spec/erase/AnyObject.tla <-> include/unifex/{any_object,any_unique,any_ref,any_scheduler}.hpp.

 1. TLC model-checks AnyObject (six wrapper families, operation histories up to MaxOps over 3 wrappers): invariants
    NoBad / NoLeak / StorageDocumented / Destructible / AbsAgrees / OpMovesOnly and the action properties
    HeapNotMoved / AllocBalanced / ExceptionsPropagate; every explored transition is exported with the expected observation.
 2. edge-covering operation histories (+ seeded random walks) are replayed on the real wrappers by driver.cpp
    (ASan/UBSan; tracked payload types, counting tagged allocator, address-tracked live set); the observation after every
    step is compared with the specification's (difference = drift, not an alarm).
 3. the event log of every execution is validated by TLC against the monitor EraseMon (alarm = rejection, twice).
 4. memory events (ASan/UBSan/terminate/crash) are alarms: the statement is about lifetime.
 4b. type_erased_stream: ErasedStream.tla (wrapped stream and erased wrapper in lock step, wrapper steps as in the header) ->
    consumer scripts -> driver_tes.cpp runs each on a harness stream directly and through type_erase<Val>() -> ErasedStreamMon.
 5. the seeded design errors of AnyObject.tla (Bug constant) must violate the invariants (the invariants are not vacuous)."""
import collections, glob, json, os, shutil, sys, threading, time

sys.path.insert(0, os.path.join(os.path.dirname(__file__), "..", "..", "tools"))
import vlib

HERE = os.path.dirname(os.path.abspath(__file__))
BUGS = ["noInvalid", "guardOnRequire", "srcNotNulled", "noDestroyOnAssign"]
GROUPS = [("objT", "AnyObjectMC_objT.cfg"), ("objF", "AnyObjectMC_objF.cfg"), ("uniq", "AnyObjectMC_uniq.cfg"),
          ("refs", "AnyObjectMC_refs.cfg")]


def read_edge_files(prefix):
    files = sorted(glob.glob(prefix + ".*"), key=lambda p: int(p.rsplit(".", 1)[1]))
    adj = collections.defaultdict(list)
    inits = {}
    n = 0
    for f in files:
        for l in open(f):
            l = l.strip()
            if not l:
                continue
            e = json.loads(l)
            s, t = tuple(e["s"]), tuple(e["t"])
            if e["fam"] not in inits:
                inits[e["fam"]] = s          # breadth-first exploration: the first edge of a family leaves its initial state
            adj[s].append((t, l))          # keep the text: the deep graphs have several 10^5 edges
            n += 1
        os.remove(f)
    return adj, inits, n


def cover(adj, inits, max_len):
    """Edge-covering set of bounded walks: shortest path to the source of an uncovered edge, the edge, then a greedy
    extension over uncovered edges while the walk is shorter than max_len."""
    out = []
    covered = set()
    for fam, i in sorted(inits.items()):
        parent = {i: None}
        order = [i]
        q = collections.deque([i])
        while q:
            u = q.popleft()
            for k, (v, e) in enumerate(adj.get(u, ())):
                if v not in parent:
                    parent[v] = (u, k)
                    order.append(v)
                    q.append(v)
        for u0 in order:
            for k0 in range(len(adj.get(u0, ()))):
                if (u0, k0) in covered:
                    continue
                pre = []
                u = u0
                while parent[u] is not None:
                    pre.append(parent[u])
                    u = parent[u][0]
                pre.reverse()
                walk = pre + [(u0, k0)]
                covered.add((u0, k0))
                u = adj[u0][k0][0]
                while len(walk) < max_len:
                    nxt = [k for k in range(len(adj.get(u, ()))) if (u, k) not in covered]
                    if not nxt:
                        break
                    k = nxt[0]
                    covered.add((u, k))
                    walk.append((u, k))
                    u = adj[u][k][0]
                out.append((fam, [adj[a][k][1] for (a, k) in walk]))
    return out


def rand_walks(adj, inits, n, rng, max_len):
    out = []
    fams = sorted(inits)
    for j in range(n):
        fam = fams[j % len(fams)]
        u = inits[fam]
        walk = []
        while adj.get(u) and len(walk) < max_len:
            v, e = rng.choice(adj[u])
            walk.append(e)
            u = v
        if walk:
            out.append((fam, walk))
    return out


def run(ctx):
    rep = ctx.rep
    rep.assume("sequential use of the wrappers (no concurrent access to one wrapper); <= 3 wrappers, operation histories of bounded "
               "length; payload types: five size/alignment/nothrow-move classes and two scheduler types whose own special members "
               "and CPO customisations are correct and give the strong guarantee when a move constructor throws")
    rep.assume("basic_any_object is instantiated with InlineSize 20 / InlineAlignment 8 and a counting allocator (the defaults of "
               "any_object differ only in these template arguments); any_unique is driven with non-const CPO signatures; value assignment "
               "from a const lvalue is exercised on a basic_any_object whose CPOs all take const this_& (otherwise that overload is not viable)")
    suffix = "" if ctx.quick else "_deep"
    # ---- 1. model checking + edge export (one TLC process per family group, in parallel)
    results = {}

    cache = os.environ.get("VERIF_ERASE_EDGE_CACHE")      # development aid (self-test runs): reuse the exported edges

    def mc(name, cfg):
        try:
            ep = os.path.join(ctx.work, "edges_%s" % name)
            if cache and glob.glob(os.path.join(cache, "edges_%s%s.*" % (name, suffix))):
                for f in glob.glob(os.path.join(cache, "edges_%s%s.*" % (name, suffix))):
                    shutil.copy(f, ep + "." + f.rsplit(".", 1)[1])
                results[name] = (None, ep)
                return
            results[name] = (vlib.model_check(ctx, "erase", "AnyObjectMC", cfg=cfg.replace(".cfg", suffix + ".cfg"), env={"EDGES": ep},
                                              workers=1, timeout=2400, xmx="3g"), ep)
            if cache:
                os.makedirs(cache, exist_ok=True)
                for f in glob.glob(ep + ".*"):
                    shutil.copy(f, os.path.join(cache, "edges_%s%s.%s" % (name, suffix, f.rsplit(".", 1)[1])))
        except Exception as ex:          # noqa
            results[name] = ex

    bugres = {}

    def mcbugs():
        for bug in BUGS:
            mcbug(bug)

    built = {}

    def build():         # the driver is compiled while TLC runs
        try:
            built["exe"] = vlib.build(ctx, "erase_driver", [os.path.join(HERE, "driver.cpp"), os.path.join(HERE, "driver_sched.cpp")],
                                      lib=["inplace_stop_token.cpp", "async_stack.cpp", "exception.cpp"], opt="-O0", incs=[HERE])
        except Exception as ex:          # noqa
            built["exe"] = ex

    def mcbug(bug):
        try:
            bugres[bug] = vlib.tlc(os.path.join(ctx.work, "tlc"), os.path.join(vlib.VERIF, "spec", "erase"), "AnyObjectMC", cfg="AnyObjectBug_%s.cfg" % bug,
                                   env={"EDGES": os.path.join(ctx.work, "bug_edges")}, workers=1, timeout=900, xmx="2g")
        except Exception as ex:          # noqa
            bugres[bug] = ex

    tes = {}

    def tes_mc():        # type_erased_stream: ErasedStream.tla (two instances in lock step) + its seeded design error
        try:
            ep = os.path.join(ctx.work, "edges_tes")
            tes["mc"] = vlib.model_check(ctx, "erase", "ErasedStreamMC", cfg="ErasedStreamMC%s.cfg" % suffix, env={"EDGES": ep}, workers=1, timeout=1500, xmx="2g")
            tes["edges"] = ep
            tes["bug"] = vlib.tlc(os.path.join(ctx.work, "tlc"), os.path.join(vlib.VERIF, "spec", "erase"), "ErasedStreamMC", cfg="ErasedStreamBug_fwdRef.cfg",
                                  env={"EDGES": os.path.join(ctx.work, "bug_edges_tes")}, workers=1, timeout=600, xmx="2g")
        except Exception as ex:          # noqa
            tes["err"] = ex

    def tes_build():
        try:
            tes["exe"] = vlib.build(ctx, "erase_tes_driver", [os.path.join(HERE, "driver_tes.cpp")],
                                    lib=["inplace_stop_token.cpp", "async_stack.cpp", "exception.cpp"], opt="-O0")
        except Exception as ex:          # noqa
            tes["err"] = ex

    t0 = time.time()
    ths = [threading.Thread(target=mc, args=g) for g in GROUPS] + [threading.Thread(target=mcbugs), threading.Thread(target=build),
                                                                     threading.Thread(target=tes_mc), threading.Thread(target=tes_build)]
    for t in ths:
        t.start()
    for t in ths:
        t.join()
    for name, r in results.items():
        if isinstance(r, Exception):
            raise r
    rep.exhaustive = True
    if cache and any(r[0] is None for r in results.values()):
        rep.note("VERIF_ERASE_EDGE_CACHE: exported edges reused, TLC not re-run for the cached groups")
    rep.note("TLC: %d family groups in %.0fs" % (len(GROUPS), time.time() - t0))
    # ---- 2. behaviours
    behaviours = []
    cap = int(os.environ.get("VERIF_ERASE_CAP", "0") or 0) or (3000 if ctx.quick else 60000)
    max_len = 12
    nedges = 0
    for name, _ in GROUPS:
        adj, inits, n = read_edge_files(results[name][1])
        nedges += n
        walks = cover(adj, inits, max_len)
        walks += rand_walks(adj, inits, 200 if ctx.quick else 3000, ctx.rng, 12 if ctx.quick else 16)
        if len(walks) > cap:                 # seeded sample per group before the edges are parsed (TLC explored all)
            ctx.rng.shuffle(walks)
            walks = walks[:cap]
        for fam, w in walks:
            w = [json.loads(l) for l in w]
            # variant 1: any_unique / any_ref with two CPOs (inline vtable); basic_any_object with const-only CPOs - the only
            # configuration in which `wrapper = const_lvalue` is the value-assignment operator (copy-constructs in place)
            if fam in ("objT", "objF"):
                copy_assign = any(e["op"]["k"] == "assign" and e["op"]["via"] == "copy" for e in w)
                variants = [1] if copy_assign else ([ctx.rng.randrange(2)] if ctx.quick else [0, 1])
            else:
                variants = [0, 1] if fam in ("uniq", "ref") else [0]
            for v in variants:
                if v == 1 and ctx.quick and fam in ("uniq", "ref") and ctx.rng.random() < 0.5:
                    continue
                behaviours.append(dict(fam=fam, variant=v, steps=[dict(op=e["op"], exp=e["obs"]) for e in w]))
        del adj
    nall = len(behaviours)
    if nall > cap:
        groups = collections.defaultdict(list)
        for b in behaviours:
            groups[b["fam"]].append(b)
        per = cap // len(groups)
        chosen = []
        for fam in sorted(groups):
            g = groups[fam]
            ctx.rng.shuffle(g)
            chosen += g[:per]
        behaviours = chosen
        rep.note("replaying a seeded family-stratified sample of %d of %d edge-covering behaviours (seed %d); TLC explored all" % (len(behaviours), nall, ctx.seed))
    bp = os.path.join(ctx.work, "behaviours.ndjson")
    with open(bp, "w") as f:
        for i, b in enumerate(behaviours):
            f.write(json.dumps(dict(b=i, **b)) + "\n")
    rep.note("edges exported %d, behaviours %d (operation histories of <= %d steps, random walks longer)" % (nedges, len(behaviours), max_len))
    if behaviours:
        b = behaviours[len(behaviours) // 3]
        rep.sample(dict(kind="tlc-behaviour", family=b["fam"], steps=[dict(op={k: v for k, v in s["op"].items() if v not in ("", 0, "none")},
                                                                         expect=dict(exc=s["exp"]["exc"], res=s["exp"]["res"], wrappers=[w["t"] for w in s["exp"]["ws"]]))
                                                                    for s in b["steps"]]))
    # ---- 3. real code
    exe = built["exe"]
    if isinstance(exe, Exception):
        raise exe
    nproc = max(1, min(4, vlib.NCPU))
    n = len(behaviours)
    slices = [(i * n // nproc, (i + 1) * n // nproc) for i in range(nproc)]
    outs = {}

    def replay(i, lo, hi):
        lp = os.path.join(ctx.work, "log_%d.ndjson" % i)
        op = os.path.join(ctx.work, "out_%d.ndjson" % i)
        # run_batches drives [--from k --to total]; a slice is expressed through a private behaviours file
        sp = os.path.join(ctx.work, "beh_%d.ndjson" % i)
        with open(sp, "w") as f, open(bp) as src:
            for j, l in enumerate(src):
                if lo <= j < hi:
                    f.write(l)
        try:
            sums, deaths = vlib.run_batches(ctx, exe, ["--behaviours", sp, "--out", op], hi - lo, lp, timeout=2400, max_deaths=10)
            outs[i] = (sums, deaths, lp, op, lo)
        except Exception as ex:      # noqa
            outs[i] = ex

    t0 = time.time()
    ths = [threading.Thread(target=replay, args=(i, lo, hi)) for i, (lo, hi) in enumerate(slices) if hi > lo]
    for t in ths:
        t.start()
    for t in ths:
        t.join()
    ran = 0
    for i in sorted(outs):
        if isinstance(outs[i], Exception):
            raise outs[i]
        sums, deaths, lp, op, lo = outs[i]
        ran += sum(s["ran"] for s in sums)
        for s in sums:
            rep.drift += s["drift"]
            if s.get("first_drift") and rep.drift <= 3 + s["drift"]:
                rep.note("drift: %s" % s["first_drift"])
        for d in deaths:
            x = lo + d["x"]
            b = behaviours[x] if x < len(behaviours) else None
            ops = [opstr(s["op"]) for s in b["steps"]] if b else None
            rep.violation(dict(engine="erase", event=d["event"], family=(b or {}).get("fam"), variant=(b or {}).get("variant"), ops=ops,
                               asan=d.get("asan"), frame=d.get("frame"), where=d.get("where"),
                               what="%s while replaying %s %s: %s %s" % (d["event"], (b or {}).get("fam"), ops, d.get("asan", ""), d.get("frame", "")),
                               detail=d.get("stderr_tail")))
    rep.evaluations += ran
    rep.note("replayed %d operation histories on the real wrappers in %.0fs (%d processes)" % (ran, time.time() - t0, len(ths)))
    for b in behaviours:
        if len(b["steps"]) > 1:
            rep.distinct.add(hash((b["fam"], b["variant"], tuple(opstr(s["op"]) for s in b["steps"]))))
    # ---- 4. code -> spec: every recorded execution against the monitor (parallel TLC validations)
    vres = {}

    def validate(i):
        try:
            vres[i] = vlib.validate_batched(ctx, "erase", "EraseMon", outs[i][2], chunk_events=60000)
        except Exception as ex:      # noqa
            vres[i] = ex

    def tes_run():
        try:
            if "err" in tes:
                raise tes["err"]
            if tes["bug"]["kind"] != "invariant":
                raise vlib.Broken("seeded design error fwdRef is not detected by the invariants of ErasedStream.tla (%s)" % tes["bug"]["kind"])
            scripts, nedges_t, ncfg = tes_scripts(tes["edges"], ctx.rng, 100 if ctx.quick else 4000)
            tcap = 900 if ctx.quick else 20000
            if len(scripts) > tcap:
                ctx.rng.shuffle(scripts)
                scripts = scripts[:tcap]
            sp = os.path.join(ctx.work, "tes_scripts.ndjson")
            with open(sp, "w") as f:
                for i, b in enumerate(scripts):
                    f.write(json.dumps(dict(b=i, typed=i % 2, **b)) + "\n")
            lp = os.path.join(ctx.work, "tes_log.ndjson")
            sums, deaths = vlib.run_batches(ctx, tes["exe"], ["--behaviours", sp], len(scripts), lp, timeout=1500, max_deaths=10)
            nv, rejected = vlib.validate_batched(ctx, "erase", "ErasedStreamMon", lp, chunk_events=60000)
            tes["res"] = (scripts, nedges_t, ncfg, sums, deaths, nv, rejected, lp)
        except Exception as ex:          # noqa
            tes["err"] = ex

    t0 = time.time()
    ths = [threading.Thread(target=validate, args=(i,)) for i in sorted(outs)] + [threading.Thread(target=tes_run)]
    for t in ths:
        t.start()
    for t in ths:
        t.join()
    nval = 0
    for i in sorted(vres):
        if isinstance(vres[i], Exception):
            raise vres[i]
        nv, rejected = vres[i]
        nval += nv
        lo = outs[i][4]
        for rj in rejected:
            x = lo + rj["x"] if rj.get("x") is not None else None
            b = behaviours[x] if x is not None and x < len(behaviours) else None
            pre = rj.get("prefix") or 0
            nxt = rj["events"][pre] if pre < len(rj["events"]) else None
            cur = None
            for e in rj["events"][:pre + 1]:
                if e.get("e") == "Op":
                    cur = e
            ops = [opstr(s["op"]) for s in b["steps"]] if b else None
            rep.violation(dict(engine="erase", event="MonitorReject", monitor="EraseMon", family=(b or {}).get("fam"), variant=(b or {}).get("variant"),
                               ops=ops, rejected_event=nxt, in_op=(cur or {}).get("k"), op_kind=(cur or {}).get("kind"),
                               what="EraseMon rejects the execution of %s %s at event %s %s (inside %s)" % (
                                   (b or {}).get("fam"), ops, pre, json.dumps(nxt), json.dumps(cur)),
                               events=rj["events"][:160]))
    rep.note("%d recorded executions validated against EraseMon in %.0fs" % (nval, time.time() - t0))
    ex = vlib.split_executions(outs[sorted(outs)[0]][2]) if outs else []
    if ex:
        rep.sample(dict(kind="recorded-trace", events=[json.loads(x) for x in ex[len(ex) // 2][1][:40]]))
    # ---- 4b. type_erased_stream
    if "err" in tes:
        raise tes["err"]
    scripts, nedges_t, ncfg, sums, deaths, nv, rejected, lp = tes["res"]

    def sdesc(b):
        c = b["cfg"]
        return "stream(n=%d,%s,%s,end=%s,cleanup=%s,%s,token=%s) script %s" % (
            c["n"], "value stored in the operation" if c["kind"] == "opval" else "temporary value", c["tm"], c["end"], c["cl"],
            "reacts to stop" if c["reacts"] else "ignores stop", c["tok"], "".join(b["script"]))
    rep.evaluations += 2 * sum(s_["ran"] for s_ in sums)
    for s_ in sums:
        rep.drift += s_["drift"]
        if s_.get("first_drift"):
            rep.note("type_erased_stream drift: %s" % s_["first_drift"])
    for b in scripts:
        rep.distinct.add(hash(("tes", json.dumps(b["cfg"], sort_keys=True), tuple(b["script"]))))
    for d in deaths:
        b = scripts[d["x"]] if d["x"] < len(scripts) else None
        rep.violation(dict(engine="erase", part="type_erased_stream", event=d["event"], stream=(b or {}).get("cfg"), script=(b or {}).get("script"),
                           asan=d.get("asan"), frame=d.get("frame"), where=d.get("where"),
                           what="%s while iterating type_erase<Val>(%s): %s %s" % (d["event"], sdesc(b) if b else "?", d.get("asan", ""), d.get("frame", "")),
                           detail=d.get("stderr_tail")))
    for rj in rejected:
        b = scripts[rj["x"]] if rj.get("x") is not None and rj["x"] < len(scripts) else None
        pre = rj.get("prefix") or 0
        nxt = rj["events"][pre] if pre < len(rj["events"]) else None
        mode = None
        for e in rj["events"][:pre + 1]:
            if e.get("e") == "Run":
                mode = e.get("mode")
        rep.violation(dict(engine="erase", part="type_erased_stream", event="MonitorReject", monitor="ErasedStreamMon", stream=(b or {}).get("cfg"),
                           script=(b or {}).get("script"), run=mode, rejected_event=nxt,
                           what="ErasedStreamMon rejects the %s run of %s at event %s %s" % (mode, sdesc(b) if b else "?", pre, json.dumps(nxt)),
                           events=rj["events"][:160]))
    rep.note("type_erased_stream: %d stream configurations, %d transitions exported, %d consumer scripts each run on the stream directly and through "
             "type_erase<Val>(); %d executions validated against ErasedStreamMon; seeded design error fwdRef: TLC reports %s violated"
             % (ncfg, nedges_t, len(scripts), nv, tes["bug"]["violated"]))
    if scripts:
        b = scripts[len(scripts) // 2]
        rep.sample(dict(kind="tlc-stream-script", stream=b["cfg"], script=b["script"], expect=b["exp"]))
    # ---- 5. the invariants are not vacuous: the seeded design errors of AnyObject.tla must be found by TLC
    for bug in BUGS:
        r = bugres.get(bug)
        if isinstance(r, Exception):
            raise r
        if r["kind"] != "invariant":
            raise vlib.Broken("seeded design error %s is not detected by the invariants of AnyObject.tla (%s)\n%s" % (bug, r["kind"], r["out"][-1500:]))
        rep.note("seeded design error %s in the specification: TLC reports %s violated (%d states)" % (bug, r["violated"], r["distinct"]))
    rep.rule("type_erased_stream: every consumer script (edge cover of the ErasedStream graph + random walks) counts as two executions "
             "(stream used directly / through type_erase)")
    rep.rule("executions = operation histories (edge cover of the TLC state graph + seeded random walks) replayed on the real "
             "basic_any_object<T/F>, any_unique, any_ref, any_scheduler, any_scheduler_ref; distinct_nontrivial = distinct "
             "histories with more than one operation")


# ---------------------------------------------------------------------------------------------- type_erased_stream part
def tes_scripts(prefix, rng, n_random, keep=True):
    """Consumer scripts from the exported ErasedStream graph: edge-covering walks from every initial state (= stream
    configuration) to a finished state + seeded random walks.  script = external labels, exp = the plain stream's completions."""
    files = sorted(glob.glob(prefix + ".*"), key=lambda p: int(p.rsplit(".", 1)[1]))
    adj = collections.defaultdict(list)
    targets = set()
    n = 0
    for f in files:
        for l in open(f):
            l = l.strip()
            if not l:
                continue
            e = json.loads(l)
            s, t = tuple(e["s"]), tuple(e["t"])
            adj[s].append((t, e))
            targets.add(t)
            n += 1
        os.remove(f)
    inits = sorted(s for s in adj if s not in targets)
    # distance to a finished state (every walk must end with the cleanup completed)
    rev = collections.defaultdict(list)
    fin = set()
    for s, outs in adj.items():
        for k, (t, e) in enumerate(outs):
            rev[t].append((s, k))
            if e["fin"]:
                fin.add(t)
    togo = {f: None for f in fin}
    q = collections.deque(fin)
    while q:
        u = q.popleft()
        for (p, k) in rev.get(u, ()):
            if p not in togo:
                togo[p] = k
                q.append(p)

    def finish(u, walk):
        while u not in fin and togo.get(u) is not None and len(walk) < 200:
            k = togo[u]
            walk.append((u, k))
            u = adj[u][k][0]
        return walk

    walks = []
    covered = set()
    for i in inits:
        parent = {i: None}
        order = [i]
        q = collections.deque([i])
        while q:
            u = q.popleft()
            for k, (v, e) in enumerate(adj.get(u, ())):
                if v not in parent:
                    parent[v] = (u, k)
                    order.append(v)
                    q.append(v)
        for u0 in order:
            for k0 in range(len(adj.get(u0, ()))):
                if (u0, k0) in covered:
                    continue
                pre = []
                u = u0
                while parent[u] is not None:
                    pre.append(parent[u])
                    u = parent[u][0]
                pre.reverse()
                walk = pre + [(u0, k0)]
                covered.add((u0, k0))
                u = adj[u0][k0][0]
                while u not in fin:
                    nxt = [k for k in range(len(adj.get(u, ()))) if (u, k) not in covered]
                    if not nxt:
                        break
                    covered.add((u, nxt[0]))
                    walk.append((u, nxt[0]))
                    u = adj[u][nxt[0]][0]
                walks.append(finish(u, walk))
    for j in range(n_random):
        u = inits[rng.randrange(len(inits))]
        walk = []
        while u not in fin and adj.get(u) and len(walk) < 200:
            k = rng.randrange(len(adj[u]))
            walk.append((u, k))
            u = adj[u][k][0]
        walks.append(walk)
    out = []
    seen = set()
    for w in walks:
        es = [adj[a][k][1] for (a, k) in w]
        if not es or not es[-1]["fin"]:
            continue
        script = [e["ext"] for e in es if e["ext"]]
        key = (json.dumps(es[0]["cfg"], sort_keys=True), tuple(script))
        if key in seen:
            continue
        seen.add(key)
        out.append(dict(cfg=es[0]["cfg"], script=script, exp=[e["pobs"] for e in es if e["pobs"]["ch"]]))
    return out, n, len(inits)


def opstr(o):
    k = o["k"]
    if k in ("construct", "assign"):
        return "%s(w%d,%s%s,%s,tag%d%s)" % (k, o["w"], o["kind"], "=%d" % o["val"], o["via"], o["tag"], "" if o["fault"] == "none" else ",throw:" + o["fault"])
    if k == "invoke":
        return "invoke(w%d,%s)" % (o["w"], o["cpo"])
    if k in ("destroy", "sched", "type"):
        return "%s(w%d)" % (k, o["w"])
    if k == "bind":
        return "bind(w%d,ext%d)" % (o["w"], o["s"])
    return "%s(w%d<-w%d%s)" % (k, o["w"], o["s"], "" if o["fault"] == "none" else ",throw:" + o["fault"])
