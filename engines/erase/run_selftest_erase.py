#!/usr/bin/env python3
"""Self-test of the `erase` engine: applies every mutant of selftest.json to a scratch copy of the worktree, runs
./check C18 --engine erase against it and compares the exit code with the expectation.
usage: run_selftest_erase.py [lanes] [name-filter]"""
import json, os, re, shutil, subprocess, sys, threading
HERE = os.path.dirname(os.path.abspath(__file__))
WT = os.environ.get("ERASE_WT", "/tmp/wt_erase")
lanes = int(sys.argv[1]) if len(sys.argv) > 1 else 2
flt = sys.argv[2] if len(sys.argv) > 2 else ""
muts = [m for m in json.load(open(os.path.join(HERE, "selftest.json"))) if any(f in m["name"] for f in flt.split(","))]
res = {}
lock = threading.Lock()
queue = list(muts)


def lane(i):
    d = "/var/tmp/erase_selftest_wt%d" % i
    while True:
        with lock:
            if not queue:
                return
            m = queue.pop(0)
        shutil.rmtree(d, ignore_errors=True)
        os.makedirs(d)
        for sub in ("include", "source"):
            shutil.copytree(os.path.join(WT, sub), os.path.join(d, sub))
        p = subprocess.run(["patch", "-p1", "-s"], input=m["patch"], text=True, cwd=d, capture_output=True)
        if p.returncode != 0:
            res[m["name"]] = ("patch failed", p.stdout + p.stderr)
            continue
        env = dict(os.environ, VERIF_REPO=d, VERIF_JOBS="4", VERIF_ERASE_EDGE_CACHE="/var/tmp/erase_edge_cache", VERIF_TMP="/var/tmp")
        p = subprocess.run(["./check", "C18", "--tier", "quick", "--engine", "erase"], cwd="/verif", env=env, capture_output=True, text=True)
        out = p.stdout + p.stderr
        first = ""
        mm = re.search(r"VIOLATION[^\n]*\n\s+([^\n]*)", out)
        if mm:
            first = mm.group(1)[:260]
        elif p.returncode == 3:
            mm = re.search(r"error: [^\n]*", out)
            first = mm.group(0)[:200] if mm else out[-200:]
        got = {0: "clean", 1: "violation", 3: "build-error"}.get(p.returncode, "rc%d" % p.returncode)
        nviol = len(re.findall(r"^VIOLATION", out, re.M))
        res[m["name"]] = (got, first, nviol)
        print("%-58s expect %-11s got %-11s %s" % (m["name"], m["expect"], got, first), flush=True)
        shutil.rmtree(d, ignore_errors=True)


ths = [threading.Thread(target=lane, args=(i,)) for i in range(lanes)]
[t.start() for t in ths]
[t.join() for t in ths]
bad = [m["name"] for m in muts if res.get(m["name"], ("?",))[0] != m["expect"]]
json.dump(res, open("/var/tmp/erase_selftest_result.json", "w"), indent=1)
print("self-test: %d mutants, %d as expected, unexpected: %s" % (len(muts), len(muts) - len(bad), bad))
sys.exit(1 if bad else 0)
