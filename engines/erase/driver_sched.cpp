// C18 driver, scheduler families: any_scheduler (owning, copyable) and any_scheduler_ref over tracked scheduler types.
#include "erase_rt.hpp"

#include <unifex/any_scheduler.hpp>

using AS = unifex::any_scheduler;
using ASR = unifex::any_scheduler_ref;

template <typename W>
static int doSchedule(W& w) {
  int got = 0;
  G.lastSched = 0;
  auto op = unifex::connect(w.schedule(), Rcv{&got});
  unifex::start(op);
  return got == 1 ? G.lastSched : got;
}
template <typename W>
static int typeNo(const W& w) {
  auto t = w.type();
  return t == unifex::type_id<TS<1>>() ? 1 : t == unifex::type_id<TS<2>>() ? 2 : 0;
}

struct SchedFam : Fam {
  Slots<AS> s;
  Out step(const Op& op) override {
    if (op.k == "construct")
      return guarded([&] { return s.make(op.w, [&](void* m) { return op.kind == "S1" ? ::new (m) AS(TS<1>(op.val)) : ::new (m) AS(TS<2>(op.val)); }); });
    if (op.k == "copyc") return guarded([&] { return s.make(op.w, [&](void* m) { return ::new (m) AS(const_cast<const AS&>(*s.p[op.s])); }); });
    if (op.k == "copya") return guarded([&] { *s.p[op.w] = const_cast<const AS&>(*s.p[op.s]); return 0; });
    if (op.k == "movec") return guarded([&] { return s.make(op.w, [&](void* m) { return ::new (m) AS(std::move(*s.p[op.s])); }); });
    if (op.k == "movea") return guarded([&] { *s.p[op.w] = std::move(*s.p[op.s]); return 0; });
    if (op.k == "eq") return guarded([&] { bool a = *s.p[op.w] == *s.p[op.s], b = *s.p[op.w] != *s.p[op.s]; return a == b ? -1 : (a ? 1 : 0); });
    if (op.k == "sched") return guarded([&] { return doSchedule(*s.p[op.w]); });
    if (op.k == "type") return guarded([&] { return typeNo(*s.p[op.w]); });
    if (op.k == "destroy") return guarded([&] { s.destroy(op.w); return 0; });
    return Out{-2, 0};
  }
  bool exists(int w) override { return s.p[w] != nullptr; }
  int probe(int) override { return -1; }
  void destroyAll() override { s.destroyAll(); }
};

struct SRefFam : Fam {
  Slots<ASR> s;
  Ext<TS<1>> e1, e2, e4; Ext<TS<2>> e3;
  void setup() override { e1.make(1); e2.make(1); e3.make(1); e4.make(2); }
  void teardown() override { e1.kill(); e2.kill(); e3.kill(); e4.kill(); }
  int extId(int e) override { return e == 1 ? G.idAt(e1.p) : e == 2 ? G.idAt(e2.p) : e == 3 ? G.idAt(e3.p) : G.idAt(e4.p); }
  Out step(const Op& op) override {
    if (op.k == "bind")
      return guarded([&] { return s.make(op.w, [&](void* m) {
        return op.s == 1 ? ::new (m) ASR(*e1.p) : op.s == 2 ? ::new (m) ASR(*e2.p) : op.s == 3 ? ::new (m) ASR(*e3.p) : ::new (m) ASR(*e4.p); }); });
    if (op.k == "copyc") return guarded([&] { return s.make(op.w, [&](void* m) { return ::new (m) ASR(*s.p[op.s]); }); });
    if (op.k == "copya") return guarded([&] { *s.p[op.w] = *s.p[op.s]; return 0; });
    if (op.k == "eq") return guarded([&] { bool a = *s.p[op.w] == *s.p[op.s], b = *s.p[op.w] != *s.p[op.s]; return a == b ? -1 : (a ? 1 : 0); });
    if (op.k == "deepeq") return guarded([&] { return s.p[op.w]->equal_to(*s.p[op.s]) ? 1 : 0; });
    if (op.k == "sched") return guarded([&] { return doSchedule(*s.p[op.w]); });
    if (op.k == "type") return guarded([&] { return typeNo(*s.p[op.w]); });
    if (op.k == "destroy") return guarded([&] { s.destroy(op.w); return 0; });
    return Out{-2, 0};
  }
  bool exists(int w) override { return s.p[w] != nullptr; }
  int probe(int) override { return -1; }
  void destroyAll() override { s.destroyAll(); }
};

std::unique_ptr<Fam> makeSchedFam(const std::string& fam) {
  if (fam == "sched") return std::make_unique<SchedFam>();
  return std::make_unique<SRefFam>();
}
