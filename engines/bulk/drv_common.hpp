// shared by the three translation units of the bulk driver
#pragma once
#include "bulk_rt.hpp"

#include <nlohmann/json.hpp>

using json = nlohmann::json;
using namespace bk;

inline single_thread_context* g_single = nullptr;
inline single_thread_context& single_ctx() { if (!g_single) g_single = new single_thread_context(); return *g_single; }
// "pool": one static_thread_pool with a single worker shared by all units of the process (FIFO: a fence task proves that the
// unit's task has returned); "pool2": a fresh two-worker pool per unit, joined before the unit ends
inline static_thread_pool* g_pool = nullptr;
inline static_thread_pool& shared_pool() { if (!g_pool) g_pool = new static_thread_pool(1); return *g_pool; }

[[noreturn]] inline void hang(const char* what) {
  vrt::ev("{\"e\":\"Hang\",\"what\":\"%s\"}", what);
  vrt::log_flush();
  std::fprintf(stderr, "bulk driver: hang (%s)\n", what);
  _exit(76);
}

json run_bulk(const json& u);      // drv_bulk.cpp
json run_find_if(const json& u);   // drv_findif.cpp
