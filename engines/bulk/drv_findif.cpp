// C17 driver, find_if (sequenced and parallel overload) with the address-recording, range-guarded predicate.
#include "drv_common.hpp"

template <class Sched, class Drain>
static void run_find_if_on(FWorld& w, const std::string& pol, Sched sched, Drain drain) {
  Elem* b = w.base; Elem* e = w.base + w.n;
  auto fin = [&](auto* op) {
    unifex::start(*op);
    if (!w.wait_done(30)) hang("find_if: no terminal signal");
    drain();
    vrt::ev("{\"e\":\"End\"}");
    delete op;
  };
  if (pol == "seq") fin(new auto(unifex::connect(find_if(just(b, e), PredFn{&w}, unifex::seq), FRecv<Sched>{&w, sched})));
  else fin(new auto(unifex::connect(find_if(just(b, e), PredFn{&w}, unifex::par), FRecv<Sched>{&w, sched})));
}

json run_find_if(const json& u) {
  FWorld w;
  w.n = u["n"].get<long>();
  w.stopAt = u.value("stopAt", -2L);
  w.live = w.stopAt != -2;
  w.cap = 4 * w.n + 64;
  // the range is the whole of a heap allocation of exactly n elements: a read past its end is an ASan event
  w.base = (Elem*)std::malloc(w.n > 0 ? (size_t)w.n * sizeof(Elem) : 1);
  for (long i = 0; i < w.n; ++i) w.base[i] = Elem{0, (int)i};
  std::string ms;
  for (auto& p : u["m"]) { long k = p.get<long>(); if (k >= 0 && k < w.n) w.base[k].match = 1; ms += (ms.empty() ? "" : ",") + std::to_string(k); }
  std::string pol = u["pol"].get<std::string>(), sched = u["sched"].get<std::string>();
  vrt::ev("{\"e\":\"Cfg\",\"kind\":\"find_if\",\"n\":%ld,\"layers\":0,\"m\":[%s]}", w.n, ms.c_str());
  if (sched == "inline") {
    run_find_if_on(w, pol, inline_scheduler{}, [] {});
  } else if (sched == "single") {
    auto& ctx = single_ctx();
    run_find_if_on(w, pol, ctx.get_scheduler(), [&ctx] { sync_wait(schedule(ctx.get_scheduler())); });
  } else if (sched == "pool") {
    auto& pool = shared_pool();
    run_find_if_on(w, pol, pool.get_scheduler(), [&pool] { sync_wait(schedule(pool.get_scheduler())); });
  } else {
    auto* pool = new static_thread_pool(2);
    run_find_if_on(w, pol, pool->get_scheduler(), [&pool] { delete pool; pool = nullptr; });
    delete pool;
  }
  std::free(w.base);
  return {{"terminals", w.terminals.load()}, {"calls", w.calls}, {"result", w.result}, {"oob", w.sawOob}};
}

