// C17 driver, bulk pipelines: bulk_schedule / bulk_transform / bulk_join / indexed_for on the chosen scheduler.
#include "drv_common.hpp"

#include <unifex/indexed_for.hpp>   // defines a non-inline namespace-scope object: include in this translation unit only

struct IotaIt {
  using value_type = int; using reference = int&; using difference_type = size_t; using pointer = int*;
  using iterator_category = std::random_access_iterator_tag;
  int operator[](size_t off) const { return base_ + (int)off; }
  int operator*() const { return base_; }
  IotaIt operator++() { ++base_; return *this; }
  IotaIt operator++(int) { auto c = *this; ++base_; return c; }
  bool operator!=(const IotaIt& r) const { return base_ != r.base_; }
  int base_;
};
struct IotaView {
  int size_;
  using iterator = IotaIt;
  IotaIt begin() { return IotaIt{0}; }
  IotaIt end() { return IotaIt{size_}; }
  size_t size() const { return (size_t)size_; }
};

// connect, (early stop), start, wait for the terminal signal, (concurrent stop), drain
template <class S, class R, class Drain>
static void go(World& w, S&& s, R&& r, long spin, Drain drain) {
  auto* op = new auto(unifex::connect((S&&)s, (R&&)r));
  if (w.live && w.stopAfter == -1) { vrt::ev("{\"e\":\"StopReq\"}"); w.src.request_stop(); }
  unifex::start(*op);
  if (w.live && w.concurrentStop) {
    for (volatile long k = 0; k < spin; ++k) {}
    vrt::ev("{\"e\":\"StopReq\"}");
    w.src.request_stop();
  }
  if (!w.wait_done(30)) hang("no terminal signal");
  drain();
  vrt::ev("{\"e\":\"End\"}");
  delete op;
}

template <class F, class Rp, class Sched, class Drain>
static void run_policy_shape(World& w, Sched sched, Drain drain) {
  log_part<F>(1); log_part<Rp>(2);
  go(w, bulk_transform(probe(bulk_schedule(sched, (size_t)w.n)), IdFn{&w, 1}, F{}), ManyRecv<Rp, false>{&w, 2}, 0, drain);
}
template <class F, class Sched, class Drain>
static bool run_policy_r(World& w, const std::string& rn, Sched sched, Drain drain) {
  if (rn == "seq") run_policy_shape<F, sequenced_policy>(w, sched, drain);
  else if (rn == "unseq") run_policy_shape<F, unsequenced_policy>(w, sched, drain);
  else if (rn == "par") run_policy_shape<F, parallel_policy>(w, sched, drain);
  else if (rn == "par_unseq") run_policy_shape<F, parallel_unsequenced_policy>(w, sched, drain);
  else return false;
  return true;
}

template <bool ST, class Sched, class Drain>
static bool run_shape(World& w, const std::string& shape, Sched sched, long spin, Drain drain) {
  size_t n = (size_t)w.n;
  using PU = parallel_unsequenced_policy;
  if (shape == "R_seq") {
    log_part<sequenced_policy>(1);
    go(w, probe(bulk_schedule(sched, n)), ManyRecv<sequenced_policy, ST>{&w, 1}, spin, drain);
  } else if (shape == "R_pu") {
    log_part<PU>(1);
    go(w, probe(bulk_schedule(sched, n)), ManyRecv<PU, ST>{&w, 1}, spin, drain);
  } else if (shape == "TR") {
    log_part<PU>(1); log_part<PU>(2);
    go(w, bulk_transform(probe(bulk_schedule(sched, n)), RevFn{&w, 1}, par_unseq), ManyRecv<PU, ST>{&w, 2}, spin, drain);
  } else if (shape == "TTJ") {
    log_part<PU>(1); log_part<PU>(2);
    go(w, bulk_join(bulk_transform(bulk_transform(probe(bulk_schedule(sched, n)), RevFn{&w, 1}, par_unseq), VoidFn{&w, 2}, par_unseq)),
       PlainRecv<ST>{&w}, spin, drain);
  } else if (shape == "TJ") {
    log_part<sequenced_policy>(1);
    go(w, bulk_join(bulk_transform(probe(bulk_schedule(sched, n)), VoidFn{&w, 1}, seq)), PlainRecv<ST>{&w}, spin, drain);
  } else {
    return false;
  }
  return true;
}

template <class Sched, class Drain>
static void run_bulk_on(World& w, const json& u, Sched sched, Drain drain) {
  std::string shape = u["shape"].get<std::string>();
  std::string tok = u["tok"].get<std::string>();
  long spin = u.value("spin", 0L);
  bool ok;
  if (false) {
  } else if (tok == "never") {
    ok = run_shape<false>(w, shape, sched, spin, drain);
  } else {
    ok = run_shape<true>(w, shape, sched, spin, drain);
  }
  if (!ok) { std::fprintf(stderr, "unknown shape %s\n", shape.c_str()); _exit(2); }
}

static void run_indexed_for(World& w, const std::string& shape) {
  vrt::ev("{\"e\":\"Policy\",\"who\":\"eff\",\"L\":0,\"par\":false,\"unseq\":false}");
  auto nodrain = [] {};
  if (shape == "IFseq") {
    log_part<sequenced_policy>(1);
    go(w, indexed_for(just(0), execution::seq, IotaView{(int)w.n}, [pw = &w](int idx, int&) noexcept { pw->on_next(1, idx); }),
       PlainRecv<false>{&w}, 0, nodrain);
  } else {
    log_part<parallel_policy>(1);
    go(w, indexed_for(just(0), execution::par, IotaView{(int)w.n}, [pw = &w](int idx, int&) { pw->on_next(1, idx); }),
       PlainRecv<false>{&w}, 0, nodrain);
  }
}

json run_bulk(const json& u) {
  World w;
  w.n = u["n"].get<long>();
  w.stopAfter = u["stopAfter"].get<long>();
  w.live = u["tok"].get<std::string>() == "live";
  w.concurrentStop = u.value("cstop", false);
  std::string shape = u["shape"].get<std::string>();
  std::string sched = u["sched"].get<std::string>();
  int layers = 0;
  for (auto& st : u["stages"]) if (st["k"].get<std::string>() != "join") ++layers;
  vrt::ev("{\"e\":\"Cfg\",\"kind\":\"bulk\",\"n\":%ld,\"layers\":%d,\"m\":[]}", w.n, layers);
  if (shape == "IFseq" || shape == "IFpar") {
    run_indexed_for(w, shape);
  } else if (shape.rfind("P_", 0) == 0) {      // policy-meet shapes: bulk_transform(F) over a many-receiver(R), inline scheduler only
    std::string fn = u["stages"][0]["pn"].get<std::string>(), rn = u["stages"][1]["pn"].get<std::string>();
    auto nodrain = [] {};
    bool ok;
    if (fn == "seq") ok = run_policy_r<sequenced_policy>(w, rn, inline_scheduler{}, nodrain);
    else if (fn == "unseq") ok = run_policy_r<unsequenced_policy>(w, rn, inline_scheduler{}, nodrain);
    else if (fn == "par") ok = run_policy_r<parallel_policy>(w, rn, inline_scheduler{}, nodrain);
    else ok = run_policy_r<parallel_unsequenced_policy>(w, rn, inline_scheduler{}, nodrain);
    if (!ok) { std::fprintf(stderr, "unknown policy shape %s\n", shape.c_str()); _exit(2); }
  } else if (sched == "inline") {
    run_bulk_on(w, u, inline_scheduler{}, [] {});
  } else if (sched == "single") {
    auto& ctx = single_ctx();
    run_bulk_on(w, u, ctx.get_scheduler(), [&ctx] { sync_wait(schedule(ctx.get_scheduler())); });
  } else if (sched == "pool") {
    auto& pool = shared_pool();
    run_bulk_on(w, u, pool.get_scheduler(), [&pool] { sync_wait(schedule(pool.get_scheduler())); });
  } else {
    auto* pool = new static_thread_pool(2);
    run_bulk_on(w, u, pool->get_scheduler(), [&pool] { delete pool; pool = nullptr; });   // joins the workers
    delete pool;
  }
  return {{"terminals", w.terminals.load()}, {"calls", w.calls.load()}};
}

