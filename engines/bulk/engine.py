"""Engine `bulk` (C17): spec/bulk/{Bulk,FindIf}.tla <-> bulk_schedule/bulk_transform/bulk_join/indexed_for/find_if.
 1. Bulk.tla: TLC checks EachIndexExactlyOnce / NoNextAfterTerminal / NoOverlapBeyondPolicy / termination on every
    scenario (pipeline shape x n x stop-token kind x moment of the stop request) and prints the expected observation
    of each; every scenario is one call of the real pipeline on inline / single_thread_context / static_thread_pool.
 2. FindIf.tla: TLC checks the chunk arithmetic of the parallel overload for every range length 0..MaxN
    (ChunksPartition, PredicateOnlyInRange, Terminates, FindIfIsFirst = refinement Chunked => First) for the
    arithmetic as shipped ("orig") and as repaired ("fixed"), decides by conformance which of the two the tree
    implements, and prints (input, expected predicate calls, expected result) cases; every selected case is one call
    of the real find_if with an address-recording predicate on a range that fills its heap allocation exactly.
 3. All recorded executions are validated by TLC against the monitor BulkMon (verdict per execution).
Alarms: monitor verdicts, hangs (lost terminal signal).  Disagreement with the transcription = drift (no alarm)."""
import json, os, re, sys, time

sys.path.insert(0, os.path.join(os.path.dirname(__file__), "..", "..", "tools"))
import vlib

POL = {"seq": dict(par=False, unseq=False), "unseq": dict(par=False, unseq=True),
       "par": dict(par=True, unseq=False), "par_unseq": dict(par=True, unseq=True)}


def _tf(ret, p):
    return dict(k="tf", ret=ret, pol=POL[p], pn=p)


def _many(p):
    return dict(k="many", ret="-", pol=POL[p], pn=p)


JOIN = dict(k="join", ret="-", pol=POL["par_unseq"], pn="par_unseq")
SHAPES = {"R_seq": [_many("seq")], "R_pu": [_many("par_unseq")],
          "TR": [_tf("rev", "par_unseq"), _many("par_unseq")],
          "TTJ": [_tf("rev", "par_unseq"), _tf("void", "par_unseq"), JOIN],
          "TJ": [_tf("void", "seq"), JOIN]}
SCHEDS = ["inline", "single", "pool"]
ASAN_ENV = {"ASAN_OPTIONS": "detect_leaks=0:abort_on_error=0:exitcode=71:allocator_may_return_null=1:halt_on_error=0:"
                            "detect_stack_use_after_return=0:handle_segv=1:print_summary=1"}


def gen_bulk_scenarios(ns):
    """pipeline shape x n x token kind x moment of the stop request (exhaustive over the moment)."""
    out = []

    def add(shape, stages, n, tok, sa):
        out.append(dict(id=len(out), shape=shape, stages=stages, n=n, tok=tok, stopAfter=sa))

    for n in ns:
        for sh, st in SHAPES.items():
            add(sh, st, n, "never", -2)
            add(sh, st, n, "inert", -2)
            add(sh, st, n, "live", -2)
            add(sh, st, n, "live", -1)
            for k in range(n):
                add(sh, st, n, "live", k)
        add("IFseq", [_many("seq")], n, "never", -2)
        add("IFpar", [_many("par")], n, "never", -2)
    for f in POL:
        for r in POL:
            add("P_%s_%s" % (f, r), [_tf("id", f), _many(r)], 2, "never", -2)
    return out


def merge_runs(runs):
    """[[lo,hi],..] in call order -> adjacent ascending runs merged (what the harness' coalescing produces)."""
    out = []
    for lo, hi in runs:
        if out and lo == out[-1][1] + 1 and out[-1][2]:
            out[-1][1] = hi
        else:
            out.append([lo, hi, True])
    return [[a, b] for a, b, _ in out]


def expected_runs(case):
    """TLC's per-chunk call intervals -> merged runs as the harness logs them (a run ends at a hit)."""
    m = set(case["m"])
    out = []
    for lo, hi in case["calls"]:
        if out and out[-1][2] and lo == out[-1][1] + 1:
            out[-1][1] = hi
        else:
            out.append([lo, hi, True])
        out[-1][2] = hi not in m          # a hit closes the run
    return [[a, b] for a, b, _ in out]


def parse_log(path):
    """-> {x: dict(lines=[..], asan=[..])}; executions of a died process (Aborted) are dropped by split_executions."""
    res = {}
    for x, lines in vlib.split_executions(path):
        res[x] = lines
    return res


def summarize(lines):
    s = dict(next={}, terminal=[], eff=None, preds=[], result=None, oob=False, asan=[], stopreq=0)
    for ln in lines:
        try:
            e = json.loads(ln)
        except Exception:
            continue
        k = e.get("e")
        if k == "Next":
            s["next"][e["L"]] = s["next"].get(e["L"], 0) + 1
        elif k == "Terminal":
            s["terminal"].append(e["ch"])
        elif k == "Policy" and e.get("who") == "eff":
            s["eff"] = dict(par=e["par"], unseq=e["unseq"])
        elif k == "Pred":
            s["preds"].append([e["lo"], e["hi"]])
        elif k == "Result":
            s["result"] = e["pos"]
        elif k in ("PredOutOfRange", "PredCap"):
            s["oob"] = True
            s.setdefault("oob_off", e.get("off"))
        elif k == "Asan":
            s["asan"].append(e)
        elif k == "StopReq":
            s["stopreq"] += 1
    return s


def validate(ctx, logs, chunk_events=120000):
    """TLC validates the logs against BulkMon; `logs` = [(path, x offset)] (execution ids are made unique by the offset).
    Returns (n_execs, {x + offset: [rules]})."""
    execs = []
    for path, off in logs:
        for x, lines in vlib.split_executions(path):
            if x is None:
                continue
            lines = [l for l in lines if '"e":"Asan"' not in l]
            lines[0] = '{"e":"Reset","x":%d}\n' % (x + off)
            execs.append((x + off, lines))
    if not execs:
        return 0, {}
    tmpd = os.path.join(ctx.work, "val")
    os.makedirs(tmpd, exist_ok=True)

    def run(sub, tag):
        p = os.path.join(tmpd, "t_%s.ndjson" % tag)
        with open(p, "w") as f:
            for _, lines in sub:
                f.writelines(lines)
        r = vlib.validate_trace(ctx, "bulk", "BulkMon", p)
        if not r["accepted"]:
            raise vlib.Broken("BulkMon could not consume a recorded log (malformed log; matched %s of %s lines)" % (r["prefix"], r["total"]))
        verdicts = {}
        for ln in r["out"].splitlines():
            ln = ln.strip()
            if ln.startswith('"verdict '):
                v = json.loads(json.loads(ln)[len("verdict "):])
                verdicts[v["x"]] = sorted(v["rules"])
        os.remove(p)
        return verdicts

    chunks, cur, n = [], [], 0
    for ex in execs:
        cur.append(ex)
        n += len(ex[1])
        if n >= chunk_events:
            chunks.append(cur)
            cur, n = [], 0
    if cur:
        chunks.append(cur)
    verdicts = {}
    for i, ch in enumerate(chunks):
        verdicts.update(run(ch, str(i)))
    if verdicts:      # a rejection is reported only if it repeats when the rejected executions are validated on their own
        sub = [ex for ex in execs if ex[0] in verdicts]
        again = run(sub, "again")
        verdicts = {x: r for x, r in verdicts.items() if x in again}
    ctx.rep.traces += len(execs)
    ctx.rep.events += sum(len(l) for _, l in execs)
    return len(execs), verdicts


def run_batches(ctx, exe, args, total, log_path, timeout, env, max_deaths=12):
    """vlib.run_batches with a circuit breaker: a batch is abandoned (not resumed) after a process time-out, an ASan report
    flood or max_deaths process deaths - the executions recorded so far are still validated."""
    k, sums, deaths = 0, [], []
    open(log_path, "w").close()
    while k < total:
        rc, so, se = vlib.run_exe(exe, list(args) + ["--from", k, "--to", total, "--log", log_path], timeout=timeout, env=env)
        summ = None
        for ln in so.splitlines():
            if ln.startswith("{"):
                try:
                    summ = json.loads(ln)
                except Exception:
                    pass
        if summ:
            sums.append(summ)
        d = vlib.classify_death(rc, se)
        if d is None:
            break
        x = vlib.last_exec_id(log_path)
        if x is None or x < k:
            x = k
        d["x"] = x
        deaths.append(d)
        with open(log_path, "a") as f:
            f.write('\n{"e":"Aborted","x":%d}\n' % x)
        if rc == -9 or "asan flood" in se or len(deaths) >= max_deaths:
            ctx.rep.note("batch %s abandoned at unit %d of %d after %d process deaths (last: %s)"
                         % (os.path.basename(log_path), x, total, len(deaths), "time-out" if rc == -9 else d.get("event")))
            break
        k = x + 1
    return sums, deaths


def run_units(ctx, exe, units, tag, timeout=900):
    up = os.path.join(ctx.work, "units_%s.json" % tag)
    json.dump(units, open(up, "w"))
    lp = os.path.join(ctx.work, "log_%s.ndjson" % tag)
    op = os.path.join(ctx.work, "obs_%s.ndjson" % tag)
    if os.path.exists(op):
        os.remove(op)
    sums, deaths = run_batches(ctx, exe, ["--units", up, "--obs", op], len(units), lp, timeout=timeout, env=ASAN_ENV)
    ctx.rep.evaluations += sum(s.get("execs", 0) for s in sums)
    obs = {}
    if os.path.exists(op):
        for ln in open(op):
            try:
                o = json.loads(ln)
                obs[o["x"]] = o
            except Exception:
                pass
    return lp, obs, deaths


def run(ctx):
    rep = ctx.rep
    quick = ctx.quick
    rng = ctx.rng
    t00 = time.time()
    maxn = 1100
    rep.assume("the default bulk_schedule (no scheduler customises it in this tree) runs every set_next on the single thread on which "
               "the scheduler's schedule() operation completes; worker interleavings are those of that one task with a concurrent stop request")
    rep.assume("find_if: random-access range of trivially copyable elements; predicate without side effects on the range; range lengths 0..%d" % maxn)
    exe = vlib.build(ctx, "bulk_driver", ["engines/bulk/driver.cpp", "engines/bulk/drv_bulk.cpp", "engines/bulk/drv_findif.cpp"],
                     lib=["inplace_stop_token.cpp", "manual_event_loop.cpp", "async_stack.cpp", "exception.cpp", "static_thread_pool.cpp"],
                     extra=["-fsanitize-recover=address"], incs=[os.path.join(vlib.VERIF, "engines", "bulk")])

    violations = []     # collected, reported at the end (events attached to the first few of a group only)
    oos_seen = {}

    def note_asan(u, e):
        key = (e.get("kind"), e.get("where"))
        if key in oos_seen:
            oos_seen[key]["count"] += 1
            return
        rec = dict(engine="bulk", event="AsanReport", asan=e.get("kind"), access=e.get("access"), where=e.get("where"),
                   unit={k: u.get(k) for k in ("comp", "sched", "shape", "pol", "n")}, count=1)
        if e.get("kind") == "stack-use-after-scope" and str(e.get("where", "")).startswith("find_if.hpp"):
            rec["what"] = ("find_if sequenced overload: the then() lambda captures `this` of the temporary find_if_helper "
                           "(find_if_helper{std::move(func_)}(...)), so the predicate object is used after its destruction "
                           "(memory event, not part of the C17 statement)")
        oos_seen[key] = rec

    def sched_for(k):
        r = (k + ctx.seed) % 10
        return "pool2" if r == 9 else SCHEDS[r % 3]

    # ------------------------------------------------------------------ 1. Bulk.tla
    ns = [0, 1, 2, 15, 16, 17, 31, 32, 33, 40] if quick else list(range(0, 41)) + [47, 48, 49, 63, 64, 65]
    scns = gen_bulk_scenarios(ns)
    sp = os.path.join(ctx.work, "bulk_scenarios.json")
    json.dump(scns, open(sp, "w"))
    bcases = os.path.join(ctx.work, "bulk_cases.ndjson")
    vlib.model_check(ctx, "bulk", "BulkMC", env={"BK_SCENARIOS": sp, "BK_CASES": bcases}, workers=1, timeout=1500)
    if not quick:
        vlib.model_check(ctx, "bulk", "BulkLive", cfg="BulkLive.cfg", env={"BK_SCENARIOS": sp}, timeout=1500)
    bexp = {}
    for ln in open(bcases):
        c = json.loads(ln)
        bexp[c["id"]] = c
    if len(bexp) != len(scns):
        raise vlib.Broken("BulkMC exported %d cases for %d scenarios" % (len(bexp), len(scns)))
    rep.sample(dict(kind="tlc-case-bulk", scenario={k: scns[40][k] for k in ("shape", "n", "tok", "stopAfter")}, expect=bexp[40]))

    units = []
    for s in scns:
        if s["shape"].startswith(("IF", "P_")):
            scheds = ["inline"]
        elif (quick and s["n"] != 17) or (not quick and s["n"] > 20):
            scheds = [sched_for(s["id"])]
        else:
            scheds = SCHEDS + (["pool2"] if s["id"] % 10 == 0 else [])
        for sc in scheds:
            u = dict(s)
            u.update(comp="bulk", sched=sc, scn=s["id"])
            units.append(u)
    # large index spaces and stop requests from another thread (no TLC expectation; monitor only)
    for n, sa in ([(1000, -2), (1000, 500), (4096, -2)] if quick else [(1000, -2), (1000, 500), (1000, 999), (4096, -2), (4096, 4000), (10000, -2)]):
        for sh in ("R_pu", "TTJ"):
            units.append(dict(comp="bulk", sched="single", scn=-1, shape=sh, stages=SHAPES[sh], n=n, tok="live", stopAfter=sa))
    for k in range(40 if quick else 400):
        sh = rng.choice(list(SHAPES))
        units.append(dict(comp="bulk", sched=rng.choice(["single", "pool", "pool2"]), scn=-1, shape=sh, stages=SHAPES[sh],
                          n=rng.choice([40, 100, 300]), tok="live", stopAfter=-2, cstop=True, spin=rng.randrange(0, 20000)))
    units.append(dict(comp="probe", sched="inline"))
    t0 = time.time()
    lp_b, obs_b, deaths_b = run_units(ctx, exe, units, "bulk")
    rep.note("bulk: TLC + %d executions in %.1fs" % (len(units), time.time() - t0))

    # ------------------------------------------------------------------ 2. FindIf.tla
    t0 = time.time()
    cp0 = os.path.join(ctx.work, "fi_cases0.ndjson")
    vlib.model_check(ctx, "bulk", "FindIfMC", cfg="FindIfBoth.cfg", workers=1, timeout=1500,
                     env={"FI_MAXN": str(maxn), "FI_POS": "none", "FI_NMOD": "1", "FI_NPHASE": "0", "FI_VARIANT": "both", "FI_CASES": cp0})
    exp0 = {"orig": {}, "fixed": {}}
    for ln in open(cp0):
        c = json.loads(ln)
        exp0[c["var"]][(c["n"], c["pol"])] = c
    design = {var: sorted(c["n"] for c in exp0[var].values() if c["pol"] == "par" and (c["oob"] or c["div"])) for var in exp0}
    if design["fixed"]:
        raise vlib.Broken("FindIf.tla: the repaired arithmetic leaves the range for lengths %s" % design["fixed"][:10])

    # probe: which transcription does the tree implement?  (every length, no match, parallel overload, inline scheduler)
    punits = [dict(comp="find_if", sched="inline", n=n, m=[], pol="par", probe=True) for n in range(0, maxn + 1)]
    punits += [dict(comp="find_if", sched="inline", n=7, m=[3], pol="seq", probe=True)]
    lp_p, obs_p, deaths_p = run_units(ctx, exe, punits, "fiprobe")
    logs_p = parse_log(lp_p)
    score = {"orig": 0, "fixed": 0}
    for x, u in enumerate(punits):
        if x not in logs_p or u["pol"] != "par":
            continue
        s = summarize(logs_p[x])
        for var in score:
            c = exp0[var][(u["n"], "par")]
            if c["oob"] or c["div"]:
                ok = s["oob"]
            else:
                ok = (not s["oob"]) and s["preds"] == expected_runs(c) and s["result"] == c["result"]
            score[var] += 0 if ok else 1
    tree = min(score, key=lambda v: score[v])
    ref = tree
    rep.note("find_if transcription implemented by this tree: %s (disagreeing lengths: %s)" % (('"%s"' % tree) if score[tree] == 0 else 'neither; closest "%s"' % tree, score))
    if ref == "orig":
        # design-level confirmation of the defect: the transcription of the shipped arithmetic violates its invariants
        r = vlib.model_check(ctx, "bulk", "FindIfMC", cfg="FindIfMC.cfg", timeout=1500, must_hold=False,
                             env={"FI_MAXN": "200", "FI_POS": "none", "FI_NMOD": "1", "FI_NPHASE": "0", "FI_VARIANT": "orig", "FI_CASES": os.path.join(ctx.work, "unused")})
        rep.note("FindIf.tla with the chunk arithmetic as shipped (\"orig\", = this tree): TLC %s%s; lengths 0..%d whose chunks leave the range or whose last "
                 "chunk never terminates: %d (min %s, max %s).  Repaired arithmetic (\"fixed\"): ChunksPartition, PredicateOnlyInRange, Terminates, FindIfIsFirst hold for every length."
                 % (r["kind"], " (%s violated)" % r["violated"] if r["violated"] else "", maxn, len(design["orig"]),
                    design["orig"][0] if design["orig"] else None, design["orig"][-1] if design["orig"] else None))
    else:
        rep.note("FindIf.tla: arithmetic \"fixed\": ChunksPartition, PredicateOnlyInRange, Terminates, FindIfIsFirst hold for every length 0..%d "
                 "(the formerly shipped arithmetic \"orig\" leaves the range for %d lengths in [160, 960])" % (maxn, len(design["orig"])))

    # cases with match positions for the transcription of the tree (quick: lengths <= 64 and one residue class mod 16 with
    # the "few" boundary set; thorough: every length with "few" + one residue class mod 16 with every chunk boundary)
    cp = os.path.join(ctx.work, "fi_cases.ndjson")
    plans = [("few", 16, ctx.seed % 16)] if quick else [("few", 1, 0), ("all", 16, ctx.seed % 16)]
    for pos, nmod, nph in plans:
        r = vlib.model_check(ctx, "bulk", "FindIfMC", cfg="FindIfAll.cfg" if ref == "fixed" else "FindIfExport.cfg",
                             env={"FI_MAXN": str(maxn), "FI_POS": pos, "FI_NMOD": str(nmod), "FI_NPHASE": str(nph), "FI_VARIANT": ref, "FI_CASES": cp},
                             workers=1, timeout=3000, must_hold=(ref == "fixed"))
        if r["kind"] not in ("ok", "invariant"):
            raise vlib.Broken("TLC %s on FindIfMC (cases)" % r["kind"])
    by_n = {}
    ncases = 0
    seen_case = set()
    with open(cp) as f:
        for ln in f:
            c = json.loads(ln)
            key = (c["n"], c["pol"], tuple(c["m"]))
            if key in seen_case:
                continue
            seen_case.add(key)
            by_n.setdefault((c["n"], c["pol"]), []).append(c)
            ncases += 1
    rep.note("FindIf cases with match positions exported by TLC: %d" % ncases)
    funits = []
    per_par, per_seq = (6, 2) if quick else (10, 3)
    for n in range(0, maxn + 1):
        for pol, k in (("par", per_par), ("seq", per_seq)):
            cs = by_n.get((n, pol), [])
            pick = cs if (n <= 40 and not quick) or len(cs) <= k else rng.sample(cs, k)
            for c in pick:
                funits.append(dict(comp="find_if", sched=sched_for(len(funits)), n=n, m=c["m"], pol=pol, case=c))
    # the no-match case of every length on the thread schedulers too
    for n in range(0, maxn + 1):
        if quick and n % 4 != ctx.seed % 4:
            continue
        funits.append(dict(comp="find_if", sched=["single", "pool"][n % 2], n=n, m=[], pol="par", case=exp0[ref][(n, "par")]))
    for n, m, at in ((100, [90], 10), (500, [499], 3), (64, [], 0)):     # cancellation from outside (side observation)
        funits.append(dict(comp="find_if", sched="single", n=n, m=m, pol="par", stopAt=at))
    lp_f, obs_f, deaths_f = run_units(ctx, exe, funits, "fi")
    rep.note("find_if: TLC + %d executions in %.1fs" % (len(punits) + len(funits), time.time() - t0))

    # ------------------------------------------------------------------ 3. monitor
    t0 = time.time()
    OFF_P, OFF_F = 1000000, 2000000
    nval, verdicts = validate(ctx, [(lp_b, 0), (lp_p, OFF_P), (lp_f, OFF_F)])
    rep.note("BulkMon: %d executions validated, %d rejected, %.1fs" % (nval, len(verdicts), time.time() - t0))

    # ------------------------------------------------------------------ 4. bulk results
    logs = parse_log(lp_b)
    drift_b = 0
    first_drift = None
    for x, u in enumerate(units):
        if x not in logs:
            continue
        s = summarize(logs[x])
        for e in s["asan"]:
            note_asan(u, e)
        if u["comp"] == "probe":
            pr = (obs_b.get(x) or {}).get("probe") or {}
            if pr and not all(pr.values()):
                rep.oos.append(dict(engine="bulk", event="QueryNotForwarded", property_hint="C12", observed=pr,
                                    what="bulk_schedule's _schedule_receiver (the receiver the scheduler's schedule() operation is connected "
                                         "with) answers none of the downstream receiver's queries: get_stop_token, get_scheduler and a custom "
                                         "query CPO all fall back to their defaults inside the schedule operation"))
            continue
        rep.distinct.add(("bulk", u["shape"], u["n"], u["tok"], u["stopAfter"], u.get("cstop", False)))
        if u.get("scn", -1) >= 0:
            ex = bexp[u["scn"]]
            got = dict(counts=[s["next"].get(j + 1, 0) for j in range(len(ex["counts"]))],
                       terminal=(s["terminal"][0] if len(s["terminal"]) == 1 else s["terminal"]), eff=s["eff"])
            want = dict(counts=ex["counts"], terminal=ex["terminal"], eff=ex["eff"])
            if u["shape"].startswith("IF"):
                got["eff"] = want["eff"] = None
            if got != want:
                drift_b += 1
                if first_drift is None:
                    first_drift = dict(unit={k: u[k] for k in ("shape", "n", "tok", "stopAfter", "sched")}, expected=want, observed=got)
        if x in verdicts:
            rules = verdicts[x]
            violations.append(dict(engine="bulk", component="bulk", event=rules[0], rules=rules, shape=u["shape"], n=u["n"], tok=u["tok"],
                                   stopAfter=u["stopAfter"], sched=u["sched"], cstop=u.get("cstop", False),
                                   what="BulkMon rejects %s n=%d tok=%s stopAfter=%s on %s: %s" % (u["shape"], u["n"], u["tok"], u["stopAfter"], u["sched"], ",".join(rules)),
                                   unit=u, _lines=logs[x]))
    for d in deaths_b:
        u = units[d["x"]] if d["x"] < len(units) else {}
        if d["event"] in ("Hang", "Deadlock") and "no terminal signal" in d.get("stderr_tail", ""):
            violations.append(dict(engine="bulk", component="bulk", event="Hang", shape=u.get("shape"), n=u.get("n"), sched=u.get("sched"),
                                   what="no terminal signal within 30 s: %s n=%s on %s" % (u.get("shape"), u.get("n"), u.get("sched")), unit=u,
                                   detail=d.get("stderr_tail", "")))
        else:
            rep.oos.append(dict(engine="bulk", event=d["event"], where=d.get("where"), frame=d.get("frame"), unit={k: u.get(k) for k in ("shape", "n", "sched")},
                                what="process died in a bulk execution (%s %s)" % (d["event"], d.get("frame", ""))))
    rep.drift += drift_b
    if first_drift:
        rep.note("bulk drift (first): %s" % json.dumps(first_drift))
    rep.note("bulk: %d units (%d TLC scenarios on inline/single/pool/pool2 + large-n + concurrent-stop), rejected %d, drift %d"
             % (len(units), len(scns), sum(1 for x in verdicts if x < OFF_P), drift_b))
    for x0, u in enumerate(units):
        if u.get("shape") == "TTJ" and u.get("stopAfter", -2) >= 0 and x0 in logs:
            rep.sample(dict(kind="recorded-trace", unit={k: u[k] for k in ("shape", "n", "tok", "stopAfter", "sched")},
                            events=[json.loads(l) for l in logs[x0][:40]]))
            break

    # ------------------------------------------------------------------ 5. find_if results
    logs_f = parse_log(lp_f)
    drift_f = 0
    first_drift = None
    nrej = 0
    for us, lg, off, dth in ((punits, logs_p, OFF_P, deaths_p), (funits, logs_f, OFF_F, deaths_f)):
        for x, u in enumerate(us):
            if x not in lg:
                continue
            s = summarize(lg[x])
            for e in s["asan"]:
                if e.get("kind") in ("heap-buffer-overflow",) and str(e.get("where", "")).startswith("find_if.hpp"):
                    violations.append(dict(engine="bulk", component="find_if", event="AsanReport", asan=e["kind"], where=e.get("where"), policy=u["pol"], n=u["n"],
                                           sched=u["sched"], what="find_if(%s) n=%d: %s %s at %s" % (u["pol"], u["n"], e["kind"], e.get("access"), e.get("where")),
                                           unit={k: v for k, v in u.items() if k != "case"}))
                else:
                    note_asan(u, e)
            rep.distinct.add(("find_if", u["pol"], u["n"], tuple(u["m"]), u.get("stopAt", -2)))
            c = u.get("case") or (exp0[ref].get((u["n"], u["pol"])) if u.get("probe") and u["pol"] == "par" else None)
            if c and not (c["oob"] or c["div"]):
                if s["oob"] or s["preds"] != expected_runs(c) or s["result"] != c["result"]:
                    drift_f += 1
                    if first_drift is None:
                        first_drift = dict(unit={k: u[k] for k in ("n", "m", "pol", "sched")}, expected=dict(calls=expected_runs(c), result=c["result"]),
                                           observed=dict(calls=s["preds"][:40], result=s["result"], oob=s["oob"]))
            if "stopAt" in u and s["result"] is not None:
                first = min(u["m"]) if u["m"] else u["n"]
                if s["result"] != first:
                    rep.oos.append(dict(engine="bulk", event="FindIfCancelled", unit={k: u[k] for k in ("n", "m", "stopAt")}, result=s["result"],
                                        what="find_if(par) with a stop request from outside completes with value = end although an element matches "
                                             "(the source says: 'temporarily always recovering from cancellation'); C17 does not quantify over cancellation of find_if"))
            if x + off in verdicts:
                nrej += 1
                rules = verdicts[x + off]
                ev = "PredOutOfRange" if "PredOutOfRange" in rules else rules[0]
                other = ",".join(r_ for r_ in rules if r_ not in ("PredOutOfRange", "WrongResult"))
                violations.append(dict(engine="bulk", component="find_if", event=ev, rules=rules, other_rules=other, policy=u["pol"], n=u["n"], m=u["m"], sched=u["sched"],
                                       oob_offset=s.get("oob_off"), result=s["result"],
                                       what="find_if(%s) on a range of %d elements (matches at %s, %s scheduler): %s%s; returned position %s, first match %s"
                                            % (u["pol"], u["n"], u["m"], u["sched"], ",".join(rules),
                                               (" - predicate called on offset %s" % s.get("oob_off")) if s.get("oob_off") is not None else "",
                                               s["result"], min(u["m"]) if u["m"] else "none (end=%d)" % u["n"]),
                                       unit={k: v for k, v in u.items() if k != "case"}, _lines=lg[x]))
        for d in dth:
            u = us[d["x"]] if d["x"] < len(us) else {}
            if d["event"] in ("Hang", "Deadlock") and "no terminal signal" in d.get("stderr_tail", ""):
                violations.append(dict(engine="bulk", component="find_if", event="Hang", policy=u.get("pol"), n=u.get("n"), sched=u.get("sched"),
                                       what="find_if(%s) n=%s: no terminal signal within 30 s" % (u.get("pol"), u.get("n")), unit={k: v for k, v in u.items() if k != "case"}))
            else:
                rep.oos.append(dict(engine="bulk", event=d["event"], where=d.get("where"), frame=d.get("frame"), asan=d.get("asan"),
                                    unit={k: u.get(k) for k in ("pol", "n", "m", "sched")}, what="process died in a find_if execution (%s %s)" % (d["event"], d.get("frame", ""))))
    rep.drift += drift_f
    if first_drift:
        rep.note("find_if drift (first): %s" % json.dumps(first_drift))
    rep.note("find_if: %d units (every length 0..%d without match + TLC cases with match positions, on inline/single/pool/pool2), rejected %d, drift %d vs \"%s\""
             % (len(punits) + len(funits), maxn, nrej, drift_f, ref))
    for x, u in enumerate(funits):
        if u.get("case") and x in logs_f and u["pol"] == "par" and u["m"] and u["n"] > 100:
            rep.sample(dict(kind="tlc-case-find_if", input=dict(n=u["n"], matches=u["m"], policy=u["pol"]),
                            expect=dict(calls=u["case"]["calls"][:12], result=u["case"]["result"]), recorded=[json.loads(l) for l in logs_f[x][:12]]))
            break

    # ------------------------------------------------------------------ report
    for rec in oos_seen.values():
        rep.oos.append(rec)
    shown = {}
    for v in violations:
        key = (v.get("component"), v.get("event"))
        shown[key] = shown.get(key, 0) + 1
        lines = v.pop("_lines", None)
        if lines is not None and shown[key] <= 12:
            v["events"] = [json.loads(l) for l in lines[:60]]
        rep.violation(v)
    rep.exhaustive = True
    rep.rule("executions = one call of the real bulk pipeline / find_if per TLC case on inline_scheduler, single_thread_context or static_thread_pool "
             "(plus large-n and concurrent-stop executions validated by the monitor only); distinct_nontrivial = distinct (component, shape or policy, "
             "n, stop moment or match positions)")
    rep.note("bulk engine total %.1fs" % (time.time() - t00))
