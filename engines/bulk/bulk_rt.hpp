// Harness pieces of the `bulk` engine (C17): observation layers with overlap detector, many-receivers,
// transform functions, policy probe sender, find_if predicate with range guard and run-length event coalescing.
#pragma once
#include "vrt.hpp"

#include <unifex/bulk_join.hpp>
#include <unifex/bulk_schedule.hpp>
#include <unifex/bulk_transform.hpp>
#include <unifex/execution_policy.hpp>
#include <unifex/find_if.hpp>
#include <unifex/get_execution_policy.hpp>
#include <unifex/inline_scheduler.hpp>
#include <unifex/inplace_stop_token.hpp>
#include <unifex/just.hpp>
#include <unifex/scheduler_concepts.hpp>
#include <unifex/single_thread_context.hpp>
#include <unifex/static_thread_pool.hpp>
#include <unifex/sync_wait.hpp>

#include <semaphore.h>

namespace execution {     // indexed_for dispatches on these (user-provided, as in test/indexed_for_test.cpp)
class sequenced_policy {};
class parallel_policy {};
inline constexpr sequenced_policy seq{};
inline constexpr parallel_policy par{};
}  // namespace execution

namespace bk {
using namespace unifex;

constexpr int MaxLayer = 4;
inline std::atomic<int> g_tidCounter{1};
inline thread_local int tl_tid = 0;
inline thread_local int tl_open[MaxLayer + 1] = {};
inline int tid() { if (!tl_tid) tl_tid = g_tidCounter.fetch_add(1); return tl_tid; }

template <class P> constexpr bool pol_par = is_one_of_v<P, parallel_policy, parallel_unsequenced_policy>;
template <class P> constexpr bool pol_unseq = is_one_of_v<P, unsequenced_policy, parallel_unsequenced_policy>;
inline const char* tf(bool b) { return b ? "true" : "false"; }

// ---------------------------------------------------------------- one execution of a bulk pipeline
struct World {
  long n = 0;
  long stopAfter = -2;          // -2 never, -1 before start, k: inside the layer-1 call of index k
  bool concurrentStop = false;  // stop requested by the main thread at some moment after start
  inplace_stop_source src;
  bool live = false;            // the receiver's token is src's token (else a token without source)
  std::atomic<int> open[MaxLayer + 1];
  std::atomic<int> openAll{0};
  std::atomic<long> calls{0};
  std::atomic<int> terminals{0};
  sem_t done;
  World() { for (auto& o : open) o.store(0); sem_init(&done, 0, 0); }
  ~World() { sem_destroy(&done); }
  inplace_stop_token token() { return live ? src.get_token() : inplace_stop_token{}; }

  void on_next(int layer, long v) noexcept {
    int t = tid();
    int os = tl_open[layer];
    int oo = open[layer].load() - os;
    open[layer].fetch_add(1); openAll.fetch_add(1); ++tl_open[layer];
    calls.fetch_add(1);
    vrt::ev("{\"e\":\"Next\",\"L\":%d,\"v\":%ld,\"t\":%d,\"oo\":%d,\"os\":%d}", layer, v, t, oo < 0 ? 0 : oo, os);
    if (layer == 1 && live && stopAfter == v) {
      vrt::ev("{\"e\":\"StopReq\"}");
      src.request_stop();
    }
    --tl_open[layer]; openAll.fetch_sub(1); open[layer].fetch_sub(1);
  }
  void on_terminal(const char* ch) noexcept {
    vrt::ev("{\"e\":\"Terminal\",\"ch\":\"%s\",\"t\":%d,\"open\":%d}", ch, tid(), openAll.load());
    terminals.fetch_add(1);
    sem_post(&done);
  }
  bool wait_done(int secs) {
    timespec ts; clock_gettime(CLOCK_REALTIME, &ts); ts.tv_sec += secs;
    while (true) {
      int r = sem_timedwait(&done, &ts);
      if (r == 0) return true;
      if (errno == EINTR) continue;
      return false;
    }
  }
};

template <bool Stoppable> struct StopBase { World* w; };
template <> struct StopBase<true> {
  World* w;
  friend inplace_stop_token tag_invoke(tag_t<get_stop_token>, const StopBase& r) noexcept { return r.w->token(); }
};

// many-receiver with execution policy P; Stoppable selects whether it customises get_stop_token at all
template <class P, bool Stoppable>
struct ManyRecv : StopBase<Stoppable> {
  int layer;
  ManyRecv(World* w, int l) : StopBase<Stoppable>{w}, layer(l) {}
  void set_next(std::size_t v) & noexcept { this->w->on_next(layer, (long)v); }
  void set_value() && noexcept { this->w->on_terminal("value"); }
  template <class E> void set_error(E&&) && noexcept { this->w->on_terminal("error"); }
  void set_done() && noexcept { this->w->on_terminal("done"); }
  friend P tag_invoke(tag_t<get_execution_policy>, const ManyRecv&) noexcept { return {}; }
};
// plain receiver behind bulk_join / indexed_for
template <bool Stoppable>
struct PlainRecv : StopBase<Stoppable> {
  explicit PlainRecv(World* w) : StopBase<Stoppable>{w} {}
  template <class... V> void set_value(V&&...) && noexcept { this->w->on_terminal("value"); }
  template <class E> void set_error(E&&) && noexcept { this->w->on_terminal("error"); }
  void set_done() && noexcept { this->w->on_terminal("done"); }
};

struct RevFn { World* w; int layer; std::size_t operator()(std::size_t i) const noexcept { w->on_next(layer, (long)i); return (std::size_t)(w->n - 1 - (long)i); } };
struct IdFn { World* w; int layer; std::size_t operator()(std::size_t i) const noexcept { w->on_next(layer, (long)i); return i; } };
struct VoidFn { World* w; int layer; void operator()(std::size_t i) const noexcept { w->on_next(layer, (long)i); } };

// wraps a bulk sender; logs the execution policy the connected receiver chain offers to the source
template <class S>
struct ProbeSender {
  S s;
  template <template <class...> class V, template <class...> class T> using value_types = sender_value_types_t<S, V, T>;
  template <template <class...> class V, template <class...> class T> using next_types = typename sender_traits<S>::template next_types<V, T>;
  template <template <class...> class V> using error_types = sender_error_types_t<S, V>;
  static constexpr bool sends_done = sender_traits<S>::sends_done;
  static constexpr blocking_kind blocking = sender_traits<S>::blocking;
  static constexpr bool is_always_scheduler_affine = sender_traits<S>::is_always_scheduler_affine;
  template <class R>
  friend auto tag_invoke(tag_t<unifex::connect>, ProbeSender&& p, R&& r) {
    using pol = decltype(get_execution_policy(r));
    vrt::ev("{\"e\":\"Policy\",\"who\":\"eff\",\"L\":0,\"par\":%s,\"unseq\":%s}", tf(pol_par<pol>), tf(pol_unseq<pol>));
    return unifex::connect(std::move(p.s), (R&&)r);
  }
};
template <class S> ProbeSender<std::decay_t<S>> probe(S&& s) { return ProbeSender<std::decay_t<S>>{(S&&)s}; }

template <class P> void log_part(int layer) {
  vrt::ev("{\"e\":\"Policy\",\"who\":\"part\",\"L\":%d,\"par\":%s,\"unseq\":%s}", layer, tf(pol_par<P>), tf(pol_unseq<P>));
}

// ---------------------------------------------------------------- find_if
struct Elem { int match; int pad; };

struct FWorld {
  long n = 0;
  Elem* base = nullptr;
  long stopAt = -2;             // external stop requested inside the predicate call on this offset (-2 never)
  inplace_stop_source src;
  bool live = false;
  long calls = 0, cap = 0;
  bool aborted = false;
  long sawOob = 0;
  std::atomic_flag lk = ATOMIC_FLAG_INIT;
  // current run of consecutive calls
  bool runOpen = false; long runLo = 0, runHi = 0; int runT = 0;
  long result = -3;
  std::atomic<int> terminals{0};
  sem_t done;
  FWorld() { sem_init(&done, 0, 0); }
  ~FWorld() { sem_destroy(&done); }
  inplace_stop_token token() { return live ? src.get_token() : inplace_stop_token{}; }
  void flush() noexcept {
    if (runOpen) { vrt::ev("{\"e\":\"Pred\",\"lo\":%ld,\"hi\":%ld,\"t\":%d}", runLo, runHi, runT); runOpen = false; }
  }
  static long clamp(long v) { return v > 1000000000L ? 1000000000L : (v < -1000000000L ? -1000000000L : v); }
  bool on_pred(const Elem* p) noexcept {
    while (lk.test_and_set(std::memory_order_acquire)) {}
    bool r;
    long off = (long)(((std::intptr_t)p - (std::intptr_t)base) / (std::intptr_t)sizeof(Elem));
    ++calls;
    if (aborted) {
      r = true;
    } else if (off < 0 || off >= n) {
      // guard: the predicate was handed something that is not an element of the range.  Do not read it; end the
      // execution by answering "found" from now on (the unchanged chunk loop would otherwise never terminate).
      flush();
      vrt::ev("{\"e\":\"PredOutOfRange\",\"off\":%ld}", clamp(off));
      aborted = true; ++sawOob; r = true;
    } else if (calls > cap) {
      flush();
      vrt::ev("{\"e\":\"PredCap\"}");
      aborted = true; r = true;
    } else {
      int t = tid();
      r = p->match != 0;                       // a real read of the element (ASan-visible)
      if (runOpen && runT == t && off == runHi + 1) runHi = off;
      else { flush(); runOpen = true; runLo = runHi = off; runT = t; }
      if (r) flush();
      if (live && stopAt == off) { flush(); vrt::ev("{\"e\":\"StopReq\"}"); lk.clear(std::memory_order_release); src.request_stop(); return r; }
    }
    lk.clear(std::memory_order_release);
    return r;
  }
  void on_result(const Elem* it) noexcept {
    while (lk.test_and_set(std::memory_order_acquire)) {}
    flush();
    result = clamp((long)(((std::intptr_t)it - (std::intptr_t)base) / (std::intptr_t)sizeof(Elem)));
    vrt::ev("{\"e\":\"Result\",\"pos\":%ld}", result);
    lk.clear(std::memory_order_release);
  }
  void on_terminal(const char* ch) noexcept {
    while (lk.test_and_set(std::memory_order_acquire)) {}
    flush();
    lk.clear(std::memory_order_release);
    vrt::ev("{\"e\":\"Terminal\",\"ch\":\"%s\",\"t\":%d,\"open\":0}", ch, tid());
    terminals.fetch_add(1);
    sem_post(&done);
  }
  bool wait_done(int secs) {
    timespec ts; clock_gettime(CLOCK_REALTIME, &ts); ts.tv_sec += secs;
    while (true) {
      int r = sem_timedwait(&done, &ts);
      if (r == 0) return true;
      if (errno == EINTR) continue;
      return false;
    }
  }
};

struct PredFn { FWorld* w; bool operator()(const Elem& e) const noexcept { return w->on_pred(&e); } };

template <class Sched>
struct FRecv {
  FWorld* w; Sched sched;
  void set_value(Elem* it) && noexcept { w->on_result(it); w->on_terminal("value"); }
  template <class E> void set_error(E&&) && noexcept { w->on_terminal("error"); }
  void set_done() && noexcept { w->on_terminal("done"); }
  friend Sched tag_invoke(tag_t<get_scheduler>, const FRecv& r) noexcept { return r.sched; }
  friend inplace_stop_token tag_invoke(tag_t<get_stop_token>, const FRecv& r) noexcept { return r.w->token(); }
};

}  // namespace bk
