// C17 driver: one unit = one call of the real algorithm (bulk pipeline / find_if / indexed_for) on one scheduler,
// with the inputs of one TLC-generated case; logs Next/Terminal/Pred/Result events for BulkMon and prints the
// per-unit observation summary used for conformance (drift) with the TLC expectation.
//   driver --units FILE --from K --to N --log FILE
#include "drv_common.hpp"

#include <fstream>
#include <iostream>


static long g_curx = -1;
static std::atomic<long> g_beat{0};      // bumped at every unit start; the watchdog ends a unit that takes more than 90 s
static void watchdog() {
  long last = -1; int same = 0;
  for (;;) {
    sleep(3);
    long b = g_beat.load();
    if (b == last) { if (++same >= 30) hang("unit did not finish within 90 s"); }
    else { last = b; same = 0; }
  }
}
#ifdef VRT_ASAN
extern "C" void __asan_set_error_report_callback(void (*)(const char*));
// the driver is built with -fsanitize-recover=address and run with halt_on_error=0: a report becomes an event of
// the current unit (kind, access, first library frame) and the run continues (ASan reports each faulting pc once)
static void on_asan(const char* rep) {
  char kind[64] = "?", where[128] = "", acc[8] = "";
  if (const char* k = std::strstr(rep, "AddressSanitizer: ")) std::sscanf(k + 18, "%63[a-z-]", kind);
  if (std::strstr(rep, "READ of size")) std::strcpy(acc, "READ"); else if (std::strstr(rep, "WRITE of size")) std::strcpy(acc, "WRITE");
  if (const char* w = std::strstr(rep, "include/unifex/")) std::sscanf(w + 15, "%127[^ \n)]", where);
  vrt::ev("{\"e\":\"Asan\",\"x\":%ld,\"kind\":\"%s\",\"access\":\"%s\",\"where\":\"%s\"}", g_curx, kind, acc, where);
  vrt::log_flush();
  static std::atomic<int> reports{0};
  if (reports.fetch_add(1) >= 60) {     // nothing useful can be observed any more in this process
    std::fprintf(stderr, "bulk driver: asan flood\n");
    _exit(78);
  }
}
#endif
// ---------------------------------------------------------------- C12 side probe (out of scope for C17)
// a scheduler whose schedule-operation looks at what the receiver it was connected with answers to queries
inline constexpr struct probe_query_t {
  template <class R>
  auto operator()(const R& r) const noexcept -> tag_invoke_result_t<probe_query_t, const R&> { return tag_invoke(*this, r); }
} probe_query{};
struct ProbeObs { bool stoppable = false, custom = false, sched = false; } g_probe;
struct ProbeScheduler {
  struct sender {
    template <template <class...> class V, template <class...> class T> using value_types = V<T<>>;
    template <template <class...> class V> using error_types = V<>;
    static constexpr bool sends_done = true;
    static constexpr blocking_kind blocking = blocking_kind::always_inline;
    static constexpr bool is_always_scheduler_affine = true;
    template <class R> struct op {
      R r;
      void start() noexcept {
        g_probe.stoppable = !is_stop_never_possible_v<stop_token_type_t<R>> && get_stop_token(r).stop_possible();
        g_probe.custom = is_tag_invocable_v<probe_query_t, const R&>;
        g_probe.sched = is_tag_invocable_v<tag_t<get_scheduler>, const R&>;
        unifex::set_value(std::move(r));
      }
    };
    template <class R> friend op<std::decay_t<R>> tag_invoke(tag_t<unifex::connect>, sender, R&& r) { return {(R&&)r}; }
  };
  friend sender tag_invoke(tag_t<schedule>, const ProbeScheduler&) noexcept { return {}; }
  friend bool operator==(ProbeScheduler, ProbeScheduler) noexcept { return true; }
  friend bool operator!=(ProbeScheduler, ProbeScheduler) noexcept { return false; }
};
struct ProbeRecv {
  World* w;
  void set_next(std::size_t) & noexcept {}
  void set_value() && noexcept { w->on_terminal("value"); }
  template <class E> void set_error(E&&) && noexcept { w->on_terminal("error"); }
  void set_done() && noexcept { w->on_terminal("done"); }
  friend inplace_stop_token tag_invoke(tag_t<get_stop_token>, const ProbeRecv& r) noexcept { return r.w->src.get_token(); }
  friend int tag_invoke(probe_query_t, const ProbeRecv&) noexcept { return 42; }
  friend inline_scheduler tag_invoke(tag_t<get_scheduler>, const ProbeRecv&) noexcept { return {}; }
};
static json run_probe() {
  World w; w.n = 3; w.live = true;
  vrt::ev("{\"e\":\"Cfg\",\"kind\":\"probe\",\"n\":3,\"layers\":0,\"m\":[]}");
  auto op = unifex::connect(bulk_schedule(ProbeScheduler{}, (size_t)3), ProbeRecv{&w});
  unifex::start(op);
  vrt::ev("{\"e\":\"End\"}");
  return {{"terminals", w.terminals.load()}, {"probe", {{"stop_token_reaches_schedule_op", g_probe.stoppable},
          {"custom_query_reaches_schedule_op", g_probe.custom}, {"get_scheduler_reaches_schedule_op", g_probe.sched}}}};
}

int main(int argc, char** argv) {
  std::string unitsPath, logPath, obsPath;
  long from = 0, to = -1;
  for (int i = 1; i < argc; ++i) {
    std::string a = argv[i];
    if (a == "--units") unitsPath = argv[++i];
    else if (a == "--log") logPath = argv[++i];
    else if (a == "--obs") obsPath = argv[++i];
    else if (a == "--from") from = atol(argv[++i]);
    else if (a == "--to") to = atol(argv[++i]);
  }
  vrt::install_handlers();
#ifdef VRT_ASAN
  __asan_set_error_report_callback(on_asan);
#endif
  if (!logPath.empty()) vrt::log_open(logPath.c_str(), true);
  std::ifstream f(unitsPath);
  json units = json::parse(f);
  if (to < 0 || to > (long)units.size()) to = (long)units.size();
  FILE* obs = obsPath.empty() ? nullptr : std::fopen(obsPath.c_str(), "a");
  long execs = 0;
  std::thread(watchdog).detach();
  for (long x = from; x < to; ++x) {
    const json& u = units[x];
    g_curx = x;
    g_beat.fetch_add(1);
    vrt::ev("{\"e\":\"Reset\",\"x\":%ld}", x);
    std::string comp = u["comp"].get<std::string>();
    json o = comp == "bulk" ? run_bulk(u) : comp == "find_if" ? run_find_if(u) : run_probe();
    o["x"] = x;
    if (obs) { std::fprintf(obs, "%s\n", o.dump().c_str()); std::fflush(obs); }
    ++execs;
  }
  if (obs) std::fclose(obs);
  vrt::log_flush();
  std::printf("{\"execs\":%ld}\n", execs);
  return 0;
}
