#!/usr/bin/env python3
"""Regenerates MANIFEST.json from tools/props.json + tools/manifest_meta.json (single source of truth)."""
import json, os, subprocess
V = os.path.dirname(os.path.dirname(os.path.abspath(__file__)))
props = json.load(open(os.path.join(V, "tools", "props.json")))
meta = json.load(open(os.path.join(V, "tools", "manifest_meta.json")))
allp = [json.loads(l)["id"] for l in open(os.path.join(V, "properties.jsonl"))]
hooks = subprocess.run(["git", "-C", "/repo", "log", "--format=%H %s"], capture_output=True, text=True).stdout.splitlines()
hook_commits = [l.split()[0] for l in hooks if " verif:" in " " + l.split(" ", 1)[1] or l.split(" ", 1)[1].startswith("verif:")]
checks = []
for pid in allp:
    if pid not in props or pid not in meta["checks"]:
        continue
    m = meta["checks"][pid]
    checks.append(dict(property_id=pid, quick_cmd="./check %s --tier quick" % pid,
                       thorough_cmd="./check %s --tier thorough" % pid,
                       evidence_file="evidence/%s.json" % pid,
                       replay_cmd_template="./check %s --replay {path}" % pid,
                       engine=" + ".join(props[pid]["engines"]),
                       level_claimed=dict(category=props[pid].get("level", "model_checking"), text=m["text"], design_ref=m.get("design_ref", "DESIGN.md section 5")),
                       level_note=m["note"], technique=m["technique"]))
na = [dict(property_id=p, reason=meta["not_applicable"].get(p, "check under construction in this round; see DESIGN.md section 5")) for p in allp if p not in props or p not in meta["checks"]]
man = dict(version=1, setup_cmd="python3 tools/setup.py",
           hooks=dict(guard="UNIFEX_VERIF", enable="harness sources and the library .cpp files are compiled from /repo's working tree with -DUNIFEX_VERIF=1 (tools/vlib.py build())",
                      baseline_off_cmd="cmake --build /repo/_build -- -k 0 ; ctest --test-dir /repo/_build -j8 --timeout 900",
                      source_commits=hook_commits, add_only=True),
           engines=meta["engines"], checks=checks, notes=meta["notes"], not_applicable=na)
json.dump(man, open(os.path.join(V, "MANIFEST.json"), "w"), indent=1)
print("checks", len(checks), "not_applicable", len(na), "hook commits", len(hook_commits))
