#!/usr/bin/env python3
"""setup_cmd: verify that the offline toolchain is present; nothing is downloaded or prebuilt."""
import os, shutil, subprocess, sys
ok = True
for t in ["java", "g++", "python3"]:
    if not shutil.which(t):
        print("missing tool", t); ok = False
if not os.path.exists("/opt/veriftools/tla/tla2tools.jar"):
    print("missing tla2tools.jar"); ok = False
os.makedirs(os.path.join(os.path.dirname(os.path.dirname(os.path.abspath(__file__))), "_build"), exist_ok=True)
sys.exit(0 if ok else 1)
