#!/bin/bash
# usage: eval_seed.sh <seed dir name under /verif/seeded> <property> [engine]
# applies the seeded change to a scratch worktree of /repo (never to /repo itself), runs the check against it and
# records exit code and the first violation lines in seeded/<id>/result.txt
set -u
id=$1; prop=$2; eng=${3:-}
wt=/tmp/wt_eval_$id
git -C /repo worktree remove --force $wt 2>/dev/null
git -C /repo worktree add -q $wt HEAD || exit 2
cd $wt
p=/verif/seeded/$id/patch.diff
[ -f /verif/seeded/$id/patch_on_hooked_tree.diff ] && p=/verif/seeded/$id/patch_on_hooked_tree.diff
if ! git apply $p 2>/dev/null; then
  if ! git apply --3way $p >/dev/null 2>&1 || grep -rl '^<<<<<<< ' include source >/dev/null 2>&1; then
    echo "APPLY-FAILED $id" > /verif/seeded/$id/result.txt; git -C /repo worktree remove --force $wt; exit 2
  fi
  git reset -q
fi
cd /verif
t0=$(date +%s)
VERIF_REPO=$wt timeout 3000 ./check $prop --tier quick ${eng:+--engine $eng} > /var/tmp/seed_eval_$id.log 2>&1
rc=$?
t1=$(date +%s)
{ echo "seed=$id property=$prop engine=${eng:-all} exit=$rc seconds=$((t1-t0)) repo_head=$(git -C /repo rev-parse --short HEAD)"; grep -E "^VIOLATION|^KNOWN-FINDING|^  |BROKEN" /var/tmp/seed_eval_$id.log | cut -c1-400 | head -8; } > /verif/seeded/$id/result.txt
git -C /repo worktree remove --force $wt
# the mutant run rewrote evidence/<prop>.json: restore the committed one
git -C /verif checkout -q -- evidence/$prop.json 2>/dev/null
exit 0
